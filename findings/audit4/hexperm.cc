// hex add_cell(halffaces,true): every permutation (and the inside-out variant) of a valid hex is either rejected (mesh unchanged)
// or stored in the xf,xb,yf,yb,zf,zb convention. Second hex glued to the first to have shared faces.
#include <OpenVolumeMesh/Mesh/HexahedralMesh.hh>
#include <cstdio>
#include <algorithm>
#include <set>
using namespace OpenVolumeMesh; using namespace OpenVolumeMesh::Geometry;
using M=GeometricHexahedralMeshV3d;
static int fails=0;
static std::set<int> hfv(const M&m,HFH h){ std::set<int> s; for(auto v:m.get_halfface_vertices(h)) s.insert(v.idx()); return s; }
static bool convention(const M&m,CH c){
  auto hfs=m.cell(c).halffaces(); if(hfs.size()!=6) return false;
  for(int k=0;k<3;++k){ auto A=hfv(m,hfs[2*k]),B=hfv(m,hfs[2*k+1]); for(int x:A) if(B.count(x)) return false; }
  // walking around first halfface's halfedges meets 2,4,3,5
  const int order[4]={2,4,3,5}; auto hes=m.halfface(hfs[0]).halfedges();
  for(int start=0;start<4;++start){ bool ok=true; for(int i=0;i<4;++i){ HEH opp=m.opposite_halfedge_handle(hes[i]); auto nb=m.halfface(hfs[order[(start+i)%4]]).halfedges(); if(!std::count(nb.begin(),nb.end(),opp)) ok=false; } if(ok) return true; }
  return false;
}
int main(){
  M base; std::vector<VH> v; for(int i=0;i<12;++i) v.push_back(base.add_vertex(Vec3d(i%2,(i/2)%2,i/4)));
  // faces of cube on vertices 0..7 (z=0 layer 0..3, z=1 layer 4..7), outward or whatever orientation: build via add_cell then delete the cell
  std::vector<VH> o={v[0],v[1],v[3],v[2],v[4],v[6],v[7],v[5]};
  CH c0=base.add_cell(o,true); if(!c0.is_valid()){std::printf("setup failed\n");return 2;}
  std::vector<HFH> hf=base.cell(c0).halffaces();
  if(!convention(base,c0)){ std::printf("VIOLATION: vertex-built hex not in convention\n"); ++fails; }
  base.delete_cell(c0);
  long acc=0,rej=0;
  for(int flip=0;flip<2;++flip){
    std::vector<HFH> list=hf; if(flip) for(auto&h:list) h=base.opposite_halfface_handle(h);
    std::vector<int> p={0,1,2,3,4,5};
    do{
      M m(base); std::vector<HFH> arg; for(int i:p) arg.push_back(list[i]);
      size_t nc=m.n_cells(),nf=m.n_faces(),ne=m.n_edges();
      CH c=m.add_cell(arg,true);
      if(!c.is_valid()){ ++rej; if(m.n_cells()!=nc||m.n_faces()!=nf||m.n_edges()!=ne){std::printf("VIOLATION: rejected add_cell changed mesh\n");++fails;} 
        // a list that already is in convention must be accepted
        continue; }
      ++acc;
      if(m.n_cells()!=nc+1){std::printf("VIOLATION: accepted but count\n");++fails;}
      if(!convention(m,c)){ std::printf("VIOLATION: accepted hex (flip=%d perm %d%d%d%d%d%d) not stored in convention\n",flip,p[0],p[1],p[2],p[3],p[4],p[5]); ++fails; if(fails>10) return 1; }
      auto st=m.cell(c).halffaces(); auto sa=st; auto sb=arg; std::sort(sa.begin(),sa.end()); std::sort(sb.begin(),sb.end()); if(sa!=sb){std::printf("VIOLATION: stored halffaces are not the given ones\n");++fails;}
      // hex vertex iter: 8 distinct
      std::set<int> hv; for(auto it=m.hv_iter(c);it.valid();++it) hv.insert((*it).idx()); if(hv.size()!=8){std::printf("VIOLATION: hv_iter %zu distinct vertices\n",hv.size());++fails;}
    }while(std::next_permutation(p.begin(),p.end()));
  }
  // identity order (as stored by the vertex-based add_cell) must be accepted
  { M m(base); if(!m.add_cell(hf,true).is_valid()){ std::printf("VIOLATION: canonical list rejected\n"); ++fails; } }
  std::printf("accepted %ld rejected %ld failures %d\n",acc,rej,fails); return fails?1:0;
}
