// compile + semantics for Vec{2,3,4}{i,ui,f,d}: the members touched by the fixes
#include <OpenVolumeMesh/Geometry/VectorT.hh>
#include <cstdio>
#include <cmath>
#include <cstdlib>
using namespace OpenVolumeMesh::Geometry;
static int fails=0;
#define CHECK(c) do{ if(!(c)){ std::printf("VIOLATION %s:%d %s\n",__FILE__,__LINE__,#c); ++fails;} }while(0)
template<class S,int D> void run(){
  using V=VectorT<S,D>;
  V v; for(int i=0;i<D;++i) v[i]=S(i+2);
  V w=v;
  // scalar alias
  w=v; w*=w[0]; for(int i=0;i<D;++i) CHECK(w[i]==S(v[i]*v[0]));
  w=v; w/=w[0]; for(int i=0;i<D;++i) CHECK(w[i]==S(v[i]/v[0]));
  // vector alias
  w=v; w+=w; for(int i=0;i<D;++i) CHECK(w[i]==S(v[i]+v[i]));
  w=v; w-=w; for(int i=0;i<D;++i) CHECK(w[i]==S(0));
  w=v; w*=w; for(int i=0;i<D;++i) CHECK(w[i]==S(v[i]*v[i]));
  w=v; w/=w; for(int i=0;i<D;++i) CHECK(w[i]==S(1));
  w=v; w.minimize(w); CHECK(w==v);
  w=v; w.maximize(w); CHECK(w==v);
  w=v; CHECK(!w.minimized(w)); CHECK(w==v);
  w=v; CHECK(!w.maximized(w)); CHECK(w==v);
  w=v; w.vectorize(w[D-1]); for(int i=0;i<D;++i) CHECK(w[i]==v[D-1]);
  // reductions
  S sum=0, sumabs=0; for(int i=0;i<D;++i){sum+=v[i]; sumabs+=v[i];}
  CHECK(v.l1_norm()==sumabs);
  CHECK(v.mean()==S(sum/D));
  CHECK(v.mean_abs()==S(sumabs/D));
  CHECK(v.max_abs()==v[D-1]);
  CHECK(v.min_abs()==v[0]);
  CHECK(v.l8_norm()==v[D-1]);
  CHECK(v.max()==v[D-1]); CHECK(v.min()==v[0]);
  V a=v.apply([](S x){return S(x+1);}); for(int i=0;i<D;++i) CHECK(a[i]==S(v[i]+1));
  // binary scalar ops, several scalar operand types
  V b=v*2; V c=v/2; V d=2*v; (void)b;(void)c;(void)d;
  V e=v*S(2); V f=v/S(2); (void)e;(void)f;
  V g=v*2.0; (void)g;
  // norms
  auto n=v.norm(); auto sq=v.sqrnorm(); CHECK(std::fabs(double(n)*double(n)-double(sq))<1e-3);
  auto len=v.length(); (void)len;
  CHECK((v|v)==sq);
  CHECK(!(v<v)); CHECK(v==v); CHECK(!(v!=v));
}
template<class S,int D> void run_signed(){
  using V=VectorT<S,D>;
  V v; for(int i=0;i<D;++i) v[i]=S((i%2)? (i+2): -(i+2));
  S sum=0,sumabs=0; for(int i=0;i<D;++i){sum+=v[i]; sumabs+=S(std::abs(v[i]));}
  CHECK(v.l1_norm()==sumabs);
  CHECK(v.mean()==S(sum/D));
  CHECK(v.mean_abs()==S(sumabs/D));
  CHECK(v.max_abs()==S(D+1));
  CHECK(v.min_abs()==S(2));
  V n=-v; for(int i=0;i<D;++i) CHECK(n[i]==S(-v[i]));
}
int main(){
  run<int,2>();run<int,3>();run<int,4>();
  run<unsigned,2>();run<unsigned,3>();run<unsigned,4>();
  run<float,2>();run<float,3>();run<float,4>();
  run<double,2>();run<double,3>();run<double,4>();
  run<short,3>(); run<unsigned char,3>(); run<unsigned short,3>(); run<long,3>(); run<unsigned long,3>(); run<signed char,3>();
  run_signed<int,2>();run_signed<int,3>();run_signed<int,4>();
  run_signed<float,3>();run_signed<double,4>();run_signed<short,3>();run_signed<long,3>();
  if(fails){std::printf("%d failures\n",fails);return 1;} std::puts("ok"); return 0;
}
