#include <OpenVolumeMesh/Mesh/PolyhedralMesh.hh>
#include <OpenVolumeMesh/Mesh/TetrahedralMesh.hh>
#include <OpenVolumeMesh/Mesh/HexahedralMesh.hh>
#include <cstdio>
#include <cmath>
#include <limits>
using namespace OpenVolumeMesh;
using namespace OpenVolumeMesh::Geometry;
static int fails=0;
#define CHECK(c) do{ if(!(c)){ std::printf("VIOLATION %s:%d %s\n",__FILE__,__LINE__,#c); ++fails;} }while(0)
template<class V> void edge_tests(){
  GeometryKernel<V,TopologyKernel> m;
  using S=typename V::value_type;
  V a(S(0)), b(S(0)); a[0]=1;a[1]=1; b[0]=4; b[1]=5;
  auto va=m.add_vertex(a), vb=m.add_vertex(b);
  auto e=m.add_edge(va,vb);
  double L=m.length(e); CHECK(std::fabs(L-5.0)<1e-6);
  double L2=m.length(m.halfedge_handle(e,1)); CHECK(std::fabs(L2-5.0)<1e-6);
  V bc=m.barycenter(e);
  CHECK(bc[0]==S((a[0]+b[0])/2)); CHECK(bc[1]==S((a[1]+b[1])/2));
}
int main(){
  edge_tests<Vec3i>(); edge_tests<Vec3ui>(); edge_tests<Vec3f>(); edge_tests<Vec3d>();
  edge_tests<Vec2i>(); edge_tests<Vec2d>(); edge_tests<Vec4d>(); edge_tests<Vec4f>(); edge_tests<Vec2ui>();
  // large double end points: barycenter must not overflow (formula 0.5a+0.5b is finite)
  {
    GeometryKernel<Vec3d,TopologyKernel> m;
    double big=std::numeric_limits<double>::max();
    auto va=m.add_vertex(Vec3d(big,0,0)), vb=m.add_vertex(Vec3d(big,0,0));
    auto e=m.add_edge(va,vb);
    Vec3d bc=m.barycenter(e);
    if(!(bc[0]==big)) {std::printf("NOTE barycenter(edge) overflow: %g expected %g\n",bc[0],big);}
  }
  // int overflow
  {
    GeometryKernel<Vec3i,TopologyKernel> m;
    int big=2000000000;
    auto va=m.add_vertex(Vec3i(big,0,0)), vb=m.add_vertex(Vec3i(big,0,0));
    auto e=m.add_edge(va,vb);
    Vec3i bc=m.barycenter(e);
    if(!(bc[0]==big)) {std::printf("NOTE barycenter(edge) int overflow: %d expected %d\n",bc[0],big);}
  }
  // unsigned: end points (3,0,0) and (0,0,0) -> 1 ; old code 0.5*3 + 0.5*0 = 1
  // normals opposite, all faces of a tet + nonplanar quad, float and double
  {
    GeometryKernel<Vec3d,TopologyKernel> m;
    auto v0=m.add_vertex(Vec3d(2,0,0)),v1=m.add_vertex(Vec3d(0.5,0.5,1)),v2=m.add_vertex(Vec3d(0,2,0)),v3=m.add_vertex(Vec3d(0,0,0.3));
    auto f=m.add_face({v0,v1,v2,v3});
    Vec3d n0=m.normal(m.halfface_handle(f,0)), n1=m.normal(m.halfface_handle(f,1));
    CHECK((n0+n1).norm()<1e-12);
    // formula check of side 0: first two halfedges
    Vec3d p1(2,0,0),p2(0.5,0.5,1),p3(0,2,0);
    Vec3d n=((p2-p1)%(p3-p2)).normalized();
    CHECK((n-n0).norm()<1e-12);
  }
  // copy / assign with persistent position, all mesh types, cross type
  {
    GeometricTetrahedralMeshV3d t;
    auto a=t.add_vertex(Vec3d(0,0,0)),b=t.add_vertex(Vec3d(1,0,0)),c=t.add_vertex(Vec3d(0,1,0)),d=t.add_vertex(Vec3d(0,0,1));
    t.add_cell(a,b,c,d);
    auto pp=t.request_vertex_property<Vec3d>("ovm:position");
    t.set_persistent(pp);
    GeometricTetrahedralMeshV3d t2(t);
    CHECK(t2.vertex(b)==Vec3d(1,0,0));
    t2.set_vertex(b,Vec3d(5,5,5));
    CHECK(t.vertex(b)==Vec3d(1,0,0));
    GeometricPolyhedralMeshV3d p; p.add_vertex(Vec3d(9,9,9));
    p=t; 
    CHECK(p.n_vertices()==4); CHECK(p.vertex(b)==Vec3d(1,0,0));
    p.set_vertex(b,Vec3d(7,7,7)); CHECK(t.vertex(b)==Vec3d(1,0,0));
    auto nv=p.add_vertex(Vec3d(3,3,3)); CHECK(p.vertex(nv)==Vec3d(3,3,3)); CHECK(t.n_vertices()==4);
    // position property count: exactly one
    int cnt=0; for(auto it=p.persistent_props_begin<Entity::Vertex>(); it!=p.persistent_props_end<Entity::Vertex>();++it) ++cnt;
    CHECK(cnt==1);
    // self-assign
    p=p; CHECK(p.vertex(nv)==Vec3d(3,3,3));
    // assign non-persistent source over persistent target
    GeometricPolyhedralMeshV3d q; q.add_vertex(Vec3d(1,2,3));
    p=q; CHECK(p.n_vertices()==1); CHECK(p.vertex(VertexHandle(0))==Vec3d(1,2,3));
    p.set_vertex(VertexHandle(0),Vec3d(0,0,0)); CHECK(q.vertex(VertexHandle(0))==Vec3d(1,2,3));
    // chain: t (persistent) -> copy -> copy
    GeometricTetrahedralMeshV3d t3(t2); GeometricTetrahedralMeshV3d t4; t4=t3; t4.set_vertex(a,Vec3d(8,8,8));
    CHECK(t3.vertex(a)==Vec3d(0,0,0)); CHECK(t2.vertex(a)==Vec3d(0,0,0));
    // move
  }
  if(fails){std::printf("%d failures\n",fails);return 1;} std::puts("ok"); return 0;
}
