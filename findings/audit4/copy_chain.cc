// e090d74: chains of copies/assignments of a mesh whose position property is persistent
#include <OpenVolumeMesh/Mesh/TetrahedralMesh.hh>
#include <OpenVolumeMesh/Mesh/PolyhedralMesh.hh>
#include <cstdio>
using namespace OpenVolumeMesh; using namespace OpenVolumeMesh::Geometry;
static int fails=0;
template<class M> void chk(M&m,const char*w){
  size_t n=0; for(auto it=m.template persistent_props_begin<Entity::Vertex>();it!=m.template persistent_props_end<Entity::Vertex>();++it) ++n;
  std::printf("%-28s n_vertices=%zu positions.size=%zu persistent vprops=%zu n_vprops=%zu\n",w,m.n_vertices(),m.vertex_positions().size(),n,m.template n_props<Entity::Vertex>());
  if(m.vertex_positions().size()!=m.n_vertices()){ std::printf("VIOLATION %s: position property has %zu elements for %zu vertices\n",w,m.vertex_positions().size(),m.n_vertices()); ++fails; }
}
int main(){
  for(int persistent=0;persistent<2;++persistent){
    std::printf("--- persistent=%d\n",persistent);
    GeometricTetrahedralMeshV3d t; t.add_vertex(Vec3d(0,0,0)); t.add_vertex(Vec3d(1,0,0));
    if(persistent){ auto pp=t.request_vertex_property<Vec3d>("ovm:position"); t.set_persistent(pp); }
    GeometricTetrahedralMeshV3d t2(t); t2.add_vertex(Vec3d(1,1,1)); chk(t2,"t2(t)+add_vertex");
    GeometricTetrahedralMeshV3d t3(t2); t3.add_vertex(Vec3d(1,1,1)); chk(t3,"t3(t2)+add_vertex");
    GeometricTetrahedralMeshV3d t4; t4=t3; t4.add_vertex(Vec3d(1,1,1)); chk(t4,"t4=t3 +add_vertex");
    GeometricTetrahedralMeshV3d t5(t4); t5.add_vertex(); chk(t5,"t5(t4)+add_vertex");
    t4=t; t4.add_vertex(); chk(t4,"t4=t (2nd assign)+add_vertex");
    t4=t2; t4.add_vertex(); chk(t4,"t4=t2 (3rd assign)+add_vertex");
    GeometricTetrahedralMeshV3d t6(t4); t6.add_vertex(); chk(t6,"t6(t4)+add_vertex");
  }
  return fails?1:0;
}
