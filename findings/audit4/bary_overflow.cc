// 14266c5: barycenter(edge) = (a+b)/2 overflows where the defining formula (and the old code 0.5*a+0.5*b) is finite
#include <OpenVolumeMesh/Mesh/PolyhedralMesh.hh>
#include <cstdio>
#include <limits>
using namespace OpenVolumeMesh; using namespace OpenVolumeMesh::Geometry;
int main(){
  int fails=0;
  { GeometryKernel<Vec3d,TopologyKernel> m; double big=std::numeric_limits<double>::max();
    auto e=m.add_edge(m.add_vertex(Vec3d(big,1,-big)),m.add_vertex(Vec3d(big,3,-big)));
    Vec3d bc=m.barycenter(e);
    if(!(bc[0]==big && bc[1]==2 && bc[2]==-big)){ std::printf("VIOLATION Vec3d: barycenter of (max,1,-max)-(max,3,-max) = (%g %g %g), expected (%g 2 %g)\n",bc[0],bc[1],bc[2],big,-big); ++fails; } }
  { GeometryKernel<Vec3f,TopologyKernel> m; float big=std::numeric_limits<float>::max();
    auto e=m.add_edge(m.add_vertex(Vec3f(big,0,0)),m.add_vertex(Vec3f(big*0.5f,0,0)));
    Vec3f bc=m.barycenter(e);
    if(!(bc[0]==big*0.75f)){ std::printf("VIOLATION Vec3f: barycenter x = %g expected %g\n",bc[0],big*0.75f); ++fails; } }
  { GeometryKernel<Vec3i,TopologyKernel> m; int big=2000000000;
    auto e=m.add_edge(m.add_vertex(Vec3i(big,0,0)),m.add_vertex(Vec3i(big,0,0)));
    Vec3i bc=m.barycenter(e);
    if(bc[0]!=big){ std::printf("VIOLATION Vec3i: barycenter of (2e9,0,0)-(2e9,0,0) = %d (signed overflow, UB), expected %d\n",bc[0],big); ++fails; } }
  { GeometryKernel<Vec3ui,TopologyKernel> m; unsigned big=4000000000u;
    auto e=m.add_edge(m.add_vertex(Vec3ui(big,0,0)),m.add_vertex(Vec3ui(big,0,0)));
    Vec3ui bc=m.barycenter(e);
    if(bc[0]!=big){ std::printf("VIOLATION Vec3ui: barycenter of (4e9,0,0)-(4e9,0,0) = %u (wrap-around), expected %u\n",bc[0],big); ++fails; } }
  return fails?1:0;
}
