#include <OpenVolumeMesh/Mesh/PolyhedralMesh.hh>
#include <OpenVolumeMesh/Mesh/TetrahedralMesh.hh>
#include <cstdio>
#include <unistd.h>
#include <sys/wait.h>
#include <functional>
using namespace OpenVolumeMesh;
using namespace OpenVolumeMesh::Geometry;
static int fails=0;
#define CHECK(c) do{ if(!(c)){ std::printf("VIOLATION %s:%d %s\n",__FILE__,__LINE__,#c); ++fails;} }while(0)
static int in_child(std::function<int()> f){ fflush(stdout); pid_t p=fork(); if(p==0){ alarm(10); _exit(f()); } int st=0; waitpid(p,&st,0); if(WIFSIGNALED(st)) return 1000+WTERMSIG(st); return WEXITSTATUS(st); }
int main(){
  // (a) add_face with an empty vertex list: sibling of 1cf6201/149589f
  int r=in_child([]{ GeometricPolyhedralMeshV3d m; m.add_vertex(Vec3d(0,0,0)); m.add_vertex(Vec3d(1,0,0));
      auto f=m.add_face(std::vector<VertexHandle>{}); return (!f.is_valid() && m.n_faces()==0 && m.n_edges()==0)?0:2; });
  if(r!=0){ std::printf("VIOLATION add_face(empty vertex list): child result %d (>=1000: killed by signal %d)\n",r,r-1000); ++fails; }
  // (a2) one-vertex list
  r=in_child([]{ GeometricPolyhedralMeshV3d m; auto v=m.add_vertex(Vec3d(0,0,0)); auto f=m.add_face(std::vector<VertexHandle>{v}); (void)f; return 0;});
  if(r!=0){ std::printf("NOTE add_face({v}) child result %d\n",r); }
  // (d) clear(true) with live handles of all kinds incl. bool
  {
    GeometricTetrahedralMeshV3d m; auto a=m.add_vertex(Vec3d(0,0,0)),b=m.add_vertex(Vec3d(1,0,0)),c=m.add_vertex(Vec3d(0,1,0)),d=m.add_vertex(Vec3d(0,0,1)); m.add_cell(a,b,c,d);
    auto vp=m.request_vertex_property<bool>("vb",true); auto ep=m.request_edge_property<int>("e",3); auto hep=m.request_halfedge_property<std::string>("he","x");
    auto fp=m.request_face_property<double>("f",1.5); auto hfp=m.request_halfface_property<bool>("hf",false); auto cp=m.request_cell_property<Vec3d>("c",Vec3d(1,1,1));
    auto mp=m.request_mesh_property<int>("m",7); auto pv=m.create_private_vertex_property<int>("",5);
    m.set_persistent(ep);
    for(int deferred=0;deferred<2;++deferred){
      m.clear(deferred==0);
      CHECK(vp.size()==0);CHECK(ep.size()==0);CHECK(hep.size()==0);CHECK(fp.size()==0);CHECK(hfp.size()==0);CHECK(cp.size()==0);CHECK(mp.size()==1);CHECK(pv.size()==0);
      auto a=m.add_vertex(Vec3d(0,0,0)),b=m.add_vertex(Vec3d(1,0,0)),c=m.add_vertex(Vec3d(0,1,0)),d=m.add_vertex(Vec3d(0,0,1)); m.add_cell(a,b,c,d);
      CHECK(m.vertex(b)==Vec3d(1,0,0));
      CHECK(vp.size()==4);CHECK(ep.size()==6);CHECK(hep.size()==12);CHECK(fp.size()==4);CHECK(hfp.size()==8);CHECK(cp.size()==1);CHECK(pv.size()==4);
      CHECK(vp[a]==true); CHECK(ep[EH(5)]==3); CHECK(hep[HEH(11)]=="x"); CHECK(cp[CH(0)]==Vec3d(1,1,1)); CHECK(pv[d]==5);
    }
  }
  if(fails){std::printf("%d failures\n",fails);return 1;} std::puts("ok"); return 0;
}
