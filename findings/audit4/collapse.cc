// collapse_edge: property oracle over all 4 deletion modes, several meshes, every collapsible halfedge (link condition checked brute force)
#include <OpenVolumeMesh/Mesh/TetrahedralMesh.hh>
#include <cstdio>
#include <map>
#include <set>
#include <array>
#include <algorithm>
using namespace OpenVolumeMesh; using namespace OpenVolumeMesh::Geometry;
using M=GeometricTetrahedralMeshV3d;
static int fails=0;
typedef std::vector<std::array<int,4>> Tets;
static void build(M&m,int nv,const Tets&ts){ for(int i=0;i<nv;++i) m.add_vertex(Vec3d(i,i*i,i*i*i)); for(auto&t:ts){ auto c=m.add_cell(VH(t[0]),VH(t[1]),VH(t[2]),VH(t[3])); if(!c.is_valid()) std::printf("build failed\n"); } }
static std::array<int,3> canon(std::array<int,3> f){ int k=int(std::min_element(f.begin(),f.end())-f.begin()); return {f[k],f[(k+1)%3],f[(k+2)%3]}; }
static std::set<int> link_v(const Tets&ts,int a){ std::set<int> s; for(auto&t:ts) if(std::count(t.begin(),t.end(),a)) for(int x:t) if(x!=a) s.insert(x); return s; }
static std::set<std::set<int>> link_simp(const Tets&ts,std::set<int> sigma){ // all faces of tets containing sigma, minus sigma
  std::set<std::set<int>> r; for(auto&t:ts){ bool has=true; for(int s:sigma) if(!std::count(t.begin(),t.end(),s)) has=false; if(!has) continue;
    std::vector<int> rest; for(int x:t) if(!sigma.count(x)) rest.push_back(x);
    for(unsigned mask=1; mask<(1u<<rest.size()); ++mask){ std::set<int> s; for(size_t i=0;i<rest.size();++i) if(mask>>i&1) s.insert(rest[i]); r.insert(s);} } return r; }
static bool link_ok(const Tets&ts,int a,int b){ auto la=link_simp(ts,{a}), lb=link_simp(ts,{b}), lab=link_simp(ts,{a,b}); std::set<std::set<int>> inter; for(auto&s:la) if(lb.count(s)) inter.insert(s); return inter==lab; }
int main(){
  std::vector<std::pair<int,Tets>> meshes={
    {6,{{0,1,2,3},{0,2,4,3},{0,4,5,3}}},                       // fan around edge 0-3
    {7,{{0,1,2,3},{0,2,4,3},{0,4,5,3},{0,5,6,3},{0,6,1,3}}},   // closed ring around interior edge 0-3
    {5,{{0,1,2,3},{1,2,3,4}}},
    {8,{{0,1,2,3},{0,2,4,3},{0,4,5,3},{4,2,6,3},{5,4,7,3}}},
  };
  long ncoll=0;
  for(size_t mi=0;mi<meshes.size();++mi) for(int mode=0;mode<4;++mode){
    int nv=meshes[mi].first; const Tets&ts=meshes[mi].second;
    M ref; build(ref,nv,ts);
    for(auto he:ref.halfedges()){
      int a=ref.from_vertex_handle(he).idx(), b=ref.to_vertex_handle(he).idx();
      if(!link_ok(ts,a,b)) continue;
      M m; m.enable_deferred_deletion(mode&1); m.enable_fast_deletion(mode&2); build(m,nv,ts);
      // a pre-existing pending deletion in deferred mode: add + delete an extra isolated edge/vertex
      auto vid=m.request_vertex_property<int>("id",-1); for(auto v:m.vertices()) vid[v]=v.idx();
      auto ep=m.request_edge_property<int>("e",-1); auto hep=m.request_halfedge_property<int>("he",-1); auto fp=m.request_face_property<int>("f",-1); auto hfp=m.request_halfface_property<int>("hf",-1); auto cp=m.request_cell_property<int>("c",-1);
      auto heb=m.request_halfedge_property<bool>("heb",false);
      std::map<std::pair<int,int>,int> he_old; std::map<std::set<int>,int> e_old; std::map<std::array<int,3>,int> hf_old; std::map<std::set<int>,int> f_old; std::map<std::set<int>,int> c_old;
      std::map<std::pair<int,int>,bool> heb_old;
      int k=100;
      for(auto e:m.edges()){ ep[e]=k++; e_old[{m.edge(e).from_vertex().idx(),m.edge(e).to_vertex().idx()}]=ep[e]; }
      for(auto h:m.halfedges()){ hep[h]=k++; heb[h]=(k%3==0); he_old[{m.from_vertex_handle(h).idx(),m.to_vertex_handle(h).idx()}]=hep[h]; heb_old[{m.from_vertex_handle(h).idx(),m.to_vertex_handle(h).idx()}]=heb[h]; }
      for(auto f:m.faces()){ fp[f]=k++; std::set<int> s; for(auto v:m.get_halfface_vertices(m.halfface_handle(f,0))) s.insert(v.idx()); f_old[s]=fp[f]; }
      for(auto h:m.halffaces()){ hfp[h]=k++; auto vs=m.get_halfface_vertices(h); hf_old[canon({vs[0].idx(),vs[1].idx(),vs[2].idx()})]=hfp[h]; }
      for(auto c:m.cells()){ cp[c]=k++; std::set<int> s; for(auto v:m.get_cell_vertices(c)) s.insert(v.idx()); c_old[s]=cp[c]; }
      auto heh=m.find_halfedge(VH(a),VH(b));
      VH r=m.collapse_edge(heh); ++ncoll;
      bool r_ok = r.is_valid() && (size_t)r.idx()<m.n_vertices() && !m.is_deleted(r) && vid[r]==b;
      if(mode&1) m.collect_garbage();
      auto sub=[&](int x){return x==a?b:x;};
      // expected value for a key K (in old ids): if an old entity had key K and did not contain a -> its own; else the old entity whose substituted key is K
      char ctx[128]; std::snprintf(ctx,sizeof ctx,"mesh %zu mode %d collapse %d->%d",mi,mode,a,b);
      if(!r_ok){ std::printf("VIOLATION %s: returned handle does not designate b\n",ctx); ++fails; }
      auto lookup_he=[&](int f,int t,auto&old,auto&out)->bool{ auto it=old.find({f,t}); if(it!=old.end() && f!=a && t!=a){out=it->second;return true;}
        // candidates: (a,t) if f==b ; (f,a) if t==b
        if(f==b){ auto j=old.find({a,t}); if(j!=old.end()){out=j->second;return true;} } if(t==b){ auto j=old.find({f,a}); if(j!=old.end()){out=j->second;return true;} } return false; };
      for(auto h:m.halfedges()){ int f=vid[m.from_vertex_handle(h)], t=vid[m.to_vertex_handle(h)]; int want; bool wantb;
        if(!lookup_he(f,t,he_old,want)){ std::printf("VIOLATION %s: unexpected halfedge %d->%d\n",ctx,f,t); ++fails; continue; }
        lookup_he(f,t,heb_old,wantb);
        if(hep[h]!=want){ std::printf("VIOLATION %s: halfedge %d->%d int prop %d expected %d\n",ctx,f,t,hep[h],want); ++fails; }
        if(heb[h]!=wantb){ std::printf("VIOLATION %s: halfedge %d->%d bool prop %d expected %d\n",ctx,f,t,(int)heb[h],(int)wantb); ++fails; } }
      auto lookup_set=[&](std::set<int> s,auto&old,int&out)->bool{ auto it=old.find(s); if(it!=old.end() && !s.count(a)){out=it->second;return true;}
        if(s.count(b)){ std::set<int> s2=s; s2.erase(b); s2.insert(a); auto j=old.find(s2); if(j!=old.end()){out=j->second;return true;} } return false; };
      for(auto e:m.edges()){ std::set<int> s={vid[m.edge(e).from_vertex()],vid[m.edge(e).to_vertex()]}; int want; if(!lookup_set(s,e_old,want)){std::printf("VIOLATION %s: unexpected edge\n",ctx);++fails;continue;} if(ep[e]!=want){ std::printf("VIOLATION %s: edge {%d,%d} prop %d expected %d\n",ctx,*s.begin(),*s.rbegin(),ep[e],want); ++fails; } }
      for(auto f:m.faces()){ std::set<int> s; for(auto v:m.get_halfface_vertices(m.halfface_handle(f,0))) s.insert(vid[v]); int want; if(!lookup_set(s,f_old,want)){std::printf("VIOLATION %s: unexpected face\n",ctx);++fails;continue;} if(fp[f]!=want){ std::printf("VIOLATION %s: face prop %d expected %d\n",ctx,fp[f],want); ++fails; } }
      for(auto c:m.cells()){ std::set<int> s; for(auto v:m.get_cell_vertices(c)) s.insert(vid[v]); int want; if(!lookup_set(s,c_old,want)){std::printf("VIOLATION %s: unexpected cell\n",ctx);++fails;continue;} if(cp[c]!=want){ std::printf("VIOLATION %s: cell prop %d expected %d\n",ctx,cp[c],want); ++fails; } }
      for(auto h:m.halffaces()){ auto vs=m.get_halfface_vertices(h); std::array<int,3> key=canon({vid[vs[0]],vid[vs[1]],vid[vs[2]]}); int want=-12345;
        auto it=hf_old.find(key); bool has_a=(key[0]==a||key[1]==a||key[2]==a);
        if(it!=hf_old.end() && !has_a) want=it->second; else { std::array<int,3> k2=key; for(auto&x:k2) if(x==b) x=a; auto j=hf_old.find(canon(k2)); if(j!=hf_old.end()) want=j->second; }
        if(want==-12345){ std::printf("VIOLATION %s: unexpected halfface\n",ctx); ++fails; continue; }
        if(hfp[h]!=want){ std::printf("VIOLATION %s: halfface (%d,%d,%d) prop %d expected %d\n",ctx,key[0],key[1],key[2],hfp[h],want); ++fails; } }
      // cells: exactly the former cells without both a and b, a replaced by b
      std::set<std::set<int>> expect_cells; for(auto&t:ts){ bool ha=std::count(t.begin(),t.end(),a), hb=std::count(t.begin(),t.end(),b); if(ha&&hb) continue; std::set<int> s; for(int x:t) s.insert(sub(x)); expect_cells.insert(s);} 
      std::set<std::set<int>> got; for(auto c:m.cells()){ std::set<int> s; for(auto v:m.get_cell_vertices(c)) s.insert(vid[v]); got.insert(s);} 
      if(got!=expect_cells){ std::printf("VIOLATION %s: cell set differs\n",ctx); ++fails; }
      if(fails>20) return 1;
    }
  }
  std::printf("%ld collapses checked, %d failures\n",ncoll,fails); return fails?1:0;
}
