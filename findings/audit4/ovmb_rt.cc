// OVMB round trip: all codec types with non-trivial defaults, on populated and EMPTY entity kinds
#include <OpenVolumeMesh/Mesh/PolyhedralMesh.hh>
#include <OpenVolumeMesh/Mesh/TetrahedralMesh.hh>
#include <OpenVolumeMesh/Mesh/HexahedralMesh.hh>
#include <OpenVolumeMesh/IO/ovmb_write.hh>
#include <OpenVolumeMesh/IO/ovmb_read.hh>
#include <OpenVolumeMesh/FileManager/FileManager.hh>
#include <sstream>
#include <cstdio>
using namespace OpenVolumeMesh;
using namespace OpenVolumeMesh::Geometry;
static int fails=0;
#define CHECK(c) do{ if(!(c)){ std::printf("VIOLATION %s:%d %s\n",__FILE__,__LINE__,#c); ++fails;} }while(0)
template<class M> void fill(M&m){
#define P(Ent,T,name,def) { auto p=m.template request_property<T,Entity::Ent>(name,def); m.set_persistent(p);}
#define ALL(Ent) \
  P(Ent,bool,"b",true) P(Ent,uint8_t,"u8",uint8_t(200)) P(Ent,uint16_t,"u16",uint16_t(60000)) P(Ent,uint32_t,"u32",4000000000u) P(Ent,uint64_t,"u64",uint64_t(1)<<63) \
  P(Ent,int8_t,"i8",int8_t(-5)) P(Ent,int16_t,"i16",int16_t(-300)) P(Ent,int32_t,"i32",-7) P(Ent,int64_t,"i64",int64_t(-1)<<40) P(Ent,float,"f",1.5f) P(Ent,double,"d",-2.25) \
  P(Ent,std::string,"s",std::string("def ault")) P(Ent,std::string,"se",std::string()) P(Ent,VH,"vh",VH(2)) P(Ent,HFH,"hfh",HFH(1)) P(Ent,CH,"ch",CH()) \
  P(Ent,Vec3d,"3d",Vec3d(1,2,3)) P(Ent,Vec2f,"2f",Vec2f(1,2)) P(Ent,Vec4i,"4i",Vec4i(1,-2,3,-4)) P(Ent,Vec3ui,"3u",Vec3ui(1,2,3)) P(Ent,Vec4d,"4d",Vec4d(1,2,3,4))
  ALL(Vertex) ALL(Edge) ALL(HalfEdge) ALL(Face) ALL(HalfFace) ALL(Cell) ALL(Mesh)
}
template<class M> size_t nprops(M&m){ using namespace Entity; return m.template n_persistent_props<Vertex>()+m.template n_persistent_props<Edge>()+m.template n_persistent_props<HalfEdge>()+m.template n_persistent_props<Face>()+m.template n_persistent_props<HalfFace>()+m.template n_persistent_props<Cell>()+m.template n_persistent_props<Mesh>(); }
template<class M> void rt(M&m,const char*what){
  std::stringstream ss(std::ios::in|std::ios::out|std::ios::binary);
  auto wr=IO::ovmb_write(ss,m);
  if(wr!=IO::WriteResult::Ok){std::printf("VIOLATION %s: write failed\n",what);++fails;return;}
  M r; r.add_vertex(Vec3d(9,9,9));
  auto rr=IO::ovmb_read(ss,r);
  if(rr!=IO::ReadResult::Ok){std::printf("VIOLATION %s: read failed: %s\n",what,IO::to_string(rr));++fails;return;}
  CHECK(r.n_vertices()==m.n_vertices()); CHECK(r.n_edges()==m.n_edges());CHECK(r.n_faces()==m.n_faces());CHECK(r.n_cells()==m.n_cells());
  if(nprops(r)!=nprops(m)){std::printf("VIOLATION %s: %zu props read, %zu written\n",what,nprops(r),nprops(m));++fails;}
  // defaults
  auto d=r.template get_property<double,Entity::Cell>("d"); CHECK(d.has_value()); if(d){CHECK(d->def()==-2.25); CHECK(d->size()==r.n_cells());}
  auto s=r.template get_property<std::string,Entity::Vertex>("s"); CHECK(s.has_value()); if(s){CHECK(s->def()=="def ault"); CHECK(s->size()==r.n_vertices());}
  auto b=r.template get_property<bool,Entity::HalfFace>("b"); CHECK(b.has_value()); if(b){CHECK(b->def()==true); CHECK(b->size()==r.n_halffaces());}
  // ASCII
  IO::FileManager fm; std::stringstream as; fm.writeStream(as,m);
  M r2; bool ok=fm.readStream(as,r2,true,true); 
  if(!ok){std::printf("VIOLATION %s: ascii read failed\n",what);++fails;}
}
int main(){
  { GeometricPolyhedralMeshV3d m; fill(m); rt(m,"empty poly"); }
  { GeometricPolyhedralMeshV3d m; m.add_vertex(Vec3d(1,2,3)); fill(m); rt(m,"1 vertex poly"); }
  { GeometricPolyhedralMeshV3d m; auto a=m.add_vertex(Vec3d(1,2,3)),b=m.add_vertex(Vec3d(0,0,0)); m.add_edge(a,b); fill(m); rt(m,"1 edge poly"); }
  { GeometricTetrahedralMeshV3d m; auto a=m.add_vertex(Vec3d(0,0,0)),b=m.add_vertex(Vec3d(1,0,0)),c=m.add_vertex(Vec3d(0,1,0)),d=m.add_vertex(Vec3d(0,0,1));
    m.add_face({a,b,c}); fill(m); rt(m,"1 face tet"); m.add_cell(a,b,c,d); rt(m,"1 tet"); }
  { GeometricHexahedralMeshV3d m; std::vector<VH> v; for(int i=0;i<8;++i) v.push_back(m.add_vertex(Vec3d(i&1,(i>>1)&1,(i>>2)&1)));
    // documented order
    std::vector<VH> o={v[0],v[1],v[3],v[2],v[4],v[6],v[7],v[5]};
    auto c=m.add_cell(o,true); CHECK(c.is_valid()); fill(m); rt(m,"1 hex"); }
  if(fails){std::printf("%d failures\n",fails);return 1;} std::puts("ok"); return 0;
}
