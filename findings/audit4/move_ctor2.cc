#include <OpenVolumeMesh/Mesh/TetrahedralMesh.hh>
#include <OpenVolumeMesh/Mesh/PolyhedralMesh.hh>
#include <cstdio>
using namespace OpenVolumeMesh; using namespace OpenVolumeMesh::Geometry;
template<class M> int run(const char*w){
  int fails=0;
  M a; a.add_vertex(Vec3d(1,2,3));
  M b(std::move(a));
  b.add_vertex(); b.add_vertex();
  std::printf("%s: b.n_vertices=%zu b.positions.size=%zu | a.n_vertices=%zu a.positions.size=%zu\n",w,b.n_vertices(),b.vertex_positions().size(),a.n_vertices(),a.vertex_positions().size());
  if(b.vertex_positions().size()!=b.n_vertices()){ std::printf("VIOLATION %s: moved-to mesh: %zu positions for %zu vertices\n",w,b.vertex_positions().size(),b.n_vertices()); ++fails; }
  return fails;
}
int main(){ int f=0; f+=run<GeometricPolyhedralMeshV3d>("poly"); f+=run<GeometricTetrahedralMeshV3d>("tet"); 
  std::printf("move-constructible: TopologyKernel=%d TetTopo=%d\n",(int)std::is_move_constructible_v<TopologyKernel>,(int)std::is_move_constructible_v<TetrahedralMeshTopologyKernel>);
  return f?1:0; }
