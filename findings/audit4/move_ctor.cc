// GeometryKernel(GeometryKernel&&) = default, but the base class is COPIED (ResourceManager's move ctor is deleted)
// while the position handle is MOVED out of the source.
#include <OpenVolumeMesh/Mesh/PolyhedralMesh.hh>
#include <cstdio>
#include <vector>
using namespace OpenVolumeMesh; using namespace OpenVolumeMesh::Geometry;
int main(){
  int fails=0;
  for(int persistent=0;persistent<2;++persistent){
    GeometricPolyhedralMeshV3d a; a.add_vertex(Vec3d(1,2,3));
    if(persistent){ auto p=a.request_vertex_property<Vec3d>("ovm:position"); a.set_persistent(p);}
    GeometricPolyhedralMeshV3d b(std::move(a));
    b.add_vertex(); b.add_vertex();
    std::printf("persistent=%d: b.n_vertices=%zu b.positions.size=%zu a.n_vertices=%zu a.positions.size=%zu\n",persistent,b.n_vertices(),b.vertex_positions().size(),a.n_vertices(),a.vertex_positions().size());
    if(b.vertex_positions().size()!=b.n_vertices()){ std::printf("VIOLATION: b: position property has %zu elements, mesh has %zu vertices (b.vertex(VH(2)) is out of bounds)\n",b.vertex_positions().size(),b.n_vertices()); ++fails; }
    if(a.vertex_positions().size()!=a.n_vertices()){ std::printf("VIOLATION: moved-from a: position property has %zu elements, mesh has %zu vertices\n",a.vertex_positions().size(),a.n_vertices()); ++fails; }
  }
  return fails?1:0;
}
