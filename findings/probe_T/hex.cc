// Differential random tester for the hexahedral kernel: C16 (+ generic C08/C09/C10/C11 checks from tester.hh).
// build (release):
//   g++ -std=c++17 -O1 -g -I/tmp/probe/T/src -I/tmp/probe/T/_build/src hex.cc -o hex /tmp/probe/T/_build/Build/lib/libOpenVolumeMesh.a
// build (sanitizers):
//   clang++ -std=c++17 -O1 -g -fsanitize=address,undefined -D_GLIBCXX_ASSERTIONS -I/tmp/probe/T/src -I/tmp/probe/T/_build_san/src hex.cc -o hex_san /tmp/probe/T/_build_san/Build/lib/libOpenVolumeMeshd.a
// run: ./hex [nseeds] [firstseed]
#include "tester.hh"
#include <array>
typedef HexahedralMeshTopologyKernel HK;
static long ST_cells = 0, ST_perm_acc = 0, ST_perm_rej = 0, ST_bad_acc = 0, ST_bad_rej = 0, ST_noncube = 0, ST_noncube_closed = 0, ST_sheet = 0, ST_surface = 0;

// positions of the documented vertex pattern
static const int PC[8][3] = {{0,0,0},{1,0,0},{1,1,0},{0,1,0},{0,0,1},{0,1,1},{1,1,1},{1,0,1}};
static std::vector<std::array<int,8>> cube_perms(bool proper) {
    std::vector<std::array<int,8>> r; int ax[3] = {0,1,2};
    do { for (int s = 0; s < 8; ++s) {
        int sg[3] = {s&1?-1:1, s&2?-1:1, s&4?-1:1};
        int inv = 0; for (int i = 0; i < 3; ++i) for (int j = i+1; j < 3; ++j) if (ax[i] > ax[j]) ++inv;
        int det = (inv % 2 ? -1 : 1) * sg[0]*sg[1]*sg[2];
        if ((det == 1) != proper) continue;
        std::array<int,8> p;
        for (int i = 0; i < 8; ++i) { int q[3]; for (int k = 0; k < 3; ++k) { int c = PC[i][ax[k]]; q[k] = sg[k] == 1 ? c : 1 - c; }
            for (int j = 0; j < 8; ++j) if (PC[j][0] == q[0] && PC[j][1] == q[1] && PC[j][2] == q[2]) p[i] = j; }
        r.push_back(p);
    } } while (std::next_permutation(ax, ax+3));
    return r;
}
static const std::vector<std::array<int,8>> ROT = cube_perms(true), REFL = cube_perms(false);

template <class Mesh> void check_hex_cells(Mesh& m, const Model& md, const VI& hfcell) {
    auto adj = [&](int c, int hf, int he) { int o = -1; for (int g : md.C[c]) if (g != hf) { VI gh = md.hf_hes(g); if (std::count(gh.begin(), gh.end(), he^1)) o = g; } return o; };
    for (int f = 0; f < (int)md.F.size(); ++f) if (!md.fdel[f] && md.F[f].size() != 4) FAILS.fail("C16.shape.face_valence", str(md.F[f]));
    for (int c = 0; c < (int)md.C.size(); ++c) if (!md.cdel[c]) {
        ++ST_cells;
        const VI& H = md.C[c];
        std::set<int> cv; for (int hf : H) for (int v : md.hf_vs(hf)) cv.insert(v);
        if (H.size() != 6 || cv.size() != 8 || !md.cell_closed(c)) { FAILS.fail("C16.shape.cell", "hfs " + str(H) + " #v " + std::to_string(cv.size())); continue; }
        bool own = true; for (int hf : H) if (hfcell[hf] != c) own = false; if (!own) continue;
        bool ok = true;
        for (int k = 0; k < 3; ++k) { VI a = md.hf_vs(H[2*k]), b = md.hf_vs(H[2*k+1]); for (int v : a) if (std::count(b.begin(), b.end(), v)) ok = false; }
        if (!ok) { FAILS.fail("C16.layout.opposite_pairs_share_vertex", "cell " + std::to_string(c) + " hfs " + str(H)); continue; }
        VI walk; for (int he : md.hf_hes(H[0])) { int g = adj(c, H[0], he); walk.push_back((int)(std::find(H.begin(), H.end(), g) - H.begin())); }
        if (!TesterT<HK>::cyc_eq(walk, VI{2,4,3,5})) { FAILS.fail("C16.layout.walk_around_first", "walk " + str(walk)); continue; }
        // orientation helpers
        CellHandle ch(c);
        for (int i = 0; i < 6; ++i) {
            if (m.orientation(HalfFaceHandle(H[i]), ch) != i) FAILS.fail("C16.orientation", "");
            if (m.opposite_halfface_handle_in_cell(HalfFaceHandle(H[i]), ch).idx() != H[i^1]) FAILS.fail("C16.opposite_halfface_handle_in_cell", "");
            if (m.get_oriented_halfface((unsigned char)i, ch).idx() != H[i]) FAILS.fail("C16.get_oriented_halfface", "");
            if (HK::opposite_orientation((unsigned char)i) != (i^1)) FAILS.fail("C16.opposite_orientation", "");
        }
        if (m.xfront_halfface(ch).idx() != H[0] || m.xback_halfface(ch).idx() != H[1] || m.yfront_halfface(ch).idx() != H[2] || m.yback_halfface(ch).idx() != H[3] || m.zfront_halfface(ch).idx() != H[4] || m.zback_halfface(ch).idx() != H[5]) FAILS.fail("C16.front_back_accessors", "");
        if (m.orientation(HalfFaceHandle(H[0]^1), ch) != HK::INVALID) FAILS.fail("C16.orientation.foreign", "");
        // orthogonal_orientation: successor of o2 when walking around o1
        for (int o1 = 0; o1 < 6; ++o1) {
            VI w; for (int he : md.hf_hes(H[o1])) { int g = adj(c, H[o1], he); w.push_back((int)(std::find(H.begin(), H.end(), g) - H.begin())); }
            for (int i = 0; i < 4; ++i) { int o2 = w[i], o3 = w[(i+1)%4]; int got = HK::orthogonal_orientation((unsigned char)o1, (unsigned char)o2);
                if (got != o3) FAILS.fail("C16.orthogonal_orientation", "o1 " + std::to_string(o1) + " o2 " + std::to_string(o2) + " exp " + std::to_string(o3) + " got " + std::to_string(got)); }
            if (HK::orthogonal_orientation((unsigned char)o1, (unsigned char)o1) != HK::INVALID || HK::orthogonal_orientation((unsigned char)o1, (unsigned char)(o1^1)) != HK::INVALID) FAILS.fail("C16.orthogonal_orientation.same_axis", "");
        }
        // hex_vertices
        VI hv; for (auto it = m.hv_iter(ch); it.valid(); ++it) hv.push_back(it->idx());
        VI f0 = md.hf_vs(H[0]), f1 = md.hf_vs(H[1]);
        if (hv.size() != 8 || std::set<int>(hv.begin(), hv.end()) != cv) FAILS.fail("C16.hex_vertices.not_the_eight", str(hv));
        else {
            VI a(hv.begin(), hv.begin()+4), b(hv.begin()+4, hv.end());
            VI ra(f0.rbegin(), f0.rend()), rb(f1.rbegin(), f1.rend());
            if (a[0] != f0[0] || !TesterT<HK>::cyc_eq(ra, a)) FAILS.fail("C16.hex_vertices.first_four", str(a) + " face " + str(f0));
            if (!TesterT<HK>::cyc_eq(rb, b)) FAILS.fail("C16.hex_vertices.last_four", str(b) + " face " + str(f1));
            auto edge_in_cell = [&](int u, int v) { for (int hf : H) for (int he : md.hf_hes(hf)) if (md.from(he) == u && md.to(he) == v) return true; return false; };
            int pr[4][2] = {{0,4},{1,7},{2,6},{3,5}};
            for (auto& p : pr) if (!edge_in_cell(hv[p[0]], hv[p[1]])) FAILS.fail("C16.hex_vertices.pattern", str(hv) + " positions " + std::to_string(p[0]) + "-" + std::to_string(p[1]));
        }
        // sheet circulators
        for (int d = 0; d < 6; ++d) {
            std::set<int> exp; for (int i = 0; i < 6; ++i) if (i/2 != d/2 && hfcell[H[i]^1] >= 0) exp.insert(hfcell[H[i]^1]);
            VI got; for (auto it = m.csc_iter(ch, (unsigned char)d); it.valid(); ++it) got.push_back(it->idx());
            if (VI(exp.begin(), exp.end()) != [&]{ VI g = got; std::sort(g.begin(), g.end()); return g; }()) FAILS.fail("C16.csc_iter", "dir " + std::to_string(d) + " exp " + str(VI(exp.begin(), exp.end())) + " got " + str(got));
        }
        for (int i = 0; i < 6; ++i) {
            int hf = H[i]; std::multiset<int> exp;
            for (int he : md.hf_hes(hf)) { int s = adj(c, hf, he); int N = hfcell[s^1]; if (N < 0) continue; int g = adj(N, s^1, he); exp.insert(g); }
            std::multiset<int> got; for (auto it = m.hfshf_iter(HalfFaceHandle(hf)); it.valid(); ++it) got.insert(it->idx());
            if (got != exp) FAILS.fail(std::set<int>(exp.begin(), exp.end()).size() != exp.size() || std::set<int>(got.begin(), got.end()) == std::set<int>(exp.begin(), exp.end()) ? "C16.hfshf_iter.multiplicity" : "C16.hfshf_iter", "hf" + std::to_string(hf) + " exp " + str(VI(exp.begin(), exp.end())) + " got " + str(VI(got.begin(), got.end())));
            for (int he : md.hf_hes(hf)) {
                int s = adj(c, hf, he); int N = hfcell[s^1]; int e1 = N >= 0 ? adj(N, s^1, he) : -1;
                if (e1 < 0) { // second way of the documented algorithm
                    int M = hfcell[hf^1]; if (M >= 0) { int s2 = adj(M, hf^1, he^1); if (s2 >= 0 && hfcell[s2^1] >= 0) { int g = adj(hfcell[s2^1], s2^1, he^1); if (g >= 0) e1 = g^1; } }
                }
                int got1 = m.adjacent_halfface_on_sheet(HalfFaceHandle(hf), HalfEdgeHandle(he)).idx(); ++ST_sheet;
                if (got1 != e1) FAILS.fail("C16.adjacent_halfface_on_sheet", "exp " + std::to_string(e1) + " got " + std::to_string(got1));
            }
        }
    }
    // boundary surface navigation on single-fan boundary edges
    int NHF = 2*(int)md.F.size();
    for (int hf = 0; hf < NHF; ++hf) if (!md.fdel[hf/2] && hfcell[hf] < 0 && hfcell[hf^1] >= 0) for (int he : md.hf_hes(hf)) {
        VI bnd; for (int g = 0; g < NHF; ++g) if (!md.fdel[g/2] && g != hf && hfcell[g] < 0) { VI gh = md.hf_hes(g); if (std::count(gh.begin(), gh.end(), he) || std::count(gh.begin(), gh.end(), he^1)) bnd.push_back(g); }
        // manifold boundary edge: exactly one other boundary halfface and it must traverse the edge the other way and face a cell
        if (bnd.size() != 1) continue; VI gh = md.hf_hes(bnd[0]); if (!std::count(gh.begin(), gh.end(), he^1) || hfcell[bnd[0]^1] < 0) continue;
        ++ST_surface;
        int g1 = m.adjacent_halfface_on_surface(HalfFaceHandle(hf), HalfEdgeHandle(he)).idx();
        int g2 = m.neighboring_outside_halfface(HalfFaceHandle(hf), HalfEdgeHandle(he)).idx();
        if (g1 != bnd[0]) FAILS.fail("C16.adjacent_halfface_on_surface", "exp " + std::to_string(bnd[0]) + " got " + std::to_string(g1));
        if (g2 != bnd[0]) FAILS.fail("C16.neighboring_outside_halfface", "exp " + std::to_string(bnd[0]) + " got " + std::to_string(g2));
    }
}

struct HexTester : TesterT<HK> {
    using TesterT<HK>::TesterT;
    bool kernel_accepts_face(const VI& hes) override { return hes.size() == 4; }
    bool kernel_reorders() override { return true; }
    bool kernel_accepts_cell(const Model& md, const VI& hfs) override { if (hfs.size() != 6) return false; for (int hf : hfs) if (md.F[hf/2].size() != 4) return false; return true; }

    bool hf_free(const Model& md, const VI& vs) { for (int c = 0; c < (int)md.C.size(); ++c) if (!md.cdel[c]) for (int hf : md.C[c]) if (cyc_eq(md.hf_vs(hf), vs)) return false; return true; }
    // a = front quad, b[i] behind a[i]
    void add_hex(VI a, VI b, bool allowMirror) {
        VI base = {a[0],a[1],a[2],a[3],b[0],b[3],b[2],b[1]};
        if (std::set<int>(base.begin(), base.end()).size() != 8) return;
        bool mirror = allowMirror && P(0.1);
        auto& p = mirror ? REFL[R(24)] : ROT[R(24)];
        VI L(8); for (int i = 0; i < 8; ++i) L[i] = base[p[i]];
        Model md = read_model(m);
        static const int FQ[6][4] = {{3,2,1,0},{7,6,5,4},{1,2,6,7},{4,5,3,0},{1,7,4,0},{2,3,5,6}};
        bool freeAll = true; for (auto& q : FQ) if (!hf_free(md, {L[q[0]],L[q[1]],L[q[2]],L[q[3]]})) freeAll = false;
        for (int c2 = 0; c2 < (int)md.C.size(); ++c2) if (!md.cdel[c2]) { std::set<int> s; for (int hf : md.C[c2]) for (int v : md.hf_vs(hf)) s.insert(v); if (s == std::set<int>(L.begin(), L.end())) return; }
        bool check = !freeAll || P(0.5);
        std::vector<VertexHandle> vs; for (int x : L) vs.push_back(VertexHandle(x));
        int r = m.add_cell(vs, check).idx();
        log("add_cell(vertices " + str(L) + (check ? ",check" : "") + (mirror ? ",mirrored" : "") + ") -> " + std::to_string(r));
        if (freeAll && r != (int)md.C.size()) FAILS.fail("C16.add_cell_vertices.valid_rejected", str(L));
        if (!freeAll && r >= 0) FAILS.fail("C16.add_cell_vertices.conflicting_accepted", str(L));
        if (r >= 0) { Model m2 = read_model(m); for (int i = 0; i < 6; ++i) { auto& q = FQ[i]; if (!cyc_eq(m2.hf_vs(m2.C[r][i]), {L[q[0]],L[q[1]],L[q[2]],L[q[3]]})) FAILS.fail("C16.add_cell_vertices.wrong_faces", ""); } }
    }

    void lattice() {
        int nx = 1 + R(3), ny = 1 + R(3), nz = 1 + R(2); bool wrap = P(0.3) && nx == 3;
        int X = wrap ? nx : nx + 1;
        std::vector<int> V((size_t)X*(ny+1)*(nz+1));
        for (auto& v : V) v = op_add_vertex();
        auto id = [&](int i, int j, int k) { return V[((size_t)(i % X)*(ny+1) + j)*(nz+1) + k]; };
        std::vector<std::array<int,3>> cells; for (int i = 0; i < nx; ++i) for (int j = 0; j < ny; ++j) for (int k = 0; k < nz; ++k) if (P(0.85)) cells.push_back({i,j,k});
        std::shuffle(cells.begin(), cells.end(), rng);
        for (auto& c : cells) { int i = c[0], j = c[1], k = c[2];
            add_hex({id(i,j,k),id(i+1,j,k),id(i+1,j+1,k),id(i,j+1,k)}, {id(i,j,k+1),id(i+1,j,k+1),id(i+1,j+1,k+1),id(i,j+1,k+1)}, true); }
    }
    void prism() { // k hexes around a common axis edge (sheets bend, edge valence k)
        int k = 3 + R(3); int c0 = op_add_vertex(), c1 = op_add_vertex(); VI r0, r1; for (int i = 0; i < 2*k; ++i) { r0.push_back(op_add_vertex()); r1.push_back(op_add_vertex()); }
        VI order; for (int i = 0; i < k; ++i) if (P(0.9)) order.push_back(i); std::shuffle(order.begin(), order.end(), rng);
        for (int i : order) add_hex({c0, r0[2*i], r0[2*i+1], r0[(2*i+2)%(2*k)]}, {c1, r1[2*i], r1[2*i+1], r1[(2*i+2)%(2*k)]}, true);
    }
    void grow_on_boundary() {
        Model md = read_model(m); VI cand;
        for (int f = 0; f < (int)md.F.size(); ++f) if (!md.fdel[f]) for (int s = 0; s < 2; ++s) if (hf_free(md, md.hf_vs(2*f+s)) && !hf_free(md, md.hf_vs(2*f+(s^1)))) cand.push_back(2*f+s);
        if (cand.empty()) return; VI a = md.hf_vs(cand[R((int)cand.size())]);
        // new hex must contain this free halfface: XF of add_cell is (3,2,1,0) => front quad is the reverse of the halfface
        std::reverse(a.begin(), a.end());
        VI b; for (int i = 0; i < 4; ++i) b.push_back(op_add_vertex());
        add_hex(a, b, false);
    }

    // ---- handle based add_cell: permutations of a valid cube and invalid lists
    void perm_test() {
        int base[8]; for (int& v : base) v = op_add_vertex();
        static const int FQ[6][4] = {{3,2,1,0},{7,6,5,4},{1,2,6,7},{4,5,3,0},{1,7,4,0},{2,3,5,6}};
        VI hfs;
        for (auto& q : FQ) { VI f = {base[q[0]],base[q[1]],base[q[2]],base[q[3]]}; std::rotate(f.begin(), f.begin()+R(4), f.end()); bool rev = P(0.5); if (rev) std::reverse(f.begin(), f.end());
            int fh = op_add_face_vs(f); hfs.push_back(2*fh + (rev ? 1 : 0)); }
        VI good = hfs; std::shuffle(hfs.begin(), hfs.end(), rng);
        int kind = R(10);
        if (kind >= 5) { // valid permutation
            Snap before = snapshot(m); Model md = read_model(m);
            std::vector<HalfFaceHandle> h; for (int x : hfs) h.push_back(HalfFaceHandle(x));
            int r = m.add_cell(h, true).idx(); log("add_cell(hfs " + str(hfs) + ",check) -> " + std::to_string(r));
            if (r < 0) { ++ST_perm_rej; FAILS.fail("C11/C16.add_cell.valid_permutation_rejected", str(hfs)); if (!(before == snapshot(m))) FAILS.fail("C16.add_cell.rejected.mesh_changed", ""); }
            else { ++ST_perm_acc; Model m2 = read_model(m); VI a = m2.C[r], b = hfs; std::sort(a.begin(), a.end()); std::sort(b.begin(), b.end()); if (a != b || r != (int)md.C.size()) FAILS.fail("C16.add_cell.accepted.not_a_permutation_of_input", str(hfs) + " stored " + str(m2.C[r])); }
        } else {
            VI lf = live_f();
            if (kind == 0) hfs.erase(hfs.begin() + R(6));
            else if (kind == 1) hfs[R(6)] = hfs[R(6)]; // possibly doubled
            else if (kind == 2) hfs[R(6)] ^= 1;
            else if (kind == 3) hfs[R(6)] = 2*lf[R((int)lf.size())] + R(2);
            else { int i = R(6); hfs.push_back(hfs[i]); }
            op_add_cell(hfs, true);
            Model md = read_model(m); (md.C.size() && !md.cdel.back() && md.C.back() == hfs ? ST_bad_acc : ST_bad_rej)++;
        }
    }
    // random closed surfaces of six quads (cube or not)
    void noncube_test() {
        // glue 24 edge sides pairwise at random, orientably
        int par[24]; VI sides(24); std::vector<std::pair<int,int>> pairs; std::map<int,int> vid;
        std::function<int(int)> fnd = [&](int x) { return par[x] == x ? x : par[x] = fnd(par[x]); };
        bool found = false;
        for (int attempt = 0; attempt < 3000 && !found; ++attempt) {
            for (int i = 0; i < 24; ++i) { sides[i] = i; par[i] = i; } std::shuffle(sides.begin(), sides.end(), rng); pairs.clear(); vid.clear();
            bool bad = false;
            for (int i = 0; i < 24; i += 2) { int s = sides[i], t = sides[i+1]; if (s/4 == t/4) { bad = true; break; } pairs.push_back({s,t});
                int s0 = s, s1 = 4*(s/4) + (s%4+1)%4, t0 = t, t1 = 4*(t/4) + (t%4+1)%4; par[fnd(s0)] = fnd(t1); par[fnd(s1)] = fnd(t0); }
            if (bad) continue;
            for (int i = 0; i < 24; ++i) vid[fnd(i)] = -1;
            if (vid.size() != 8) continue;
            for (int q = 0; q < 6 && !bad; ++q) { std::set<int> s; for (int c = 0; c < 4; ++c) s.insert(fnd(4*q+c)); if (s.size() != 4) bad = true; }
            if (bad) continue;
            found = true;
        }
        if (!found) return;
        for (auto& kv : vid) kv.second = op_add_vertex();
        // one edge per glued pair (parallel edges allowed)
        VI sideHe(24);
        for (auto& pr : pairs) { int s = pr.first, t = pr.second; int u = vid[fnd(s)], v = vid[fnd(4*(s/4) + (s%4+1)%4)];
            int e = m.add_edge(VertexHandle(u), VertexHandle(v), true).idx(); log("add_edge(" + std::to_string(u) + "," + std::to_string(v) + ",dup) -> " + std::to_string(e)); sideHe[s] = 2*e; sideHe[t] = 2*e+1; }
        VI hfs; for (int q = 0; q < 6; ++q) { VI hes = {sideHe[4*q], sideHe[4*q+1], sideHe[4*q+2], sideHe[4*q+3]}; int f = op_add_face_hes(hes, true); if (f < 0) return; hfs.push_back(2*f); }
        Model md = read_model(m); if (!Model::closed_surface(md, hfs)) return;
        ++ST_noncube_closed;
        // is it a cube? every face has 4 distinct neighbours and one non-neighbour sharing no vertex
        bool cube = true;
        for (int i = 0; i < 6 && cube; ++i) { std::set<int> nb; for (int he : md.hf_hes(hfs[i])) for (int j = 0; j < 6; ++j) if (j != i) { VI gh = md.hf_hes(hfs[j]); if (std::count(gh.begin(), gh.end(), he^1)) nb.insert(j); }
            if (nb.size() != 4) { cube = false; break; } int o = -1; for (int j = 0; j < 6; ++j) if (j != i && !nb.count(j)) o = j; VI a = md.hf_vs(hfs[i]), b = md.hf_vs(hfs[o]); for (int v : a) if (std::count(b.begin(), b.end(), v)) cube = false; }
        std::shuffle(hfs.begin(), hfs.end(), rng);
        Snap before = snapshot(m);
        std::vector<HalfFaceHandle> h; for (int x : hfs) h.push_back(HalfFaceHandle(x));
        int r = m.add_cell(h, true).idx(); log("add_cell(hfs " + str(hfs) + ",check) [random quad sphere, cube=" + std::to_string(cube) + "] -> " + std::to_string(r));
        if (!cube) { ++ST_noncube; if (r >= 0) FAILS.fail("C16.add_cell.closed_noncube_accepted", str(hfs)); else if (!(before == snapshot(m))) FAILS.fail("C16.add_cell.rejected.mesh_changed", ""); }
        else if (r < 0) FAILS.fail("C11/C16.add_cell.valid_permutation_rejected", str(hfs));
    }

    bool extra_op(int) override {
        int k = R(100);
        VI lv = live_v(), le = live_e(), lf = live_f(), lc = live_c();
        if (k < 10) lattice();
        else if (k < 16) prism();
        else if (k < 36) grow_on_boundary();
        else if (k < 52) perm_test();
        else if (k < 62) noncube_test();
        else if (k < 70 && !lc.empty()) { int c = lc[R((int)lc.size())]; log("delete_cell " + std::to_string(c)); m.delete_cell(CellHandle(c)); }
        else if (k < 74 && !lf.empty()) { int f = lf[R((int)lf.size())]; log("delete_face " + std::to_string(f)); m.delete_face(FaceHandle(f)); }
        else if (k < 77 && !le.empty()) { int e = le[R((int)le.size())]; log("delete_edge " + std::to_string(e)); m.delete_edge(EdgeHandle(e)); }
        else if (k < 79 && !lv.empty()) { int v = lv[R((int)lv.size())]; log("delete_vertex " + std::to_string(v)); m.delete_vertex(VertexHandle(v)); }
        else if (k < 84) { log("collect_garbage"); m.collect_garbage(); }
        else if (k < 88) { bool b = P(0.5); log(std::string("enable_deferred_deletion ") + (b ? "1" : "0")); m.enable_deferred_deletion(b); }
        else if (k < 92) { bool b = P(0.5); log(std::string("enable_fast_deletion ") + (b ? "1" : "0")); m.enable_fast_deletion(b); }
        else if (k < 96 && le.size() >= 2) { VI hes; int n = 2 + R(4); for (int j = 0; j < n; ++j) hes.push_back(2*le[R((int)le.size())] + R(2)); op_add_face_hes(hes, true); }
        else if (!lf.empty()) { VI hfs; int n = 4 + R(4); for (int j = 0; j < n; ++j) hfs.push_back(2*lf[R((int)lf.size())] + R(2)); op_add_cell(hfs, true); }
        return true;
    }
    void after_op() override {
        Model md = read_model(m); VI hfcell(2*md.F.size(), -1);
        for (int c = 0; c < (int)md.C.size(); ++c) if (!md.cdel[c]) for (int hf : md.C[c]) hfcell[hf] = c;
        check_hex_cells(m, md, hfcell);
    }
};

int main(int argc, char** argv) {
    install_crash_handler(&FAILS);
    int nseeds = argc > 1 ? atoi(argv[1]) : 200; int first = argc > 2 ? atoi(argv[2]) : 1; FLAGS = 1;
    for (int s = first; s < first + nseeds; ++s) { HexTester t(s); t.run(10 + s % 15); }
    FAILS.hist = nullptr;
    FAILS.report();
    std::cout << "stats: cell checks " << ST_cells << ", valid permutations accepted " << ST_perm_acc << " rejected " << ST_perm_rej << ", invalid lists accepted " << ST_bad_acc << " rejected " << ST_bad_rej
              << ", random closed quad spheres " << ST_noncube_closed << " (non-cube " << ST_noncube << "), on_sheet checks " << ST_sheet << ", surface checks " << ST_surface << "\n";
    return FAILS.count.empty() ? 0 : 1;
}
