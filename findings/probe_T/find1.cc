// find1: without vertex bottom-up incidences, add_edge(u,v) (no duplicates allowed) "finds" an edge that has
// been deleted (deferred deletion, the default) and returns the deleted edge instead of creating a new one (C11).
// add_face(vertices) then builds a face on the deleted edge.
// build: g++ -std=c++17 -I/tmp/probe/T/src -I/tmp/probe/T/_build/src find1.cc -o find1 /tmp/probe/T/_build/Build/lib/libOpenVolumeMesh.a
// ANALYSIS
//   Responsible: TopologyKernel::add_edge, src/OpenVolumeMesh/Core/TopologyKernel.cc:134-141 (the branch taken when
//   has_vertex_bottom_up_incidences() is false): the linear search over edges_ compares from/to of EVERY stored edge
//   and never looks at edge_deleted_. With vertex bottom-up incidences the bug is masked because delete_edge_core
//   (TopologyKernel.cc:1069-1087) removes the halfedges of a deleted edge from outgoing_hes_per_vertex_ right away.
//   Consequences: add_edge returns a deleted handle; add_face(vertices) (TopologyKernel.cc:255/263) builds a live face
//   on it (assert in debug builds, TopologyKernel.cc:180); the next collect_garbage removes the edge under the face.
//   Minimal fix: in that loop skip deleted edges:  `if (is_deleted(EdgeHandle(i))) continue;`
#include <OpenVolumeMesh/Core/TopologyKernel.hh>
#include <iostream>
using namespace OpenVolumeMesh;
int main() {
    int rc = 0;
    for (int vbu = 1; vbu >= 0; --vbu) {
        TopologyKernel m;                               // deferred deletion is on by default
        m.enable_vertex_bottom_up_incidences(vbu);
        VertexHandle a = m.add_vertex(), b = m.add_vertex(), c = m.add_vertex();
        EdgeHandle e = m.add_edge(a, b);
        m.delete_edge(e);
        EdgeHandle e2 = m.add_edge(a, b);
        std::cout << "vertex bottom-up " << vbu << ": add_edge after delete_edge returned " << e2.idx() << ", is_deleted=" << m.is_deleted(e2)
                  << ", n_edges=" << m.n_edges() << ", n_logical_edges=" << m.n_logical_edges() << "\n";
        if (m.is_deleted(e2) || m.n_logical_edges() != 1) { std::cout << "  FAIL (C11): add_edge must return a live edge and create exactly one when no live edge joins the vertices\n"; rc = 1; }
        FaceHandle f = m.add_face(std::vector<VertexHandle>{a, b, c});
        bool bad = false; for (auto h : m.face(f).halfedges()) if (m.is_deleted(h)) bad = true;
        if (bad) { std::cout << "  FAIL: add_face(vertices) built live face " << f.idx() << " on a deleted edge\n"; rc = 1; }
        m.collect_garbage();
        if (m.n_faces() == 1 && m.face(FaceHandle(0)).halfedges().size() != 3) { std::cout << "  after collect_garbage the face has " << m.face(FaceHandle(0)).halfedges().size() << " halfedges (no longer a closed loop)\n"; rc = 1; }
    }
    return rc;
}
