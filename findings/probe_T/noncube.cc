// Search: closed surfaces of six quads on eight vertices that are NOT cubes but are accepted by
// HexahedralMeshTopologyKernel::add_cell(halffaces, topologyCheck=true).
// build: g++ -std=c++17 -O1 -g -I/tmp/probe/T/src -I/tmp/probe/T/_build/src noncube.cc -o noncube /tmp/probe/T/_build/Build/lib/libOpenVolumeMesh.a
#include "common.hh"
#include <functional>
typedef HexahedralMeshTopologyKernel HK;
int main(int argc, char** argv) {
    int N = argc > 1 ? atoi(argv[1]) : 20000; std::mt19937 rng(7);
    long closed = 0, noncube = 0, acc_simple = 0, acc_par = 0, simple_noncube = 0; std::set<std::string> shown;
    for (int it = 0; it < N; ++it) {
        int par[24]; VI sides(24); std::vector<std::pair<int,int>> pairs; std::map<int,int> vid;
        std::function<int(int)> fnd = [&](int x) { return par[x] == x ? x : par[x] = fnd(par[x]); };
        for (int i = 0; i < 24; ++i) { sides[i] = i; par[i] = i; } std::shuffle(sides.begin(), sides.end(), rng);
        bool bad = false;
        for (int i = 0; i < 24; i += 2) { int s = sides[i], t = sides[i+1]; if (s/4 == t/4) { bad = true; break; } pairs.push_back({s,t});
            int s1 = 4*(s/4) + (s%4+1)%4, t1 = 4*(t/4) + (t%4+1)%4; par[fnd(s)] = fnd(t1); par[fnd(s1)] = fnd(t); }
        if (bad) continue;
        for (int i = 0; i < 24; ++i) vid[fnd(i)] = -1;
        if (vid.size() != 8) continue;
        for (int q = 0; q < 6 && !bad; ++q) { std::set<int> s; for (int c = 0; c < 4; ++c) s.insert(fnd(4*q+c)); if (s.size() != 4) bad = true; }
        if (bad) continue;
        int nv = 0; for (auto& kv : vid) kv.second = nv++;
        std::set<std::pair<int,int>> es; bool parallel = false;
        std::vector<std::array<int,3>> edgeList; VI sideHe(24);
        for (auto& pr : pairs) { int s = pr.first, t = pr.second; int u = vid[fnd(s)], v = vid[fnd(4*(s/4)+(s%4+1)%4)];
            if (!es.insert({std::min(u,v), std::max(u,v)}).second) parallel = true; edgeList.push_back({u, v, 0}); sideHe[s] = 2*((int)edgeList.size()-1); sideHe[t] = sideHe[s]+1; }
        for (int trial = 0; trial < 20; ++trial) {
            HK m; for (int i = 0; i < 8; ++i) m.add_vertex();
            for (auto& e : edgeList) m.add_edge(VertexHandle(e[0]), VertexHandle(e[1]), true);
            VI hfs; std::vector<VI> faces;
            for (int q = 0; q < 6; ++q) { std::vector<HalfEdgeHandle> hes; VI hh; for (int c = 0; c < 4; ++c) { hes.push_back(HalfEdgeHandle(sideHe[4*q+c])); hh.push_back(sideHe[4*q+c]); }
                std::rotate(hes.begin(), hes.begin() + rng()%4, hes.end());
                int f = m.add_face(hes, true).idx(); if (f < 0) { bad = true; break; } hfs.push_back(2*f); faces.push_back(hh); }
            if (bad) break;
            Model md = read_model(m); if (!Model::closed_surface(md, hfs)) { bad = true; break; }
            bool cube = true;
            for (int i = 0; i < 6 && cube; ++i) { std::set<int> nb; for (int he : md.hf_hes(hfs[i])) for (int j = 0; j < 6; ++j) if (j != i) { VI gh = md.hf_hes(hfs[j]); if (std::count(gh.begin(), gh.end(), he^1)) nb.insert(j); }
                if (nb.size() != 4) { cube = false; break; } int o = -1; for (int j = 0; j < 6; ++j) if (j != i && !nb.count(j)) o = j; VI a = md.hf_vs(hfs[i]), b = md.hf_vs(hfs[o]); for (int v : a) if (std::count(b.begin(), b.end(), v)) cube = false; }
            if (trial == 0) { ++closed; if (!cube) { ++noncube; if (!parallel) ++simple_noncube; } }
            if (cube) break;
            VI p = hfs; std::shuffle(p.begin(), p.end(), rng);
            std::vector<HalfFaceHandle> h; for (int x : p) h.push_back(HalfFaceHandle(x));
            int r = m.add_cell(h, true).idx();
            if (r >= 0) {
                (parallel ? acc_par : acc_simple)++;
                std::ostringstream o; o << (parallel ? "parallel-edges " : "SIMPLE ") << "faces(vertex cycles):"; for (int q = 0; q < 6; ++q) o << " " << str(md.hf_vs(2*q));
                std::string key = parallel ? "par" : "simple";
                if (shown.insert(key).second || (!parallel && shown.size() < 6 && shown.insert(o.str()).second)) {
                    std::cout << "ACCEPTED non-cube: " << o.str() << "\n  edges:"; for (auto& e : edgeList) std::cout << " (" << e[0] << "," << e[1] << ")";
                    std::cout << "\n  faces(halfedges as stored):"; for (int q = 0; q < 6; ++q) std::cout << " " << str(md.F[q]);
                    std::cout << "\n  input order " << str(p) << " stored " << str(read_model(m).C[0]) << "\n";
                }
                break;
            }
        }
    }
    std::cout << "closed quad spheres " << closed << ", non-cube " << noncube << " (simple graph: " << simple_noncube << "), accepted non-cube with parallel edges " << acc_par << ", without " << acc_simple << "\n";
}
