// find2: a cell made of both halffaces of one face ("pillow") passes add_cell's topology check (it is a closed
// surface, every halfedge matched exactly once by its opposite), but adjacent_halfface_in_cell never returns the
// other halfface of that cell at an edge: it returns the invalid handle (C09: "including cells containing both
// halffaces of a face").
// build: g++ -std=c++17 -I/tmp/probe/T/src -I/tmp/probe/T/_build/src find2.cc -o find2 /tmp/probe/T/_build/Build/lib/libOpenVolumeMesh.a
// ANALYSIS
//   Responsible: TopologyKernel::adjacent_halfface_in_cell, src/OpenVolumeMesh/Core/TopologyKernel.cc:2284:
//       if(opposite_halfedge_handle(heh) == _halfEdgeHandle && hfh != opposite_halfface_handle(_halfFaceHandle))
//   The opposite halfface of the query is excluded unconditionally (meant for cells that touch themselves across a
//   face and have four halffaces at the edge). In a cell that contains both halffaces of a face and nothing else at
//   that edge (a "pillow", accepted by add_cell's topology check, TopologyKernel.cc:400-446) the opposite halfface IS
//   the unique other halfface at the edge, so the function returns InvalidHalfFaceHandle although the halfface is not
//   at a boundary. Knock-on: find_halfface_in_cell (TopologyKernel.cc:2027-2028) feeds that invalid handle into
//   next_halfedge_in_halfface; reorder_incident_halffaces gives up (TopologyKernel.cc:324-327).
//   Minimal fix: treat the opposite halfface as a fallback, i.e. remember it when it contains the opposite halfedge and
//   return it if the loop finds no other candidate (instead of `return InvalidHalfFaceHandle` at line 2300).
#include <OpenVolumeMesh/Core/TopologyKernel.hh>
#include <iostream>
using namespace OpenVolumeMesh;
int main() {
    TopologyKernel m;
    VertexHandle a = m.add_vertex(), b = m.add_vertex(), c = m.add_vertex();
    FaceHandle f = m.add_face(std::vector<VertexHandle>{a, b, c});
    HalfFaceHandle h0 = m.halfface_handle(f, 0), h1 = m.halfface_handle(f, 1);
    CellHandle ch = m.add_cell({h0, h1}, true);
    std::cout << "add_cell({hf0,hf1}, topologyCheck=true) -> " << ch.idx() << "\n";
    if (!ch.is_valid()) { std::cout << "pillow rejected (then C11 'closed surface accepted' is the question instead)\n"; return 1; }
    int rc = 0;
    for (auto he : m.halfface(h0).halfedges()) {
        HalfFaceHandle r = m.adjacent_halfface_in_cell(h0, he);
        std::cout << "adjacent_halfface_in_cell(hf" << h0.idx() << ", he" << he.idx() << ") = " << r.idx() << " (the only other halfface of the cell at that edge is hf" << h1.idx() << ")\n";
        if (r != h1) rc = 1;
        else if (m.adjacent_halfface_in_cell(r, he) != h0) rc = 1;
    }
    if (rc) std::cout << "FAIL (C09): inside a closed cell adjacent_halfface_in_cell must return the unique other halfface of that cell at the edge, and twice must return the start\n";
    return rc;
}
