// misc exhaustive checks: C08 handle conversions over [0,2^30); hex add_cell with all 720 halfface permutations x face
// rotations/sides of a valid cube; hex add_cell(8 vertices) in all 48 symmetric orderings.
// build: g++ -std=c++17 -O2 -I/tmp/probe/T/src -I/tmp/probe/T/_build/src misc.cc -o misc /tmp/probe/T/_build/Build/lib/libOpenVolumeMesh.a
#include "tester.hh"
typedef HexahedralMeshTopologyKernel HK;
static const int PC[8][3] = {{0,0,0},{1,0,0},{1,1,0},{0,1,0},{0,0,1},{0,1,1},{1,1,1},{1,0,1}};
int main() {
    long bad = 0;
    for (int i = 0; i < (1 << 30); ++i) {
        EdgeHandle e(i); FaceHandle f(i);
        for (int s = 0; s < 2; ++s) {
            HalfEdgeHandle h = TopologyKernel::halfedge_handle(e, s); HalfFaceHandle g = TopologyKernel::halfface_handle(f, s);
            if (h.idx() != 2*i+s || TopologyKernel::edge_handle(h) != e || h.subidx() != s || h.edge_handle() != e || e.halfedge_handle(s) != h) ++bad;
            if (TopologyKernel::opposite_halfedge_handle(h).idx() != 2*i+(1-s) || TopologyKernel::opposite_halfedge_handle(TopologyKernel::opposite_halfedge_handle(h)) != h || h.opposite_handle() != TopologyKernel::opposite_halfedge_handle(h)) ++bad;
            if (g.idx() != 2*i+s || TopologyKernel::face_handle(g) != f || g.subidx() != s || g.face_handle() != f || f.halfface_handle(s) != g) ++bad;
            if (TopologyKernel::opposite_halfface_handle(g).idx() != 2*i+(1-s) || TopologyKernel::opposite_halfface_handle(TopologyKernel::opposite_halfface_handle(g)) != g || g.opposite_handle() != TopologyKernel::opposite_halfface_handle(g)) ++bad;
        }
    }
    std::cout << "C08 conversions over [0,2^30): " << bad << " mismatches\n";
    // hex permutations
    static const int FQ[6][4] = {{3,2,1,0},{7,6,5,4},{1,2,6,7},{4,5,3,0},{1,7,4,0},{2,3,5,6}};
    std::mt19937 rng(3); long acc = 0, rej = 0, badlayout = 0;
    int perm[6] = {0,1,2,3,4,5};
    do { for (int variant = 0; variant < 8; ++variant) {
        HK m; for (int i = 0; i < 8; ++i) m.add_vertex(); VI hfs;
        for (auto& q : FQ) { VI f = {q[0],q[1],q[2],q[3]}; std::rotate(f.begin(), f.begin() + rng()%4, f.end()); bool rev = rng()%2; if (rev) std::reverse(f.begin(), f.end());
            std::vector<VertexHandle> v; for (int x : f) v.push_back(VertexHandle(x)); hfs.push_back(2*m.add_face(v).idx() + rev); }
        std::vector<HalfFaceHandle> in; for (int i : perm) in.push_back(HalfFaceHandle(hfs[i]));
        CellHandle c = m.add_cell(in, true);
        if (!c.is_valid()) { ++rej; continue; } ++acc;
        Model md = read_model(m); VI hfcell(2*md.F.size(), -1); for (int hf : md.C[0]) hfcell[hf] = 0;
        size_t before = FAILS.count.size(); extern void chk(HK&, const Model&, const VI&); 
        // layout check (same as hex.cc)
        const VI& H = md.C[0]; bool ok = true;
        for (int k = 0; k < 3; ++k) { VI a = md.hf_vs(H[2*k]), b = md.hf_vs(H[2*k+1]); for (int v : a) if (std::count(b.begin(), b.end(), v)) ok = false; }
        VI walk; for (int he : md.hf_hes(H[0])) for (int j = 1; j < 6; ++j) { VI gh = md.hf_hes(H[j]); if (std::count(gh.begin(), gh.end(), he^1)) walk.push_back(j); }
        if (!ok || !TesterT<HK>::cyc_eq(walk, VI{2,4,3,5})) ++badlayout; (void)before;
    } } while (std::next_permutation(perm, perm+6));
    std::cout << "hex add_cell(halffaces,check) on valid cubes, 720 permutations x 8 variants: accepted " << acc << " rejected " << rej << " accepted-with-bad-layout " << badlayout << "\n";
    // 48 vertex orderings
    long a48 = 0, bad48 = 0; int ax[3] = {0,1,2};
    do for (int s = 0; s < 8; ++s) { int sg[3] = {s&1?-1:1, s&2?-1:1, s&4?-1:1}; int p[8];
        for (int i = 0; i < 8; ++i) { int q[3]; for (int k = 0; k < 3; ++k) { int c = PC[i][ax[k]]; q[k] = sg[k] == 1 ? c : 1-c; } for (int j = 0; j < 8; ++j) if (PC[j][0]==q[0]&&PC[j][1]==q[1]&&PC[j][2]==q[2]) p[i] = j; }
        for (int chk = 0; chk < 2; ++chk) { HK m; for (int i = 0; i < 8; ++i) m.add_vertex(); std::vector<VertexHandle> v; for (int i = 0; i < 8; ++i) v.push_back(VertexHandle(p[i]));
            CellHandle c = m.add_cell(v, chk); if (!c.is_valid()) { ++bad48; continue; } ++a48;
            Model md = read_model(m); const VI& H = md.C[0]; bool ok = md.cell_closed(0);
            for (int k = 0; k < 3; ++k) { VI a = md.hf_vs(H[2*k]), b = md.hf_vs(H[2*k+1]); for (int x : a) if (std::count(b.begin(), b.end(), x)) ok = false; }
            VI walk; for (int he : md.hf_hes(H[0])) for (int j = 1; j < 6; ++j) { VI gh = md.hf_hes(H[j]); if (std::count(gh.begin(), gh.end(), he^1)) walk.push_back(j); }
            VI hv; for (auto it = m.hv_iter(c); it.valid(); ++it) hv.push_back(it->idx());
            VI ex; for (int i = 0; i < 8; ++i) ex.push_back(p[i]);
            bool rotok = false; for (int r = 0; r < 4; ++r) { bool o = hv.size() == 8; for (int i = 0; i < 4 && o; ++i) if (hv[i] != ex[(i+r)%4] || hv[4+i] != ex[4+((i-r)%4+4)%4]) o = false; if (o) rotok = true; }
            if (!ok || !TesterT<HK>::cyc_eq(walk, VI{2,4,3,5}) || !rotok) { ++bad48; std::cout << "  ordering " << str(ex) << " hex_vertices " << str(hv) << " walk " << str(walk) << "\n"; } } }
    while (std::next_permutation(ax, ax+3));
    std::cout << "hex add_cell(8 vertices) in 48 orderings x {check,nocheck}: accepted " << a48 << ", bad/rejected " << bad48 << " (hex_vertices must reproduce the given order up to a rotation about the first axis)\n";
    return bad || rej || badlayout || bad48;
}
