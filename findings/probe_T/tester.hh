#pragma once
#include "common.hh"

static Failures FAILS;
static int FLAGS = 7;
static long ST_ring=0, ST_open=0, ST_ring3=0, ST_open3=0, ST_adj=0, ST_reject=0, ST_accept=0;

template <class M> struct TesterT {
    M m;
    std::mt19937 rng;
    std::vector<std::string> hist;
    VertexPropertyT<int> vp = m.template request_vertex_property<int>("vp", -1);
    EdgePropertyT<int> ep = m.template request_edge_property<int>("ep", -1);
    HalfEdgePropertyT<int> hep = m.template request_halfedge_property<int>("hep", -1);
    FacePropertyT<int> fp = m.template request_face_property<int>("fp", -1);
    HalfFacePropertyT<int> hfp = m.template request_halfface_property<int>("hfp", -1);
    CellPropertyT<int> cp = m.template request_cell_property<int>("cp", -1);
    bool broken = false; // set_* never used; kept for clarity

    explicit TesterT(unsigned seed) : rng(seed) {
        FAILS.hist = &hist; FAILS.tag = "seed " + std::to_string(seed);
        g_propsizes = [this]() { return VI{(int)vp.size(), (int)ep.size(), (int)hep.size(), (int)fp.size(), (int)hfp.size(), (int)cp.size()}; };
    }
    int R(int n) { return n <= 0 ? 0 : (int)(rng() % (unsigned)n); }
    bool P(double p) { return (rng() % 10000) < p * 10000; }
    void log(const std::string& s) { hist.push_back(s); }

    VI live_v() { VI r; for (int i = 0; i < (int)m.n_vertices(); ++i) if (!m.is_deleted(VertexHandle(i))) r.push_back(i); return r; }
    VI live_e() { VI r; for (int i = 0; i < (int)m.n_edges(); ++i) if (!m.is_deleted(EdgeHandle(i))) r.push_back(i); return r; }
    VI live_f() { VI r; for (int i = 0; i < (int)m.n_faces(); ++i) if (!m.is_deleted(FaceHandle(i))) r.push_back(i); return r; }
    VI live_c() { VI r; for (int i = 0; i < (int)m.n_cells(); ++i) if (!m.is_deleted(CellHandle(i))) r.push_back(i); return r; }

    // ---------------- construction ops with C11 checks ----------------
    int op_add_vertex() { int v = m.add_vertex().idx(); log("add_vertex -> " + std::to_string(v)); return v; }

    void avoid_f1() { // FLAGS bit3: work around finding 1 (add_edge returns deleted edges without vertex bottom-up incidences)
        if ((FLAGS & 8) && !m.has_vertex_bottom_up_incidences() && m.n_logical_edges() != m.n_edges()) { log("collect_garbage (avoid F1)"); m.collect_garbage(); }
    }
    int op_add_edge(int u, int v, bool dup) {
        Model md = read_model(m); Snap before = snapshot(m);
        VI existing;
        for (int e = 0; e < (int)md.E.size(); ++e) if (!md.edel[e] &&
            ((md.E[e].first == u && md.E[e].second == v) || (md.E[e].first == v && md.E[e].second == u))) existing.push_back(e);
        int r = m.add_edge(VertexHandle(u), VertexHandle(v), dup).idx();
        std::ostringstream o; o << "add_edge(" << u << "," << v << (dup ? ",dup" : "") << ") -> " << r
            << " [vbu=" << m.has_vertex_bottom_up_incidences() << "]"; log(o.str());
        Snap after = snapshot(m);
        if (!dup && !existing.empty()) {
            if (std::find(existing.begin(), existing.end(), r) == existing.end())
                FAILS.fail("C11.add_edge.dedup.returns_other", "expected one of " + str(existing) + " got " + std::to_string(r) +
                           (r >= 0 && r < (int)md.edel.size() && md.edel[r] ? " (a DELETED edge)" : ""));
            if (!(before == after)) FAILS.fail("C11.add_edge.dedup.mesh_changed", before.diff(after));
        } else {
            if (r != (int)md.E.size()) {
                FAILS.fail("C11.add_edge.new.not_appended", "returned " + std::to_string(r) + " n_edges before " + std::to_string(md.E.size()) +
                           (r >= 0 && r < (int)md.edel.size() && md.edel[r] ? " (a DELETED edge)" : ""));
            } else {
                Model m2 = read_model(m);
                if ((int)m2.E.size() != (int)md.E.size() + 1 || m2.E.back() != std::make_pair(u, v))
                    FAILS.fail("C11.add_edge.new.wrong_def", "");
            }
        }
        return r;
    }

    int op_add_face_vs(const VI& vs) {
        std::vector<VertexHandle> v; for (int x : vs) v.push_back(VertexHandle(x));
        int r = m.add_face(v).idx();
        log("add_face(vertices " + str(vs) + ") -> " + std::to_string(r));
        if (r < 0) { FAILS.fail("C08.add_face_vs.rejected", str(vs)); return r; }
        Model md = read_model(m);
        if (!md.face_closed(r)) FAILS.fail("C08.add_face_vs.not_closed", str(vs) + " hes " + str(md.F[r]));
        else if (md.hf_vs(2*r) != vs) FAILS.fail("C08.add_face_vs.wrong_vertices", str(vs) + " got " + str(md.hf_vs(2*r)));
        for (int h : md.F[r]) if (md.edel[h/2]) { FAILS.fail("C11.add_face_vs.uses_deleted_edge", str(vs) + " hes " + str(md.F[r])); break; }
        return r;
    }

    int op_add_face_hes(const VI& hes, bool check) {
        Model md = read_model(m); Snap before = snapshot(m);
        bool closed = !hes.empty();
        for (size_t i = 0; i < hes.size(); ++i) if (md.to(hes[i]) != md.from(hes[(i+1)%hes.size()])) closed = false;
        std::vector<HalfEdgeHandle> h; for (int x : hes) h.push_back(HalfEdgeHandle(x));
        int r = m.add_face(h, check).idx();
        log("add_face(hes " + str(hes) + (check ? ",check" : "") + ") -> " + std::to_string(r));
        Snap after = snapshot(m);
        bool expect = (closed || (!check && !hes.empty())) && kernel_accepts_face(hes);
        if (expect != (r >= 0)) FAILS.fail(std::string("C11.add_face.") + (expect ? "valid_rejected" : "invalid_accepted"), str(hes));
        if (r < 0) { if (!(before == after)) FAILS.fail("C11.add_face.rejected.mesh_changed", before.diff(after)); }
        else {
            Model m2 = read_model(m);
            if (r != (int)md.F.size() || m2.F.size() != md.F.size() + 1 || m2.F.back() != hes) FAILS.fail("C11.add_face.accepted.wrong_def", str(hes));
        }
        return r;
    }

    int op_add_cell(const VI& hfs, bool check) {
        Model md = read_model(m); Snap before = snapshot(m);
        bool closed = Model::closed_surface(md, hfs);
        bool geom_closed = closed;
        closed = closed && kernel_accepts_cell(md, hfs);
        if (geom_closed || !check) {
            // avoid producing halffaces with two cells (outside every statement)
            if (!geom_closed) return -2;
            for (int hf : hfs) for (int c = 0; c < (int)md.C.size(); ++c) if (!md.cdel[c])
                if (std::find(md.C[c].begin(), md.C[c].end(), hf) != md.C[c].end()) return -2;
            std::set<int> s(hfs.begin(), hfs.end()); if (s.size() != hfs.size()) return -2;
        }
        std::vector<HalfFaceHandle> h; for (int x : hfs) h.push_back(HalfFaceHandle(x));
        int r = m.add_cell(h, check).idx();
        log("add_cell(hfs " + str(hfs) + (check ? ",check" : "") + ") -> " + std::to_string(r));
        Snap after = snapshot(m);
        (r>=0 ? ST_accept : ST_reject)++;
        if (closed != (r >= 0)) FAILS.fail(std::string("C11.add_cell.") + (closed ? "valid_rejected" : "invalid_accepted"), str(hfs));
        if (r < 0) { if (!(before == after)) FAILS.fail("C11.add_cell.rejected.mesh_changed", before.diff(after)); }
        else {
            Model m2 = read_model(m);
            VI sa = m2.C.empty() ? VI() : m2.C.back(), sb = hfs; if (kernel_reorders()) { std::sort(sa.begin(), sa.end()); std::sort(sb.begin(), sb.end()); }
            if (r != (int)md.C.size() || m2.C.size() != md.C.size() + 1 || sa != sb) FAILS.fail("C11.add_cell.accepted.wrong_def", str(hfs));
        }
        return r;
    }

    // find or create halfface with exactly this vertex cycle; returns halfface idx
    int get_hf(const VI& vs) {
        Model md = read_model(m);
        int n = (int)vs.size();
        for (int f = 0; f < (int)md.F.size(); ++f) if (!md.fdel[f] && (int)md.F[f].size() == n)
            for (int s = 0; s < 2; ++s) {
                VI w = md.hf_vs(2*f+s);
                for (int r = 0; r < n; ++r) { bool ok = true; for (int i = 0; i < n; ++i) if (w[(i+r)%n] != vs[i]) ok = false; if (ok) return 2*f+s; }
            }
        int f = op_add_face_vs(vs);
        return 2*f;
    }

    void macro_tet(VI v) {
        VI hfs = { get_hf({v[0],v[1],v[2]}), get_hf({v[0],v[2],v[3]}), get_hf({v[0],v[3],v[1]}), get_hf({v[1],v[3],v[2]}) };
        std::shuffle(hfs.begin(), hfs.end(), rng);
        maybe_corrupt_and_add(hfs);
    }

    void maybe_corrupt_and_add(VI hfs) {
        int k = R(10);
        VI lf = live_f();
        if (k == 0 && hfs.size() > 1) hfs.erase(hfs.begin() + R((int)hfs.size()));
        else if (k == 1) hfs.push_back(hfs[R((int)hfs.size())]);
        else if (k == 2) hfs[R((int)hfs.size())] ^= 1;
        else if (k == 3 && !lf.empty()) hfs.push_back(2*lf[R((int)lf.size())] + R(2));
        else if (k == 4 && !lf.empty()) { int f = lf[R((int)lf.size())]; hfs.push_back(2*f); hfs.push_back(2*f+1); } // add a pillow: still closed if face unused
        else if (k == 5) hfs.clear();
        op_add_cell(hfs, P(0.9));
    }

    void macro_fan() {
        int a, b;
        VI le = live_e();
        if (!le.empty() && P(0.35)) { int e = le[R((int)le.size())]; auto& ed = m.edge(EdgeHandle(e)); a = ed.from_vertex().idx(); b = ed.to_vertex().idx(); if (a == b) return; }
        else { a = op_add_vertex(); b = op_add_vertex(); }
        int k = 2 + R(4); bool closed = P(0.5); if (closed && k == 2 && P(0.7)) k = 3;
        VI ring; VI lv = live_v();
        for (int i = 0; i < k; ++i) {
            if (P(0.15) && lv.size() > 4) { int x = lv[R((int)lv.size())]; if (x != a && x != b && std::find(ring.begin(), ring.end(), x) == ring.end()) { ring.push_back(x); continue; } }
            ring.push_back(op_add_vertex());
        }
        int ncell = closed ? k : k - 1;
        // faces in random order
        std::vector<VI> fl;
        for (int i = 0; i < k; ++i) fl.push_back({a, b, ring[i]});
        for (int i = 0; i < ncell; ++i) { fl.push_back({a, ring[i], ring[(i+1)%k]}); fl.push_back({b, ring[(i+1)%k], ring[i]}); }
        std::shuffle(fl.begin(), fl.end(), rng);
        for (auto& f : fl) { VI g = f; if (P(0.5)) std::reverse(g.begin(), g.end()); std::rotate(g.begin(), g.begin() + R(3), g.end()); get_hf(g); }
        VI order; for (int i = 0; i < ncell; ++i) order.push_back(i);
        std::shuffle(order.begin(), order.end(), rng);
        for (int i : order) {
            int r0 = ring[i], r1 = ring[(i+1)%k];
            // cell (a,b,r0,r1) : choose orientation consistently
            VI hfs = { get_hf({a,b,r0}), get_hf({b,a,r1}), get_hf({a,r0,r1}), get_hf({b,r1,r0}) };
            std::shuffle(hfs.begin(), hfs.end(), rng);
            if (P(0.1)) maybe_corrupt_and_add(hfs); else op_add_cell(hfs, true);
        }
    }

    // ---------------- checks ----------------
    static bool same_multiset(VI a, VI b) { std::sort(a.begin(), a.end()); std::sort(b.begin(), b.end()); return a == b; }

    void check_all(bool full) {
        Model md = read_model(m);
        const bool vbu = m.has_vertex_bottom_up_incidences(), ebu = m.has_edge_bottom_up_incidences(), fbu = m.has_face_bottom_up_incidences();
        int NHE = 2*(int)md.E.size(), NHF = 2*(int)md.F.size();
        for (int f = 0; f < (int)md.F.size(); ++f) if (!md.fdel[f]) for (int h : md.F[f]) if (h < 0 || h >= NHE || md.edel[h/2]) { FAILS.fail("defs.face_refers_to_missing_or_deleted_edge", "face " + std::to_string(f) + " hes " + str(md.F[f])); broken = true; return; }
        for (int e = 0; e < (int)md.E.size(); ++e) if (!md.edel[e]) for (int v : {md.E[e].first, md.E[e].second}) if (v < 0 || v >= md.nv || md.vdel[v]) { FAILS.fail("defs.edge_refers_to_missing_or_deleted_vertex", ""); broken = true; return; }
        // caches
        if (vbu) for (int v = 0; v < md.nv; ++v) if (!md.vdel[v]) {
            VI exp, got; for (int h = 0; h < NHE; ++h) if (!md.edel[h/2] && md.from(h) == v) exp.push_back(h);
            for (auto it = m.voh_iter(VertexHandle(v)); it.valid(); ++it) got.push_back(it->idx());
            if (!same_multiset(exp, got)) FAILS.fail("cache.voh", "v" + std::to_string(v) + " exp " + str(exp) + " got " + str(got));
        }
        std::vector<VI> hehf(NHE);
        if (ebu) for (int h = 0; h < NHE; ++h) if (!md.edel[h/2]) {
            VI exp; for (int hf = 0; hf < NHF; ++hf) if (!md.fdel[hf/2]) for (int x : md.hf_hes(hf)) if (x == h) exp.push_back(hf);
            for (auto it = m.hehf_iter(HalfEdgeHandle(h)); it.valid(); ++it) hehf[h].push_back(it->idx());
            if (!same_multiset(exp, hehf[h])) FAILS.fail("cache.hehf", "he" + std::to_string(h) + " exp " + str(exp) + " got " + str(hehf[h]));
        }
        VI hfcell(NHF, -1);
        for (int c = 0; c < (int)md.C.size(); ++c) if (!md.cdel[c]) for (int hf : md.C[c]) {
            if (hf < 0 || hf >= NHF || md.fdel[hf/2]) { FAILS.fail("defs.cell_refers_to_missing_or_deleted_face", "cell " + std::to_string(c) + " hfs " + str(md.C[c]) + " n_halffaces " + std::to_string(NHF)); broken = true; return; }
            if (hfcell[hf] >= 0) FAILS.fail("defs.halfface_in_two_live_cells", "hf" + std::to_string(hf) + " cells " + std::to_string(hfcell[hf]) + "," + std::to_string(c));
            hfcell[hf] = c; }
        if (fbu) for (int hf = 0; hf < NHF; ++hf) if (!md.fdel[hf/2]) {
            int got = m.incident_cell(HalfFaceHandle(hf)).idx();
            if (got != hfcell[hf]) FAILS.fail("cache.incident_cell", "hf" + std::to_string(hf) + " exp " + std::to_string(hfcell[hf]) + " got " + std::to_string(got));
        }
        // C08
        for (int f = 0; f < (int)md.F.size(); ++f) if (!md.fdel[f]) {
            if (!md.face_closed(f)) FAILS.fail("C08.face_not_closed", "f" + std::to_string(f) + " " + str(md.F[f]));
            for (int s = 0; s < 2; ++s) {
                int hf = 2*f+s; VI exp = md.hf_hes(hf), got, gotit, vit;
                for (auto h : m.halfface(HalfFaceHandle(hf)).halfedges()) got.push_back(h.idx());
                for (auto it = m.hfhe_iter(HalfFaceHandle(hf)); it.valid(); ++it) gotit.push_back(it->idx());
                for (auto it = m.hfv_iter(HalfFaceHandle(hf)); it.valid(); ++it) vit.push_back(it->idx());
                if (got != exp) FAILS.fail("C08.halfface()", str(exp) + " vs " + str(got));
                if (gotit != exp) FAILS.fail("C08.hfhe_iter", "hf" + std::to_string(hf) + " " + str(exp) + " vs " + str(gotit));
                if (vit != md.hf_vs(hf)) FAILS.fail("C08.hfv_iter", "hf" + std::to_string(hf) + " " + str(md.hf_vs(hf)) + " vs " + str(vit));
                int n = (int)exp.size();
                for (int i = 0; i < n; ++i) {
                    if (std::count(exp.begin(), exp.end(), exp[i]) != 1) continue;
                    int nx = m.next_halfedge_in_halfface(HalfEdgeHandle(exp[i]), HalfFaceHandle(hf)).idx();
                    int pv = m.prev_halfedge_in_halfface(HalfEdgeHandle(exp[i]), HalfFaceHandle(hf)).idx();
                    if (nx != exp[(i+1)%n]) FAILS.fail("C08.next", "");
                    if (pv != exp[(i+n-1)%n]) FAILS.fail("C08.prev", "");
                }
            }
            // fv_iter / fhe_iter agree with halfface 0
            VI fv, fh; for (auto it = m.fv_iter(FaceHandle(f)); it.valid(); ++it) fv.push_back(it->idx());
            for (auto it = m.fhe_iter(FaceHandle(f)); it.valid(); ++it) fh.push_back(it->idx());
            if (fv != md.hf_vs(2*f)) FAILS.fail("C08.fv_iter", str(fv) + " vs " + str(md.hf_vs(2*f)));
            if (fh != md.F[f]) FAILS.fail("C08.fhe_iter", "");
        }
        // C09
        if (ebu && fbu) {
            // in-cell adjacency on closed cells
            for (int c = 0; c < (int)md.C.size(); ++c) if (!md.cdel[c] && md.cell_closed(c)) {
                bool own = true; for (int hf : md.C[c]) if (hfcell[hf] != c) own = false; if (!own) continue;
                for (int hf : md.C[c]) for (int h : md.hf_hes(hf)) {
                    int other = -1; for (int g : md.C[c]) { VI gh = md.hf_hes(g); if (std::find(gh.begin(), gh.end(), h^1) != gh.end()) other = g; }
                    VI hh = md.hf_hes(hf);
                    bool ambiguous = std::find(hh.begin(), hh.end(), h^1) != hh.end();
                    if (other == hf) continue; // the face is glued to itself along this edge: no other halfface exists
                    int got = m.adjacent_halfface_in_cell(HalfFaceHandle(hf), HalfEdgeHandle(h)).idx();
                    std::string cat = (other == (hf^1)) ? "C09.adj_in_cell.pillow" : (other == hf ? "C09.adj_in_cell.selfadjacent_face" : "C09.adj_in_cell");
                    ++ST_adj;
                    if (got != other) FAILS.fail(cat, "cell " + str(md.C[c]) + " hf" + std::to_string(hf) + " he" + std::to_string(h) + " exp " + std::to_string(other) + " got " + std::to_string(got));
                    else if (!ambiguous) {
                        int got2 = m.adjacent_halfface_in_cell(HalfFaceHandle(hf), HalfEdgeHandle(h^1)).idx();
                        if (got2 != other) FAILS.fail(cat + ".opp_he", "exp " + std::to_string(other) + " got " + std::to_string(got2));
                        int back = m.adjacent_halfface_in_cell(HalfFaceHandle(got), HalfEdgeHandle(h)).idx();
                        if (back != hf) FAILS.fail(cat + ".involution", "");
                    }
                }
            }
            // rotational order
            for (int e = 0; e < (int)md.E.size(); ++e) if (!md.edel[e]) {
                int h = 2*e;
                // faces at edge, each exactly once, cells closed and own their halffaces
                VI L = hehf[h]; if (L.empty()) continue;
                bool ok = true; std::set<int> fs;
                for (int hf : L) { if (!fs.insert(hf/2).second) ok = false; }
                // a face containing the edge twice is not a fan member
                for (int f : fs) { int cnt = 0; for (int x : md.F[f]) if (x/2 == e) ++cnt; if (cnt != 1) ok = false; }
                if (!ok) continue;
                // link graph: face -> via cell -> face
                std::map<int,int> nxt; // halfface (containing h) -> next halfface containing h (opposite of in-cell neighbour), -1 boundary
                int nb = 0;
                for (int hf : L) {
                    int c = hfcell[hf];
                    if (c < 0) { nxt[hf] = -1; ++nb; continue; }
                    if (!md.cell_closed(c)) { ok = false; break; }
                    bool own = true; for (int g : md.C[c]) if (hfcell[g] != c) own = false; if (!own) { ok = false; break; }
                    int other = -1, cnt = 0; for (int g : md.C[c]) { VI gh = md.hf_hes(g); for (int x : gh) if (x == (h^1)) { other = g; ++cnt; } }
                    if (cnt != 1 || other == (hf^1)) { ok = false; break; }
                    nxt[hf] = other^1;
                }
                if (!ok) continue;
                // also the halffaces containing h^1 that have a cell must be reached: count boundary on the other side
                int nb2 = 0; for (int hf : L) if (hfcell[hf^1] < 0) ++nb2;
                // single fan: walking from some start covers all
                bool single = false;
                if (nb == 0 && nb2 == 0) { // ring
                    int cur = L[0]; size_t steps = 0; std::set<int> seen;
                    while (seen.insert(cur).second && steps++ < L.size() + 1) cur = nxt[cur];
                    single = seen.size() == L.size() && cur == L[0];
                } else if (nb == 1 && nb2 == 1) {
                    int start = -1; for (int hf : L) if (hfcell[hf^1] < 0) start = hf;
                    int cur = start; std::set<int> seen;
                    while (cur >= 0 && seen.insert(cur).second) cur = nxt[cur];
                    single = seen.size() == L.size() && cur == -1;
                }
                if (!single) continue;
                if (nb==0) { ++ST_ring; if (L.size()>=3) ++ST_ring3; } else { ++ST_open; if (L.size()>=3) ++ST_open3; }
                for (size_t i = 0; i < L.size(); ++i) {
                    int nx = nxt[L[i]];
                    if (nx < 0) { if (i + 1 != L.size()) FAILS.fail("C09.order.boundary_not_last", "e" + std::to_string(e) + " L " + str(L)); }
                    else if (L[(i+1)%L.size()] != nx) FAILS.fail("C09.order.not_rotational", "e" + std::to_string(e) + " L " + str(L) + " after hf" + std::to_string(L[i]) + " expected hf" + std::to_string(nx));
                }
                VI Mo = hehf[h^1], expM; for (int i = (int)L.size()-1; i >= 0; --i) expM.push_back(L[i]^1);
                if (Mo != expM) FAILS.fail("C09.order.opposite_not_mirrored", "e" + std::to_string(e) + " L " + str(L) + " opp " + str(Mo));
            }
        }
        if (full && vbu && ebu && fbu) check_c10(md, hfcell);
    }

    static bool cyc_eq(const VI& a, const VI& b) {
        if (a.size() != b.size()) return false; int n = (int)a.size(); if (!n) return true;
        for (int r = 0; r < n; ++r) { bool ok = true; for (int i = 0; i < n; ++i) if (a[(i+r)%n] != b[i]) { ok = false; break; } if (ok) return true; }
        return false;
    }
    static bool has_consec(const VI& cyc, const VI& sub) {
        int n = (int)cyc.size(); if (n == 0) return false;
        for (int r = 0; r < n; ++r) { bool ok = true; for (size_t i = 0; i < sub.size(); ++i) if (cyc[(r+i)%n] != sub[i]) { ok = false; break; } if (ok) return true; }
        return false;
    }

    void check_c10(const Model& md, const VI& hfcell) {
        int NHE = 2*(int)md.E.size(), NHF = 2*(int)md.F.size();
        VI lv = live_v();
        bool par = false; { std::set<std::pair<int,int>> s; for (int e = 0; e < (int)md.E.size(); ++e) if (!md.edel[e]) { auto p = md.E[e]; if (p.first > p.second) std::swap(p.first, p.second); if (!s.insert(p).second) par = true; } }
        std::string sfx = par ? ".with_parallel_edges" : "";
        // find_halfedge
        for (int u : lv) for (int v : lv) {
            bool ex = false; for (int h = 0; h < NHE; ++h) if (!md.edel[h/2] && md.from(h) == u && md.to(h) == v) ex = true;
            int got = m.find_halfedge(VertexHandle(u), VertexHandle(v)).idx();
            if (ex != (got >= 0)) FAILS.fail("C10.find_halfedge.existence", "");
            else if (got >= 0 && (md.edel[got/2] || md.from(got) != u || md.to(got) != v)) FAILS.fail("C10.find_halfedge.wrong", "");
        }
        // find_halfface by 3 vertices, and extensive on real faces (rotated/reversed) and random tuples
        std::vector<VI> tuples;
        for (int i = 0; i < 200 && !lv.empty(); ++i) { VI t; int n = 3 + R(3); for (int j = 0; j < n; ++j) t.push_back(lv[R((int)lv.size())]); tuples.push_back(t); }
        for (int hf = 0; hf < NHF; ++hf) if (!md.fdel[hf/2]) {
            VI w = md.hf_vs(hf); int n = (int)w.size(); if (n < 3) continue;
            for (int r = 0; r < n; ++r) { VI t = w; std::rotate(t.begin(), t.begin()+r, t.end()); tuples.push_back(t); VI t3(t.begin(), t.begin()+3); tuples.push_back(t3);
                VI q = t; std::swap(q[R(n)], q[R(n)]); tuples.push_back(q); }
        }
        for (auto& t : tuples) {
            std::vector<VertexHandle> vs; for (int x : t) vs.push_back(VertexHandle(x));
            // extensive: full cycle
            bool ex = false; for (int hf = 0; hf < NHF; ++hf) if (!md.fdel[hf/2] && cyc_eq(md.hf_vs(hf), t)) ex = true;
            int got = m.find_halfface_extensive(vs).idx();
            if (got >= 0 && (md.fdel[got/2] || !cyc_eq(md.hf_vs(got), t))) FAILS.fail("C10.find_halfface_extensive.unsound" + sfx, str(t) + " got hf with " + str(md.hf_vs(got)));
            if (ex && got < 0) {
                bool rep = std::set<int>(t.begin(), t.end()).size() != t.size();
                FAILS.fail(std::string("C10.find_halfface_extensive.incomplete") + (rep ? ".repeated_vertices" : "") + sfx, str(t));
            }
            if (t.size() == 3) {
                bool ex3 = false; for (int hf = 0; hf < NHF; ++hf) if (!md.fdel[hf/2] && has_consec(md.hf_vs(hf), t)) ex3 = true;
                int g3 = m.find_halfface(vs).idx();
                bool rep = std::set<int>(t.begin(), t.end()).size() != t.size();
                std::string s2 = (rep ? std::string(".repeated_vertices") : std::string("")) + sfx;
                if (g3 >= 0 && (md.fdel[g3/2] || !has_consec(md.hf_vs(g3), t))) FAILS.fail("C10.find_halfface3.unsound" + s2, str(t) + " got " + str(md.hf_vs(g3)));
                if (ex3 && g3 < 0) FAILS.fail("C10.find_halfface3.incomplete" + s2, str(t));
            }
        }
        // find_halfface by halfedge pair
        VI lhe; for (int h = 0; h < NHE; ++h) if (!md.edel[h/2]) lhe.push_back(h);
        for (int a : lhe) for (int b : lhe) {
            if (lhe.size() > 40 && R(4)) continue;
            bool ex = false; for (int hf = 0; hf < NHF; ++hf) if (!md.fdel[hf/2]) { VI w = md.hf_hes(hf); if (std::count(w.begin(), w.end(), a) && std::count(w.begin(), w.end(), b)) ex = true; }
            int got = m.find_halfface(std::vector<HalfEdgeHandle>{HalfEdgeHandle(a), HalfEdgeHandle(b)}).idx();
            if (ex != (got >= 0)) FAILS.fail("C10.find_halfface_hes.existence", "");
            else if (got >= 0) { VI w = md.hf_hes(got); if (md.fdel[got/2] || !std::count(w.begin(), w.end(), a) || !std::count(w.begin(), w.end(), b)) FAILS.fail("C10.find_halfface_hes.wrong", ""); }
        }
        // get_halfface_vertices
        for (int hf = 0; hf < NHF; ++hf) if (!md.fdel[hf/2]) {
            VI w = md.hf_vs(hf), hh = md.hf_hes(hf); int n = (int)w.size();
            VI g; for (auto v : m.get_halfface_vertices(HalfFaceHandle(hf))) g.push_back(v.idx());
            if (g != w) FAILS.fail("C10.get_halfface_vertices", "");
            bool rep = std::set<int>(w.begin(), w.end()).size() != w.size();
            for (int i = 0; i < n; ++i) {
                VI ex = w; std::rotate(ex.begin(), ex.begin()+i, ex.end());
                VI g1; for (auto v : m.get_halfface_vertices(HalfFaceHandle(hf), VertexHandle(w[i]))) g1.push_back(v.idx());
                if ((int)g1.size() != n || !cyc_eq(g1, w) || g1[0] != w[i]) FAILS.fail("C10.get_halfface_vertices_v", "");
                VI g2; for (auto v : m.get_halfface_vertices(HalfFaceHandle(hf), HalfEdgeHandle(hh[i]))) g2.push_back(v.idx());
                if (g2 != ex) FAILS.fail(std::string("C10.get_halfface_vertices_he") + (rep ? ".repeated_vertices" : ""), "hf verts " + str(w) + " start he" + std::to_string(hh[i]) + " exp " + str(ex) + " got " + str(g2));
            }
        }
        // is_incident
        for (int f = 0; f < (int)md.F.size(); ++f) if (!md.fdel[f]) for (int e = 0; e < (int)md.E.size(); ++e) if (!md.edel[e]) {
            bool ex = false; for (int h : md.F[f]) if (h/2 == e) ex = true;
            if (m.is_incident(FaceHandle(f), EdgeHandle(e)) != ex) FAILS.fail("C10.is_incident", "");
        }
        // cell queries on closed cells
        for (int c = 0; c < (int)md.C.size(); ++c) if (!md.cdel[c] && md.cell_closed(c)) {
            bool own = true; for (int hf : md.C[c]) if (hfcell[hf] != c) own = false; if (!own) continue;
            std::set<int> cv; std::set<int> che;
            for (int hf : md.C[c]) for (int h : md.hf_hes(hf)) { cv.insert(md.from(h)); che.insert(h); che.insert(h^1); }
            if (m.n_vertices_in_cell(CellHandle(c)) != cv.size()) FAILS.fail("C10.n_vertices_in_cell", "");
            bool pillow = false; for (int hf : md.C[c]) if (std::count(md.C[c].begin(), md.C[c].end(), hf^1)) pillow = true;
            for (int u : lv) for (int v : lv) {
                bool ex = false; for (int h : che) if (md.from(h) == u && md.to(h) == v) ex = true;
                int got = m.find_halfedge_in_cell(VertexHandle(u), VertexHandle(v), CellHandle(c)).idx();
                if (ex != (got >= 0)) FAILS.fail("C10.find_halfedge_in_cell.existence", "");
                else if (got >= 0 && (!che.count(got) || md.from(got) != u || md.to(got) != v)) FAILS.fail("C10.find_halfedge_in_cell.wrong", "");
            }
            for (int hf : md.C[c]) { VI w = md.hf_hes(hf); for (int h : w) if (std::count(w.begin(), w.end(), h^1)) pillow = true; } // self-glued face
            if (pillow) continue; // adjacent_halfface_in_cell returns invalid inside pillows -> find_halfface_in_cell would index with -1 (reported under C09 pillow)
            VI cvl(cv.begin(), cv.end());
            for (int a : cvl) for (int b : cvl) for (int d : cvl) {
                VI t{a,b,d};
                bool ex = false; for (int hf : md.C[c]) if (has_consec(md.hf_vs(hf), t)) ex = true;
                int got = m.find_halfface_in_cell({VertexHandle(a), VertexHandle(b), VertexHandle(d)}, CellHandle(c)).idx();
                bool rep = (a == b || b == d || a == d);
                std::string s2 = (rep ? std::string(".repeated_vertices") : std::string("")) + sfx;
                if (got >= 0 && (!std::count(md.C[c].begin(), md.C[c].end(), got) || !has_consec(md.hf_vs(got), t))) FAILS.fail("C10.find_halfface_in_cell.unsound" + s2, str(t));
                if (ex && got < 0) FAILS.fail("C10.find_halfface_in_cell.incomplete" + s2, str(t));
            }
        }
    }

    // ---------------- driver ----------------
    virtual ~TesterT() {}
    virtual void after_op() {}
    virtual bool kernel_accepts_face(const VI&) { return true; }
    virtual bool kernel_reorders() { return false; }
    virtual bool kernel_accepts_cell(const Model&, const VI&) { return true; }
    virtual bool extra_op(int) { return false; }
    void run(int nops) {
        for (int i = 0; i < 4; ++i) op_add_vertex();
        for (int step = 0; step < nops; ++step) {
            int k = R(100);
            if (extra_op(step)) { check_all(P(0.25)); if (broken) return; after_op(); continue; }
            avoid_f1();
            VI lv = live_v(), le = live_e(), lf = live_f(), lc = live_c();
            if (k < 6) op_add_vertex();
            else if (k < 16 && !lv.empty()) {
                int u = lv[R((int)lv.size())], v = lv[R((int)lv.size())];
                if (u == v && !(FLAGS & 1)) continue;
                op_add_edge(u, v, (FLAGS & 1) && P(0.15));
            }
            else if (k < 26 && !lv.empty()) {
                int n = (FLAGS & 1) ? 1 + R(5) : 3 + R(2); VI vs;
                for (int j = 0; j < n; ++j) vs.push_back(lv[R((int)lv.size())]);
                if (!(FLAGS & 1) && std::set<int>(vs.begin(), vs.end()).size() != vs.size()) continue;
                if (!m.has_vertex_bottom_up_incidences() && P(0.0)) continue;
                op_add_face_vs(vs);
            }
            else if (k < 36 && !le.empty()) {
                VI hes;
                if (P(0.5)) { // closed walk
                    Model md = read_model(m);
                    int h0 = 2*le[R((int)le.size())] + R(2); hes.push_back(h0); int cur = md.to(h0), start = md.from(h0);
                    for (int t = 0; t < 5 && cur != start; ++t) {
                        VI cand; for (int e : le) for (int s = 0; s < 2; ++s) if (md.from(2*e+s) == cur) cand.push_back(2*e+s);
                        if (cand.empty()) break; int h = cand[R((int)cand.size())]; hes.push_back(h); cur = md.to(h);
                    }
                    if (!(FLAGS & 1)) { std::set<int> s; bool ok = true; for (int h : hes) if (!s.insert(md.from(h)).second) ok = false; if (!ok || hes.size() < 3) continue; }
                } else { int n = R(5); for (int j = 0; j < n; ++j) hes.push_back(2*le[R((int)le.size())] + R(2)); }
                bool closed = !hes.empty(); { Model md = read_model(m); for (size_t i = 0; i < hes.size(); ++i) if (md.to(hes[i]) != md.from(hes[(i+1)%hes.size()])) closed = false; }
                op_add_face_hes(hes, closed ? P(0.8) : true);
            }
            else if (k < 46 && lv.size() >= 4) { VI v = lv; std::shuffle(v.begin(), v.end(), rng); v.resize(4); macro_tet(v); }
            else if (k < 56) macro_fan();
            else if (k < 60 && !lf.empty()) { int f = lf[R((int)lf.size())]; maybe_corrupt_and_add({2*f, 2*f+1}); }
            else if (k < 63 && !lf.empty()) { VI hfs; int n = R(5); for (int j = 0; j < n; ++j) hfs.push_back(2*lf[R((int)lf.size())]+R(2)); op_add_cell(hfs, true); }
            else if (k < 67 && !lc.empty()) { int c = lc[R((int)lc.size())]; log("delete_cell " + std::to_string(c)); m.delete_cell(CellHandle(c)); }
            else if (k < 71 && !lf.empty()) { int f = lf[R((int)lf.size())]; log("delete_face " + std::to_string(f)); m.delete_face(FaceHandle(f)); }
            else if (k < 74 && !le.empty()) { int e = le[R((int)le.size())]; log("delete_edge " + std::to_string(e)); m.delete_edge(EdgeHandle(e)); }
            else if (k < 76 && !lv.empty()) { int v = lv[R((int)lv.size())]; log("delete_vertex " + std::to_string(v)); m.delete_vertex(VertexHandle(v)); }
            else if (k < 79) { log("collect_garbage"); m.collect_garbage(); }
            else if (k < 82) { bool b = P(0.5); log(std::string("enable_deferred_deletion ") + (b ? "1" : "0")); m.enable_deferred_deletion(b); }
            else if (k < 85) { bool b = P(0.5); log(std::string("enable_fast_deletion ") + (b ? "1" : "0")); m.enable_fast_deletion(b); }
            else if (k < 91 && (FLAGS & 2)) {
                int w = R(3); bool b = P(0.6);
                log("enable_bottom_up kind " + std::to_string(w) + " = " + std::to_string(b));
                if (w == 0) m.enable_vertex_bottom_up_incidences(b); else if (w == 1) m.enable_edge_bottom_up_incidences(b); else m.enable_face_bottom_up_incidences(b);
            }
            else if (k < 97 && (FLAGS & 4)) {
                int w = R(4);
                if (w == 0 && lv.size() >= 2) { int a = lv[R((int)lv.size())], b = lv[R((int)lv.size())]; log("swap_vertex " + std::to_string(a) + " " + std::to_string(b)); m.swap_vertex_indices(VertexHandle(a), VertexHandle(b)); }
                if (w == 1 && le.size() >= 2) { int a = le[R((int)le.size())], b = le[R((int)le.size())]; log("swap_edge " + std::to_string(a) + " " + std::to_string(b)); m.swap_edge_indices(EdgeHandle(a), EdgeHandle(b)); }
                if (w == 2 && lf.size() >= 2) { int a = lf[R((int)lf.size())], b = lf[R((int)lf.size())]; log("swap_face " + std::to_string(a) + " " + std::to_string(b)); m.swap_face_indices(FaceHandle(a), FaceHandle(b)); }
                if (w == 3 && lc.size() >= 2) { int a = lc[R((int)lc.size())], b = lc[R((int)lc.size())]; log("swap_cell " + std::to_string(a) + " " + std::to_string(b)); m.swap_cell_indices(CellHandle(a), CellHandle(b)); }
            }
            else if (k >= 97) { log("enable_bottom_up all"); m.enable_bottom_up_incidences(true); }
            check_all(P(0.25)); if (broken) return; after_op();
        }
        m.enable_bottom_up_incidences(true);
        check_all(true);
    }
};

