// Differential random tester for the tetrahedral kernel: C15 (+ generic C08/C09/C10/C11 checks from tester.hh).
// build (release):
//   g++ -std=c++17 -O1 -g -I/tmp/probe/T/src -I/tmp/probe/T/_build/src tet.cc -o tet /tmp/probe/T/_build/Build/lib/libOpenVolumeMesh.a
// build (sanitizers):
//   clang++ -std=c++17 -O1 -g -fsanitize=address,undefined -D_GLIBCXX_ASSERTIONS -I/tmp/probe/T/src -I/tmp/probe/T/_build_san/src tet.cc -o tet_san /tmp/probe/T/_build_san/Build/lib/libOpenVolumeMeshd.a
// run: ./tet [nseeds] [firstseed]
#include "tester.hh"
#include <OpenVolumeMesh/Unstable/Topology/TetTopology.hh>
#include <OpenVolumeMesh/Unstable/Topology/TriangleTopology.hh>
#include <array>

struct TetX : TetrahedralMeshTopologyKernel {
    using TetrahedralMeshTopologyKernel::split_edge;
    using TetrahedralMeshTopologyKernel::split_face;
};
typedef std::array<int,4> T4;
static long ST_collapse_ok = 0, ST_collapse_nolink = 0, ST_split_e = 0, ST_split_f = 0, ST_topo = 0;

static T4 canon(T4 t) { // minimal representative under even permutations
    static const int P[12][4] = {{0,1,2,3},{0,2,3,1},{0,3,1,2},{1,0,3,2},{1,2,0,3},{1,3,2,0},{2,0,1,3},{2,1,3,0},{2,3,0,1},{3,0,2,1},{3,1,0,2},{3,2,1,0}};
    T4 best = t;
    for (auto& p : P) { T4 u{t[p[0]],t[p[1]],t[p[2]],t[p[3]]}; if (u < best) best = u; }
    return best;
}

struct TetTester : TesterT<TetX> {
    int nextLabel = 0;
    using TesterT<TetX>::TesterT;

    bool kernel_accepts_face(const VI& hes) override { return hes.size() == 3; }
    bool kernel_accepts_cell(const Model& md, const VI& hfs) override {
        if (hfs.size() != 4) return false;
        std::set<int> vs; for (int hf : hfs) { if (md.F[hf/2].size() != 3) return false; for (int v : md.hf_vs(hf)) vs.insert(v); }
        return vs.size() == 4;
    }
    void label_new() {
        for (int v = 0; v < (int)m.n_vertices(); ++v) if (vp[VertexHandle(v)] < 0) vp[VertexHandle(v)] = nextLabel++;
        for (int c = 0; c < (int)m.n_cells(); ++c) if (cp[CellHandle(c)] < 0) cp[CellHandle(c)] = nextLabel++;
    }
    // oriented vertex tuple of a cell from the stored definitions
    static bool cell_tuple(const Model& md, int c, T4& out) {
        if (md.C[c].size() != 4) return false;
        VI f = md.hf_vs(md.C[c][0]); if (f.size() != 3) return false;
        std::set<int> all; for (int hf : md.C[c]) for (int v : md.hf_vs(hf)) all.insert(v);
        if (all.size() != 4) return false;
        int apex = -1; for (int v : all) if (v != f[0] && v != f[1] && v != f[2]) apex = v;
        if (apex < 0) return false;
        out = {f[0], f[1], f[2], apex}; return true;
    }
    std::multiset<T4> labelled_cells(const Model& md) {
        std::multiset<T4> r;
        for (int c = 0; c < (int)md.C.size(); ++c) if (!md.cdel[c]) { T4 t; if (cell_tuple(md, c, t)) { for (int& x : t) x = vp[VertexHandle(x)]; r.insert(canon(t)); } else r.insert(T4{-1,-1,-1,-1}); }
        return r;
    }
    bool hf_free(const Model& md, const VI& vs) { // no live halfface with this cycle has a cell
        for (int c = 0; c < (int)md.C.size(); ++c) if (!md.cdel[c]) for (int hf : md.C[c]) if (cyc_eq(md.hf_vs(hf), vs)) return false;
        return true;
    }
    void add_tet(int a, int b, int c, int d) {
        Model md = read_model(m);
        if (std::set<int>{a,b,c,d}.size() != 4) return;
        // keep the mesh a simplicial complex: no second tet on the same four vertices
        for (int c2 = 0; c2 < (int)md.C.size(); ++c2) if (!md.cdel[c2]) { std::set<int> s; for (int hf : md.C[c2]) for (int v : md.hf_vs(hf)) s.insert(v); if (s == std::set<int>{a,b,c,d}) return; }
        if (!hf_free(md, {a,b,c}) || !hf_free(md, {a,c,d}) || !hf_free(md, {a,d,b}) || !hf_free(md, {b,d,c})) return;
        int r; bool vec = P(0.5);
        if (vec) r = m.add_cell(std::vector<VertexHandle>{VertexHandle(a),VertexHandle(b),VertexHandle(c),VertexHandle(d)}, P(0.5)).idx();
        else r = m.add_cell(VertexHandle(a),VertexHandle(b),VertexHandle(c),VertexHandle(d), P(0.5)).idx();
        log(std::string("add_cell") + (vec ? "{vec}" : "") + "(" + str(VI{a,b,c,d}) + ") -> " + std::to_string(r));
        if (r != (int)md.C.size()) { FAILS.fail("C15.add_tet.not_appended", str(VI{a,b,c,d})); return; }
        Model m2 = read_model(m); T4 t;
        if (!cell_tuple(m2, r, t) || canon(t) != canon(T4{a,b,c,d})) FAILS.fail("C15.add_tet.wrong_cell", str(VI{a,b,c,d}));
    }

    bool extra_op(int) override {
        label_new();
        int k = R(100);
        Model md = read_model(m);
        VI lv = live_v(), le = live_e(), lf = live_f(), lc = live_c();
        if (k < 8 || lc.empty()) { int a = op_add_vertex(), b = op_add_vertex(), c = op_add_vertex(), d = op_add_vertex(); add_tet(a,b,c,d); }
        else if (k < 30) { // glue on a boundary halfface
            VI cand; for (int f : lf) for (int s = 0; s < 2; ++s) if (hf_free(md, md.hf_vs(2*f+s))) cand.push_back(2*f+s);
            if (!cand.empty()) { VI v = md.hf_vs(cand[R((int)cand.size())]); int w = (P(0.25) && !lv.empty()) ? lv[R((int)lv.size())] : op_add_vertex(); add_tet(v[0],v[1],v[2],w); }
        }
        else if (k < 36 && !le.empty()) { int e = le[R((int)le.size())]; int a = md.E[e].first, b = md.E[e].second; if (P(0.5)) std::swap(a,b); add_tet(a,b,op_add_vertex(),op_add_vertex()); }
        else if (k < 40 && !lv.empty()) { int a = lv[R((int)lv.size())]; add_tet(a, op_add_vertex(), op_add_vertex(), op_add_vertex()); }
        else if (k < 52 && !le.empty()) { // fill between two boundary halffaces around an edge
            int h = 2*le[R((int)le.size())] + R(2); VI c1, c2;
            for (int f : lf) for (int s = 0; s < 2; ++s) { VI hh = md.hf_hes(2*f+s); if (!hf_free(md, md.hf_vs(2*f+s))) continue; if (std::count(hh.begin(), hh.end(), h)) c1.push_back(2*f+s); if (std::count(hh.begin(), hh.end(), h^1)) c2.push_back(2*f+s); }
            if (!c1.empty() && !c2.empty()) {
                int a = md.from(h), b = md.to(h); int c = -1, d = -1;
                for (int v : md.hf_vs(c1[R((int)c1.size())])) if (v != a && v != b) c = v;
                for (int v : md.hf_vs(c2[R((int)c2.size())])) if (v != a && v != b) d = v;
                if (c >= 0 && d >= 0 && c != d) add_tet(a,b,c,d);
            }
        }
        else if (k < 66 && !le.empty()) do_collapse(2*le[R((int)le.size())] + R(2));
        else if (k < 70 && !le.empty()) do_split_edge(2*le[R((int)le.size())] + R(2));
        else if (k < 74 && !lf.empty()) do_split_face(lf[R((int)lf.size())]);
        else if (k < 78 && !lc.empty()) { int c = lc[R((int)lc.size())]; log("delete_cell " + std::to_string(c)); m.delete_cell(CellHandle(c)); }
        else if (k < 80 && !lf.empty()) { int f = lf[R((int)lf.size())]; log("delete_face " + std::to_string(f)); m.delete_face(FaceHandle(f)); }
        else if (k < 82 && !le.empty()) { int e = le[R((int)le.size())]; log("delete_edge " + std::to_string(e)); m.delete_edge(EdgeHandle(e)); }
        else if (k < 83 && !lv.empty()) { int v = lv[R((int)lv.size())]; log("delete_vertex " + std::to_string(v)); m.delete_vertex(VertexHandle(v)); }
        else if (k < 86) { log("collect_garbage"); m.collect_garbage(); }
        else if (k < 89) { bool b = P(0.5); log(std::string("enable_deferred_deletion ") + (b ? "1" : "0")); m.enable_deferred_deletion(b); }
        else if (k < 92) { bool b = P(0.5); log(std::string("enable_fast_deletion ") + (b ? "1" : "0")); m.enable_fast_deletion(b); }
        else if (k < 96) c11_ops(md, lf, le);
        else if (k < 100 && lv.size() >= 4) { VI v = lv; std::shuffle(v.begin(), v.end(), rng); add_tet(v[0],v[1],v[2],v[3]); }
        return true;
    }

    void c11_ops(const Model& md, const VI& lf, const VI& le) {
        int k = R(6);
        if (k == 0 && !le.empty()) { // closed loops of wrong length
            int e = le[R((int)le.size())]; op_add_face_hes({2*e, 2*e+1}, P(0.5));
        } else if (k == 1 && !lf.empty()) { // two pillows: four triangles, closed, but not a tet
            int f = lf[R((int)lf.size())], g = lf[R((int)lf.size())];
            op_add_cell({2*f, 2*f+1, 2*g, 2*g+1}, true);
        } else if (k == 2 && !lf.empty()) { int f = lf[R((int)lf.size())]; op_add_cell({2*f, 2*f+1}, P(0.5)); }
        else if (k == 3) { // four new faces of a fresh tet, handle-based add_cell in random order / corrupted
            int a = op_add_vertex(), b = op_add_vertex(), c = op_add_vertex(), d = op_add_vertex();
            VI hfs = { get_hf({a,b,c}), get_hf({a,c,d}), get_hf({a,d,b}), get_hf({b,d,c}) };
            std::shuffle(hfs.begin(), hfs.end(), rng); maybe_corrupt_and_add(hfs);
        } else if (k == 4 && !lf.empty()) { VI hfs; int n = 3 + R(3); for (int j = 0; j < n; ++j) hfs.push_back(2*lf[R((int)lf.size())] + R(2)); op_add_cell(hfs, true); }
        else if (k == 5 && le.size() >= 3) { VI hes; for (int j = 0; j < 3; ++j) hes.push_back(2*le[R((int)le.size())] + R(2)); op_add_face_hes(hes, true); }
        (void)md;
    }

    bool link_condition(const Model& md, int a, int b) {
        std::set<std::set<int>> S;
        for (int v = 0; v < md.nv; ++v) if (!md.vdel[v]) S.insert({v});
        for (int e = 0; e < (int)md.E.size(); ++e) if (!md.edel[e]) S.insert({md.E[e].first, md.E[e].second});
        for (int f = 0; f < (int)md.F.size(); ++f) if (!md.fdel[f]) { VI v = md.hf_vs(2*f); S.insert(std::set<int>(v.begin(), v.end())); }
        for (int c = 0; c < (int)md.C.size(); ++c) if (!md.cdel[c]) { std::set<int> s; for (int hf : md.C[c]) for (int v : md.hf_vs(hf)) s.insert(v); S.insert(s); }
        auto link = [&](std::set<int> base) { std::set<std::set<int>> L; for (auto& s : S) { bool sup = true; for (int x : base) if (!s.count(x)) sup = false; if (!sup || s.size() == base.size()) continue; std::set<int> r = s; for (int x : base) r.erase(x); L.insert(r); } return L; };
        auto La = link({a}), Lb = link({b}), Lab = link({a,b});
        std::set<std::set<int>> I; for (auto& s : La) if (Lb.count(s)) I.insert(s);
        return I == Lab;
    }

    void do_collapse(int h) {
        Model md = read_model(m);
        int a = md.from(h), b = md.to(h);
        // parallel edges between a and b make "cells containing both a and b" ambiguous for the implementation: skip
        int npar = 0; for (int e = 0; e < (int)md.E.size(); ++e) if (!md.edel[e] && ((md.E[e].first == a && md.E[e].second == b) || (md.E[e].first == b && md.E[e].second == a))) ++npar;
        if (npar != 1) return;
        bool link = link_condition(md, a, b);
        if (!link && !(FLAGS & 16)) return;
        int la = vp[VertexHandle(a)], lb = vp[VertexHandle(b)];
        std::multiset<T4> exp;
        for (int c = 0; c < (int)md.C.size(); ++c) if (!md.cdel[c]) { T4 t; if (!cell_tuple(md, c, t)) return; bool ha = false, hb = false; for (int x : t) { if (x == a) ha = true; if (x == b) hb = true; }
            if (ha && hb) continue; for (int& x : t) { x = vp[VertexHandle(x)]; if (x == la) x = lb; } exp.insert(canon(t)); }
        std::map<int,T4> cellByLabel; // identity labels of untouched / rewritten cells
        int r = m.collapse_edge(HalfEdgeHandle(h)).idx();
        std::ostringstream o; o << "collapse_edge(he" << h << " = " << a << "->" << b << ") -> " << r << " [link=" << link << " deferred=" << m.deferred_deletion_enabled() << " fast=" << m.fast_deletion_enabled() << "]"; log(o.str());
        if (!link) { ++ST_collapse_nolink; return; }
        ++ST_collapse_ok;
        Model m2 = read_model(m);
        auto got = labelled_cells(m2);
        if (got != exp) { std::ostringstream d; d << "expected " << exp.size() << " cells, got " << got.size(); FAILS.fail("C15.collapse.cells", d.str()); }
        if (r < 0 || r >= m2.nv || m2.vdel[r] || vp[VertexHandle(r)] != lb) FAILS.fail("C15.collapse.returned_handle", "returned " + std::to_string(r) + " label " + (r >= 0 && r < m2.nv ? std::to_string(vp[VertexHandle(r)]) : std::string("?")) + " expected label " + std::to_string(lb));
        for (int v = 0; v < m2.nv; ++v) if (!m2.vdel[v] && vp[VertexHandle(v)] == la) FAILS.fail("C15.collapse.from_vertex_survives", "");
    }
    void do_split_edge(int h) {
        Model md = read_model(m); int a = md.from(h), b = md.to(h); if (a == b) return;
        int v = op_add_vertex(); label_new();
        int la = vp[VertexHandle(a)], lb = vp[VertexHandle(b)], lv = vp[VertexHandle(v)];
        std::multiset<T4> exp;
        for (int c = 0; c < (int)md.C.size(); ++c) if (!md.cdel[c]) { T4 t; if (!cell_tuple(md, c, t)) return; for (int& x : t) x = vp[VertexHandle(x)];
            bool on = false; for (int hf : md.C[c]) for (int x : md.hf_hes(hf)) if (x/2 == h/2) on = true;
            if (!on) { exp.insert(canon(t)); continue; }
            T4 t1 = t, t2 = t; for (int& x : t1) if (x == lb) x = lv; for (int& x : t2) if (x == la) x = lv; exp.insert(canon(t1)); exp.insert(canon(t2)); }
        m.split_edge(HalfEdgeHandle(h), VertexHandle(v)); log("split_edge he" + std::to_string(h) + " v" + std::to_string(v)); ++ST_split_e;
        label_new();
        if (labelled_cells(read_model(m)) != exp) FAILS.fail("C15x.split_edge.cells", "");
    }
    void do_split_face(int f) {
        Model md = read_model(m); VI fv = md.hf_vs(2*f);
        int v = op_add_vertex(); label_new(); int lv = vp[VertexHandle(v)];
        std::multiset<T4> exp;
        for (int c = 0; c < (int)md.C.size(); ++c) if (!md.cdel[c]) { T4 t; if (!cell_tuple(md, c, t)) return; for (int& x : t) x = vp[VertexHandle(x)];
            bool on = false; for (int hf : md.C[c]) if (hf/2 == f) on = true;
            if (!on) { exp.insert(canon(t)); continue; }
            for (int w : fv) { T4 u = t; for (int& x : u) if (x == vp[VertexHandle(w)]) x = lv; exp.insert(canon(u)); } }
        m.split_face(FaceHandle(f), VertexHandle(v)); log("split_face f" + std::to_string(f) + " v" + std::to_string(v)); ++ST_split_f;
        label_new();
        if (labelled_cells(read_model(m)) != exp) FAILS.fail("C15x.split_face.cells", "");
    }

    template <TetTopology::HalfEdgeLabel L> void chk_hel(const TetTopology& t, const Model& md) {
        int h = t.heh<L>().idx();
        if (md.from(h) != t.vh<TetTopology::hel_from<L>()>().idx() || md.to(h) != t.vh<TetTopology::hel_to<L>()>().idx()) FAILS.fail("C15.TetTopology.halfedge_label", std::to_string((int)L));
        auto g = t.get_label(HalfEdgeHandle(h)); if (!g || *g != L) FAILS.fail("C15.TetTopology.get_label_he", std::to_string((int)L));
    }
    template <TetTopology::HalfFaceLabel L> void chk_hfl(const TetTopology& t, const Model& md, int c) {
        int hf = t.hfh<L>().idx();
        VI exp = { t.vh<TetTopology::hfl_vl<L,0>()>().idx(), t.vh<TetTopology::hfl_vl<L,1>()>().idx(), t.vh<TetTopology::hfl_vl<L,2>()>().idx() };
        int owner = TetTopology::is_inner(L) ? hf : (hf^1);
        if (hf < 0 || !std::count(md.C[c].begin(), md.C[c].end(), owner)) { FAILS.fail("C15.TetTopology.halfface_not_of_cell", std::to_string((int)L)); return; }
        if (!cyc_eq(md.hf_vs(hf), exp)) FAILS.fail("C15.TetTopology.halfface_label", std::to_string((int)L) + " verts " + str(md.hf_vs(hf)) + " exp " + str(exp));
        auto g = t.get_label(HalfFaceHandle(hf)); if (!g || *g != (TetTopology::HalfFaceLabel)(L & ~3)) FAILS.fail("C15.TetTopology.get_label_hf", std::to_string((int)L));
        auto g2 = t.get_label(HalfFaceHandle(hf), VertexHandle(exp[0])); if (!g2 || *g2 != L) FAILS.fail("C15.TetTopology.get_label_hf_first", std::to_string((int)L) + " got " + (g2 ? std::to_string((int)*g2) : std::string("none")));
        TriangleTopology tt = t.triangle_topology<L>();
        if (tt.a().idx() != exp[0] || tt.b().idx() != exp[1] || tt.c().idx() != exp[2]) FAILS.fail("C15.TriangleTopology.vertices", std::to_string((int)L));
        if (md.from(tt.ab().idx()) != exp[0] || md.to(tt.ab().idx()) != exp[1] || md.from(tt.bc().idx()) != exp[1] || md.to(tt.bc().idx()) != exp[2] || md.from(tt.ca().idx()) != exp[2] || md.to(tt.ca().idx()) != exp[0]) FAILS.fail("C15.TriangleTopology.halfedges", std::to_string((int)L));
        TriangleTopology tr = t.triangle_topology(L);
        if (!(tr == tt)) FAILS.fail("C15.TriangleTopology.dynamic_vs_static", std::to_string((int)L));
    }
    void chk_topo(const TetTopology& t, const Model& md, int c, const std::set<int>& cv) {
        ++ST_topo;
        std::set<int> vs{t.a().idx(), t.b().idx(), t.c().idx(), t.d().idx()};
        if (vs != cv) { FAILS.fail("C15.TetTopology.vertices", ""); return; }
        using TT = TetTopology;
        if (*t.get_label(t.a()) != TT::A || *t.get_label(t.b()) != TT::B || *t.get_label(t.c()) != TT::C || *t.get_label(t.d()) != TT::D) FAILS.fail("C15.TetTopology.get_label_v", "");
        chk_hel<TT::AB>(t, md); chk_hel<TT::BC>(t, md); chk_hel<TT::CA>(t, md); chk_hel<TT::CD>(t, md); chk_hel<TT::AD>(t, md); chk_hel<TT::BD>(t, md);
        chk_hel<TT::BA>(t, md); chk_hel<TT::CB>(t, md); chk_hel<TT::AC>(t, md); chk_hel<TT::DC>(t, md); chk_hel<TT::DA>(t, md); chk_hel<TT::DB>(t, md);
        chk_hfl<TT::BDC>(t, md, c); chk_hfl<TT::CBD>(t, md, c); chk_hfl<TT::DCB>(t, md, c); chk_hfl<TT::ACD>(t, md, c); chk_hfl<TT::CDA>(t, md, c); chk_hfl<TT::DAC>(t, md, c);
        chk_hfl<TT::ADB>(t, md, c); chk_hfl<TT::BAD>(t, md, c); chk_hfl<TT::DBA>(t, md, c); chk_hfl<TT::ABC>(t, md, c); chk_hfl<TT::BCA>(t, md, c); chk_hfl<TT::CAB>(t, md, c);
        chk_hfl<TT::BCD>(t, md, c); chk_hfl<TT::CDB>(t, md, c); chk_hfl<TT::DBC>(t, md, c); chk_hfl<TT::ADC>(t, md, c); chk_hfl<TT::CAD>(t, md, c); chk_hfl<TT::DCA>(t, md, c);
        chk_hfl<TT::ABD>(t, md, c); chk_hfl<TT::BDA>(t, md, c); chk_hfl<TT::DAB>(t, md, c); chk_hfl<TT::ACB>(t, md, c); chk_hfl<TT::BAC>(t, md, c); chk_hfl<TT::CBA>(t, md, c);
    }

    void after_op() override {
        label_new();
        Model md = read_model(m);
        VI hfcell(2*md.F.size(), -1);
        for (int c = 0; c < (int)md.C.size(); ++c) if (!md.cdel[c]) for (int hf : md.C[c]) hfcell[hf] = c;
        for (int f = 0; f < (int)md.F.size(); ++f) if (!md.fdel[f] && md.F[f].size() != 3) FAILS.fail("C15.shape.face_valence", str(md.F[f]));
        for (int c = 0; c < (int)md.C.size(); ++c) if (!md.cdel[c]) {
            T4 t; if (!cell_tuple(md, c, t)) { FAILS.fail("C15.shape.cell", "cell hfs " + str(md.C[c])); continue; }
            if (!md.cell_closed(c)) { FAILS.fail("C15.shape.cell_not_closed", ""); continue; }
            bool own = true; for (int hf : md.C[c]) if (hfcell[hf] != c) own = false; if (!own) continue;
            std::set<int> cv(t.begin(), t.end());
            auto toVI = [](const std::vector<VertexHandle>& v) { VI r; for (auto x : v) r.push_back(x.idx()); return r; };
            // get_cell_vertices(ch) / tet vertex iterator
            VI g0 = toVI(m.get_cell_vertices(CellHandle(c)));
            if (g0 != VI(t.begin(), t.end())) FAILS.fail("C15.get_cell_vertices(ch)", str(g0) + " vs " + str(VI(t.begin(), t.end())));
            VI it; for (auto i = m.tv_iter(CellHandle(c)); i.valid(); ++i) it.push_back(i->idx());
            if (it != g0) FAILS.fail("C15.tv_iter", str(it) + " vs " + str(g0));
            for (int v : cv) {
                VI g = toVI(m.get_cell_vertices(CellHandle(c), VertexHandle(v)));
                if (g.size() != 4 || g[0] != v || canon(T4{g[0],g[1],g[2],g[3]}) != canon(t)) FAILS.fail("C15.get_cell_vertices(ch,vh)", "v" + std::to_string(v) + " got " + str(g) + " cell " + str(VI(t.begin(), t.end())));
                else { // "lists the first halfface's vertices in its cyclic order starting where requested and then the apex"
                    VI f0 = md.hf_vs(md.C[c][0]);
                    if (std::count(f0.begin(), f0.end(), v)) { VI ex = f0; while (ex[0] != v) std::rotate(ex.begin(), ex.begin()+1, ex.end()); ex.push_back(t[3]); if (g != ex) FAILS.fail("C15.get_cell_vertices(ch,vh).order", "got " + str(g) + " exp " + str(ex)); }
                }
                int ohf = m.vertex_opposite_halfface(CellHandle(c), VertexHandle(v)).idx();
                VI ov = ohf >= 0 ? md.hf_vs(ohf) : VI();
                if (ohf < 0 || !std::count(md.C[c].begin(), md.C[c].end(), ohf) || std::count(ov.begin(), ov.end(), v)) FAILS.fail("C15.vertex_opposite_halfface", "");
                else if (m.halfface_opposite_vertex(HalfFaceHandle(ohf)).idx() != v) FAILS.fail("C15.opposite_not_inverse", "");
                chk_topo(TetTopology(m, CellHandle(c), VertexHandle(v)), md, c, cv);
            }
            chk_topo(TetTopology(m, CellHandle(c)), md, c, cv);
            for (int hf : md.C[c]) {
                VI f = md.hf_vs(hf); int apex = -1; for (int v : cv) if (!std::count(f.begin(), f.end(), v)) apex = v;
                VI ex = f; ex.push_back(apex);
                VI g = toVI(m.get_cell_vertices(HalfFaceHandle(hf)));
                if (g != ex) FAILS.fail("C15.get_cell_vertices(hfh)", str(g) + " vs " + str(ex));
                int ov = m.halfface_opposite_vertex(HalfFaceHandle(hf)).idx();
                if (ov != apex) FAILS.fail("C15.halfface_opposite_vertex", "");
                else if (m.vertex_opposite_halfface(CellHandle(c), VertexHandle(ov)).idx() != hf) FAILS.fail("C15.opposite_not_inverse2", "");
                if (hfcell[hf^1] < 0 && m.halfface_opposite_vertex(HalfFaceHandle(hf^1)).is_valid()) FAILS.fail("C15.halfface_opposite_vertex.boundary", "");
                VI hh = md.hf_hes(hf);
                for (int i = 0; i < 3; ++i) {
                    VI e2 = { f[i], f[(i+1)%3], f[(i+2)%3], apex };
                    VI g2 = toVI(m.get_cell_vertices(HalfFaceHandle(hf), HalfEdgeHandle(hh[i])));
                    if (g2 != e2) FAILS.fail("C15.get_cell_vertices(hfh,heh)", str(g2) + " vs " + str(e2));
                    chk_topo(TetTopology(m, CellHandle(c), HalfFaceHandle(hf), VertexHandle(f[i])), md, c, cv);
                    chk_topo(TetTopology(m, HalfFaceHandle(hf), VertexHandle(f[i])), md, c, cv);
                    TetTopology tt(m, CellHandle(c), HalfFaceHandle(hf), VertexHandle(f[i]));
                    if (tt.a().idx() != f[i] || tt.b().idx() != f[(i+1)%3] || tt.c().idx() != f[(i+2)%3] || tt.d().idx() != apex || tt.abc().idx() != hf) FAILS.fail("C15.TetTopology.requested_labelling", "");
                }
            }
        }
    }
};

int main(int argc, char** argv) {
    install_crash_handler(&FAILS);
    int nseeds = argc > 1 ? atoi(argv[1]) : 200; int first = argc > 2 ? atoi(argv[2]) : 1; FLAGS = argc > 3 ? atoi(argv[3]) : 0;
    for (int s = first; s < first + nseeds; ++s) { TetTester t(s); t.run(20 + s % 25); }
    FAILS.hist = nullptr;
    FAILS.report();
    std::cout << "stats: collapses with link condition " << ST_collapse_ok << ", without " << ST_collapse_nolink << ", split_edge " << ST_split_e << ", split_face " << ST_split_f << ", TetTopology labellings checked " << ST_topo << "\n";
    return FAILS.count.empty() ? 0 : 1;
}
