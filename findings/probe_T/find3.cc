// find3: HexahedralMeshTopologyKernel::add_cell(halffaces, topologyCheck=true) accepts a closed surface of six
// quads on eight distinct vertices that is NOT a cube (two pairs of quads share two consecutive edges), and stores
// it as a "hexahedron" whose x/y/z front/back pairs share vertices (C16).
// build: g++ -std=c++17 -I/tmp/probe/T/src -I/tmp/probe/T/_build/src find3.cc -o find3 /tmp/probe/T/_build/Build/lib/libOpenVolumeMesh.a
// ANALYSIS
//   Responsible: HexahedralMeshTopologyKernel::add_cell(std::vector<HalfFaceHandle>, bool),
//   src/OpenVolumeMesh/Mesh/HexahedralMeshTopologyKernel.cc:102-157, and check_halfface_ordering (162-258).
//   The re-ordering only asks that the first halfface has some neighbour across each of its four edges (lines 123-137,
//   the four neighbours need not be distinct faces of a cube) and that a walk over one neighbour reaches another
//   halfface (139-155); check_halfface_ordering only inspects the rings around list entries 0 and 1. Nothing verifies
//   that the result is a cube, and TopologyKernel::add_cell's check (closed surface) is satisfied by every quad sphere.
//   Here quads {3,2,1,4}/{5,2,3,4} and {6,0,5,7}/{7,5,4,6} share two consecutive edges (vertices 3 and 7 have
//   valence 2): 8 distinct vertices, 6 quads, closed, but no assignment to XF..ZB exists. 240 of the 720 orderings are
//   accepted (with parallel edges even un-reordered lists pass check_halfface_ordering), and orientation helpers,
//   opposite_halfface_handle_in_cell, hex_vertices and the sheet circulators then work on a non-hexahedron.
//   Minimal fix: after the (re)ordering and before calling TopologyKernel::add_cell, require the hexahedral
//   structure of the ordered list: six distinct halffaces, the pairs (0,1),(2,3),(4,5) share no vertex, and every
//   halfface is edge-adjacent to exactly the four halffaces of the other two axes (equivalently: run the ring test of
//   check_halfface_ordering for all six entries); return InvalidCellHandle otherwise.
#include <OpenVolumeMesh/Mesh/HexahedralMeshTopologyKernel.hh>
#include <algorithm>
#include <iostream>
#include <set>
using namespace OpenVolumeMesh;
int main() {
    static const int F[6][4] = {{3,2,1,4},{0,1,2,5},{5,2,3,4},{4,1,0,6},{6,0,5,7},{7,5,4,6}}; // simple graph, 8 vertices, 12 edges, sphere
    int perm[6] = {0,1,2,3,4,5}; int accepted = 0, total = 0, bad = 0; bool shown = false;
    do {
        HexahedralMeshTopologyKernel m;
        for (int i = 0; i < 8; ++i) m.add_vertex();
        std::vector<HalfFaceHandle> hf;
        for (auto& f : F) hf.push_back(m.halfface_handle(m.add_face(std::vector<VertexHandle>{VertexHandle(f[0]),VertexHandle(f[1]),VertexHandle(f[2]),VertexHandle(f[3])}), 0));
        std::vector<HalfFaceHandle> in; for (int i : perm) in.push_back(hf[i]);
        CellHandle c = m.add_cell(in, true); ++total;
        if (!c.is_valid()) continue;
        ++accepted;
        auto hs = m.cell(c).halffaces(); bool share = false; int k0 = -1;
        for (int k = 0; k < 3; ++k) { auto a = m.get_halfface_vertices(hs[2*k]), b = m.get_halfface_vertices(hs[2*k+1]); for (auto v : a) if (std::count(b.begin(), b.end(), v)) { share = true; k0 = k; } }
        if (share) { ++bad; if (!shown) { shown = true;
            std::cout << "input halffaces"; for (auto h : in) std::cout << " " << h.idx(); std::cout << " -> accepted as cell " << c.idx() << ", stored order"; for (auto h : hs) std::cout << " " << h.idx();
            std::cout << "\n  halffaces " << 2*k0 << " and " << 2*k0+1 << " of the cell (a front/back pair) share a vertex:";
            for (auto v : m.get_halfface_vertices(hs[2*k0])) std::cout << " " << v.idx(); std::cout << " |"; for (auto v : m.get_halfface_vertices(hs[2*k0+1])) std::cout << " " << v.idx(); std::cout << "\n"; } }
    } while (std::next_permutation(perm, perm+6));
    std::cout << accepted << " of " << total << " orderings of a non-cube quad sphere accepted by the topology-checked hexahedral add_cell; " << bad << " stored with a front/back pair sharing a vertex\n";
    if (accepted) { std::cout << "FAIL (C16): a cell accepted with topology check must follow the XF,XB,YF,YB,ZF,ZB convention; this surface is not a cube, the call must be rejected\n"; return 1; }
    std::cout << "ok\n"; return 0;
}
