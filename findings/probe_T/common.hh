// Shared helpers for the differential testers (brute-force model of the stored definitions).
#pragma once
#include <OpenVolumeMesh/Core/TopologyKernel.hh>
#include <OpenVolumeMesh/Mesh/TetrahedralMeshTopologyKernel.hh>
#include <OpenVolumeMesh/Mesh/HexahedralMeshTopologyKernel.hh>
#include <OpenVolumeMesh/Mesh/HexahedralMeshIterators.hh>
#include <OpenVolumeMesh/Mesh/TetrahedralMeshIterators.hh>
#include <algorithm>
#include <unistd.h>
#include <cstdio>
#include <fstream>
#include <iostream>
#include <map>
#include <random>
#include <set>
#include <sstream>
#include <string>
#include <vector>

using namespace OpenVolumeMesh;
typedef std::vector<int> VI;

struct Failures {
    std::map<std::string, int> count;
    std::map<std::string, std::string> first;
    std::vector<std::string>* hist = nullptr;
    std::string tag;
    void fail(const std::string& cat, const std::string& detail) {
        if (count[cat]++ == 0) {
            std::ostringstream o;
            o << "[" << tag << "] " << detail << "\n  history:\n";
            if (hist) for (auto& h : *hist) o << "    " << h << "\n";
            first[cat] = o.str();
        }
    }
    void report() const {
        for (auto& kv : count) {
            std::cout << "=== " << kv.first << "  (x" << kv.second << ")\n" << first.at(kv.first) << "\n";
        }
        if (count.empty()) std::cout << "no discrepancies\n";
    }
};

#include <csignal>
inline Failures* g_fails = nullptr;
inline void crash_handler(int sig) {
    fprintf(stderr, "\n*** signal %d; tag %s; history:\n", sig, g_fails ? g_fails->tag.c_str() : "?");
    if (g_fails && g_fails->hist) for (auto& h : *g_fails->hist) fprintf(stderr, "    %s\n", h.c_str());
    if (g_fails) { g_fails->hist = nullptr; g_fails->report(); }
    fflush(stdout); _exit(3);
}
inline void install_crash_handler(Failures* f) { g_fails = f; signal(SIGSEGV, crash_handler); signal(SIGABRT, crash_handler); }
template <class T> std::string str(const std::vector<T>& v) {
    std::ostringstream o; o << "[";
    for (size_t i = 0; i < v.size(); ++i) { if (i) o << ","; o << v[i]; }
    o << "]"; return o.str();
}
inline std::string strh(const std::vector<HalfEdgeHandle>& v){ VI w; for(auto h:v) w.push_back(h.idx()); return str(w);}
inline std::string strh(const std::vector<HalfFaceHandle>& v){ VI w; for(auto h:v) w.push_back(h.idx()); return str(w);}
inline std::string strh(const std::vector<VertexHandle>& v){ VI w; for(auto h:v) w.push_back(h.idx()); return str(w);}

// ---- brute force model read from stored definitions only (no caches) ----
struct Model {
    int nv = 0;
    std::vector<char> vdel, edel, fdel, cdel;
    std::vector<std::pair<int,int>> E;   // from,to
    std::vector<VI> F;                   // halfedge idx of halfface 0
    std::vector<VI> C;                   // halfface idx
    int from(int he) const { return (he & 1) ? E[he/2].second : E[he/2].first; }
    int to(int he) const { return (he & 1) ? E[he/2].first : E[he/2].second; }
    VI hf_hes(int hf) const {
        const VI& f = F[hf/2];
        if (!(hf & 1)) return f;
        VI r; for (int i = (int)f.size()-1; i >= 0; --i) r.push_back(f[i]^1);
        return r;
    }
    VI hf_vs(int hf) const { VI r; for (int h : hf_hes(hf)) r.push_back(from(h)); return r; }
    bool face_closed(int f) const {
        const VI& h = F[f]; if (h.empty()) return false;
        for (size_t i = 0; i < h.size(); ++i) if (to(h[i]) != from(h[(i+1)%h.size()])) return false;
        return true;
    }
    static bool closed_surface(const Model& m, const VI& hfs) {
        if (hfs.empty()) return false;
        std::map<int,int> cnt;
        for (int hf : hfs) for (int h : m.hf_hes(hf)) cnt[h]++;
        for (auto& kv : cnt) { if (kv.second != 1) return false; if (!cnt.count(kv.first^1)) return false; }
        return true;
    }
    bool cell_closed(int c) const { return closed_surface(*this, C[c]); }
};

template <class M> Model read_model(const M& m) {
    Model r; r.nv = (int)m.n_vertices();
    for (int i = 0; i < r.nv; ++i) r.vdel.push_back(m.is_deleted(VertexHandle(i)));
    for (int i = 0; i < (int)m.n_edges(); ++i) {
        auto& e = m.edge(EdgeHandle(i));
        r.E.push_back({e.from_vertex().idx(), e.to_vertex().idx()});
        r.edel.push_back(m.is_deleted(EdgeHandle(i)));
    }
    for (int i = 0; i < (int)m.n_faces(); ++i) {
        VI h; for (auto x : m.face(FaceHandle(i)).halfedges()) h.push_back(x.idx());
        r.F.push_back(h); r.fdel.push_back(m.is_deleted(FaceHandle(i)));
    }
    for (int i = 0; i < (int)m.n_cells(); ++i) {
        VI h; for (auto x : m.cell(CellHandle(i)).halffaces()) h.push_back(x.idx());
        r.C.push_back(h); r.cdel.push_back(m.is_deleted(CellHandle(i)));
    }
    return r;
}

#include <functional>
inline std::function<VI()> g_propsizes;
// ---- snapshot of every observable aspect (definitions, flags, caches via query API, prop sizes) ----
struct Snap {
    std::vector<VI> data;
    bool operator==(const Snap& o) const { return data == o.data; }
    std::string diff(const Snap& o) const {
        std::ostringstream s;
        static const char* names[] = {"counts","vdel","edel","fdel","cdel","edges","faces","cells","voh","hehf","hfcell","propsizes","flags"};
        for (size_t i = 0; i < data.size() && i < o.data.size(); ++i)
            if (data[i] != o.data[i]) s << names[std::min<size_t>(i,12)] << ": " << str(data[i]) << " -> " << str(o.data[i]) << "; ";
        return s.str();
    }
};

template <class M> Snap snapshot(M& m) {
    Snap s; Model md = read_model(m);
    s.data.push_back({(int)m.n_vertices(), (int)m.n_edges(), (int)m.n_faces(), (int)m.n_cells(),
                      (int)m.n_logical_vertices(), (int)m.n_logical_edges(), (int)m.n_logical_faces(), (int)m.n_logical_cells(),
                      (int)m.n_halfedges(), (int)m.n_halffaces()});
    VI a(md.vdel.begin(), md.vdel.end()), b(md.edel.begin(), md.edel.end()), c(md.fdel.begin(), md.fdel.end()), d(md.cdel.begin(), md.cdel.end());
    s.data.push_back(a); s.data.push_back(b); s.data.push_back(c); s.data.push_back(d);
    VI e; for (auto& p : md.E) { e.push_back(p.first); e.push_back(p.second); } s.data.push_back(e);
    VI f; for (auto& x : md.F) { f.push_back(-7); f.insert(f.end(), x.begin(), x.end()); } s.data.push_back(f);
    VI g; for (auto& x : md.C) { g.push_back(-7); g.insert(g.end(), x.begin(), x.end()); } s.data.push_back(g);
    VI voh, hehf, hfc;
    if (m.has_vertex_bottom_up_incidences())
        for (int i = 0; i < md.nv; ++i) { voh.push_back(-7); for (auto it = m.voh_iter(VertexHandle(i)); it.valid(); ++it) voh.push_back(it->idx()); }
    if (m.has_edge_bottom_up_incidences())
        for (int i = 0; i < (int)m.n_halfedges(); ++i) { hehf.push_back(-7); for (auto it = m.hehf_iter(HalfEdgeHandle(i)); it.valid(); ++it) hehf.push_back(it->idx()); }
    if (m.has_face_bottom_up_incidences())
        for (int i = 0; i < (int)m.n_halffaces(); ++i) hfc.push_back(m.incident_cell(HalfFaceHandle(i)).idx());
    s.data.push_back(voh); s.data.push_back(hehf); s.data.push_back(hfc);
    VI ps; if (g_propsizes) ps = g_propsizes();
    s.data.push_back(ps);
    s.data.push_back({m.has_vertex_bottom_up_incidences(), m.has_edge_bottom_up_incidences(), m.has_face_bottom_up_incidences(),
                      m.deferred_deletion_enabled(), m.fast_deletion_enabled(), m.needs_garbage_collection()});
    return s;
}
