// Differential random tester for the polyhedral kernel: C08, C09, C10, C11.
// build (release):
//   g++ -std=c++17 -O1 -g -I/tmp/probe/T/src -I/tmp/probe/T/_build/src poly.cc -o poly /tmp/probe/T/_build/Build/lib/libOpenVolumeMesh.a
// build (sanitizers):
//   clang++ -std=c++17 -O1 -g -fsanitize=address,undefined -D_GLIBCXX_ASSERTIONS -I/tmp/probe/T/src -I/tmp/probe/T/_build_san/src poly.cc -o poly_san /tmp/probe/T/_build_san/Build/lib/libOpenVolumeMeshd.a
// run: ./poly [nseeds] [firstseed] [flags]   flags bit0: allow parallel edges / degenerate faces, bit1: toggle bottom-up, bit2: swaps
#include "tester.hh"

int main(int argc, char** argv) {
    install_crash_handler(&FAILS);
    int nseeds = argc > 1 ? atoi(argv[1]) : 200; int first = argc > 2 ? atoi(argv[2]) : 1; if (argc > 3) FLAGS = atoi(argv[3]);
    for (int s = first; s < first + nseeds; ++s) { TesterT<TopologyKernel> t(s); t.run(25 + s % 30); }
    FAILS.hist = nullptr;
    FAILS.report();
    std::cout << "stats: ring edges " << ST_ring << " (val>=3: " << ST_ring3 << ") open-fan edges " << ST_open << " (val>=3: " << ST_open3 << ") adj_in_cell checks " << ST_adj << " add_cell accepted " << ST_accept << " rejected " << ST_reject << "\n";
    return FAILS.count.empty() ? 0 : 1;
}
