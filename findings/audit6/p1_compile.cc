#include <OpenVolumeMesh/Mesh/PolyhedralMesh.hh>
#include <OpenVolumeMesh/Mesh/TetrahedralMesh.hh>
#include <OpenVolumeMesh/Mesh/HexahedralMesh.hh>
#include <OpenVolumeMesh/Mesh/TetrahedralGeometryKernel.hh>
#include <OpenVolumeMesh/Mesh/HexahedralMeshTopologyKernel.hh>
#include <cmath>
#include <cstdio>
using namespace OpenVolumeMesh;
struct MyPt { using value_type=double; double x=0,y=0,z=0;
  MyPt()=default; explicit MyPt(double s):x(s),y(s),z(s){} MyPt(double a,double b,double c):x(a),y(b),z(c){}
  MyPt operator+(const MyPt&o)const{return {x+o.x,y+o.y,z+o.z};}
  MyPt operator-(const MyPt&o)const{return {x-o.x,y-o.y,z-o.z};}
  MyPt& operator+=(const MyPt&o){x+=o.x;y+=o.y;z+=o.z;return *this;}
  MyPt operator*(double s)const{return {x*s,y*s,z*s};}
  MyPt operator/(double s)const{return {x/s,y/s,z/s};}
  MyPt& operator/=(double s){x/=s;y/=s;z/=s;return *this;}
  friend MyPt operator*(double s,const MyPt&p){return p*s;}
  double norm()const{return std::sqrt(x*x+y*y+z*z);} };
#ifdef EXPLICIT
template class OpenVolumeMesh::GeometryKernel<Geometry::Vec3i, TopologyKernel>;
template class OpenVolumeMesh::GeometryKernel<Geometry::Vec3d, TopologyKernel>;
template class OpenVolumeMesh::GeometryKernel<Geometry::Vec3f, TetrahedralMeshTopologyKernel>;
#endif
template<class M,class P> int use(bool call, P p0, P p1){ M m; auto a=m.add_vertex(p0); auto b=m.add_vertex(p1); auto e=m.add_edge(a,b); M c(m); c=m; (void)m.vertex(a); int r=(int)c.n_edges(); 
  if constexpr(!std::is_same<P,MyPt>::value){ if(call){ auto bc=m.barycenter(e); auto L=m.length(e); auto L2=m.length(m.halfedge_handle(e,0)); r+= (L==L2)&&(bc[0]==bc[0]);} }
  return r; }
int main(){
  int s=0;
  s+=use<GeometricPolyhedralMeshV3d>(true,Vec3d(0,0,0),Vec3d(1,1,1));
  s+=use<GeometricPolyhedralMeshV3f>(true,Vec3f(0,0,0),Vec3f(1,1,1));
  s+=use<GeometricTetrahedralMeshV3d>(true,Vec3d(0,0,0),Vec3d(1,1,1));
  s+=use<GeometricHexahedralMeshV3d>(true,Vec3d(0,0,0),Vec3d(1,1,1));
  s+=use<GeometryKernel<Geometry::Vec3i,TopologyKernel>>(true,Geometry::Vec3i(0,0,0),Geometry::Vec3i(1,1,1));
  s+=use<GeometryKernel<Geometry::Vec3ui,TopologyKernel>>(true,Geometry::Vec3ui(0,0,0),Geometry::Vec3ui(1,1,1));
  s+=use<GeometryKernel<MyPt,TopologyKernel>>(false,MyPt(0,0,0),MyPt(1,1,1));
  s+=use<GeometryKernel<MyPt,TetrahedralMeshTopologyKernel>>(false,MyPt(0,0,0),MyPt(1,1,1));
  { GeometryKernel<MyPt,TopologyKernel> m; auto a=m.add_vertex(MyPt(0,0,0)); auto b=m.add_vertex(MyPt(2,0,0)); auto c=m.add_vertex(MyPt(0,2,0)); auto f=m.add_face({a,b,c}); (void)f; m.swap_vertex_indices(a,b); m.delete_vertex(c); m.collect_garbage(); m.clear(); s+=(int)m.n_vertices(); }
  printf("OK %d\n",s); return s==8?0:1; }
