#include <OpenVolumeMesh/Core/TopologyKernel.hh>
#include <OpenVolumeMesh/Attribs/StatusAttrib.hh>
#include <random>
#include <set>
#include <map>
#include <cstdio>
using namespace OpenVolumeMesh;
static int fails=0; static int curcase=0;
#define CHK(c,...) do{ if(!(c)){ if(fails<25){printf("FAIL case %d: ",curcase); printf(__VA_ARGS__); puts("");} ++fails; } }while(0)
struct Model{ std::vector<std::pair<int,int>> E; std::vector<std::vector<int>> F /*halfedge ids of hf0*/; std::vector<std::vector<int>> C; std::vector<bool> vd,ed,fd,cd; };
int run(unsigned seed){
  std::mt19937 g(seed); auto R=[&](int n){return (int)(g()%n);};
  TopologyKernel m; int bu=R(8); bool manifold=R(2), fast=R(2), def=R(2), predel=R(2);
  m.enable_vertex_bottom_up_incidences(true);m.enable_edge_bottom_up_incidences(true);m.enable_face_bottom_up_incidences(true);
  int nv=5+R(8); for(int i=0;i<nv;++i) m.add_vertex();
  auto hf=[&](int a,int b,int c){ auto h=m.find_halfface(std::vector<VertexHandle>{VertexHandle(a),VertexHandle(b),VertexHandle(c)}); if(h.is_valid()) return h; auto f=m.add_face(std::vector<VertexHandle>{VertexHandle(a),VertexHandle(b),VertexHandle(c)}); return m.halfface_handle(f,0); };
  int nt=R(7); for(int t=0;t<nt;++t){ int v[4]; std::set<int> s; while(s.size()<4) s.insert(R(nv)); int k=0; for(int x:s) v[k++]=x; if(R(2)) std::swap(v[0],v[1]);
    HalfFaceHandle h[4]={hf(v[0],v[1],v[2]),hf(v[0],v[2],v[3]),hf(v[0],v[3],v[1]),hf(v[1],v[3],v[2])}; bool ok=true; for(auto x:h) if(m.incident_cell(x).is_valid()) ok=false; if(ok) m.add_cell({h[0],h[1],h[2],h[3]}); }
  for(int i=R(4);i>0;--i){ int a=R(nv),b=R(nv),c=R(nv); if(a!=b&&b!=c&&a!=c) hf(a,b,c);} 
  for(int i=R(4);i>0;--i){ int a=R(nv),b=R(nv); if(a!=b) m.add_edge(VertexHandle(a),VertexHandle(b)); }
  for(int i=R(3);i>0;--i) m.add_vertex();
  m.enable_vertex_bottom_up_incidences(bu&1);m.enable_edge_bottom_up_incidences(bu&2);m.enable_face_bottom_up_incidences(bu&4);
  m.enable_fast_deletion(fast); m.enable_deferred_deletion(def);
  auto vid=m.request_vertex_property<int>("vid",-7); auto eid=m.request_edge_property<int>("eid",-7); auto heid=m.request_halfedge_property<int>("heid",-7);
  auto fid=m.request_face_property<int>("fid",-7); auto hfid=m.request_halfface_property<int>("hfid",-7); auto cid=m.request_cell_property<int>("cid",-7);
  auto bp=m.request_halfedge_property<bool>("heb",false);
  Model M; int NV=m.n_vertices(),NE=m.n_edges(),NF=m.n_faces(),NC=m.n_cells();
  for(int i=0;i<NV;++i) vid[VertexHandle(i)]=i;
  for(int i=0;i<NE;++i){ eid[EdgeHandle(i)]=i; heid[HalfEdgeHandle(2*i)]=2*i; heid[HalfEdgeHandle(2*i+1)]=2*i+1; bp[HalfEdgeHandle(2*i)]=true; auto e=m.edge(EdgeHandle(i)); M.E.push_back({e.from_vertex().idx(),e.to_vertex().idx()}); }
  for(int i=0;i<NF;++i){ fid[FaceHandle(i)]=i; hfid[HalfFaceHandle(2*i)]=2*i; hfid[HalfFaceHandle(2*i+1)]=2*i+1; std::vector<int> d; for(auto h:m.face(FaceHandle(i)).halfedges()) d.push_back(h.idx()); M.F.push_back(d);} 
  for(int i=0;i<NC;++i){ cid[CellHandle(i)]=i; std::vector<int> d; for(auto h:m.cell(CellHandle(i)).halffaces()) d.push_back(h.idx()); M.C.push_back(d);} 
  M.vd.assign(NV,false);M.ed.assign(NE,false);M.fd.assign(NF,false);M.cd.assign(NC,false);
  StatusAttrib st(m);
  // pre-existing deferred deletions
  if(def&&predel){ for(int k=R(3);k>0;--k){ int w=R(4); if(w==0&&NV){int i=R(NV); if(!m.is_deleted(VertexHandle(i))){m.delete_vertex(VertexHandle(i)); M.vd[i]=true;}} if(w==1&&NE){int i=R(NE); if(!m.is_deleted(EdgeHandle(i))){m.delete_edge(EdgeHandle(i)); M.ed[i]=true;}} if(w==2&&NF){int i=R(NF); if(!m.is_deleted(FaceHandle(i))){m.delete_face(FaceHandle(i)); M.fd[i]=true;}} if(w==3&&NC){int i=R(NC); if(!m.is_deleted(CellHandle(i))){m.delete_cell(CellHandle(i)); M.cd[i]=true;}} } }
  for(int k=R(4);k>0;--k){ int w=R(4); if(w==0&&NV){int i=R(NV); st[VertexHandle(i)].set_deleted(true); M.vd[i]=true;} if(w==1&&NE){int i=R(NE); st[EdgeHandle(i)].set_deleted(true); M.ed[i]=true;} if(w==2&&NF){int i=R(NF); st[FaceHandle(i)].set_deleted(true); M.fd[i]=true;} if(w==3&&NC){int i=R(NC); st[CellHandle(i)].set_deleted(true); M.cd[i]=true;} }
  // closure
  for(int i=0;i<NE;++i) if(M.vd[M.E[i].first]||M.vd[M.E[i].second]) M.ed[i]=true;
  for(int i=0;i<NF;++i) for(int h:M.F[i]) if(M.ed[h/2]) M.fd[i]=true;
  for(int i=0;i<NC;++i) for(int h:M.C[i]) if(M.fd[h/2]) M.cd[i]=true;
  if(manifold){ for(int i=0;i<NF;++i){ bool used=false; for(int c=0;c<NC;++c) if(!M.cd[c]) for(int h:M.C[c]) if(h/2==i) used=true; if(!used) M.fd[i]=true; }
    for(int i=0;i<NE;++i){ bool used=false; for(int f=0;f<NF;++f) if(!M.fd[f]) for(int h:M.F[f]) if(h/2==i) used=true; if(!used) M.ed[i]=true; }
    for(int i=0;i<NV;++i){ bool used=false; for(int e=0;e<NE;++e) if(!M.ed[e]) if(M.E[e].first==i||M.E[e].second==i) used=true; if(!used) M.vd[i]=true; } }
  // track (random subsets, maybe duplicates and invalid handles)
  std::vector<VertexHandle> tv; std::vector<HalfEdgeHandle> the; std::vector<HalfFaceHandle> thf; std::vector<CellHandle> tc;
  int mode=R(4);
  for(int i=0;i<NV;++i) if(mode==0||R(2)) tv.push_back(VertexHandle(i)); for(int i=0;i<2*NE;++i) if(mode==0||R(2)) the.push_back(HalfEdgeHandle(i));
  for(int i=0;i<2*NF;++i) if(mode==0||R(2)) thf.push_back(HalfFaceHandle(i)); for(int i=0;i<NC;++i) if(mode==0||R(2)) tc.push_back(CellHandle(i));
  if(mode==1){tv.clear();tc.clear();thf.clear();} if(mode==2){the.clear(); tv.clear();}
  if(R(3)==0) the.push_back(HalfEdgeHandle()); 
  auto tv0=tv; auto the0=the; auto thf0=thf; auto tc0=tc;
  std::vector<VertexHandle*> pv; for(auto&x:tv) pv.push_back(&x); std::vector<HalfEdgeHandle*> phe; for(auto&x:the) phe.push_back(&x);
  std::vector<HalfFaceHandle*> phf; for(auto&x:thf) phf.push_back(&x); std::vector<CellHandle*> pc; for(auto&x:tc) pc.push_back(&x);
  size_t np=m.n_props<Entity::Vertex>();
  st.garbage_collection(pv,phe,phf,pc,manifold);
  auto cnt=[](const std::vector<bool>&d){int n=0; for(bool b:d) n+=!b; return n;};
  CHK((int)m.n_vertices()==cnt(M.vd),"n_vertices %d exp %d (bu=%d man=%d fast=%d def=%d)",(int)m.n_vertices(),cnt(M.vd),bu,manifold,fast,def);
  CHK((int)m.n_edges()==cnt(M.ed),"n_edges %d exp %d (bu=%d man=%d fast=%d def=%d)",(int)m.n_edges(),cnt(M.ed),bu,manifold,fast,def);
  CHK((int)m.n_faces()==cnt(M.fd),"n_faces %d exp %d (bu=%d man=%d)",(int)m.n_faces(),cnt(M.fd),bu,manifold);
  CHK((int)m.n_cells()==cnt(M.cd),"n_cells %d exp %d",(int)m.n_cells(),cnt(M.cd));
  CHK(m.n_logical_vertices()==m.n_vertices()&&m.n_logical_edges()==m.n_edges()&&m.n_logical_faces()==m.n_faces()&&m.n_logical_cells()==m.n_cells(),"logical counts");
  CHK(!m.needs_garbage_collection(),"needs gc"); CHK(m.deferred_deletion_enabled()==def,"deferred mode changed");
  CHK(m.n_props<Entity::Vertex>()==np,"temp props leaked %zu vs %zu",m.n_props<Entity::Vertex>(),np);
  CHK(vid.size()==m.n_vertices()&&heid.size()==m.n_halfedges()&&hfid.size()==m.n_halffaces()&&cid.size()==m.n_cells()&&bp.size()==m.n_halfedges(),"prop sizes");
  std::set<int> seen;
  for(auto v:m.vertices()){ int i=vid[v]; CHK(i>=0&&i<NV&&!M.vd[i]&&seen.insert(i).second,"vertex id %d",i);} seen.clear();
  for(auto e:m.edges()){ int i=eid[e]; if(!(i>=0&&i<NE&&!M.ed[i]&&seen.insert(i).second)){CHK(false,"edge id %d",i);continue;} auto ed=m.edge(e); CHK(vid[ed.from_vertex()]==M.E[i].first&&vid[ed.to_vertex()]==M.E[i].second,"edge def %d",i);
     CHK(heid[m.halfedge_handle(e,0)]==2*i&&heid[m.halfedge_handle(e,1)]==2*i+1,"halfedge prop side e%d: %d %d",i,heid[m.halfedge_handle(e,0)],heid[m.halfedge_handle(e,1)]); CHK(bp[m.halfedge_handle(e,0)]==true&&bp[m.halfedge_handle(e,1)]==false,"bool he prop side"); } seen.clear();
  for(auto f:m.faces()){ int i=fid[f]; if(!(i>=0&&i<NF&&!M.fd[i]&&seen.insert(i).second)){CHK(false,"face id %d",i);continue;} std::vector<int> d; for(auto h:m.face(f).halfedges()) d.push_back(heid[h]); CHK(d==M.F[i],"face def %d",i); CHK(hfid[m.halfface_handle(f,0)]==2*i&&hfid[m.halfface_handle(f,1)]==2*i+1,"hf side"); } seen.clear();
  for(auto c:m.cells()){ int i=cid[c]; if(!(i>=0&&i<NC&&!M.cd[i]&&seen.insert(i).second)){CHK(false,"cell id %d",i);continue;} std::vector<int> d; for(auto h:m.cell(c).halffaces()) d.push_back(hfid[h]); CHK(d==M.C[i],"cell def %d",i);} 
  for(size_t k=0;k<tv.size();++k){ int o=tv0[k].idx(); if(M.vd[o]) CHK(!tv[k].is_valid(),"tracked v%d should be invalid, is %d",o,tv[k].idx()); else CHK(tv[k].is_valid()&&tv[k].idx()<(int)m.n_vertices()&&vid[tv[k]]==o,"tracked v%d -> %d",o,tv[k].idx()); }
  for(size_t k=0;k<the.size();++k){ int o=the0[k].idx(); if(o<0){CHK(!the[k].is_valid(),"invalid he stays invalid");continue;} if(M.ed[o/2]) CHK(!the[k].is_valid(),"tracked he%d should be invalid, is %d",o,the[k].idx()); else CHK(the[k].is_valid()&&the[k].idx()<(int)m.n_halfedges()&&heid[the[k]]==o,"tracked he%d -> %d",o,the[k].idx()); }
  for(size_t k=0;k<thf.size();++k){ int o=thf0[k].idx(); if(M.fd[o/2]) CHK(!thf[k].is_valid(),"tracked hf%d should be invalid, is %d",o,thf[k].idx()); else CHK(thf[k].is_valid()&&thf[k].idx()<(int)m.n_halffaces()&&hfid[thf[k]]==o,"tracked hf%d -> %d",o,thf[k].idx()); }
  for(size_t k=0;k<tc.size();++k){ int o=tc0[k].idx(); if(M.cd[o]) CHK(!tc[k].is_valid(),"tracked c%d should be invalid, is %d",o,tc[k].idx()); else CHK(tc[k].is_valid()&&tc[k].idx()<(int)m.n_cells()&&cid[tc[k]]==o,"tracked c%d -> %d",o,tc[k].idx()); }
  // genus formula on survivors
  {int gg=1-((int)m.n_vertices()-(int)m.n_edges()+(int)m.n_faces()-(int)m.n_cells()); CHK(m.genus()==(gg%2==0?gg/2:-1),"genus");}
  return 0; }
int main(int argc,char**argv){ int N=argc>1?atoi(argv[1]):20000; for(curcase=0;curcase<N;++curcase) run(1000+curcase); if(fails){printf("FAILS=%d\n",fails);return 1;} puts("OK"); return 0; }
