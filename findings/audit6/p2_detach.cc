#include <OpenVolumeMesh/Mesh/PolyhedralMesh.hh>
#include <OpenVolumeMesh/Mesh/TetrahedralMesh.hh>
#include <cstdio>
#include <optional>
using namespace OpenVolumeMesh;
static int fails=0;
#define CHK(msg,...) do{ if(!(__VA_ARGS__)){ printf("FAIL %s (line %d)\n",msg,__LINE__); ++fails; } }while(0)
int main(){
  std::optional<VertexPropertyT<int>> p; std::optional<HalfEdgePropertyT<bool>> pb; std::optional<CellPropertyT<std::string>> pc; std::optional<MeshPropertyT<double>> pm;
  std::optional<VertexPropertyT<int>> pers, priv;
  {
    GeometricPolyhedralMeshV3d m; auto a=m.add_vertex(Vec3d(0,0,0)); auto b=m.add_vertex(Vec3d(1,0,0)); auto c=m.add_vertex(Vec3d(0,1,0)); auto d=m.add_vertex(Vec3d(0,0,1));
    m.add_edge(a,b);
    p=m.request_vertex_property<int>("p",5); (*p)[a]=1; (*p)[d]=4;
    pb=m.request_halfedge_property<bool>("pb",false); (*pb)[HalfEdgeHandle(1)]=true;
    pc=m.request_cell_property<std::string>("pc","x"); pm=m.request_mesh_property<double>("pm",2.5);
    pers=m.request_vertex_property<int>("pers",9); m.set_persistent(*pers);
    priv=m.create_private_property<int,Entity::Vertex>("",3);
    CHK("attached",bool(*p)&&bool(*pers)&&bool(*priv));
  }
  CHK("detached reported",!bool(*p)&&!bool(*pb)&&!bool(*pc)&&!bool(*pm)&&!bool(*pers)&&!bool(*priv));
  CHK("data kept",p->size()==4&&(*p)[VertexHandle(0)]==1&&(*p)[VertexHandle(3)]==4&&(*p)[VertexHandle(1)]==5);
  CHK("bool data kept",pb->size()==2&&(*pb)[HalfEdgeHandle(1)]==true&&(*pb)[HalfEdgeHandle(0)]==false);
  CHK("cell/mesh data",pc->size()==0&&pm->size()==1&&(*pm)[MeshHandle(0)]==2.5);
  CHK("persistent data kept",pers->size()==4&&pers->at(VertexHandle(2))==9);
  CHK("name/def",p->name()=="p"&&p->def()==5);
  { auto q=*p; CHK("copy of detached",!bool(q)&&q.size()==4); auto r=std::move(q); CHK("move",r.size()==4); r.fill(7); CHK("shared storage",(*p)[VertexHandle(0)]==7); }
  { int s=0; for(auto x:*p) s+=x; CHK("iter",s==28); std::vector<int> v{1,2,3,4}; p->swap(v);  }
  // use detached handle in another mesh's registry calls
  { GeometricPolyhedralMeshV3d m2; m2.add_vertex(Vec3d(0,0,0)); CHK("not in other mesh",!m2.property_exists<int,Entity::Vertex>("p")); auto q=m2.request_vertex_property<int>("p",0); CHK("independent",q.size()==1&&p->size()==4); }
  // clear_all_props / clear / assignment detach behaviour
  { GeometricPolyhedralMeshV3d m; m.add_vertex(Vec3d(0,0,0)); auto q=m.request_vertex_property<int>("q",1); auto pe=m.request_vertex_property<int>("pe",2); m.set_persistent(pe);
    m.clear_all_props(); m.add_vertex(Vec3d(1,1,1)); CHK("sized after clear_all_props",q.size()==2&&pe.size()==2); CHK("q not findable",!m.property_exists<int,Entity::Vertex>("q")); 
    auto q2=m.request_vertex_property<int>("q",8); CHK("new q",q2.size()==2&&q2[VertexHandle(0)]==8); q[VertexHandle(1)]=3; CHK("distinct storage",q2[VertexHandle(1)]==8);
    GeometricPolyhedralMeshV3d o; o.add_vertex(Vec3d(0,0,0)); o.add_vertex(Vec3d(0,0,0));o.add_vertex(Vec3d(0,0,0));
    m=o; CHK("sized after assignment",q.size()==3&&q2.size()==3&&pe.size()==3); CHK("q gone after assign",!m.property_exists<int,Entity::Vertex>("q"));
    m.clear(); CHK("clear",q.size()==0&&q2.size()==0); m.add_vertex(Vec3d(0,0,0)); CHK("after clear grow",q.size()==1&&q2.size()==1&&pe.size()==1);
    GeometricPolyhedralMeshV3d mv(std::move(m)); mv.add_vertex(Vec3d(0,0,0)); (void)q.size(); q.fill(1);
  }
  { auto *m=new GeometricTetrahedralMeshV3d; auto a=m->add_vertex(Vec3d(0,0,0)),b=m->add_vertex(Vec3d(1,0,0)),c=m->add_vertex(Vec3d(0,1,0)),d=m->add_vertex(Vec3d(0,0,1)); m->add_cell(a,b,c,d);
    auto q=m->request_halfface_property<int>("h",1); auto q3=q; delete m; CHK("tet detached",!q&&q.size()==8&&q3[HalfFaceHandle(7)]==1); }
  if(fails){printf("FAILS=%d\n",fails);return 1;} puts("OK"); return 0; }
