#include <OpenVolumeMesh/Core/GeometryKernel.hh>
#include <OpenVolumeMesh/Core/TopologyKernel.hh>
#include <OpenVolumeMesh/Geometry/VectorT.hh>
#include <OpenVolumeMesh/Mesh/PolyhedralMesh.hh>
#include <climits>
#include <cstdio>
#include <random>
#include <limits>
#include <cfloat>
using namespace OpenVolumeMesh;
static int fails=0;
template<class T> __int128 expect(T a,T b){ __int128 s=(__int128)a+(__int128)b; return s/2; /* trunc; for unsigned = floor */ }
template<class T,int D> struct Tester{
  using P=Geometry::VectorT<T,D>;
  GeometryKernel<P,TopologyKernel> m; VertexHandle v0,v1; EdgeHandle e;
  Tester(){ v0=m.add_vertex(P()); v1=m.add_vertex(P()); e=m.add_edge(v0,v1);}
  void check(T a,T b){
    P pa,pb; for(int i=0;i<D;++i){pa[i]=a;pb[i]=b;} 
    // mix: component 0 = (a,b), others swapped
    if(D>1){pa[1]=b;pb[1]=a;}
    m.set_vertex(v0,pa); m.set_vertex(v1,pb);
    P r=m.barycenter(e);
    for(int i=0;i<D;++i){ __int128 ex=expect<T>(pa[i],pb[i]); if((__int128)r[i]!=ex){ if(fails<20) printf("FAIL %s D%d i%d a=%lld b=%lld got=%lld exp=%lld\n",__PRETTY_FUNCTION__,D,i,(long long)pa[i],(long long)pb[i],(long long)r[i],(long long)ex); ++fails; } }
  }
};
template<class T> void sample(){
  Tester<T,3> t; Tester<T,2> t2; Tester<T,4> t4;
  std::vector<T> sp; T mn=std::numeric_limits<T>::min(), mx=std::numeric_limits<T>::max();
  for(int k=0;k<6;++k){ sp.push_back(mn+k); sp.push_back(mx-k); sp.push_back((T)(0+k)); if(std::is_signed<T>::value) sp.push_back((T)(0-k)); sp.push_back(mx/2+k); sp.push_back(mx/2-k); sp.push_back(mn/2+k); if(std::is_signed<T>::value) sp.push_back(mn/2-k);}
  for(T a:sp) for(T b:sp){ t.check(a,b); t2.check(a,b); t4.check(a,b);}
  std::mt19937_64 g(12345);
  for(int i=0;i<2000000;++i){ T a=(T)g(), b=(T)g(); if(i&1){a=(T)(a>>(g()%(sizeof(T)*8-1))); } if(i&2){ b=(T)(b>>(g()%(sizeof(T)*8-1)));} t.check(a,b);} 
  for(T a:sp) for(int i=0;i<20000;++i){ T b=(T)g(); t.check(a,b); t.check(b,a);} 
}
template<class T,int D> void fl(){
  using P=Geometry::VectorT<T,D>;
  GeometryKernel<P,TopologyKernel> m; auto v0=m.add_vertex(P()); auto v1=m.add_vertex(P()); auto e=m.add_edge(v0,v1);
  std::mt19937_64 g(7); std::uniform_real_distribution<double> d(-1e6,1e6);
  std::vector<T> sp={0,(T)-0.0,1,-1,std::numeric_limits<T>::max(),std::numeric_limits<T>::lowest(),std::numeric_limits<T>::min(),(T)1e30,(T)-1e30,(T)0.1,(T)3};
  auto one=[&](P a,P b){ m.set_vertex(v0,a); m.set_vertex(v1,b); P r=m.barycenter(e); for(int i=0;i<D;++i){ T ex=(T)0.5*a[i]+(T)0.5*b[i]; if(!(r[i]==ex)){ if(fails<20)printf("FAILfl %s i%d a=%g b=%g got=%.17g exp=%.17g\n",__PRETTY_FUNCTION__,i,(double)a[i],(double)b[i],(double)r[i],(double)ex); ++fails;} }
     auto L=m.length(e); static_assert(std::is_floating_point<decltype(L)>::value,""); P dd=b-a; if(!(L==dd.norm()) && !(L!=L && dd.norm()!=dd.norm())){ if(fails<20)printf("FAILlen %s\n",__PRETTY_FUNCTION__); ++fails;} };
  for(int i=0;i<200000;++i){ P a,b; for(int k=0;k<D;++k){a[k]=(T)d(g); b[k]=(T)d(g);} one(a,b);} 
  for(T x:sp) for(T y:sp){ P a,b; for(int k=0;k<D;++k){a[k]=(k&1)?y:x; b[k]=(k&1)?x:y;} one(a,b);} 
}
int main(){
  { Tester<signed char,3> t; for(int a=-128;a<=127;++a) for(int b=-128;b<=127;++b) t.check((signed char)a,(signed char)b); }
  { Tester<unsigned char,3> t; for(int a=0;a<=255;++a) for(int b=0;b<=255;++b) t.check((unsigned char)a,(unsigned char)b); }
  { Tester<char,2> t; for(int a=CHAR_MIN;a<=CHAR_MAX;++a) for(int b=CHAR_MIN;b<=CHAR_MAX;++b) t.check((char)a,(char)b); }
  sample<short>(); sample<unsigned short>(); sample<int>(); sample<unsigned>(); sample<long long>(); sample<unsigned long long>(); sample<long>(); sample<unsigned long>();
  fl<float,2>(); fl<float,3>(); fl<float,4>(); fl<double,2>(); fl<double,3>(); fl<double,4>();
  // integer length types
  { GeometryKernel<Geometry::Vec3i,TopologyKernel> m; auto a=m.add_vertex({0,0,0}); auto b=m.add_vertex({1,1,0}); auto e=m.add_edge(a,b); auto L=m.length(e); auto L2=m.length(m.halfedge_handle(e,1)); if(!(L>1.41&&L<1.42&&L2==L)){printf("FAIL int length %g\n",(double)L);++fails;} }
  if(fails){printf("FAILS=%d\n",fails);return 1;} puts("OK"); return 0;
}
