#include <OpenVolumeMesh/Core/TopologyKernel.hh>
#include <random>
#include <set>
#include <cstdio>
#include <algorithm>
using namespace OpenVolumeMesh;
static int fails=0,cs=0;
#define CHK(c,...) do{ if(!(c)){ if(fails<20){printf("FAIL case %d: ",cs); printf(__VA_ARGS__); puts("");} ++fails; } }while(0)
void verify(TopologyKernel&m){
  bool closed=true; for(auto hf:m.halffaces()){ auto hs=m.halfface(hf).halfedges(); for(size_t i=0;i<hs.size();++i) if(m.to_vertex_handle(hs[i])!=m.from_vertex_handle(hs[(i+1)%hs.size()])) closed=false; }
  for(auto v:m.vertices()){ std::multiset<int> bf,got; for(auto h:m.halfedges()) if(m.from_vertex_handle(h)==v) bf.insert(h.idx()); for(auto it=m.voh_iter(v);it.valid();++it) got.insert(it->idx()); CHK(bf==got,"voh v%d",v.idx());
     std::set<int> bc,gc; for(auto c:m.cells()) for(auto hf:m.cell(c).halffaces()) for(auto he:m.halfface(hf).halfedges()) if(m.from_vertex_handle(he)==v||m.to_vertex_handle(he)==v) bc.insert(c.idx()); for(auto it=m.vc_iter(v);it.valid();++it) gc.insert(it->idx()); if(closed) CHK(bc==gc,"vc v%d",v.idx()); }
  for(auto h:m.halfedges()){ std::multiset<int> bf,got; for(auto hf:m.halffaces()) for(auto x:m.halfface(hf).halfedges()) if(x==h) bf.insert(hf.idx()); for(auto it=m.hehf_iter(h);it.valid();++it) got.insert(it->idx()); CHK(bf==got,"hehf he%d bf%zu got%zu",h.idx(),bf.size(),got.size()); 
     bool bb=false; for(auto hf:bf) {} }
  for(auto hf:m.halffaces()){ CellHandle bf; for(auto c:m.cells()) for(auto x:m.cell(c).halffaces()) if(x==hf) bf=c; CHK(m.incident_cell(hf)==bf,"incident_cell hf%d got %d exp %d",hf.idx(),m.incident_cell(hf).idx(),bf.idx()); }
  for(auto f:m.faces()){ bool b=!m.incident_cell(m.halfface_handle(f,0)).is_valid()||!m.incident_cell(m.halfface_handle(f,1)).is_valid(); CHK(m.is_boundary(f)==b,"is_boundary f"); }
}
int main(){
  for(cs=0;cs<4000;++cs){ std::mt19937 g(cs+5); auto R=[&](int n){return (int)(g()%n);};
    TopologyKernel m; int nv=5+R(5); for(int i=0;i<nv;++i) m.add_vertex(); bool def=R(2); m.enable_deferred_deletion(def); m.enable_fast_deletion(R(2));
    auto hf=[&](int a,int b,int c){ auto h=m.find_halfface(std::vector<VertexHandle>{VertexHandle(a),VertexHandle(b),VertexHandle(c)}); if(h.is_valid()) return h; return m.halfface_handle(m.add_face(std::vector<VertexHandle>{VertexHandle(a),VertexHandle(b),VertexHandle(c)}),0); };
    for(int t=R(5)+1;t>0;--t){ int v[4]; std::set<int> s; while(s.size()<4) s.insert(R(nv)); int k=0; for(int x:s) v[k++]=x; HalfFaceHandle h[4]={hf(v[0],v[1],v[2]),hf(v[0],v[2],v[3]),hf(v[0],v[3],v[1]),hf(v[1],v[3],v[2])}; bool ok=true; for(auto x:h) if(m.incident_cell(x).is_valid()) ok=false; if(ok) m.add_cell({h[0],h[1],h[2],h[3]}); }
    for(int step=0;step<6;++step){ int w=R(5);
      auto liveE=[&]{std::vector<EdgeHandle> r; for(auto e:m.edges()) r.push_back(e); return r;}(); auto liveF=[&]{std::vector<FaceHandle> r; for(auto e:m.faces()) r.push_back(e); return r;}(); auto liveC=[&]{std::vector<CellHandle> r; for(auto e:m.cells()) r.push_back(e); return r;}(); auto liveV=[&]{std::vector<VertexHandle> r; for(auto e:m.vertices()) r.push_back(e); return r;}();
      if(w==0&&!liveE.empty()&&liveV.size()>=2){ auto e=liveE[R(liveE.size())]; m.set_edge(e,liveV[R(liveV.size())],liveV[R(liveV.size())]); }
      else if(w==1&&!liveF.empty()&&!liveE.empty()){ auto f=liveF[R(liveF.size())]; std::vector<HalfEdgeHandle> hs; int n=1+R(4); for(int i=0;i<n;++i) hs.push_back(m.halfedge_handle(liveE[R(liveE.size())],R(2))); if(R(2)==0){ hs=m.face(f).halfedges(); std::rotate(hs.begin(),hs.begin()+R(hs.size()),hs.end()); if(R(2)){ auto o=m.halfface(m.halfface_handle(f,1)).halfedges(); hs=o; } } m.set_face(f,hs); }
      else if(w==2&&!liveC.empty()){ auto c=liveC[R(liveC.size())]; std::vector<HalfFaceHandle> hs; for(auto hfh:m.halffaces()) if((!m.incident_cell(hfh).is_valid()||m.incident_cell(hfh)==c)&&R(3)==0) hs.push_back(hfh); if(hs.empty()) continue; m.set_cell(c,hs); }
      else if(w==3&&!liveC.empty()&&R(2)){ m.delete_cell(liveC[R(liveC.size())]); }
      else if(w==4&&R(3)==0){ m.collect_garbage(); }
      verify(m); if(fails) break; }
    // clear with pending deletions
    if(def&&m.n_vertices()){ m.delete_vertex(*m.vertices().first); } m.clear();
    CHK(m.n_logical_vertices()==0&&m.n_logical_edges()==0&&m.n_logical_faces()==0&&m.n_logical_cells()==0&&m.n_logical_halfedges()==0&&m.n_logical_halffaces()==0&&!m.needs_garbage_collection()&&m.genus()==-1,"after clear: nlv=%zu needs=%d genus=%d",m.n_logical_vertices(),(int)m.needs_garbage_collection(),m.genus());
    auto v=m.add_vertex(); CHK(m.n_logical_vertices()==1&&!m.is_deleted(v),"after clear add");
    if(fails) break; }
  if(fails){printf("FAILS=%d\n",fails);return 1;} puts("OK"); return 0; }
