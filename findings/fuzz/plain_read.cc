// Plain (unsanitised) replay tool, same input convention as the fuzz targets:
// first byte = options (bit0 topology_check, bit1 bottom_up, bits2-3 mesh type 0/3 poly, 1 tet, 2 hex)
#include <OpenVolumeMesh/Mesh/PolyhedralMesh.hh>
#include <OpenVolumeMesh/Mesh/TetrahedralMesh.hh>
#include <OpenVolumeMesh/Mesh/HexahedralMesh.hh>
#include <OpenVolumeMesh/IO/ovmb_read.hh>
#include <OpenVolumeMesh/FileManager/FileManager.hh>
#include <fstream>
#include <sstream>
#include <cstdio>
#include <cstring>
using namespace OpenVolumeMesh;
template <typename M> int run(bool ascii, const std::string &s, bool topo, bool bu) {
    M mesh;
    try {
        if (ascii) {
            std::istringstream in(s); IO::FileManager fm; fm.setVerbosityLevel(0);
            bool ok = fm.readStream(in, mesh, topo, bu);
            printf("readStream -> %s", ok ? "true" : "false");
        } else {
            std::istringstream in(s, std::ios::binary); IO::ReadOptions o; o.topology_check = topo; o.bottom_up_incidences = bu;
            auto r = IO::ovmb_read(in, mesh, o);
            printf("ovmb_read -> %s", IO::to_string(r));
        }
    } catch (std::exception &e) { printf("exception: %s\n", e.what()); return 0; }
    printf(" (V=%zu E=%zu F=%zu C=%zu)\n", mesh.n_vertices(), mesh.n_edges(), mesh.n_faces(), mesh.n_cells());
    for (auto ch : mesh.cells()) { printf("  cell %d:", ch.idx()); for (auto h : mesh.cell(ch).halffaces()) printf(" %d", h.idx()); printf("\n"); if (ch.idx() > 8) break; }
    return 0;
}
int main(int argc, char **argv) {
    if (argc < 3) { fprintf(stderr, "usage: plain_read ascii|ovmb file\n"); return 2; }
    bool ascii = !strcmp(argv[1], "ascii");
    std::ifstream f(argv[2], std::ios::binary); std::string s((std::istreambuf_iterator<char>(f)), {});
    if (s.empty()) return 2;
    unsigned o = (unsigned char)s[0]; s.erase(0, 1);
    bool topo = o & 1, bu = o & 2; unsigned mt = (o >> 2) & 3;
    printf("options: topology_check=%d bottom_up=%d mesh=%s\n", topo, bu, mt == 1 ? "tet" : mt == 2 ? "hex" : "poly");
    if (mt == 1) return run<GeometricTetrahedralMeshV3d>(ascii, s, topo, bu);
    if (mt == 2) return run<GeometricHexahedralMeshV3d>(ascii, s, topo, bu);
    return run<GeometricPolyhedralMeshV3d>(ascii, s, topo, bu);
}
