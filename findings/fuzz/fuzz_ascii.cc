#define FUZZ_DEFINE_NEW
#include "walk.hh"
#include <OpenVolumeMesh/FileManager/FileManager.hh>
#include <sstream>
#include <iostream>

using namespace OpenVolumeMesh;

template <typename MeshT>
static void run(const uint8_t *data, size_t size, bool topo, bool bu)
{
    std::string s(reinterpret_cast<const char *>(data), size);
    std::istringstream in(s);
    MeshT mesh;
    IO::FileManager fm;
    fm.setVerbosityLevel(0);
    bool ok;
    try {
        ok = fm.readStream(in, mesh, topo, bu);
    } catch (std::exception &e) {
        if (getenv("FUZZ_VERBOSE")) fprintf(stderr, "read threw std::exception: %s\n", e.what());
        return; // allowed: standard exception
    }
    if (getenv("FUZZ_VERBOSE")) fprintf(stderr, "read result: %s (V=%zu E=%zu F=%zu C=%zu)\n", ok ? "true" : "false", mesh.n_vertices(), mesh.n_edges(), mesh.n_faces(), mesh.n_cells());
    if (!ok) return;
    try {
        validate_mesh(mesh, topo, bu);
    } catch (std::bad_alloc &) {
    }
}

extern "C" int LLVMFuzzerInitialize(int *, char ***)
{
    std::cerr.setstate(std::ios::failbit);
    std::cout.setstate(std::ios::failbit);
    return 0;
}

extern "C" int LLVMFuzzerTestOneInput(const uint8_t *data, size_t size)
{
    if (size < 1) return 0;
    uint8_t o = data[0];
    bool topo = o & 1, bu = o & 2;
    unsigned mt = (o >> 2) & 3;
    ++data; --size;
    switch (mt) {
    case 1: run<GeometricTetrahedralMeshV3d>(data, size, topo, bu); break;
    case 2: run<GeometricHexahedralMeshV3d>(data, size, topo, bu); break;
    default: run<GeometricPolyhedralMeshV3d>(data, size, topo, bu); break;
    }
    return 0;
}
