// Shared post-read validation / mesh walk for the fuzz targets.
#pragma once
#include <OpenVolumeMesh/Mesh/PolyhedralMesh.hh>
#include <OpenVolumeMesh/Mesh/TetrahedralMesh.hh>
#include <OpenVolumeMesh/Mesh/HexahedralMesh.hh>
#include <cstdio>
#include <cstdlib>
#include <new>
#include <type_traits>

namespace OVM = OpenVolumeMesh;

// ---- allocation cap: turn "huge declared size" into std::bad_alloc (the allowed outcome)
#ifndef FUZZ_ALLOC_CAP
#define FUZZ_ALLOC_CAP (size_t(64) << 20)
#endif
#ifdef FUZZ_DEFINE_NEW
static size_t g_live_cap = FUZZ_ALLOC_CAP;
void *operator new(size_t n) {
    if (n > g_live_cap) throw std::bad_alloc();
    void *p = malloc(n ? n : 1);
    if (!p) throw std::bad_alloc();
    return p;
}
void *operator new[](size_t n) { return operator new(n); }
void operator delete(void *p) noexcept { free(p); }
void operator delete[](void *p) noexcept { free(p); }
void operator delete(void *p, size_t) noexcept { free(p); }
void operator delete[](void *p, size_t) noexcept { free(p); }
void *operator new(size_t n, const std::nothrow_t &) noexcept { if (n > g_live_cap) return nullptr; return malloc(n ? n : 1); }
void *operator new[](size_t n, const std::nothrow_t &) noexcept { if (n > g_live_cap) return nullptr; return malloc(n ? n : 1); }
void operator delete(void *p, const std::nothrow_t &) noexcept { free(p); }
void operator delete[](void *p, const std::nothrow_t &) noexcept { free(p); }
static void *fuzz_aligned(size_t n, std::align_val_t a) {
    if (n > g_live_cap) throw std::bad_alloc();
    void *p = nullptr;
    if (posix_memalign(&p, (size_t)a < sizeof(void*) ? sizeof(void*) : (size_t)a, n ? n : 1)) throw std::bad_alloc();
    return p;
}
void *operator new(size_t n, std::align_val_t a) { return fuzz_aligned(n, a); }
void *operator new[](size_t n, std::align_val_t a) { return fuzz_aligned(n, a); }
void operator delete(void *p, std::align_val_t) noexcept { free(p); }
void operator delete[](void *p, std::align_val_t) noexcept { free(p); }
void operator delete(void *p, size_t, std::align_val_t) noexcept { free(p); }
void operator delete[](void *p, size_t, std::align_val_t) noexcept { free(p); }
#endif

[[noreturn]] inline void fuzz_fail(const char *what, long a = 0, long b = 0) {
    fprintf(stderr, "FUZZ-INVARIANT-VIOLATION: %s (%ld, %ld)\n", what, a, b);
    abort();
}

static volatile long g_sink;

template <typename MeshT>
__attribute__((noinline)) void check_stored_handles(MeshT &m)
{
    const long nv = (long)m.n_vertices(), ne = (long)m.n_edges(), nf = (long)m.n_faces(), nc = (long)m.n_cells();
    for (long i = 0; i < ne; ++i) {
        auto const &e = m.edge(OVM::EdgeHandle((int)i));
        long a = e.from_vertex().idx(), b = e.to_vertex().idx();
        if (a < 0 || a >= nv || b < 0 || b >= nv) fuzz_fail("edge vertex out of range", i, a);
    }
    for (long i = 0; i < nf; ++i) {
        auto const &f = m.face(OVM::FaceHandle((int)i));
        if (f.halfedges().empty()) fuzz_fail("face without halfedges", i);
        for (auto heh : f.halfedges()) {
            if (heh.idx() < 0 || heh.idx() >= 2 * ne) fuzz_fail("face halfedge out of range", i, heh.idx());
        }
    }
    for (long i = 0; i < nc; ++i) {
        auto const &c = m.cell(OVM::CellHandle((int)i));
        if (c.halffaces().empty()) fuzz_fail("cell without halffaces", i);
        for (auto hfh : c.halffaces()) {
            if (hfh.idx() < 0 || hfh.idx() >= 2 * nf) fuzz_fail("cell halfface out of range", i, hfh.idx());
        }
    }
    if constexpr (std::is_base_of_v<OVM::TetrahedralMeshTopologyKernel, MeshT>) {
        for (long i = 0; i < nf; ++i)
            if (m.face(OVM::FaceHandle((int)i)).halfedges().size() != 3) fuzz_fail("tet mesh: face valence != 3", i);
        for (long i = 0; i < nc; ++i)
            if (m.cell(OVM::CellHandle((int)i)).halffaces().size() != 4) fuzz_fail("tet mesh: cell valence != 4", i);
    }
    if constexpr (std::is_base_of_v<OVM::HexahedralMeshTopologyKernel, MeshT>) {
        for (long i = 0; i < nf; ++i)
            if (m.face(OVM::FaceHandle((int)i)).halfedges().size() != 4) fuzz_fail("hex mesh: face valence != 4", i);
        for (long i = 0; i < nc; ++i)
            if (m.cell(OVM::CellHandle((int)i)).halffaces().size() != 6) fuzz_fail("hex mesh: cell valence != 6", i);
    }
}

template <typename Tag, typename MeshT>
void check_props_of(MeshT &m, const char *what)
{
    size_t n = m.template n<Tag>();
    for (auto it = m.template persistent_props_begin<Tag>(); it != m.template persistent_props_end<Tag>(); ++it) {
        OVM::PropertyStorageBase *p = *it;
        if (p->size() != n) fuzz_fail(what, (long)p->size(), (long)n);
    }
}

template <typename MeshT>
__attribute__((noinline)) void check_props(MeshT &m)
{
    using namespace OVM::Entity;
    check_props_of<Vertex>(m, "vertex prop size mismatch");
    check_props_of<Edge>(m, "edge prop size mismatch");
    check_props_of<HalfEdge>(m, "halfedge prop size mismatch");
    check_props_of<Face>(m, "face prop size mismatch");
    check_props_of<HalfFace>(m, "halfface prop size mismatch");
    check_props_of<Cell>(m, "cell prop size mismatch");
    check_props_of<Mesh>(m, "mesh prop size mismatch");
    if (m.vertex_positions().size() != m.n_vertices()) fuzz_fail("position prop size mismatch");
}

#define WALK(range) do { long budget = 100000; for (auto h : range) { g_sink += h.idx(); if (--budget == 0) fuzz_fail("circulator did not terminate: " #range); } } while (0)

// circulators that only need top-down incidences
template <typename MeshT>
__attribute__((noinline)) void walk_top_down(MeshT &m)
{
    for (auto vh : m.vertices()) { g_sink += vh.idx(); g_sink += (m.vertex(vh)[0] > 0.0); }
    for (auto eh : m.edges()) { g_sink += m.edge(eh).from_vertex().idx(); g_sink += m.from_vertex_handle(m.halfedge_handle(eh, 1)).idx(); }
    for (auto heh : m.halfedges()) { g_sink += m.to_vertex_handle(heh).idx(); g_sink += m.opposite_halfedge_handle(heh).idx(); }
    for (auto fh : m.faces()) {
        WALK(m.face_vertices(fh));
        WALK(m.face_halfedges(fh));
        WALK(m.face_edges(fh));
    }
    for (auto hfh : m.halffaces()) {
        WALK(m.halfface_vertices(hfh));
        WALK(m.halfface_halfedges(hfh));
        WALK(m.halfface_edges(hfh));
        auto hf = m.halfface(hfh);
        for (auto heh : hf.halfedges()) {
            g_sink += m.next_halfedge_in_halfface(heh, hfh).idx();
            g_sink += m.prev_halfedge_in_halfface(heh, hfh).idx();
        }
    }
    for (auto ch : m.cells()) {
        WALK(m.cell_vertices(ch));
        WALK(m.cell_halffaces(ch));
        WALK(m.cell_faces(ch));
        WALK(m.cell_halfedges(ch));
        WALK(m.cell_edges(ch));
    }
}

// circulators that need bottom-up incidences
template <typename MeshT>
__attribute__((noinline)) void walk_bottom_up(MeshT &m)
{
    for (auto vh : m.vertices()) {
        WALK(m.outgoing_halfedges(vh));
        WALK(m.incoming_halfedges(vh));
        WALK(m.vertex_edges(vh));
        WALK(m.vertex_vertices(vh));
        WALK(m.vertex_halffaces(vh));
        WALK(m.vertex_faces(vh));
        WALK(m.vertex_cells(vh));
        g_sink += (long)m.valence(vh);
        g_sink += m.is_boundary(vh);
    }
    for (auto heh : m.halfedges()) {
        WALK(m.halfedge_halffaces(heh));
        WALK(m.halfedge_faces(heh));
        WALK(m.halfedge_cells(heh));
        g_sink += m.is_boundary(heh);
    }
    for (auto eh : m.edges()) {
        WALK(m.edge_halffaces(eh));
        WALK(m.edge_faces(eh));
        WALK(m.edge_cells(eh));
        g_sink += (long)m.valence(eh);
        g_sink += m.is_boundary(eh);
    }
    for (auto hfh : m.halffaces()) {
        g_sink += m.incident_cell(hfh).idx();
        g_sink += m.is_boundary(hfh);
        for (auto heh : m.halfface(hfh).halfedges()) {
            g_sink += m.adjacent_halfface_in_cell(hfh, heh).idx();
        }
        if (m.is_boundary(hfh)) WALK(m.boundary_halfface_halffaces(hfh));
    }
    for (auto fh : m.faces()) { g_sink += m.is_boundary(fh); }
    for (auto ch : m.cells()) {
        WALK(m.cell_cells(ch));
        g_sink += m.is_boundary(ch);
    }
    { long budget = 1000000; for (auto it = m.bv_iter(); it.valid(); ++it) { g_sink += (*it).idx(); if (--budget == 0) break; } }
    { long budget = 1000000; for (auto it = m.bhf_iter(); it.valid(); ++it) { g_sink += (*it).idx(); if (--budget == 0) break; } }
    { long budget = 1000000; for (auto it = m.bf_iter(); it.valid(); ++it) { g_sink += (*it).idx(); if (--budget == 0) break; } }
    { long budget = 1000000; for (auto it = m.be_iter(); it.valid(); ++it) { g_sink += (*it).idx(); if (--budget == 0) break; } }
    { long budget = 1000000; for (auto it = m.bhe_iter(); it.valid(); ++it) { g_sink += (*it).idx(); if (--budget == 0) break; } }
    { long budget = 1000000; for (auto it = m.bc_iter(); it.valid(); ++it) { g_sink += (*it).idx(); if (--budget == 0) break; } }
}

// mesh-type specific iterators / queries (assume tet / hex structure)
template <typename MeshT>
__attribute__((noinline)) void walk_special(MeshT &m)
{
    if constexpr (std::is_base_of_v<OVM::TetrahedralMeshTopologyKernel, MeshT>) {
        for (auto ch : m.cells()) {
            WALK(m.tet_vertices(ch));
            g_sink += (long)m.get_cell_vertices(ch).size();
        }
        for (auto hfh : m.halffaces()) {
            g_sink += (long)m.get_halfface_vertices(hfh).size();
            if (m.incident_cell(hfh).is_valid()) g_sink += m.halfface_opposite_vertex(hfh).idx();
        }
    }
    if constexpr (std::is_base_of_v<OVM::HexahedralMeshTopologyKernel, MeshT>) {
        for (auto ch : m.cells()) {
            WALK(m.hex_vertices(ch));
            for (unsigned char d = 0; d < 6; ++d) {
                g_sink += m.get_oriented_halfface(d, ch).idx();
                g_sink += m.orientation(m.get_oriented_halfface(d, ch), ch);
            }
            for (unsigned char d = 0; d < 6; ++d) WALK(m.cell_sheet_cells(ch, d));
            for (auto hfh : m.cell(ch).halffaces()) {
                g_sink += m.opposite_halfface_handle_in_cell(hfh, ch).idx();
            }
        }
        for (auto hfh : m.halffaces()) {
            if (m.is_boundary(hfh)) WALK(m.halfface_sheet_halffaces(hfh));
        }
    }
}

template <typename MeshT>
__attribute__((noinline)) void mutate_and_gc(MeshT &m)
{
    m.enable_deferred_deletion(true);
    if (m.n_vertices() > 0) {
        m.delete_vertex(OVM::VertexHandle((int)(m.n_vertices() / 2)));
    }
    m.collect_garbage();
}

template <typename MeshT>
void validate_mesh(MeshT &m, bool topo_check, bool expect_bottom_up)
{
    check_stored_handles(m);
    check_props(m);
    {
        // meshes with huge (declared but not backed by data) valences make the walk quadratic; skip them
        size_t total = 0;
        for (size_t i = 0; i < m.n_faces(); ++i) total += m.face(OVM::FaceHandle((int)i)).halfedges().size();
        for (size_t i = 0; i < m.n_cells(); ++i) total += m.cell(OVM::CellHandle((int)i)).halffaces().size();
        if (total > 200) return;
    }
    walk_top_down(m);
    if (expect_bottom_up) {
        if (!m.has_full_bottom_up_incidences()) fuzz_fail("bottom-up incidences requested but not enabled");
        walk_bottom_up(m);
    }
    m.enable_bottom_up_incidences(true);
    walk_bottom_up(m);
    if (topo_check) walk_special(m);
    check_props(m);
    m.collect_garbage();
    check_stored_handles(m);
    check_props(m);
#ifndef FUZZ_MUTATE_ALWAYS
    if (!topo_check) return; // deleting entities of a mesh that was never topology-checked is a separate topic
#endif
    mutate_and_gc(m);
    check_stored_handles(m);
    check_props(m);
    walk_top_down(m);
    walk_bottom_up(m);
}
