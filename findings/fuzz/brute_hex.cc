// Exhaustively feed HexahedralMeshTopologyKernel::add_cell(halffaces, topologyCheck=true)
// with every 6-tuple of the 12 halffaces of a cube and check the stored cell.
#include <OpenVolumeMesh/Mesh/HexahedralMesh.hh>
#include <cstdio>
#include <csignal>
#include <unistd.h>
static int t[6];
static void on_abrt(int){ char b[128]; int n=snprintf(b,sizeof b,"ABORT while adding %d %d %d %d %d %d\n",t[0],t[1],t[2],t[3],t[4],t[5]); write(2,b,n); _exit(3);}
using namespace OpenVolumeMesh;
int main() {
    GeometricHexahedralMeshV3d base;
    const double P[8][3] = {{0,0,0},{1,0,0},{1,1,0},{0,1,0},{0,0,1},{0,1,1},{1,1,1},{1,0,1}};
    std::vector<VertexHandle> v;
    for (auto &p : P) v.push_back(base.add_vertex(Geometry::Vec3d(p[0], p[1], p[2])));
    base.add_cell({v[0],v[1],v[2],v[3],v[4],v[5],v[6],v[7]}, true);
    auto hfs0 = base.cell(CellHandle(0)).halffaces();
    printf("cube cell: "); for (auto h : hfs0) printf("%d ", h.idx()); printf("\n");
    base.enable_deferred_deletion(false);
    base.delete_cell(CellHandle(0)); // keep the faces
    printf("faces=%zu cells=%zu\n", base.n_faces(), base.n_cells());
    long accepted = 0, bad = 0;
    signal(SIGABRT,on_abrt); setvbuf(stdout,nullptr,_IONBF,0);
    if (getenv("NO_BU")) base.enable_bottom_up_incidences(false);
    for (t[0]=0;t[0]<12;++t[0]) for (t[1]=0;t[1]<12;++t[1]) for (t[2]=0;t[2]<12;++t[2])
    for (t[3]=0;t[3]<12;++t[3]) for (t[4]=0;t[4]<12;++t[4]) for (t[5]=0;t[5]<12;++t[5]) {
        GeometricHexahedralMeshV3d m = base;
        std::vector<HalfFaceHandle> in; for (int i=0;i<6;++i) in.push_back(HalfFaceHandle(t[i]));
        CellHandle ch = m.add_cell(in, true);
        if (!ch.is_valid()) continue;
        ++accepted;
        bool isbad = false;
        for (auto h : m.cell(ch).halffaces()) if (h.idx() < 0 || h.idx() >= 12) isbad = true;
        if (isbad) { if (bad < 5) { printf("BAD input %d %d %d %d %d %d -> stored:", t[0],t[1],t[2],t[3],t[4],t[5]); for (auto h : m.cell(ch).halffaces()) printf(" %d", h.idx()); printf("\n"); } ++bad; }
    }
    printf("accepted=%ld bad=%ld\n", accepted, bad);
}
