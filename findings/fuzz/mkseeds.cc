#include <OpenVolumeMesh/Mesh/PolyhedralMesh.hh>
#include <OpenVolumeMesh/Mesh/TetrahedralMesh.hh>
#include <OpenVolumeMesh/Mesh/HexahedralMesh.hh>
#include <OpenVolumeMesh/IO/ovmb_write.hh>
#include <OpenVolumeMesh/FileManager/FileManager.hh>
#include <fstream>
#include <sstream>
#include <iostream>
using namespace OpenVolumeMesh;
using Vec3d = Geometry::Vec3d;

static int counter = 0;
static void emit(const std::string &dir, const std::string &name, const std::string &body, std::initializer_list<int> prefixes) {
    { std::ofstream f("/tmp/fuzzwork/raw/" + name, std::ios::binary); f << body; }
    for (int p : prefixes) {
        std::ofstream f(dir + "/" + name + "_" + std::to_string(p), std::ios::binary);
        f.put((char)p); f << body;
    }
    ++counter;
}
template <typename M> static void out(M &m, const std::string &name, int mt, IO::WriteOptions::TopologyType tt = IO::WriteOptions::TopologyType::AutoDetect) {
    std::ostringstream b(std::ios::binary);
    IO::WriteOptions wo; wo.topology_type = tt;
    auto r = IO::ovmb_write(b, m, wo);
    if (r != IO::WriteResult::Ok) { std::cerr << "write failed " << name << "\n"; return; }
    emit("/tmp/fuzzwork/seeds_ovmb", name + ".ovmb", b.str(), {mt<<2 | 3, mt<<2 | 0, mt << 2 | 1});
    std::ostringstream a;
    IO::FileManager fm; fm.writeStream(a, m);
    emit("/tmp/fuzzwork/seeds_ascii", name + ".ovm", a.str(), {mt<<2 | 3, mt<<2 | 0, 0<<2|1});
}
template <typename M> static void add_props(M &m) {
    auto vi = m.template request_vertex_property<int>("vi", 7); m.set_persistent(vi);
    for (auto v : m.vertices()) vi[v] = v.idx() * 3;
    auto ed = m.template request_edge_property<double>("ed", 0.5); m.set_persistent(ed);
    for (auto e : m.edges()) ed[e] = e.idx() * 0.25;
    auto fb = m.template request_face_property<bool>("fb", false); m.set_persistent(fb);
    for (auto f : m.faces()) fb[f] = f.idx() & 1;
    auto cs = m.template request_cell_property<std::string>("cs", "dflt"); m.set_persistent(cs);
    for (auto c : m.cells()) cs[c] = "cell" + std::to_string(c.idx());
    auto hv = m.template request_halfedge_property<Vec3d>("hv", Vec3d(1, 2, 3)); m.set_persistent(hv);
    for (auto h : m.halfedges()) hv[h] = Vec3d(h.idx(), 0, 1);
    auto hfi = m.template request_halfface_property<int>("hfi", -1); m.set_persistent(hfi);
    for (auto h : m.halffaces()) hfi[h] = h.idx();
    auto md = m.template request_mesh_property<double>("md", 2.5); m.set_persistent(md);
}
template <typename M> static void add_handle_props(M &m) {
    auto p = m.template request_vertex_property<VertexHandle>("vvh", VertexHandle(-1)); m.set_persistent(p);
    for (auto v : m.vertices()) p[v] = v;
    auto q = m.template request_cell_property<HalfFaceHandle>("chf", HalfFaceHandle(-1)); m.set_persistent(q);
    for (auto c : m.cells()) q[c] = m.cell(c).halffaces()[0];
    auto u = m.template request_face_property<unsigned char>("fu8", 3); m.set_persistent(u);
    auto f = m.template request_edge_property<float>("ef", 1.5f); m.set_persistent(f);
    auto vd = m.template request_vertex_property<std::vector<double>>("vvd"); m.set_persistent(vd);
    for (auto v : m.vertices()) vd[v] = {1.0, 2.0};
    auto vv = m.template request_cell_property<std::vector<VertexHandle>>("cvv"); m.set_persistent(vv);
    for (auto c : m.cells()) vv[c] = {VertexHandle(0), VertexHandle(1)};
    auto mp = m.template request_vertex_property<std::map<HalfEdgeHandle,int>>("vmap"); m.set_persistent(mp);
    for (auto v : m.vertices()) mp[v][HalfEdgeHandle(0)] = 1;
}
template <typename M> static void two_cubes(M &m) {
    const double P[12][3] = {{0,0,0},{1,0,0},{1,1,0},{0,1,0},{0,0,1},{0,1,1},{1,1,1},{1,0,1},{2,0,0},{2,1,0},{2,1,1},{2,0,1}};
    std::vector<VertexHandle> v;
    for (auto &p : P) v.push_back(m.add_vertex(Vec3d(p[0], p[1], p[2])));
    m.add_cell({v[0],v[1],v[2],v[3],v[4],v[5],v[6],v[7]}, true);
    m.add_cell({v[1],v[8],v[9],v[2],v[7],v[6],v[10],v[11]}, true);
}
int main() {
    { // single tet
        GeometricTetrahedralMeshV3d m;
        auto a = m.add_vertex(Vec3d(0,0,0)), b = m.add_vertex(Vec3d(1,0,0)), c = m.add_vertex(Vec3d(0,1,0)), d = m.add_vertex(Vec3d(0,0,1));
        m.add_cell(a, b, c, d, true);
        out(m, "tet1", 1);
        add_props(m);
        out(m, "tet1_props", 1);
        out(m, "tet1_props_aspoly", 0, IO::WriteOptions::TopologyType::Polyhedral);
    }
    { // two tets
        GeometricTetrahedralMeshV3d m;
        auto a = m.add_vertex(Vec3d(0,0,0)), b = m.add_vertex(Vec3d(1,0,0)), c = m.add_vertex(Vec3d(0,1,0)), d = m.add_vertex(Vec3d(0,0,1)), e = m.add_vertex(Vec3d(1,1,1));
        m.add_cell(a, b, c, d, true);
        m.add_cell(b, c, d, e, true);
        add_handle_props(m);
        out(m, "tet2_hprops", 1);
    }
    { GeometricHexahedralMeshV3d m; two_cubes(m); out(m, "hex2", 2); add_props(m); out(m, "hex2_props", 2);
      out(m, "hex2_props_aspoly", 0, IO::WriteOptions::TopologyType::Polyhedral); }
    { GeometricHexahedralMeshV3d m; two_cubes(m); add_handle_props(m); out(m, "hex2_hprops", 2); }
    { // pyramid + isolated stuff
        GeometricPolyhedralMeshV3d m;
        std::vector<VertexHandle> v;
        const double P[6][3] = {{0,0,0},{1,0,0},{1,1,0},{0,1,0},{.5,.5,1},{5,5,5}};
        for (auto &p : P) v.push_back(m.add_vertex(Vec3d(p[0], p[1], p[2])));
        auto f0 = m.add_face({v[0],v[1],v[2],v[3]});
        auto f1 = m.add_face({v[1],v[0],v[4]});
        auto f2 = m.add_face({v[2],v[1],v[4]});
        auto f3 = m.add_face({v[3],v[2],v[4]});
        auto f4 = m.add_face({v[0],v[3],v[4]});
        auto c = m.add_cell({m.halfface_handle(f0,0),m.halfface_handle(f1,0),m.halfface_handle(f2,0),m.halfface_handle(f3,0),m.halfface_handle(f4,0)}, true);
        if (!c.is_valid()) std::cerr << "pyramid rejected\n";
        m.add_edge(v[4], v[5]);
        out(m, "pyramid", 0);
        add_props(m);
        out(m, "pyramid_props", 0);
        add_handle_props(m);
        out(m, "pyramid_allprops", 0);
    }
    { GeometricPolyhedralMeshV3d m; out(m, "empty", 0); m.add_vertex(Vec3d(1,2,3)); out(m, "onevertex", 0); }
    std::cerr << counter << " seeds\n";
}
