import struct
MAGIC=b'OVMB\n\r\n\xff'
def header(nv,ne,nf,nc,topo=0,dim=3,fv=1,hv=1,res=b'\0\0\0\0'):
    return MAGIC+bytes([fv,hv,dim,topo])+res+struct.pack('<QQQQ',nv,ne,nf,nc)
def chunk(typ,payload,version=0,comp=0,flags=1,pad=None,padbytes=None):
    if pad is None: pad=(-len(payload))%8
    if padbytes is None: padbytes=b'\0'*pad
    return typ+bytes([version,pad,comp,flags])+struct.pack('<Q',len(payload)+pad)+payload+padbytes
def span(first,count): return struct.pack('<QI',first,count)
def vert(first,pts,enc=2):
    fmt={1:'<f',2:'<d'}[enc]
    return chunk(b'VERT',span(first,len(pts))+bytes([enc,0,0,0])+b''.join(struct.pack(fmt,c) for p in pts for c in p))
def topo(entity,first,items,valence,henc=1,venc=0,off=0,count=None):
    fm={1:'<B',2:'<H',4:'<I'}
    p=span(first,len(items) if count is None else count)+bytes([entity,valence,venc,henc])+struct.pack('<Q',off)
    if valence==0: p+=b''.join(struct.pack(fm[venc],len(it)) for it in items)
    p+=b''.join(struct.pack(fm[henc],h) for it in items for h in it)
    return chunk(b'TOPO',p)
def s32(b): return struct.pack('<I',len(b))+b
def dirp(entries): # (entity, name, type, default_bytes)
    return chunk(b'DIRP',b''.join(bytes([e])+s32(n)+s32(t)+s32(d) for e,n,t,d in entries))
def prop(idx,first,count,data): return chunk(b'PROP',span(first,count)+struct.pack('<I',idx)+data)
EOF_CHUNK=chunk(b'EOF ',b'')
# single tet: 4 verts, 6 edges, 4 faces, 1 cell (as polyhedral by default)
PTS=[(0,0,0),(1,0,0),(0,1,0),(0,0,1)]
EDGES=[(0,1),(1,2),(2,0),(0,3),(3,1),(2,3)]   # e0..e5; halfedge 2i = forward
# faces as halfedge triples: f0=(0,1,2): 0->1->2->0 ; f1=(0,3,1)?: 
FACES=[(0,2,4),      # 0->1,1->2,2->0
       (1,8,7),      # 1->0 (he1), 3->1? need 0->3 (he6) ... fixed below
       ]
def tet(topo_t=0):
    # edges: e0 0-1, e1 1-2, e2 2-0, e3 0-3, e4 1-3, e5 2-3
    E=[(0,1),(1,2),(2,0),(0,3),(1,3),(2,3)]
    # faces: f0 0,1,2 : he0(0->1), he2(1->2), he4(2->0)
    #        f1 0,3,1 : he6(0->3), he9(3->1), he1(1->0)
    #        f2 1,3,2 : he8(1->3), he11(3->2), he3(2->1)
    #        f3 0,2,3 : he5(0->2), he10(2->3), he7(3->0)
    F=[(0,2,4),(6,9,1),(8,11,3),(5,10,7)]
    # cell: all faces oriented such that each edge is used in both directions: f0 uses 0->1; f1 uses 1->0 ok. halffaces 2*f (orientation 0)
    # check: f0: 0->1,1->2,2->0 ; f1: 0->3,3->1,1->0 ; f2: 1->3,3->2,2->1 ; f3: 0->2,2->3,3->0. pairs: (0->1,1->0) ok (1->2,2->1) ok (2->0,0->2) ok (0->3,3->0) ok (3->1,1->3) ok (3->2,2->3) ok
    C=[(0,2,4,6)]
    return E,F,C
def tetfile(topo_t=0, extra_before_eof=b'', mid=b''):
    E,F,C=tet()
    return header(4,6,4,1,topo=topo_t)+vert(0,PTS)+topo(1,0,E,2)+topo(2,0,F,3)+topo(3,0,C,4)+mid+extra_before_eof+EOF_CHUNK
