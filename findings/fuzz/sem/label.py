import struct,sys,os,glob
def labels(d):
    lab=['?']*len(d)
    def put(o,n,name):
        for i in range(o,o+n): lab[i]=name
    put(0,8,'hdr.magic'); put(8,1,'hdr.file_version'); put(9,1,'hdr.header_version'); put(10,1,'hdr.vertex_dim'); put(11,1,'hdr.topo_type'); put(12,4,'hdr.reserved')
    put(16,8,'hdr.n_verts'); put(24,8,'hdr.n_edges'); put(32,8,'hdr.n_faces'); put(40,8,'hdr.n_cells')
    o=48
    while o < len(d):
        typ=d[o:o+4].decode('latin1'); ver,pad,comp,flags=d[o+4:o+8]; ln=struct.unpack('<Q',d[o+8:o+16])[0]
        t=typ.strip()
        put(o,4,t+'.chunk_type'); put(o+4,1,t+'.chunk_version'); put(o+5,1,t+'.chunk_padding_bytes'); put(o+6,1,t+'.chunk_compression'); put(o+7,1,t+'.chunk_flags'); put(o+8,8,t+'.chunk_length')
        p=o+16; end=p+ln
        put(p,ln-pad,t+'.payload'); put(end-pad,pad,t+'.padding')
        if typ=='VERT':
            put(p,8,'VERT.span.first'); put(p+8,4,'VERT.span.count'); put(p+12,1,'VERT.encoding'); put(p+13,3,'VERT.reserved')
        elif typ=='TOPO':
            put(p,8,'TOPO.span.first'); put(p+8,4,'TOPO.span.count'); put(p+12,1,'TOPO.entity'); put(p+13,1,'TOPO.valence'); put(p+14,1,'TOPO.valence_enc'); put(p+15,1,'TOPO.handle_enc'); put(p+16,8,'TOPO.handle_offset')
            ent=d[p+12]
            for i in range(p+24,end-pad): lab[i]='TOPO.data.ent%d'%ent
        elif typ=='PROP':
            put(p,8,'PROP.span.first'); put(p+8,4,'PROP.span.count'); put(p+12,4,'PROP.idx')
        o=end
    return lab
if __name__=='__main__':
    for f in sys.argv[1:]:
        d=open(f,'rb').read(); l=labels(d)
        from collections import Counter
        print(f, Counter(l))
