tet="""OVM ASCII
Vertices
4
0 0 0
1 0 0
0 1 0
0 0 1
Edges
6
0 1
1 2
2 0
0 3
1 3
2 3
Faces
4
3 0 2 4
3 6 9 1
3 8 11 3
3 5 10 7
Polyhedra
1
4 0 2 4 6
"""
out={}
out['00_base']=(1,tet)
out['01_no_header']=(0,tet.replace('OVM ASCII\n',''))
out['02_wrong_header']=(0,tet.replace('OVM ASCII','FOO BAR'))
out['03_vertex_garbage']=(0,tet.replace('1 0 0\n','one zero\n',1))
out['04_edge_garbage']=(0,tet.replace('\n0 1\n','\nzero one\n',1))
out['05_edge_missing_second']=(0,tet.replace('\n1 2\n','\n1\n',1))
out['06_edge_negative']=(0,tet.replace('\n1 2\n','\n1 -1\n',1))
out['07_edge_overflow']=(0,tet.replace('\n1 2\n','\n1 4294967298\n',1))
out['08_face_missing_idx']=(0,tet.replace('3 0 2 4\n','3 0 2\n',1))
out['09_face_extra_idx']=(0,tet.replace('3 0 2 4\n','3 0 2 4 99 98\n',1))
out['10_cell_extra_idx']=(0,tet.replace('4 0 2 4 6\n','4 0 2 4 6 100\n',1))
out['11_counts_garbage']=(0,tet.replace('Vertices\n4','Vertices\n4x'))
out['12_negative_count']=(0,"OVM ASCII\nVertices\n-1\n")
out['13_truncated_after_faces']=(0,tet[:tet.index('Polyhedra')])
out['14_truncated_mid_vertices']=(0,"OVM ASCII\nVertices\n4\n0 0 0\n")
out['15_truncated_cells']=(0,tet.replace('1\n4 0 2 4 6\n','1\n'))
out['16_prop_truncated']=(0,tet+'VProp int "vi"\n1\n2\n')
out['17_prop_garbage']=(0,tet+'VProp int "vi"\n1\nx\n3\n4\n')
out['18_prop_unknown_type']=(0,tet+'VProp foo "vi"\n1\n2\n3\n4\n')
out['19_prop_unknown_entity']=(0,tet+'XProp int "vi"\n1\n2\n3\n4\n')
out['20_trailing_garbage']=(0,tet+'this is not a property line\n')
out['21_selfloop_all']=(0,"OVM ASCII\nVertices\n1\n0 0 0\nEdges\n1\nfoo\nFaces\n1\n3\nPolyhedra\n0\n")
out['22_huge_face_valence_nodata']=(0,"OVM ASCII\nVertices\n1\n0 0 0\nEdges\n1\n0 0\nFaces\n1\n1000000\nPolyhedra\n0\n")
out['23_vec_hfh_out_of_range']=(0,tet+'CProp vector_hfh "c"\n2\n1000\n-7\n')
out['24_bool_truncated']=(0,tet+'VProp bool "vb"\n1\n')
out['25_vecdouble_truncated']=(0,tet+'VProp vector_double "vd"\n2\n1\n2\n')
out['26_string_len_huge']=(0,tet+'CProp string "cs"\n99999999999:abc\n')
out['27_string_truncated']=(0,tet+'CProp string "cs"\n10:abc')
out['28_vertices_count_bigger_than_data']=(0,"OVM ASCII\nVertices\n1000\n0 0 0\nEdges\n0\nFaces\n0\nPolyhedra\n0\n")
out['29_dup_prop']=(0,tet+'VProp int "vi"\n1\n2\n3\n4\nVProp int "vi"\n5\n6\n7\n8\n')
out['30_same_name_other_type']=(0,tet+'VProp int "vi"\n1\n2\n3\n4\nVProp double "vi"\n5\n6\n7\n8\n')
out['31_cell_shares_halffaces']=(0,tet.replace('1\n4 0 2 4 6\n','2\n4 0 2 4 6\n4 0 2 4 6\n'))
out['32_tet_cell_shares_halffaces']=(1,tet.replace('1\n4 0 2 4 6\n','2\n4 0 2 4 6\n4 0 2 4 6\n'))
for k,(mt,d) in out.items():
    for o in (3,0):
        open('/tmp/fuzzwork/sem/acraft/%s_o%d'%(k,o),'wb').write(bytes([mt<<2|o])+d.encode())
