#include <OpenVolumeMesh/Mesh/PolyhedralMesh.hh>
#include <OpenVolumeMesh/Mesh/TetrahedralMesh.hh>
#include <OpenVolumeMesh/Mesh/HexahedralMesh.hh>
#include <OpenVolumeMesh/Geometry/VectorT.hh>
using namespace OpenVolumeMesh; using namespace OpenVolumeMesh::Geometry;
// explicit instantiation instantiates every member
template class OpenVolumeMesh::GeometryKernel<Vec3d,TopologyKernel>;
template class OpenVolumeMesh::GeometryKernel<Vec3f,TopologyKernel>;
template class OpenVolumeMesh::GeometryKernel<Vec3d,TetrahedralMeshTopologyKernel>;
template class OpenVolumeMesh::GeometryKernel<Vec3f,HexahedralMeshTopologyKernel>;
template class OpenVolumeMesh::Geometry::VectorT<double,3>;
template class OpenVolumeMesh::Geometry::VectorT<float,4>;
template class OpenVolumeMesh::Geometry::VectorT<int,3>;
template class OpenVolumeMesh::Geometry::VectorT<unsigned,3>;
template class OpenVolumeMesh::Geometry::VectorT<unsigned char,3>;
template class OpenVolumeMesh::Geometry::VectorT<short,2>;
template class OpenVolumeMesh::Geometry::VectorT<long long,4>;
int main(){
  GeometryKernel<Vec3i,TopologyKernel> mi; auto a=mi.add_vertex(Vec3i(0,0,0)), b=mi.add_vertex(Vec3i(1,1,0)); auto e=mi.add_edge(a,b);
  Vec3i::value_type l=mi.length(e); (void)l; double d=mi.length(mi.halfedge_handle(e,0)); (void)d; mi.barycenter(e);
  GeometricTetrahedralMeshV3d t; GeometricHexahedralMeshV3f h; GeometricPolyhedralMeshV3d p; (void)t;(void)h;(void)p;
  Vec3f vf(1,2,3); vf*=2.0; vf/=2; vf*=vf[1]; Vec3i vi(1,2,3); vi/=2L; vi*=2LL; vi*=1.5f; const Vec3i ci(1,2,3); vi*=ci[0];
  Vec3uc uc(1,2,3); uc.max_abs(); uc.min_abs(); uc.l8_norm(); uc.l1_norm(); uc.mean_abs();
  return 0; }
