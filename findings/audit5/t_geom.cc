// GeometryKernel: length() type/value and barycenter(edge) against the formulas
#include <OpenVolumeMesh/Mesh/PolyhedralMesh.hh>
#include <OpenVolumeMesh/Mesh/TetrahedralMesh.hh>
#include <OpenVolumeMesh/Mesh/HexahedralMesh.hh>
#include <OpenVolumeMesh/Geometry/VectorT.hh>
#include <iostream>
#include <climits>
#include <cfloat>
#include <cmath>
#include <limits>
using namespace OpenVolumeMesh;
using namespace OpenVolumeMesh::Geometry;
static int fails=0;
#define CHECK(c) do{ if(!(c)){ std::cerr<<"FAIL line "<<__LINE__<<": "#c<<"\n"; ++fails;} }while(0)

// exact integer midpoint truncated toward zero == what (a+b)/2 gives in unbounded arithmetic
template<class S> S exact_mid(S a, S b){ __int128 s=(__int128)a+(__int128)b; return (S)(s/2); }

template<class S> void int_bary(const char*name){
  using P=VectorT<S,3>; using M=GeometryKernel<P,TopologyKernel>;
  const S mn=std::numeric_limits<S>::min(), mx=std::numeric_limits<S>::max();
  S vals[]={0,1,2,3,S(-1),S(-2),S(-3),S(-5),S(7),mn,S(mn+1),S(mn+2),mx,S(mx-1),S(mx-2)};
  int bad=0;
  for(S a:vals) for(S b:vals){
    M m; auto v0=m.add_vertex(P(a,0,b)); auto v1=m.add_vertex(P(b,0,a)); auto e=m.add_edge(v0,v1);
    P c=m.barycenter(e); S ex=exact_mid<S>(a,b);
    if(c[0]!=ex||c[2]!=ex||c[1]!=0){ if(bad<6) std::cerr<<"FAIL "<<name<<" barycenter(edge) a="<<(long long)a<<" b="<<(long long)b<<" got "<<(long long)c[0]<<" expected trunc((a+b)/2)="<<(long long)ex<<"\n"; ++bad; }
  }
  if(bad){ std::cerr<<name<<": "<<bad<<" mismatches\n"; ++fails; }
}
template<class S> void fp_bary(){
  using P=VectorT<S,3>; using M=GeometryKernel<P,TopologyKernel>;
  const S mx=std::numeric_limits<S>::max(), dn=std::numeric_limits<S>::denorm_min();
  S vals[]={0,1,S(-1),S(0.1),S(1e-3),mx,S(-mx),dn,S(-dn),S(3*dn),std::numeric_limits<S>::min()};
  for(S a:vals) for(S b:vals){
    M m; auto v0=m.add_vertex(P(a,b,0)); auto v1=m.add_vertex(P(b,a,0)); auto e=m.add_edge(v0,v1);
    P c=m.barycenter(e); long double ex=((long double)a+(long double)b)/2;
    S exs=(S)ex;
    if(!(c[0]==exs)&&!(std::fabs((long double)c[0]-ex)<=std::fabs(ex)*std::numeric_limits<S>::epsilon())){ std::cerr<<"FAIL fp barycenter a="<<(double)a<<" b="<<(double)b<<" got "<<(double)c[0]<<" expected "<<(double)exs<<"\n"; ++fails;}
  }
}
template<class M, class P> void len_test(){
  M m; auto v0=m.add_vertex(P(0,0,0)); auto v1=m.add_vertex(P(1,1,0)); auto e=m.add_edge(v0,v1);
  auto l=m.length(e); auto lh=m.length(m.halfedge_handle(e,1));
  static_assert(std::is_same<decltype(l),decltype(P().length())>::value,"type");
  CHECK(std::fabs((double)l-std::sqrt(2.0))<1e-6); CHECK(l==lh);
  CHECK(m.vector(e)==P(1,1,0)); CHECK(m.vector(m.halfedge_handle(e,1))==P(-1,-1,0));
}
int main(){
  int_bary<int>("int"); int_bary<short>("short"); int_bary<long long>("long long"); int_bary<signed char>("signed char");
  int_bary<unsigned>("unsigned"); int_bary<unsigned char>("unsigned char"); int_bary<unsigned long long>("unsigned long long");
  fp_bary<float>(); fp_bary<double>();
  len_test<GeometricPolyhedralMeshV3d,Vec3d>(); len_test<GeometricPolyhedralMeshV3f,Vec3f>();
  len_test<GeometricTetrahedralMeshV3d,Vec3d>(); len_test<GeometricTetrahedralMeshV3f,Vec3f>();
  len_test<GeometricHexahedralMeshV3d,Vec3d>(); len_test<GeometricHexahedralMeshV3f,Vec3f>();
  len_test<GeometryKernel<Vec3i,TopologyKernel>,Vec3i>(); len_test<GeometryKernel<Vec3ui,TopologyKernel>,Vec3ui>();
  len_test<GeometryKernel<Vec3i,TetrahedralMeshTopologyKernel>,Vec3i>(); len_test<GeometryKernel<Vec3i,HexahedralMeshTopologyKernel>,Vec3i>();
  { GeometryKernel<Vec3f,TopologyKernel> m; static_assert(std::is_same<decltype(m.length(EdgeHandle(0))),float>::value,"float stays float"); }
  { GeometryKernel<Vec3i,TopologyKernel> m; static_assert(std::is_same<decltype(m.length(EdgeHandle(0))),double>::value,"int -> double"); }
  { GeometryKernel<Vec2d,TopologyKernel> m; auto a=m.add_vertex(Vec2d(0,0)), b=m.add_vertex(Vec2d(3,4)); auto e=m.add_edge(a,b); CHECK(m.length(e)==5.0); CHECK(m.barycenter(e)==Vec2d(1.5,2)); }
  { GeometryKernel<Vec4i,TopologyKernel> m; auto a=m.add_vertex(Vec4i(-3,-1,7,INT_MAX)), b=m.add_vertex(Vec4i(-3,2,-8,INT_MAX)); auto e=m.add_edge(a,b); auto c=m.barycenter(e); CHECK(c==Vec4i(-3,0,0,INT_MAX)); }
  if(fails){ std::cerr<<fails<<" failures\n"; return 1;} std::cout<<"ok\n"; return 0;
}
