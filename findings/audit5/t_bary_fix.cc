// exhaustive check (signed char, short sample) of the proposed overflow-free trunc((a+b)/2)
#include <iostream>
#include <limits>
template<class S> S patch(S a,S b){ return a/2+b/2+(a%2+b%2)/2; }
template<class S> S fix(S a,S b){ S q=a/2+b/2; S r=a%2+b%2; if(r==1&&q<0) return q+1; if(r==-1&&q>0) return q-1; return q+r/2; }
int main(){ long badp=0,badf=0;
 for(int a=-32768;a<=32767;a+=1) for(int b=-32768;b<=32767;b+=7){ short A=a,B=b; short ex=(short)((a+b)/2); if(patch<short>(A,B)!=ex)++badp; if(fix<short>(A,B)!=ex)++badf; }
 for(int a=-128;a<=127;++a) for(int b=-128;b<=127;++b){ signed char A=a,B=b; signed char ex=(a+b)/2; if(patch<signed char>(A,B)!=ex)++badp; if(fix<signed char>(A,B)!=ex)++badf; }
 std::cout<<"committed formula mismatches: "<<badp<<"  proposed formula mismatches: "<<badf<<"\n"; return badf?1:0; }
