// VectorT: scalar *=,/= aliasing + mixed scalar types; abs family on all scalar types
#include <OpenVolumeMesh/Geometry/VectorT.hh>
#include <iostream>
#include <climits>
#include <cstdint>
using namespace OpenVolumeMesh::Geometry;
static int fails=0;
#define CHECK(c) do{ if(!(c)){ std::cerr<<"FAIL line "<<__LINE__<<": "#c<<"\n"; ++fails;} }while(0)

template<class S,int D> void alias_test(){
  VectorT<S,D> v; for(int i=0;i<D;++i) v[i]=S(2*(i+1));
  auto w=v; w/=w[0]; for(int i=0;i<D;++i) CHECK(w[i]==S(i+1));
  w=v; w*=w[0]; for(int i=0;i<D;++i) CHECK(w[i]==S(4*(i+1)));
  w=v; w/=w[D-1]; for(int i=0;i<D;++i) CHECK(w[i]==S(S(2*(i+1))/S(2*D)));
  w=v; w*=w[D-1];  for(int i=0;i<D;++i) CHECK(w[i]==S(S(2*(i+1))*S(2*D)));
  // operator* / operator/ with aliasing operand
  auto x=v/v[0]; for(int i=0;i<D;++i) CHECK(x[i]==S(i+1));
  auto y=v*v[0]; for(int i=0;i<D;++i) CHECK(y[i]==S(4*(i+1)));
}
template<class S,int D> void abs_test(){
  VectorT<S,D> v; long long sum=0, mx=0, mn=LLONG_MAX;
  for(int i=0;i<D;++i){ long long x=(i+2)*3; if(std::is_signed<S>::value && (i%2==0)) x=-x; v[i]=S(x); long long a=x<0?-x:x; sum+=a; if(a>mx)mx=a; if(a<mn)mn=a;}
  CHECK(v.l1_norm()==S(sum)); CHECK(v.max_abs()==S(mx)); CHECK(v.min_abs()==S(mn)); CHECK(v.l8_norm()==S(mx));
  if(std::is_floating_point<S>::value) CHECK(v.mean_abs()==S(sum)/D); else CHECK(v.mean_abs()==S(sum/D));
}
template<class S> void all(){ alias_test<S,2>(); alias_test<S,3>(); alias_test<S,4>(); abs_test<S,2>(); abs_test<S,3>(); abs_test<S,4>(); }

int main(){
  all<int>(); all<unsigned>(); all<short>(); all<long long>(); all<float>(); all<double>(); all<unsigned char>();
  all<unsigned short>(); all<signed char>(); all<long>(); all<unsigned long long>(); all<long double>();
  // mixed operand types
  { Vec3f v(1.f,2.f,3.f); double d=0.1; v*=d; CHECK(v[0]==float(1.f*0.1)); CHECK(v[1]==float(2.f*0.1)); CHECK(v[2]==float(3.f*0.1)); }
  { Vec3f v(1.f,2.f,3.f); double d=3.0; v/=d; CHECK(v[0]==float(1.f/3.0)); CHECK(v[2]==1.f); }
  { Vec3i v(7,-7,9); long l=2; v/=l; CHECK(v==Vec3i(3,-3,4)); }
  { Vec3i v(7,-7,9); v*=0.5; CHECK(v==Vec3i(3,-3,4)); }
  { Vec3i v(7,-7,9); v/=2.0; CHECK(v==Vec3i(3,-3,4)); }
  { Vec3i v(INT_MAX,INT_MIN,1); long long l=1; v*=l; CHECK(v==Vec3i(INT_MAX,INT_MIN,1)); v/=l; CHECK(v==Vec3i(INT_MAX,INT_MIN,1)); }
  { Vec3d v(1,2,3); float f=2.f; v*=f; CHECK(v==Vec3d(2,4,6)); int i=2; v/=i; CHECK(v==Vec3d(1,2,3)); }
  { Vec3uc v(200,100,50); v/=(unsigned char)2; CHECK(v==Vec3uc(100,50,25)); v*=2; CHECK(v==Vec3uc(200,100,50)); }
  { Vec3ui v(4000000000u,2,4); v/=v[1]; CHECK(v==Vec3ui(2000000000u,1,2)); }
  { Vec2i v(6,3); const int &r=v[1]; v/=r; CHECK(v==Vec2i(2,1)); }
  { Vec4d v(2,4,6,8); v/=v[3]; CHECK(v==Vec4d(0.25,0.5,0.75,1)); }
  { Vec3d v(3,4,0); v.normalize(); CHECK(v==Vec3d(0.6,0.8,0)); }
  // narrow types: mean_abs  = (sum |x_i|)/DIM
  { Vec3uc v(200,200,200); CHECK(v.mean_abs()==200); }
  { VectorT<short,3> v(30000,-30000,30000); CHECK(v.mean_abs()==30000); }
  { VectorT<unsigned short,3> v(60000,60000,60000); CHECK(v.mean_abs()==60000); }
  { VectorT<signed char,3> v(100,-100,100); CHECK(v.mean_abs()==100); }
  { VectorT<signed char,3> v(-100,3,-5); CHECK(v.max_abs()==100); CHECK(v.min_abs()==3); }
  { Vec3i v(-INT_MAX,3,-5); CHECK(v.max_abs()==INT_MAX); CHECK(v.min_abs()==3); }
  { Vec3ui v(UINT_MAX,3,5); CHECK(v.max_abs()==UINT_MAX); CHECK(v.min_abs()==3); CHECK(v.l8_norm()==UINT_MAX);}
  { Vec3f v(-0.f,-1.5f,1.f); CHECK(v.max_abs()==1.5f); CHECK(v.min_abs()==0.f); CHECK(v.l1_norm()==2.5f); }
  if(fails){ std::cerr<<fails<<" failures\n"; return 1;} std::cout<<"ok\n"; return 0;
}
