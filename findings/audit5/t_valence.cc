// ASCII reader: declared face/cell valence >= 2^32 must make readStream return false (quickly, without exhausting memory, without throwing)
#include <OpenVolumeMesh/Mesh/PolyhedralMesh.hh>
#include <OpenVolumeMesh/FileManager/FileManager.hh>
#include <iostream>
#include <sstream>
#include <chrono>
using namespace OpenVolumeMesh;
static std::string file(const std::string&faceval,const std::string&cellval){
  std::ostringstream o; o<<"OVM ASCII\nVertices\n4\n0 0 0\n1 0 0\n0 1 0\n0 0 1\nEdges\n6\n0 1\n1 2\n2 0\n0 3\n1 3\n2 3\nFaces\n4\n"
   <<faceval<<" 0 2 4\n3 0 8 7\n3 2 10 9\n3 4 6 11\nPolyhedra\n1\n"<<cellval<<" 1 2 4 6\n"; return o.str(); }
int run(const char*what,const std::string&txt){
  GeometricPolyhedralMeshV3d m; IO::FileManager fm; fm.setVerbosityLevel(0); std::istringstream is(txt);
  auto t0=std::chrono::steady_clock::now(); bool r=true; const char*exc=nullptr; std::string w;
  try{ r=fm.readStream(is,m,true,true);}catch(std::exception&e){exc="exception"; w=e.what();}
  double dt=std::chrono::duration<double>(std::chrono::steady_clock::now()-t0).count();
  std::cerr<<what<<": "<<(exc? ("THROWS "+w) : std::string(r?"returned true":"returned false"))<<" after "<<dt<<" s, faces="<<m.n_faces()<<"\n";
  return (exc||r||dt>5)?1:0;
}
int main(int argc,char**argv){
  int which=argc>1?atoi(argv[1]):0; int f=0;
  if(which==0){ f+= run("sane file (control, expects true)",file("3","4"))?0:1; }
  if(which==1) f+=run("face valence 2^32",file("4294967296","4"));
  if(which==2) f+=run("cell valence 2^32",file("3","4294967296"));
  if(which==3) f+=run("face valence 2^62",file("4611686018427387904","4"));
  if(which==4) f+=run("face valence -1",file("-1","4"));
  if(which==5) f+=run("face valence 2^32+3",file("4294967299","4"));
  return f?1:0;
}
