// a user point type with value_type, +,-,*,/ but no length(): GeometryKernel<P> must still instantiate when length() is unused
#include <OpenVolumeMesh/Core/GeometryKernel.hh>
#include <OpenVolumeMesh/Core/TopologyKernel.hh>
#include <iostream>
struct P3 { typedef double value_type; double x[3];
  P3(){x[0]=x[1]=x[2]=0;} explicit P3(double v){x[0]=x[1]=x[2]=v;} P3(double a,double b,double c){x[0]=a;x[1]=b;x[2]=c;}
  P3 operator-(const P3&o)const{return P3(x[0]-o.x[0],x[1]-o.x[1],x[2]-o.x[2]);}
  P3 operator+(const P3&o)const{return P3(x[0]+o.x[0],x[1]+o.x[1],x[2]+o.x[2]);}
  P3& operator+=(const P3&o){for(int i=0;i<3;++i)x[i]+=o.x[i];return *this;}
  P3& operator/=(double s){for(int i=0;i<3;++i)x[i]/=s;return *this;}
  P3 operator/(double s)const{return P3(x[0]/s,x[1]/s,x[2]/s);}
  double norm()const{return 0;}
};
inline P3 operator*(double s,const P3&p){return P3(s*p.x[0],s*p.x[1],s*p.x[2]);}
int main(){ OpenVolumeMesh::GeometryKernel<P3,OpenVolumeMesh::TopologyKernel> m;
  auto a=m.add_vertex(P3(0,0,0)), b=m.add_vertex(P3(2,4,6)); auto e=m.add_edge(a,b);
  P3 c=m.barycenter(e); if(c.x[0]!=1||c.x[1]!=2||c.x[2]!=3){std::cerr<<"bad barycenter\n";return 1;}
  std::cout<<"ok\n"; return 0; }
