// regression of e2d01ac: mean_abs() on vectors over types narrower than int (compiled and was exact before)
#include <OpenVolumeMesh/Geometry/VectorT.hh>
#include <iostream>
using namespace OpenVolumeMesh::Geometry;
int main(){
  int f=0;
  { Vec3uc v(200,200,200); int r=v.mean_abs(); if(r!=200){std::cerr<<"Vec3uc(200,200,200).mean_abs()="<<r<<" expected 200\n";++f;} }
  { VectorT<short,3> v(30000,-30000,30000); int r=v.mean_abs(); if(r!=30000){std::cerr<<"Vec3s(30000,-30000,30000).mean_abs()="<<r<<" expected 30000\n";++f;} }
  { VectorT<unsigned short,3> v(60000,60000,60000); int r=v.mean_abs(); if(r!=60000){std::cerr<<"Vec3us(60000 x3).mean_abs()="<<r<<" expected 60000\n";++f;} }
  { VectorT<signed char,3> v(100,-100,100); int r=v.mean_abs(); if(r!=100){std::cerr<<"Vec3c(100,-100,100).mean_abs()="<<r<<" expected 100\n";++f;} }
  if(f) return 1; std::cout<<"ok\n"; return 0;
}
