// add_face(empty), get_halfface_vertices(hf,he), string deserialise
#include <OpenVolumeMesh/Mesh/PolyhedralMesh.hh>
#include <OpenVolumeMesh/Mesh/TetrahedralMesh.hh>
#include <OpenVolumeMesh/Mesh/HexahedralMesh.hh>
#include <OpenVolumeMesh/FileManager/FileManager.hh>
#include <OpenVolumeMesh/FileManager/Serializers.hh>
#include <iostream>
#include <sstream>
using namespace OpenVolumeMesh;
static int fails=0;
#define CHECK(c) do{ if(!(c)){ std::cerr<<"FAIL line "<<__LINE__<<": "#c<<"\n"; ++fails;} }while(0)
typedef std::vector<VertexHandle> VL;
static std::string str(const VL&v){ std::ostringstream o; o<<"{"; for(auto h:v)o<<h.idx()<<","; o<<"}"; return o.str(); }

template<class M> void empty_face(bool bu,bool quad=false){
  M m; m.enable_bottom_up_incidences(bu);
  for(int i=0;i<4;++i) m.add_vertex(typename M::PointT(i,0,0));
  size_t ne=m.n_edges(), nf=m.n_faces();
  FaceHandle f=m.add_face(VL{});
  CHECK(!f.is_valid()); CHECK(m.n_edges()==ne); CHECK(m.n_faces()==nf);
  FaceHandle g=m.add_face(quad?VL{VertexHandle(0),VertexHandle(1),VertexHandle(2),VertexHandle(3)}:VL{VertexHandle(0),VertexHandle(1),VertexHandle(2)});
  CHECK(g.is_valid()); CHECK(m.n_faces()==nf+1);
  f=m.add_face(VL{}); CHECK(!f.is_valid()); CHECK(m.n_faces()==nf+1);
  // halfedge-list overload
  CHECK(!m.add_face(std::vector<HalfEdgeHandle>{}).is_valid());
}
template<class M> void ghv(bool bu){
  M m; m.enable_bottom_up_incidences(bu);
  for(int i=0;i<6;++i) m.add_vertex(typename M::PointT(i,i*i,0));
  FaceHandle f=m.add_face(VL{VertexHandle(0),VertexHandle(1),VertexHandle(2)});
  FaceHandle f2=m.add_face(VL{VertexHandle(0),VertexHandle(3),VertexHandle(1)}); (void)f2;
  for(int side=0;side<2;++side){
    HalfFaceHandle hf=m.halfface_handle(f,side), opp=m.halfface_handle(f,1-side);
    VL base=m.get_halfface_vertices(hf);
    CHECK(base.size()==3);
    for(auto he: m.halfface(hf).halfedges()){
      VL r=m.get_halfface_vertices(hf,he);
      CHECK(r.size()==3);
      if(r.size()==3){ CHECK(r[0]==m.from_vertex_handle(he)); CHECK(r[1]==m.to_vertex_handle(he));
        // a rotation of base
        bool rot=false; for(int k=0;k<3;++k) if(r[0]==base[k]&&r[1]==base[(k+1)%3]&&r[2]==base[(k+2)%3]) rot=true; CHECK(rot);}
      // opposite halfedge belongs to the opposite halfface
      CHECK(m.get_halfface_vertices(hf,m.opposite_halfedge_handle(he)).empty());
      CHECK(m.get_halfface_vertices(opp,he).empty());
      CHECK(m.get_halfface_vertices(opp,m.opposite_halfedge_handle(he)).size()==3);
    }
    // halfedges of the other face that are not shared
    for(auto he: m.halfface(m.halfface_handle(f2,0)).halfedges()){
      {auto a=m.from_vertex_handle(he).idx(),b=m.to_vertex_handle(he).idx(); if((a==0&&b==1)||(a==1&&b==0)) continue;}
      CHECK(m.get_halfface_vertices(hf,he).empty()); CHECK(m.get_halfface_vertices(hf,m.opposite_halfedge_handle(he)).empty());
    }
    CHECK(m.get_halfface_vertices(hf,HalfEdgeHandle(-1)).empty());
    CHECK(m.get_halfface_vertices(hf,HalfEdgeHandle(1000)).empty());
  }
}
// face with a repeated vertex: 0,1,2,0,3,4 (two triangles pinched at 0)
void repeated(bool bu){
  GeometricPolyhedralMeshV3d m; m.enable_bottom_up_incidences(bu);
  for(int i=0;i<5;++i) m.add_vertex(Vec3d(i,i*i,0));
  FaceHandle f=m.add_face(VL{VertexHandle(0),VertexHandle(1),VertexHandle(2),VertexHandle(0),VertexHandle(3),VertexHandle(4)});
  if(!f.is_valid()){ std::cerr<<"note: face with repeated vertex rejected\n"; return; }
  for(int side=0;side<2;++side){
    HalfFaceHandle hf=m.halfface_handle(f,side);
    for(auto he: m.halfface(hf).halfedges()){
      VL r=m.get_halfface_vertices(hf,he);
      bool ok = r.size()==6 && r[0]==m.from_vertex_handle(he) && r[1]==m.to_vertex_handle(he);
      if(!ok){ std::cerr<<"FAIL repeated-vertex face (bu="<<bu<<") hf="<<hf.idx()<<" he="<<m.from_vertex_handle(he).idx()<<"->"<<m.to_vertex_handle(he).idx()<<" got "<<str(r)<<" : does not start with the halfedge\n"; ++fails; }
    }
  }
}
void strings(){
  { std::string s="old"; std::istringstream is("0:\n"); deserialize(is,s); CHECK(s.empty()); CHECK(bool(is)); }
  { std::string s="old"; std::istringstream is("0:"); deserialize(is,s); CHECK(s.empty()); }
  { std::string s="old"; std::istringstream is("3:abc"); deserialize(is,s); CHECK(s=="abc"); }
  { std::string s="old"; std::istringstream is("x"); deserialize(is,s); CHECK(s=="old"); CHECK(!is); }
  { std::string s="old"; std::istringstream is(""); deserialize(is,s); CHECK(s=="old"); }
  { std::vector<std::string> v{"x","y","z","w"}; std::istringstream is("3\n0:\n2: a\n0:\n"); deserialize(is,v); CHECK(v.size()==3); if(v.size()==3){CHECK(v[0]==""); CHECK(v[1]==" a"); CHECK(v[2]=="");} }
  { std::vector<std::string> v{"", "a", ""}; std::ostringstream os; serialize(os,v); std::vector<std::string> w{"q","q","q"}; std::istringstream is(os.str()); deserialize(is,w); CHECK(v==w); }
  { std::map<std::string,std::string> mp{{"","x"},{"k",""}}; std::ostringstream os; serialize(os,mp); std::map<std::string,std::string> w{{"k","old"}}; std::istringstream is(os.str()); deserialize(is,w); CHECK(mp==w); }
  // through the file reader: a string property with empty values read into a mesh that already holds the property
  { GeometricPolyhedralMeshV3d m; m.add_vertex(Vec3d(0,0,0)); m.add_vertex(Vec3d(1,0,0)); m.add_vertex(Vec3d(2,0,0));
    auto p=m.request_vertex_property<std::string>("s"); m.set_persistent(p); p[VertexHandle(0)]="";p[VertexHandle(1)]="b";p[VertexHandle(2)]="";
    std::ostringstream os; IO::FileManager fm; fm.writeStream(os,m);
    GeometricPolyhedralMeshV3d m2; for(int i=0;i<3;++i) m2.add_vertex(Vec3d(0,0,0));
    auto q=m2.request_vertex_property<std::string>("s"); m2.set_persistent(q); for(int i=0;i<3;++i) q[VertexHandle(i)]="stale";
    std::istringstream is(os.str()); CHECK(fm.readStream(is,m2,false,false));
    auto q2=m2.request_vertex_property<std::string>("s"); CHECK(m2.n_vertices()==3);
    if(m2.n_vertices()==3){ CHECK(q2[VertexHandle(0)]==""); CHECK(q2[VertexHandle(1)]=="b"); CHECK(q2[VertexHandle(2)]==""); }
  }
}
int main(){
  for(bool bu:{true,false}){ empty_face<GeometricPolyhedralMeshV3d>(bu); empty_face<GeometricTetrahedralMeshV3d>(bu); empty_face<GeometricHexahedralMeshV3f>(bu,true);
    ghv<GeometricPolyhedralMeshV3d>(bu); ghv<GeometricTetrahedralMeshV3d>(bu); repeated(bu); }
  strings();
  if(fails){ std::cerr<<fails<<" failures\n"; return 1;} std::cout<<"ok\n"; return 0;
}
