// C12: "circulators that need a disabled kind are immediately invalid" - otherwise they must give the same answer
#include <OpenVolumeMesh/Mesh/PolyhedralMesh.hh>
#include <iostream>
#include <vector>
#include <string>
#include <map>
using namespace OpenVolumeMesh;
using M=GeometricPolyhedralMeshV3d;
template<class It> std::vector<int> run(It it){ std::vector<int> r; if(!it.valid()){r.push_back(-99);return r;} int guard=0; for(;it.valid()&&guard<1000;++it,++guard) r.push_back(it->idx()); return r; }
std::map<std::string,std::vector<int>> collect(M&m){ std::map<std::string,std::vector<int>> R;
 VertexHandle v(1); EdgeHandle e(0); HalfEdgeHandle he(0); FaceHandle f(0); HalfFaceHandle hf(0),hfb(1); CellHandle c(0);
 R["vv"]=run(m.vv_iter(v)); R["voh"]=run(m.voh_iter(v)); R["vih"]=run(m.vih_iter(v)); R["ve"]=run(m.ve_iter(v)); R["vhf"]=run(m.vhf_iter(v)); R["vf"]=run(m.vf_iter(v)); R["vc"]=run(m.vc_iter(v));
 R["hehf"]=run(m.hehf_iter(he)); R["hef"]=run(m.hef_iter(he)); R["hec"]=run(m.hec_iter(he)); R["ehf"]=run(m.ehf_iter(e)); R["ef"]=run(m.ef_iter(e)); R["ec"]=run(m.ec_iter(e));
 R["hfhe"]=run(m.hfhe_iter(hf)); R["hfe"]=run(m.hfe_iter(hf)); R["fv"]=run(m.fv_iter(f)); R["fhe"]=run(m.fhe_iter(f)); R["fe"]=run(m.fe_iter(f));
 R["cv"]=run(m.cv_iter(c)); R["che"]=run(m.che_iter(c)); R["ce"]=run(m.ce_iter(c)); R["chf"]=run(m.chf_iter(c)); R["cf"]=run(m.cf_iter(c)); R["cc"]=run(m.cc_iter(c)); R["hfv"]=run(m.hfv_iter(hf));
 // boundary halfface for bhfhf: find one using full info is not possible w/o BU; use hf index 2 (face fa side 0?) - take both sides
 R["bhfhf2"]=run(m.bhfhf_iter(HalfFaceHandle(3))); R["bhfhf3"]=run(m.bhfhf_iter(HalfFaceHandle(2)));
 R["bv"]=run(m.bv_iter()); R["bhe"]=run(m.bhe_iter()); R["be"]=run(m.be_iter()); R["bhf"]=run(m.bhf_iter()); R["bf"]=run(m.bf_iter()); R["bc"]=run(m.bc_iter());
 return R; }
int main(){ int bad=0; M m; std::vector<VertexHandle> v; for(int i=0;i<5;++i) v.push_back(m.add_vertex(Vec3d(i,0,0)));
  auto f012=m.add_face({v[0],v[1],v[2]}); auto fa=m.add_face({v[0],v[1],v[3]}), fb=m.add_face({v[1],v[2],v[3]}), fc=m.add_face({v[2],v[0],v[3]});
  auto fd=m.add_face({v[0],v[1],v[4]}), fe=m.add_face({v[1],v[2],v[4]}), ff=m.add_face({v[2],v[0],v[4]});
  auto hf=[&](FaceHandle f,int s){return m.halfface_handle(f,s);};
  m.add_cell({hf(f012,1),hf(fa,0),hf(fb,0),hf(fc,0)},true); m.add_cell({hf(f012,0),hf(fd,1),hf(fe,1),hf(ff,1)},true);
  auto full=collect(m);
  for(int s=0;s<7;++s){ M c(m); c.enable_vertex_bottom_up_incidences(s&1); c.enable_edge_bottom_up_incidences(s&2); c.enable_face_bottom_up_incidences(s&4);
    auto r=collect(c);
    for(auto&kv:r){ if(kv.second.size()==1&&kv.second[0]==-99) continue; // immediately invalid: fine
      if(kv.second!=full[kv.first]){ std::cout<<kv.first<<" with v="<<(s&1)<<" e="<<((s>>1)&1)<<" f="<<((s>>2)&1)<<": valid but differs from full-incidence answer ("<<kv.second.size()<<" vs "<<full[kv.first].size()<<" items)\n"; bad=1; } } }
  std::cout<<(bad?"FAIL":"ok")<<"\n"; return bad; }
