#include <OpenVolumeMesh/Mesh/PolyhedralMesh.hh>
#include <iostream>
using namespace OpenVolumeMesh;
int main(){ TopologicPolyhedralMesh m; auto a=m.add_vertex(); auto e=m.add_edge(a,a); (void)e; int n=0; for(auto it=m.ve_iter(a);it.valid();++it)++n;
 std::cout<<"ve_iter(a) over one loop edge yields "<<n<<" items, valence(a)="<<m.valence(a)<<"\n"; return n!=1; }
