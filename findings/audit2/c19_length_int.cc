// C19: "GeometryKernel's vector, length ... equal those formulas applied to the positions"
#include <OpenVolumeMesh/Mesh/PolyhedralMesh.hh>
#include <iostream>
#include <cmath>
using namespace OpenVolumeMesh;
int main(){ GeometryKernel<Vec3i> m; auto a=m.add_vertex(Vec3i(0,0,0)), b=m.add_vertex(Vec3i(1,1,0)); auto e=m.add_edge(a,b);
 auto L=m.length(e); double expect=std::sqrt(2.0); double vn=m.vector(e).norm();
 std::cout<<"length(e)="<<L<<" vector(e).norm()="<<vn<<" expected "<<expect<<"\n";
 return std::abs(double(L)-expect)>1e-9; }
