#include <OpenVolumeMesh/Geometry/VectorT.hh>
#include <iostream>
using namespace OpenVolumeMesh;
int main() {
    Vec3ui v(1u, 2u, 3u);
    std::cout << v.l1_norm() << " " << v.max_abs() << " " << v.min_abs() << " " << v.mean_abs() << "\n";
    return 0;
}
