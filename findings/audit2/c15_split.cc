// split_edge / split_face on tet meshes: cells set, orientation, invariants
#include <OpenVolumeMesh/Mesh/TetrahedralMesh.hh>
#include <OpenVolumeMesh/Mesh/TetrahedralGeometryKernel.hh>
#include <iostream>
#include <set>
#include <algorithm>
using namespace OpenVolumeMesh;
using Mesh = TetrahedralGeometryKernel<Vec3d>;
static double vol(Mesh&m, CellHandle c){ auto v=m.get_cell_vertices(c); auto a=m.vertex(v[0]),b=m.vertex(v[1]),cc=m.vertex(v[2]),d=m.vertex(v[3]); return ((b-a)%(cc-a))|(d-a);} 
static int check(Mesh&m,const char*tag){int bad=0; for(auto c:m.cells()){ if(m.valence(c)!=4){std::cout<<tag<<": cell valence\n";bad=1;} if(m.n_vertices_in_cell(c)!=4){std::cout<<tag<<": nv in cell\n";bad=1;} }
 for(auto f:m.faces()) if(m.valence(f)!=3){std::cout<<tag<<": face valence\n";bad=1;} return bad;}
int main(){ int bad=0;
 for(int def=0;def<2;++def)for(int fast=0;fast<2;++fast){
  Mesh m; m.enable_deferred_deletion(def); m.enable_fast_deletion(fast);
  auto v0=m.add_vertex(Vec3d(0,0,0)),v1=m.add_vertex(Vec3d(1,0,0)),v2=m.add_vertex(Vec3d(0,1,0)),v3=m.add_vertex(Vec3d(0,0,1)),v4=m.add_vertex(Vec3d(0,0,-1));
  auto c0=m.add_cell(v0,v1,v2,v3); auto c1=m.add_cell(v0,v2,v1,v4);
  auto cp=m.request_cell_property<int>("cp",0); cp[c0]=10; cp[c1]=20;
  double s0 = vol(m,c0)+vol(m,c1); double sign0=vol(m,c0);
  // split edge v0-v1 (shared by both tets)
  auto he=m.find_halfedge(v0,v1);
  auto vn=m.split_edge(he,0.5); (void)vn;
  if(m.n_logical_cells()!=4){std::cout<<"split_edge: cells "<<m.n_logical_cells()<<"\n";bad=1;}
  bad|=check(m,"split_edge");
  double s=0; int n10=0,n20=0; for(auto c:m.cells()){ double v=vol(m,c); if(v*sign0<=0){std::cout<<"split_edge: orientation flipped def="<<def<<" fast="<<fast<<"\n";bad=1;} s+=v; if(cp[c]==10)n10++; if(cp[c]==20)n20++;}
  if(std::abs(s-s0)>1e-12){std::cout<<"split_edge: volume "<<s<<" vs "<<s0<<"\n";bad=1;}
  if(n10!=2||n20!=2){std::cout<<"split_edge: cell props "<<n10<<" "<<n20<<" def="<<def<<" fast="<<fast<<"\n";bad=1;}
  if(m.find_halfedge(v0,v1).is_valid()&&!m.is_deleted(m.find_halfedge(v0,v1))){std::cout<<"old edge alive\n";bad=1;}
  // split the interior face (v0,vn,v2)? find an interior face
  FaceHandle fint; for(auto f:m.faces()) if(!m.is_boundary(f)) {fint=f;break;}
  auto verts=m.get_halfface_vertices(m.halfface_handle(fint,0));
  Vec3d bc=(m.vertex(verts[0])+m.vertex(verts[1])+m.vertex(verts[2]))/3.0;
  size_t before=m.n_logical_cells();
  m.split_face(fint,bc);
  if(m.n_logical_cells()!=before+4){std::cout<<"split_face: cells "<<m.n_logical_cells()<<" expected "<<before+4<<"\n";bad=1;}
  bad|=check(m,"split_face");
  s=0; for(auto c:m.cells()){double v=vol(m,c); if(v*sign0<=0){std::cout<<"split_face: orientation flipped\n";bad=1;} s+=v;}
  if(std::abs(s-s0)>1e-12){std::cout<<"split_face: volume "<<s<<" vs "<<s0<<"\n";bad=1;}
  if(m.deferred_deletion_enabled()!=(bool)def){std::cout<<"mode not restored\n";bad=1;}
  m.collect_garbage(); bad|=check(m,"gc");
 }
 std::cout<<(bad?"FAIL":"ok")<<"\n"; return bad; }
