// C04: StatusAttrib::garbage_collection with preserveManifoldness + tracked handles
#include <OpenVolumeMesh/Mesh/PolyhedralMesh.hh>
#include <OpenVolumeMesh/Attribs/StatusAttrib.hh>
#include <iostream>
using namespace OpenVolumeMesh;
int main(){ int bad=0;
 for(int def=0;def<2;++def)for(int fast=0;fast<2;++fast)for(int bu=0;bu<2;++bu){
  GeometricPolyhedralMeshV3d m; m.enable_deferred_deletion(def); m.enable_fast_deletion(fast);
  std::vector<VertexHandle> v; for(int i=0;i<9;++i) v.push_back(m.add_vertex(Vec3d(i,0,0)));
  auto id=m.request_vertex_property<int>("id",-1); for(int i=0;i<9;++i) id[v[i]]=i;
  // two tets sharing face (0,1,2): apexes 3 and 4 ; a dangling face (5,6,7); isolated vertex 8; dangling edge (5,8)? keep 8 isolated
  auto f012=m.add_face({v[0],v[1],v[2]});
  auto fa=m.add_face({v[0],v[1],v[3]}), fb=m.add_face({v[1],v[2],v[3]}), fc=m.add_face({v[2],v[0],v[3]});
  auto fd=m.add_face({v[0],v[1],v[4]}), fe=m.add_face({v[1],v[2],v[4]}), ff=m.add_face({v[2],v[0],v[4]});
  auto hf=[&](FaceHandle f,int s){return m.halfface_handle(f,s);};
  auto c0=m.add_cell({hf(f012,1),hf(fa,0),hf(fb,0),hf(fc,0)},true);
  auto c1=m.add_cell({hf(f012,0),hf(fd,1),hf(fe,1),hf(ff,1)},true);
  if(!c0.is_valid()||!c1.is_valid()){std::cout<<"setup failed\n";return 2;}
  auto fdang=m.add_face({v[5],v[6],v[7]});
  if(!bu) m.enable_bottom_up_incidences(false);
  StatusAttrib st(m);
  st[c1].set_deleted(true);
  // tracked handles
  VertexHandle tv3=v[3], tv4=v[4], tv8=v[8], tv0=v[0];
  HalfEdgeHandle the; for(auto h: m.halfedges()){ if(id[m.from_vertex_handle(h)]==0&&id[m.to_vertex_handle(h)]==3) the=h; }
  HalfEdgeHandle the2; for(auto h: m.halfedges()){ if(id[m.from_vertex_handle(h)]==0&&id[m.to_vertex_handle(h)]==4) the2=h; }
  HalfFaceHandle thf=hf(fa,0), thf2=hf(fd,0), thf3=hf(fdang,1);
  CellHandle tc0=c0, tc1=c1;
  std::vector<VertexHandle*> vt{&tv3,&tv4,&tv8,&tv0}; std::vector<HalfEdgeHandle*> het{&the,&the2}; std::vector<HalfFaceHandle*> hft{&thf,&thf2,&thf3}; std::vector<CellHandle*> ct{&tc0,&tc1};
  bool vbu=m.has_vertex_bottom_up_incidences(), ebu=m.has_edge_bottom_up_incidences(), fbu=m.has_face_bottom_up_incidences();
  st.garbage_collection(vt,het,hft,ct,true);
  // expected: cell c0 only, faces f012,fa,fb,fc ; edges 6 ; vertices 0..3
  auto tag=[&](const char*s){std::cout<<s<<" [def="<<def<<" fast="<<fast<<" bu="<<bu<<"]\n";bad=1;};
  if(m.n_cells()!=1||m.n_faces()!=4||m.n_edges()!=6||m.n_vertices()!=4) {std::cout<<m.n_vertices()<<" "<<m.n_edges()<<" "<<m.n_faces()<<" "<<m.n_cells()<<"\n"; tag("counts wrong");}
  if(m.needs_garbage_collection()) tag("pending");
  if(m.deferred_deletion_enabled()!=(bool)def) tag("deferred mode changed");
  if(m.has_vertex_bottom_up_incidences()!=vbu||m.has_edge_bottom_up_incidences()!=ebu||m.has_face_bottom_up_incidences()!=fbu) tag("incidence settings changed by garbage_collection(preserveManifoldness)");
  if(!tv3.is_valid()||id[tv3]!=3) tag("tracked v3");
  if(!tv0.is_valid()||id[tv0]!=0) tag("tracked v0");
  if(tv4.is_valid()) tag("tracked v4 should be invalid");
  if(tv8.is_valid()) tag("tracked v8 should be invalid");
  if(!the.is_valid()||id[m.from_vertex_handle(the)]!=0||id[m.to_vertex_handle(the)]!=3) tag("tracked he 0->3");
  if(the2.is_valid()) tag("tracked he 0->4 should be invalid");
  if(!thf.is_valid()){tag("tracked hf");} else { auto vs=m.get_halfface_vertices(thf); if(id[vs[0]]!=0||id[vs[1]]!=1||id[vs[2]]!=3) tag("tracked hf verts"); }
  if(thf2.is_valid()) tag("tracked hf2 should be invalid");
  if(thf3.is_valid()) tag("tracked hf3 should be invalid");
  if(!tc0.is_valid()||tc0.idx()!=0) tag("tracked c0");
  if(tc1.is_valid()) tag("tracked c1 should be invalid");
 }
 std::cout<<(bad?"FAIL":"ok")<<"\n"; return bad; }
