// C19: "scalar * / ... agree with their component-wise definitions for all inputs"
#include <OpenVolumeMesh/Geometry/VectorT.hh>
#include <iostream>
using namespace OpenVolumeMesh;
int main() {
    int bad = 0;
    Vec3i v(2, 4, 6);
    v /= v[0];                       // definition: every component divided by 2
    if (!(v == Vec3i(1, 2, 3))) { std::cout << "v /= v[0]: expected (1 2 3), got (" << v << ")\n"; bad = 1; }
    Vec3d w(2.0, 3.0, 5.0);
    w *= w[0];                       // definition: every component times 2
    if (!(w == Vec3d(4, 6, 10))) { std::cout << "w *= w[0]: expected (4 6 10), got (" << w << ")\n"; bad = 1; }
    Vec3d u(2.0, 3.0, 5.0);
    Vec3d r = u; r = r / r[0];       // operator/ works on a copy: scalar aliases *this, copy is changed -> ok?
    if (!(r == Vec3d(1, 1.5, 2.5))) { std::cout << "u / u[0]: expected (1 1.5 2.5), got (" << r << ")\n"; bad = 1; }
    return bad;
}
