// C16: every permutation of a cube's six halffaces through add_cell(hfs, true)
#include <OpenVolumeMesh/Mesh/HexahedralMesh.hh>
#include <iostream>
#include <algorithm>
#include <set>
using namespace OpenVolumeMesh;
using M=TopologicHexahedralMesh;
static HalfFaceHandle adj(M&m,const std::vector<HalfFaceHandle>&hfs,HalfFaceHandle h,HalfEdgeHandle he){ auto o=m.opposite_halfedge_handle(he); for(auto x:hfs){ if(x==h)continue; for(auto e:m.halfface(x).halfedges()) if(e==o) return x;} return HalfFaceHandle(); }
int main(){ int bad=0; long acc=0,rej=0;
 for(int variant=0;variant<8;++variant){
  M base; std::vector<VertexHandle> v; for(int i=0;i<8;++i) v.push_back(base.add_vertex());
  // faces as in add_cell(8 vertices), each optionally rotated / stored from the other side
  int q[6][4]={{3,2,1,0},{7,6,5,4},{1,2,6,7},{4,5,3,0},{1,7,4,0},{2,3,5,6}};
  std::vector<HalfFaceHandle> cube;
  for(int k=0;k<6;++k){ std::vector<VertexHandle> vs; int rot=(variant+k)%4; bool flip=((variant>>1)+k)%2;
    for(int j=0;j<4;++j) vs.push_back(v[q[k][(j+rot)%4]]);
    if(flip){ std::reverse(vs.begin(),vs.end()); auto f=base.add_face(vs); cube.push_back(base.halfface_handle(f,1)); }
    else { auto f=base.add_face(vs); cube.push_back(base.halfface_handle(f,0)); } }
  std::vector<int> p{0,1,2,3,4,5};
  do{ M m(base); std::vector<HalfFaceHandle> in; for(int i:p) in.push_back(cube[i]);
    auto c=m.add_cell(in,true);
    if(!c.is_valid()){ ++rej; if(m.n_cells()!=0){std::cout<<"rejected but cell added\n";bad=1;} continue; }
    ++acc; auto hfs=m.cell(c).halffaces();
    if(std::set<HalfFaceHandle>(hfs.begin(),hfs.end())!=std::set<HalfFaceHandle>(cube.begin(),cube.end())){std::cout<<"stored set differs\n";bad=1;continue;}
    for(int k=0;k<3;++k){ std::set<VertexHandle> a; for(auto vh:m.halfface_vertices(hfs[2*k])) a.insert(vh); for(auto vh:m.halfface_vertices(hfs[2*k+1])) if(a.count(vh)){std::cout<<"pair "<<k<<" shares a vertex\n";bad=1;} }
    std::vector<int> seq; for(auto he:m.halfface(hfs[0]).halfedges()){ auto a=adj(m,hfs,hfs[0],he); seq.push_back(std::find(hfs.begin(),hfs.end(),a)-hfs.begin()); }
    int ord[4]={2,4,3,5}; int st=-1; for(int i=0;i<4;++i) if(seq[0]==ord[i]) st=i; bool ok=st>=0; for(int i=0;ok&&i<4;++i) if(seq[i]!=ord[(st+i)%4]) ok=false;
    if(!ok){std::cout<<"walk order "<<seq[0]<<seq[1]<<seq[2]<<seq[3]<<"\n";bad=1;}
    for(int d=0;d<6;++d){ if(m.orientation(hfs[d],c)!=d){std::cout<<"orientation\n";bad=1;} if(m.opposite_halfface_handle_in_cell(hfs[d],c)!=hfs[d^1]){std::cout<<"opp in cell\n";bad=1;} }
    std::vector<VertexHandle> hv; for(auto it=m.hv_iter(c);it.valid();++it) hv.push_back(*it);
    if(hv.size()!=8||std::set<VertexHandle>(hv.begin(),hv.end()).size()!=8){std::cout<<"hv\n";bad=1;continue;}
    int pr[4][2]={{0,4},{1,7},{2,6},{3,5}}; for(auto&e:pr){ if(!m.find_halfedge_in_cell(hv[e[0]],hv[e[1]],c).is_valid()){std::cout<<"hv pattern edge "<<e[0]<<"-"<<e[1]<<" missing\n";bad=1;} }
    // first four = first halfface's vertices against cyclic order starting at source of its first halfedge
    auto fv=m.get_halfface_vertices(hfs[0]); if(!(hv[0]==fv[0]&&hv[1]==fv[3]&&hv[2]==fv[2]&&hv[3]==fv[1])){std::cout<<"hv first four\n";bad=1;}
  } while(std::next_permutation(p.begin(),p.end())); }
 std::cout<<"accepted "<<acc<<" rejected "<<rej<<" "<<(bad?"FAIL":"ok")<<"\n"; return bad; }
