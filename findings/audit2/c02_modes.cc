// C02/C04/C12: same deletions in all modes / incidence subsets give the same logical mesh
#include <OpenVolumeMesh/Mesh/PolyhedralMesh.hh>
#include <iostream>
#include <random>
#include <set>
#include <map>
#include <algorithm>
using namespace OpenVolumeMesh; using M=GeometricPolyhedralMeshV3d;
using Sig=std::multiset<std::vector<int>>;
struct Canon{Sig e,f,c; size_t nv; int genus; bool operator==(const Canon&o)const{return e==o.e&&f==o.f&&c==o.c&&nv==o.nv&&genus==o.genus;}};
static std::vector<int> rotmin(std::vector<int> v){ auto best=v; for(size_t i=0;i<v.size();++i){ std::rotate(v.begin(),v.begin()+1,v.end()); if(v<best)best=v;} return best; }
Canon canon(M&m){ Canon r; auto id=m.request_vertex_property<int>("id",-1); r.nv=0; for(auto v:m.vertices()){(void)v;++r.nv;}
 for(auto e:m.edges()) r.e.insert({id[m.edge(e).from_vertex()],id[m.edge(e).to_vertex()]});
 auto fsig=[&](HalfFaceHandle h){ std::vector<int> s; for(auto he:m.halfface(h).halfedges()) s.push_back(id[m.from_vertex_handle(he)]); return rotmin(s); };
 for(auto f:m.faces()) r.f.insert(fsig(m.halfface_handle(f,0)));
 for(auto c:m.cells()){ std::vector<std::vector<int>> hs; for(auto h:m.cell(c).halffaces()) hs.push_back(fsig(h)); std::sort(hs.begin(),hs.end()); std::vector<int> flat; for(auto&h:hs){flat.insert(flat.end(),h.begin(),h.end());flat.push_back(-1);} r.c.insert(flat);} 
 r.genus=m.genus();
 if(r.nv!=m.n_logical_vertices()||r.e.size()!=m.n_logical_edges()||r.f.size()!=m.n_logical_faces()||r.c.size()!=m.n_logical_cells()) {std::cout<<"logical counts disagree with iteration\n"; r.genus=-777;}
 return r; }
void build(M&m){ std::vector<VertexHandle> v; auto id=m.request_vertex_property<int>("id",-1); m.set_persistent(id);
 for(int i=0;i<9;++i){v.push_back(m.add_vertex(Vec3d(i,0,0))); id[v.back()]=i;}
 // ring of 4 tets around edge 0-1 with rim 2,3,4,5 ; plus a tet touching at vertex 2 only (2,6,7,8)
 auto tet=[&](int a,int b,int c,int d){ auto hf=[&](int x,int y,int z){ std::vector<VertexHandle> vs{v[x],v[y],v[z]}; auto h=m.find_halfface(vs); if(h.is_valid())return h; return m.halfface_handle(m.add_face(vs),0);}; m.add_cell({hf(a,b,c),hf(a,c,d),hf(a,d,b),hf(b,d,c)},true); };
 tet(0,1,2,3); tet(0,1,3,4); tet(0,1,4,5); tet(0,1,5,2); tet(2,6,7,8);
 m.add_edge(v[6],v[3]); m.add_face({v[6],v[3],v[4]}); m.add_edge(v[0],v[1],true); }
int main(){ int bad=0; std::mt19937 rng(12345);
 for(int trial=0;trial<300;++trial){ std::vector<std::pair<int,int>> ops; int n=1+rng()%4; for(int i=0;i<n;++i) ops.push_back({(int)(rng()%4),(int)(rng()%1000)});
  std::vector<Canon> res; std::vector<std::string> names;
  for(int def=0;def<2;++def)for(int fast=0;fast<2;++fast)for(int bu=0;bu<8;++bu){ M m; build(m); m.enable_deferred_deletion(def); m.enable_fast_deletion(fast);
    m.enable_vertex_bottom_up_incidences(bu&1); m.enable_edge_bottom_up_incidences(bu&2); m.enable_face_bottom_up_incidences(bu&4);
    auto id=m.request_vertex_property<int>("id",-1);
    for(auto op:ops){ // pick the k-th live entity in a canonical (id-based) order
      if(op.first==0){ std::map<int,VertexHandle> L; for(auto x:m.vertices()) L[id[x]]=x; if(L.empty())continue; auto it=L.begin(); std::advance(it,op.second%L.size()); m.delete_vertex(it->second);} 
      else if(op.first==1){ std::multimap<std::vector<int>,EdgeHandle> L; for(auto x:m.edges()) L.insert({{std::min(id[m.edge(x).from_vertex()],id[m.edge(x).to_vertex()]),std::max(id[m.edge(x).from_vertex()],id[m.edge(x).to_vertex()])},x}); if(L.empty())continue; auto it=L.begin(); std::advance(it,op.second%L.size()); 
         // duplicate edges are interchangeable only if both dangling; pick first of equal range deterministically by skipping to range start
         it=L.lower_bound(it->first); // may pick different physical duplicates -> restrict: choose the one with faces if any
         auto rg=L.equal_range(it->first); EdgeHandle pick=it->second; if(std::distance(rg.first,rg.second)>1){ continue; }
         m.delete_edge(pick);} 
      else if(op.first==2){ std::map<std::vector<int>,FaceHandle> L; for(auto x:m.faces()){ std::vector<int> s; for(auto he:m.face(x).halfedges()) s.push_back(id[m.from_vertex_handle(he)]); std::sort(s.begin(),s.end()); L[s]=x;} if(L.empty())continue; auto it=L.begin(); std::advance(it,op.second%L.size()); m.delete_face(it->second);} 
      else { std::map<std::vector<int>,CellHandle> L; for(auto x:m.cells()){ std::set<int> s; for(auto h:m.cell(x).halffaces()) for(auto he:m.halfface(h).halfedges()) s.insert(id[m.from_vertex_handle(he)]); L[std::vector<int>(s.begin(),s.end())]=x;} if(L.empty())continue; auto it=L.begin(); std::advance(it,op.second%L.size()); m.delete_cell(it->second);} }
    Canon a=canon(m); if(m.needs_garbage_collection()!= (def && (m.n_logical_vertices()!=m.n_vertices()||m.n_logical_edges()!=m.n_edges()||m.n_logical_faces()!=m.n_faces()||m.n_logical_cells()!=m.n_cells()))) {std::cout<<"needs_gc inconsistent\n";bad=1;}
    m.collect_garbage(); Canon b=canon(m); if(!(a==b)){std::cout<<"trial "<<trial<<": gc changed logical mesh def="<<def<<" fast="<<fast<<" bu="<<bu<<"\n";bad=1;}
    if(m.n_vertices()!=b.nv||m.n_edges()!=b.e.size()||m.n_faces()!=b.f.size()||m.n_cells()!=b.c.size()){std::cout<<"counts after gc\n";bad=1;}
    // re-enable everything and compare upward queries with brute force lightly: valence(edge)
    m.enable_bottom_up_incidences(true); for(auto e:m.edges()){ size_t k=0; for(auto f:m.faces()) for(auto he:m.face(f).halfedges()) if(m.edge_handle(he)==e) ++k; if(k!=m.valence(e)){std::cout<<"valence(e) wrong after re-enable\n";bad=1;} }
    res.push_back(b); names.push_back("def="+std::to_string(def)+" fast="+std::to_string(fast)+" bu="+std::to_string(bu)); }
  for(size_t i=1;i<res.size();++i) if(!(res[i]==res[0])){ std::cout<<"trial "<<trial<<": "<<names[i]<<" differs from "<<names[0]<<" (cells "<<res[i].c.size()<<" vs "<<res[0].c.size()<<", faces "<<res[i].f.size()<<" vs "<<res[0].f.size()<<", edges "<<res[i].e.size()<<" vs "<<res[0].e.size()<<", nv "<<res[i].nv<<" vs "<<res[0].nv<<")\n"; bad=1; break; } }
 std::cout<<(bad?"FAIL":"ok")<<"\n"; return bad; }
