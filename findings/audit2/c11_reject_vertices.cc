// C11: "A rejected ... call returns the invalid handle and leaves every observable aspect of the mesh unchanged"
// tet/hex add_cell(vertices, topologyCheck=true)
#include <OpenVolumeMesh/Mesh/TetrahedralMesh.hh>
#include <OpenVolumeMesh/Mesh/HexahedralMesh.hh>
#include <iostream>
using namespace OpenVolumeMesh;
int main(){ int bad=0;
 { TopologicTetrahedralMesh m; std::vector<VertexHandle> v; for(int i=0;i<5;++i) v.push_back(m.add_vertex());
   auto c=m.add_cell(std::vector<VertexHandle>{v[0],v[1],v[2],v[3]},true); if(!c.is_valid()) return 2;
   size_t ne=m.n_edges(), nf=m.n_faces(), nc=m.n_cells();
   auto r=m.add_cell(std::vector<VertexHandle>{v[0],v[1],v[2],v[4]},true); // halfface (0,1,2) is occupied -> rejected
   if(r.is_valid()){std::cout<<"tet: not rejected\n";}
   else if(m.n_edges()!=ne||m.n_faces()!=nf||m.n_cells()!=nc){ std::cout<<"tet add_cell(vertices,true) rejected but mesh changed: edges "<<ne<<"->"<<m.n_edges()<<" faces "<<nf<<"->"<<m.n_faces()<<"\n"; bad=1;}
   // the 4-handle convenience form
   TopologicTetrahedralMesh m2; v.clear(); for(int i=0;i<5;++i) v.push_back(m2.add_vertex());
   m2.add_cell(v[0],v[1],v[2],v[3],true); ne=m2.n_edges(); nf=m2.n_faces();
   auto r2=m2.add_cell(v[0],v[1],v[4],v[4],true); // degenerate: rejected by the four-vertex test
   if(!r2.is_valid() && (m2.n_edges()!=ne||m2.n_faces()!=nf)){ std::cout<<"tet add_cell(v0,v1,v2,v3,true) rejected but mesh changed: edges "<<ne<<"->"<<m2.n_edges()<<" faces "<<nf<<"->"<<m2.n_faces()<<"\n"; bad=1;}
 }
 { TopologicHexahedralMesh m; std::vector<VertexHandle> v; for(int i=0;i<12;++i) v.push_back(m.add_vertex());
   auto c=m.add_cell(std::vector<VertexHandle>{v[0],v[1],v[2],v[3],v[4],v[5],v[6],v[7]},true); if(!c.is_valid()) return 2;
   size_t ne=m.n_edges(), nf=m.n_faces();
   // same XF face (3,2,1,0) again but other back vertices -> hf0 occupied -> rejected
   auto r=m.add_cell(std::vector<VertexHandle>{v[0],v[1],v[2],v[3],v[8],v[9],v[10],v[11]},true);
   if(r.is_valid()){std::cout<<"hex: not rejected\n";}
   else if(m.n_edges()!=ne||m.n_faces()!=nf){ std::cout<<"hex add_cell(vertices,true) rejected but mesh changed: edges "<<ne<<"->"<<m.n_edges()<<" faces "<<nf<<"->"<<m.n_faces()<<"\n"; bad=1;}
 }
 return bad; }
