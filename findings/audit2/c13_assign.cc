#include <OpenVolumeMesh/Mesh/PolyhedralMesh.hh>
#include <OpenVolumeMesh/Mesh/TetrahedralMesh.hh>
#include <OpenVolumeMesh/Mesh/HexahedralMesh.hh>
#include <iostream>
using namespace OpenVolumeMesh;
int main(){ int bad=0; auto tag=[&](const char*s){std::cout<<s<<"\n";bad=1;};
 GeometricTetrahedralMeshV3d t; t.enable_deferred_deletion(true); t.enable_fast_deletion(false); t.enable_edge_bottom_up_incidences(true);
 std::vector<VertexHandle> v; for(int i=0;i<5;++i) v.push_back(t.add_vertex(Vec3d(i,i*i,1)));
 t.add_cell(v[0],v[1],v[2],v[3]); auto c1=t.add_cell(v[0],v[2],v[1],v[4]);
 auto pp=t.request_cell_property<std::string>("pp","d"); t.set_persistent(pp); pp[c1]="x";
 auto np=t.request_vertex_property<int>("np",7);
 t.delete_cell(CellHandle(0));
 t.enable_vertex_bottom_up_incidences(false);
 GeometricPolyhedralMeshV3d p; p.enable_deferred_deletion(false); auto held=p.request_face_property<int>("held",3); p.add_vertex(Vec3d(9,9,9));
 p = t;
 if(p.n_vertices()!=t.n_vertices()||p.n_edges()!=t.n_edges()||p.n_faces()!=t.n_faces()||p.n_cells()!=t.n_cells()) tag("counts");
 if(p.n_logical_cells()!=1||!p.is_deleted(CellHandle(0))||p.is_deleted(CellHandle(1))) tag("deletion state");
 if(!p.needs_garbage_collection()) tag("needs gc");
 if(p.deferred_deletion_enabled()!=true||p.fast_deletion_enabled()!=false) tag("modes not copied");
 if(p.has_vertex_bottom_up_incidences()!=false||p.has_edge_bottom_up_incidences()!=true||p.has_face_bottom_up_incidences()!=true) tag("incidence settings not copied");
 for(auto vh:t.vertices()) if(!(p.vertex(vh)==t.vertex(vh))) tag("positions");
 auto q=p.get_property<std::string,Entity::Cell>("pp"); if(!q||(*q)[CellHandle(1)]!="x"||!q->persistent()) tag("persistent prop");
 if(p.get_property<int,Entity::Vertex>("np")) tag("non-persistent carried over");
 if(held.size()!=p.n_faces()) tag("held size"); if(p.get_property<int,Entity::Face>("held")) tag("held findable");
 // independence
 p.set_vertex(VertexHandle(0),Vec3d(5,5,5)); if(t.vertex(VertexHandle(0))==Vec3d(5,5,5)) tag("pos shared"); (*q)[CellHandle(1)]="y"; if(pp[c1]!="x") tag("prop shared");
 p.collect_garbage(); if(t.n_cells()!=2) tag("topology shared");
 // poly -> tet, poly -> poly self
 GeometricTetrahedralMeshV3d t2; t2 = p; if(t2.n_cells()!=1||t2.get_cell_vertices(CellHandle(0)).size()!=4) tag("poly->tet");
 p = p; if(p.n_cells()!=1||!p.get_property<std::string,Entity::Cell>("pp")) tag("self assign");
 std::cout<<(bad?"FAIL":"ok")<<"\n"; return bad; }
