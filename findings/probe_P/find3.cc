// ANALYSIS (find3, C14)
// Clause: "create_* refuses duplicates ... Persistent implies shared implies named-and-unique".
// Cause : ResourceManager::create_shared_property / create_persistent_property (Core/ResourceManagerT_impl.hh:185-193 / 173-183) test for an
//         existing property with internal_find_property(), which returns "not found" for an empty name (line 130), and then create the
//         storage with shared=true regardless of the name. set_shared() (line 222) does reject anonymous properties, the creators do not.
//         Distinct from the known set_name issue (F16): no handle-side rename involved.
// Fix   : in both creators: if (_name.empty()) return {};   (or throw std::runtime_error("Shared properties must have a name!") like set_shared).
// find3: create_shared_property("") / create_persistent_property("") create SHARED (even PERSISTENT)
// properties without a name, and do so repeatedly (C14: "create_* refuses duplicates",
// "Persistent implies shared implies named-and-unique").
// Build: g++ -std=c++17 -I/tmp/probe/P/src -I/tmp/probe/P/_build/src find3.cc \
//            /tmp/probe/P/_build/Build/lib/libOpenVolumeMesh.a -o find3
#include <OpenVolumeMesh/Core/TopologyKernel.hh>
#include <cstdio>
using namespace OpenVolumeMesh;
int main() {
    TopologyKernel m;
    m.add_vertex();
    int bad = 0;
    auto a = m.create_shared_vertex_property<int>("");
    auto b = m.create_shared_vertex_property<int>("");
    printf("create_shared(\"\") #1: %s, #2: %s\n", a ? "created" : "refused", b ? "created" : "refused");
    if (a) { printf("  #1 shared=%d anonymous=%d  (shared implies named)\n", (int)a->shared(), (int)a->anonymous()); if (a->shared() && a->anonymous()) ++bad; }
    if (a && b) { printf("  two shared int vertex properties with the same (empty) name coexist\n"); ++bad; }
    auto c = m.create_persistent_vertex_property<int>("");
    if (c) { printf("create_persistent(\"\"): persistent=%d shared=%d anonymous=%d, n_persistent=%zu\n", (int)c->persistent(), (int)c->shared(), (int)c->anonymous(), m.n_persistent_props<Entity::Vertex>()); if (c->persistent() && c->anonymous()) ++bad; }
    // the transition API does enforce the rule:
    auto p = m.create_private_vertex_property<int>("");
    bool threw = false; try { m.set_shared(p, true); } catch (std::exception& e) { threw = true; printf("set_shared(anonymous) throws: %s\n", e.what()); }
    if (!threw) ++bad;
    // consequences: the shared anonymous properties cannot be found, and a copy of the mesh carries an
    // unreachable persistent property
    printf("property_exists(\"\") = %d\n", (int)m.vertex_property_exists<int>(""));
    TopologyKernel m2(m);
    printf("copy: n_props=%zu n_persistent=%zu (an unreachable anonymous persistent property was cloned)\n", m2.n_props<Entity::Vertex>(), m2.n_persistent_props<Entity::Vertex>());
    if (bad) { printf("FAIL: %d invariant violations\n", bad); return 1; }
    printf("ok\n"); return 0;
}
