// C05 harness: all circulators / entity iterators / boundary iterators versus a
// brute-force scan of the stored definitions, on random small polyhedral meshes.
//
// Build (Release lib):
//   g++ -std=c++17 -O1 -g -I/tmp/probe/P/src -I/tmp/probe/P/_build/src c05_harness.cc \
//       /tmp/probe/P/_build/Build/lib/libOpenVolumeMesh.a -o c05_harness
// Build (ASan/UBSan lib):
//   clang++ -std=c++17 -O1 -g -fsanitize=address,undefined -D_GLIBCXX_ASSERTIONS -UNDEBUG \
//       -I/tmp/probe/P/src -I/tmp/probe/P/_build_asan/src c05_harness.cc \
//       /tmp/probe/P/_build_asan/Build/lib/libOpenVolumeMesh.a -o c05_harness_asan
// Run: ./c05_harness [n_meshes=2000] [seed=1] [backward=1] [ext=0]
//   backward=0 switches the backward-stepping checks off (to see the remaining classes).
#include <OpenVolumeMesh/Core/TopologyKernel.hh>
#include <algorithm>
#include <cstdio>
#include <cstdlib>
#include <functional>
#include <map>
#include <random>
#include <set>
#include <string>
#include <vector>

using namespace OpenVolumeMesh;
using TK = TopologyKernel;

static std::map<std::string, int> g_fail;       // "circ/kind" -> count
static std::map<std::string, std::string> g_first;
static long g_checks = 0;
static bool g_backward = true;
static bool g_ext = false;  // argv[4]: also duplicate edges and swap_*_indices
static std::string g_meshdesc;

static void fail(const std::string& circ, const std::string& kind, const std::string& detail) {
    std::string k = circ + " / " + kind;
    if (g_fail[k]++ == 0) g_first[k] = detail + "   [mesh: " + g_meshdesc + "]";
}

template <class H> static std::string hs(const std::vector<H>& v) {
    std::string s = "{";
    for (auto h : v) s += std::to_string(h.idx()) + ",";
    return s + "}";
}

// ---------- generic circulator protocol check ----------
// mk(laps) -> pair<It,It> (range accessor); mk1(laps) -> It (the *_iter accessor)
template <class H, class MkPair, class MkIter>
static void check_circ(const std::string& name, int centre, std::vector<H> expect, bool is_set,
                       MkPair mk, MkIter mk1) {
    using It = decltype(mk1(1));
    std::vector<H> expect_sorted = expect;
    std::sort(expect_sorted.begin(), expect_sorted.end());
    const size_t n = expect.size();
    std::string ctx = "centre " + std::to_string(centre) + " expect " + hs(expect_sorted);
    for (int laps = 1; laps <= 3; ++laps) {
        ++g_checks;
        It b = mk1(laps);
        auto pr = mk(laps);
        if (!(pr.first == b)) fail(name, "range.first != *_iter()", ctx);
        if (n == 0) {
            if (b.valid()) fail(name, "nothing incident but circulator valid", ctx);
            if (!(pr.first == pr.second)) fail(name, "nothing incident but first != second", ctx);
            continue;
        }
        if (!b.valid()) { fail(name, "incident set non-empty but circulator invalid", ctx); continue; }
        // forward enumeration via valid()
        std::vector<H> seq;
        {
            It it = b;
            size_t guard = 0;
            while (it.valid() && guard++ < n * laps + 5) { seq.push_back(*it); ++it; }
            if (seq.size() != n * laps) {
                fail(name, "forward count != laps*|incident|", ctx + " got " + hs(seq) + " laps " + std::to_string(laps));
                continue;
            }
            if (!(it == pr.second)) fail(name, "begin advanced past last lap != end", ctx + " laps " + std::to_string(laps));
        }
        // each lap the same, first lap == expected
        std::vector<H> lap0(seq.begin(), seq.begin() + n);
        for (int l = 1; l < laps; ++l)
            if (!std::equal(lap0.begin(), lap0.end(), seq.begin() + l * n)) fail(name, "laps differ", ctx);
        {
            std::vector<H> s = lap0;
            std::sort(s.begin(), s.end());
            if (s != expect_sorted) fail(name, "enumerated set != brute force", ctx + " got " + hs(s));
            if (is_set && std::adjacent_find(s.begin(), s.end()) != s.end()) fail(name, "duplicates in a set relation", ctx + " got " + hs(s));
        }
        // begin/end loop
        {
            std::vector<H> seq2;
            size_t guard = 0;
            for (It it = pr.first; it != pr.second && guard++ < n * laps + 5; ++it) seq2.push_back(*it);
            if (seq2 != seq) fail(name, "begin/end loop != valid() loop", ctx + " got " + hs(seq2));
        }
        // range-for
        {
            std::vector<H> seq3;
            size_t guard = 0;
            for (auto h : mk(laps)) { seq3.push_back(h); if (guard++ > n * laps + 5) break; }
            if (seq3 != seq) fail(name, "range-for != valid() loop", ctx);
        }
        // post-increment, operator+, +=
        {
            It it = b;
            It old = it++;
            if (!(old == b)) fail(name, "post-increment return value", ctx);
            It p1 = b + 1;
            if (!(p1 == it)) fail(name, "operator+(1) != ++", ctx);
            for (size_t k = 0; k <= n * laps; ++k) {
                It a = b + (int)k;
                It c = b; c += (int)k;
                if (!(a == c)) fail(name, "operator+ != operator+=", ctx);
                if (k < n * laps) {
                    if (!a.valid() || *a != seq[k]) fail(name, "operator+(k) wrong element", ctx);
                } else if (!(a == pr.second)) fail(name, "begin + laps*n != end", ctx);
            }
        }
        if (!g_backward) continue;
        // --(++it) == it at every position (including the last one)
        {
            It it = b;
            for (size_t k = 0; k < n * laps; ++k) {
                It c = it; ++c; --c;
                if (!(c == it)) {
                    fail(name, "--(++it) != it",
                         ctx + " laps " + std::to_string(laps) + " position " + std::to_string(k) + " of " + std::to_string(n * laps) +
                             ": after ++,-- valid=" + std::to_string(c.valid()) + " lap=" + std::to_string(c.lap()) + " handle=" + std::to_string((*c).idx()) +
                             " vs valid=" + std::to_string(it.valid()) + " lap=" + std::to_string(it.lap()) + " handle=" + std::to_string((*it).idx()));
                    break;
                }
                It d = it; It d2 = d - 0; if (!(d2 == it)) fail(name, "operator-(0)", ctx);
                ++it;
            }
        }
        // stepping backward from the end
        {
            It e = pr.second;
            bool ok = true;
            std::string why;
            for (size_t k = 0; k < n * laps && ok; ++k) {
                --e;
                if (!e.valid()) { ok = false; why = "invalid after " + std::to_string(k + 1) + " steps back from end"; }
                else if (*e != seq[n * laps - 1 - k]) { ok = false; why = "wrong element after " + std::to_string(k + 1) + " steps back from end"; }
            }
            if (ok && !(e == b)) { ok = false; why = "end - laps*n != begin"; }
            if (!ok) fail(name, "backward from end", ctx + " laps " + std::to_string(laps) + ": " + why);
            It e2 = pr.second; It e3 = e2 - (int)(n * laps); It e4 = pr.second; e4 -= (int)(n * laps);
            if (!(e3 == e4)) fail(name, "operator- != operator-=", ctx);
        }
        // forward k, backward k from a middle position -> same
        {
            It it = b;
            if (n * laps >= 2) {
                ++it;
                It c = it;
                size_t room = n * laps - 2;  // stay strictly inside
                for (size_t k = 0; k < room; ++k) ++c;
                for (size_t k = 0; k < room; ++k) --c;
                if (!(c == it)) fail(name, "inside: k forward then k backward != start", ctx);
                It pd = it; It old = pd--;
                if (!(old == it)) fail(name, "post-decrement return value", ctx);
                if (!(pd == b)) fail(name, "inside: --(begin+1) != begin", ctx);
            }
        }
    }
}

// ---------- entity iterator check ----------
template <class It, class H>
static void check_entity_iter(const std::string& name, std::vector<H> live, It b, It e, It it0, std::pair<It, It> rng) {
    ++g_checks;
    const size_t n = live.size();
    std::string ctx = "live " + hs(live);
    std::vector<H> seq;
    size_t guard = 0;
    for (It it = it0; it.valid() && guard++ < n + 5; ++it) seq.push_back(*it);
    if (seq != live) fail(name, "valid() loop != live entities", ctx + " got " + hs(seq));
    std::vector<H> seq2;
    guard = 0;
    for (It it = b; it != e && guard++ < n + 5; ++it) seq2.push_back(*it);
    if (seq2 != live) fail(name, "begin/end loop != live entities", ctx + " got " + hs(seq2));
    std::vector<H> seq3;
    guard = 0;
    for (auto h : rng) { seq3.push_back(h); if (guard++ > n + 5) break; }
    if (seq3 != live) fail(name, "range-for != live entities", ctx);
    if (n == 0) {
        if (b.valid()) fail(name, "empty but begin valid", ctx);
        if (!(b == e)) fail(name, "empty but begin != end", ctx);
        return;
    }
    { It a = b; for (size_t k = 0; k < n; ++k) ++a; if (!(a == e)) fail(name, "begin + n != end", ctx); }
    { It a = b + (int)n; if (!(a == e)) fail(name, "operator+(n) != end", ctx); }
    if (!g_backward) return;
    {
        It it = b;
        for (size_t k = 0; k < n; ++k) {
            It c = it; ++c; --c;
            if (!(c == it)) { fail(name, "--(++it) != it", ctx + " position " + std::to_string(k) + " valid after=" + std::to_string(c.valid()) + " handle after=" + std::to_string((*c).idx())); break; }
            ++it;
        }
    }
    {
        It x = e; bool ok = true; std::string why;
        for (size_t k = 0; k < n && ok; ++k) {
            --x;
            if (!x.valid()) { ok = false; why = "invalid after " + std::to_string(k + 1) + " steps back from end (handle " + std::to_string((*x).idx()) + ")"; }
            else if (*x != live[n - 1 - k]) { ok = false; why = "wrong element"; }
        }
        if (ok && !(x == b)) { ok = false; why = "end - n != begin"; }
        if (!ok) fail(name, "backward from end", ctx + ": " + why);
    }
    if (n >= 2) {
        It it = b; ++it; It c = it; --c; if (!(c == b)) fail(name, "inside: --(begin+1) != begin", ctx);
        if (!c.valid() || *c != live[0]) fail(name, "inside: --(begin+1) wrong", ctx);
    }
}

// boundary iterators have only a begin (valid() protocol)
template <class It, class H>
static void check_boundary_iter(const std::string& name, std::vector<H> expect, It b) {
    ++g_checks;
    const size_t n = expect.size();
    std::string ctx = "expect " + hs(expect);
    std::vector<H> seq; size_t guard = 0;
    for (It it = b; it.valid() && guard++ < n + 5; ++it) seq.push_back(*it);
    if (seq != expect) { fail(name, "valid() loop != brute-force boundary entities", ctx + " got " + hs(seq)); return; }
    if (n == 0) { if (b.valid()) fail(name, "no boundary entity but valid", ctx); return; }
    if (!g_backward) return;
    It it = b;
    for (size_t k = 0; k < n; ++k) {
        It c = it; ++c; --c;
        if (!(c.valid() == it.valid() && *c == *it)) { fail(name, "--(++it) != it", ctx + " position " + std::to_string(k) + " of " + std::to_string(n) + " valid after=" + std::to_string(c.valid())); break; }
        ++it;
    }
    if (n >= 2) { It c = b; ++c; --c; if (!c.valid() || *c != expect[0]) fail(name, "inside: --(begin+1) wrong", ctx); }
}

// ---------- brute-force model ----------
struct Model {
    const TK& m;
    explicit Model(const TK& m_) : m(m_) {}
    std::vector<VertexHandle> lv; std::vector<EdgeHandle> le; std::vector<FaceHandle> lf; std::vector<CellHandle> lc;
    void scan() {
        for (int i = 0; i < (int)m.n_vertices(); ++i) if (!m.is_deleted(VertexHandle(i))) lv.push_back(VertexHandle(i));
        for (int i = 0; i < (int)m.n_edges(); ++i) if (!m.is_deleted(EdgeHandle(i))) le.push_back(EdgeHandle(i));
        for (int i = 0; i < (int)m.n_faces(); ++i) if (!m.is_deleted(FaceHandle(i))) lf.push_back(FaceHandle(i));
        for (int i = 0; i < (int)m.n_cells(); ++i) if (!m.is_deleted(CellHandle(i))) lc.push_back(CellHandle(i));
    }
    VertexHandle from(HalfEdgeHandle h) const { auto& e = m.edge(h.edge_handle()); return h.subidx() == 0 ? e.from_vertex() : e.to_vertex(); }
    VertexHandle to(HalfEdgeHandle h) const { return from(h.opposite_handle()); }
    std::vector<HalfEdgeHandle> hf_hes(HalfFaceHandle hf) const {
        std::vector<HalfEdgeHandle> r = m.face(hf.face_handle()).halfedges();
        if (hf.subidx() == 1) { std::reverse(r.begin(), r.end()); for (auto& h : r) h = h.opposite_handle(); }
        return r;
    }
    CellHandle cell_of(HalfFaceHandle hf) const {
        for (auto c : lc) for (auto h : m.cell(c).halffaces()) if (h == hf) return c;
        return CellHandle(-1);
    }
    bool face_has_vertex(FaceHandle f, VertexHandle v) const { for (auto h : m.face(f).halfedges()) if (from(h) == v || to(h) == v) return true; return false; }
    bool face_has_edge(FaceHandle f, EdgeHandle e) const { for (auto h : m.face(f).halfedges()) if (h.edge_handle() == e) return true; return false; }
    bool hf_has_he(HalfFaceHandle hf, HalfEdgeHandle he) const { for (auto h : hf_hes(hf)) if (h == he) return true; return false; }
};

template <class H> static std::vector<H> uniq(std::vector<H> v) { std::sort(v.begin(), v.end()); v.erase(std::unique(v.begin(), v.end()), v.end()); return v; }

static void check_mesh(const TK& m) {
    Model M(m); M.scan();
    // entity iterators
    check_entity_iter("VertexIter", M.lv, m.vertices_begin(), m.vertices_end(), m.v_iter(), m.vertices());
    check_entity_iter("EdgeIter", M.le, m.edges_begin(), m.edges_end(), m.e_iter(), m.edges());
    check_entity_iter("FaceIter", M.lf, m.faces_begin(), m.faces_end(), m.f_iter(), m.faces());
    check_entity_iter("CellIter", M.lc, m.cells_begin(), m.cells_end(), m.c_iter(), m.cells());
    std::vector<HalfEdgeHandle> lhe; for (auto e : M.le) { lhe.push_back(e.halfedge_handle(0)); lhe.push_back(e.halfedge_handle(1)); }
    std::vector<HalfFaceHandle> lhf; for (auto f : M.lf) { lhf.push_back(f.halfface_handle(0)); lhf.push_back(f.halfface_handle(1)); }
    check_entity_iter("HalfEdgeIter", lhe, m.halfedges_begin(), m.halfedges_end(), m.he_iter(), m.halfedges());
    check_entity_iter("HalfFaceIter", lhf, m.halffaces_begin(), m.halffaces_end(), m.hf_iter(), m.halffaces());

    // boundary iterators (brute force boundary definitions)
    auto hf_bnd = [&](HalfFaceHandle h) { return !M.cell_of(h).is_valid(); };
    auto f_bnd = [&](FaceHandle f) { return hf_bnd(f.halfface_handle(0)) || hf_bnd(f.halfface_handle(1)); };
    auto e_bnd = [&](EdgeHandle e) { for (auto f : M.lf) if (M.face_has_edge(f, e) && f_bnd(f)) return true; return false; };
    auto v_bnd = [&](VertexHandle v) { for (auto e : M.le) if ((m.edge(e).from_vertex() == v || m.edge(e).to_vertex() == v) && e_bnd(e)) return true; return false; };
    auto c_bnd = [&](CellHandle c) { for (auto h : m.cell(c).halffaces()) if (f_bnd(h.face_handle())) return true; return false; };
    { std::vector<VertexHandle> x; for (auto v : M.lv) if (v_bnd(v)) x.push_back(v); check_boundary_iter("BoundaryVertexIter", x, m.bv_iter()); }
    { std::vector<EdgeHandle> x; for (auto e : M.le) if (e_bnd(e)) x.push_back(e); check_boundary_iter("BoundaryEdgeIter", x, m.be_iter()); }
    { std::vector<HalfEdgeHandle> x; for (auto h : lhe) if (e_bnd(h.edge_handle())) x.push_back(h); check_boundary_iter("BoundaryHalfEdgeIter", x, m.bhe_iter()); }
    { std::vector<FaceHandle> x; for (auto f : M.lf) if (f_bnd(f)) x.push_back(f); check_boundary_iter("BoundaryFaceIter", x, m.bf_iter()); }
    { std::vector<HalfFaceHandle> x; for (auto h : lhf) if (hf_bnd(h)) x.push_back(h); check_boundary_iter("BoundaryHalfFaceIter", x, m.bhf_iter()); }
    { std::vector<CellHandle> x; for (auto c : M.lc) if (c_bnd(c)) x.push_back(c); check_boundary_iter("BoundaryCellIter", x, m.bc_iter()); }

#define CIRC(NAME, CENTRE, EXPECT, ISSET, RANGE, ITER) \
    check_circ(NAME, (CENTRE).idx(), EXPECT, ISSET, [&](int l) { return m.RANGE(CENTRE, l); }, [&](int l) { return m.ITER(CENTRE, l); })

    // vertex-centred
    for (auto v : M.lv) {
        std::vector<VertexHandle> vv; std::vector<HalfEdgeHandle> voh, vih; std::vector<EdgeHandle> ve;
        for (auto e : M.le) for (int s = 0; s < 2; ++s) {
            HalfEdgeHandle h = e.halfedge_handle(s);
            if (M.from(h) == v) { voh.push_back(h); vih.push_back(h.opposite_handle()); vv.push_back(M.to(h)); ve.push_back(e); }
        }
        bool simple = uniq(vv).size() == vv.size();  // no parallel edges / loops at v
        std::vector<HalfFaceHandle> vhf; std::vector<FaceHandle> vf; std::vector<CellHandle> vc;
        for (auto f : M.lf) if (M.face_has_vertex(f, v)) { vf.push_back(f); vhf.push_back(f.halfface_handle(0)); vhf.push_back(f.halfface_handle(1)); }
        for (auto c : M.lc) { bool in = false; for (auto h : m.cell(c).halffaces()) if (M.face_has_vertex(h.face_handle(), v)) in = true; if (in) vc.push_back(c); }
        CIRC("VertexVertexIter", v, vv, simple, vertex_vertices, vv_iter);
        CIRC("VertexOHalfEdgeIter", v, voh, true, outgoing_halfedges, voh_iter);
        CIRC("VertexIHalfEdgeIter", v, vih, true, incoming_halfedges, vih_iter);
        CIRC("VertexEdgeIter", v, ve, uniq(ve).size() == ve.size(), vertex_edges, ve_iter);
        CIRC("VertexHalfFaceIter", v, vhf, true, vertex_halffaces, vhf_iter);
        CIRC("VertexFaceIter", v, vf, true, vertex_faces, vf_iter);
        CIRC("VertexCellIter", v, vc, true, vertex_cells, vc_iter);
    }
    // halfedge / edge centred
    for (auto e : M.le) {
        for (int s = 0; s < 2; ++s) {
            HalfEdgeHandle he = e.halfedge_handle(s);
            std::vector<HalfFaceHandle> hehf; std::vector<FaceHandle> hef; std::vector<CellHandle> hec;
            for (auto hf : lhf) if (M.hf_has_he(hf, he)) { hehf.push_back(hf); CellHandle c = M.cell_of(hf); if (c.is_valid()) hec.push_back(c); }
            for (auto f : M.lf) if (M.face_has_edge(f, e)) hef.push_back(f);
            hec = uniq(hec);
            CIRC("HalfEdgeHalfFaceIter", he, hehf, true, halfedge_halffaces, hehf_iter);
            CIRC("HalfEdgeFaceIter", he, hef, true, halfedge_faces, hef_iter);
            CIRC("HalfEdgeCellIter", he, hec, true, halfedge_cells, hec_iter);
        }
        std::vector<HalfFaceHandle> ehf; std::vector<FaceHandle> ef; std::vector<CellHandle> ec;
        for (auto f : M.lf) if (M.face_has_edge(f, e)) {
            ef.push_back(f);
            for (int s = 0; s < 2; ++s) { ehf.push_back(f.halfface_handle(s)); CellHandle c = M.cell_of(f.halfface_handle(s)); if (c.is_valid()) ec.push_back(c); }
        }
        ec = uniq(ec);
        CIRC("EdgeHalfFaceIter", e, ehf, true, edge_halffaces, ehf_iter);
        CIRC("EdgeFaceIter", e, ef, true, edge_faces, ef_iter);
        CIRC("EdgeCellIter", e, ec, true, edge_cells, ec_iter);
    }
    // halfface / face centred
    for (auto f : M.lf) {
        for (int s = 0; s < 2; ++s) {
            HalfFaceHandle hf = f.halfface_handle(s);
            std::vector<HalfEdgeHandle> hfhe = M.hf_hes(hf);
            std::vector<EdgeHandle> hfe; std::vector<VertexHandle> hfv;
            for (auto h : hfhe) { hfe.push_back(h.edge_handle()); hfv.push_back(M.from(h)); }
            CIRC("HalfFaceHalfEdgeIter", hf, hfhe, true, halfface_halfedges, hfhe_iter);
            CIRC("HalfFaceEdgeIter", hf, hfe, uniq(hfe).size() == hfe.size(), halfface_edges, hfe_iter);
            CIRC("HalfFaceVertexIter", hf, hfv, uniq(hfv).size() == hfv.size(), halfface_vertices, hfv_iter);
            // ordered: must be in stored cyclic order starting at the first
            { std::vector<HalfEdgeHandle> got; for (auto it = m.hfhe_iter(hf); it.valid(); ++it) got.push_back(*it); if (got != hfhe) fail("HalfFaceHalfEdgeIter", "order != stored definition", hs(got) + " vs " + hs(hfhe)); }
            { std::vector<VertexHandle> got; for (auto it = m.hfv_iter(hf); it.valid(); ++it) got.push_back(*it); if (got != hfv) fail("HalfFaceVertexIter", "order != stored definition", hs(got) + " vs " + hs(hfv)); }
            if (hf_bnd(hf)) {
                std::vector<HalfFaceHandle> b;
                for (auto h : hfhe) for (auto g : lhf) if (M.hf_has_he(g, h.opposite_handle()) && hf_bnd(g)) b.push_back(g);
                CIRC("BoundaryHalfFaceHalfFaceIter", hf, b, false, boundary_halfface_halffaces, bhfhf_iter);
            }
        }
        std::vector<HalfEdgeHandle> fhe = m.face(f).halfedges();
        std::vector<EdgeHandle> fe; std::vector<VertexHandle> fv;
        for (auto h : fhe) { fe.push_back(h.edge_handle()); fv.push_back(M.from(h)); }
        CIRC("FaceVertexIter", f, fv, uniq(fv).size() == fv.size(), face_vertices, fv_iter);
        CIRC("FaceHalfEdgeIter", f, fhe, true, face_halfedges, fhe_iter);
        CIRC("FaceEdgeIter", f, fe, uniq(fe).size() == fe.size(), face_edges, fe_iter);
    }
    // cell centred
    for (auto c : M.lc) {
        std::vector<HalfFaceHandle> chf = m.cell(c).halffaces();
        std::vector<FaceHandle> cf; std::vector<HalfEdgeHandle> che; std::vector<EdgeHandle> ce; std::vector<VertexHandle> cv; std::vector<CellHandle> cc;
        for (auto hf : chf) {
            cf.push_back(hf.face_handle());
            for (auto h : M.hf_hes(hf)) { che.push_back(h); ce.push_back(h.edge_handle()); cv.push_back(M.from(h)); }
            CellHandle o = M.cell_of(hf.opposite_handle()); if (o.is_valid()) cc.push_back(o);
        }
        ce = uniq(ce); cv = uniq(cv); cc = uniq(cc);
        CIRC("CellVertexIter", c, cv, true, cell_vertices, cv_iter);
        CIRC("CellHalfEdgeIter", c, che, uniq(che).size() == che.size(), cell_halfedges, che_iter);
        CIRC("CellEdgeIter", c, ce, true, cell_edges, ce_iter);
        CIRC("CellHalfFaceIter", c, chf, true, cell_halffaces, chf_iter);
        CIRC("CellFaceIter", c, cf, uniq(cf).size() == cf.size(), cell_faces, cf_iter);
        CIRC("CellCellIter", c, cc, true, cell_cells, cc_iter);
    }
}

// ---------- random mesh generation ----------
struct Gen {
    std::mt19937 rng;
    TK m;
    std::string log;
    int r(int n) { return n <= 0 ? 0 : (int)(rng() % (unsigned)n); }
    std::vector<VertexHandle> live_v() { std::vector<VertexHandle> x; for (int i = 0; i < (int)m.n_vertices(); ++i) if (!m.is_deleted(VertexHandle(i))) x.push_back(VertexHandle(i)); return x; }
    std::vector<VertexHandle> pick(int k) {
        auto lv = live_v(); std::vector<VertexHandle> out;
        if ((int)lv.size() < k) return out;
        std::shuffle(lv.begin(), lv.end(), rng); lv.resize(k); return lv;
    }
    HalfFaceHandle free_halfface(const std::vector<VertexHandle>& vs) {
        // an existing live halfface over exactly this vertex cycle without incident cell, else new face
        HalfFaceHandle hf = m.find_halfface(vs);
        if (hf.is_valid() && !m.is_deleted(hf.face_handle()) && !m.incident_cell(hf).is_valid()) return hf;
        if (hf.is_valid()) return HalfFaceHandle(-1);
        FaceHandle f = m.add_face(vs);
        return f.is_valid() ? f.halfface_handle(0) : HalfFaceHandle(-1);
    }
    void add_tet() {
        auto v = pick(4); if (v.size() < 4) return;
        std::vector<std::vector<VertexHandle>> tri = {{v[0], v[1], v[2]}, {v[0], v[2], v[3]}, {v[0], v[3], v[1]}, {v[1], v[3], v[2]}};
        std::vector<HalfFaceHandle> hfs;
        for (auto& t : tri) { auto h = free_halfface(t); if (!h.is_valid()) return; hfs.push_back(h); }
        auto c = m.add_cell(hfs, true);
        log += "tet(" + std::to_string(v[0].idx()) + "," + std::to_string(v[1].idx()) + "," + std::to_string(v[2].idx()) + "," + std::to_string(v[3].idx()) + ")->" + std::to_string(c.idx()) + " ";
    }
    void step() {
        int op = r(100);
        if (g_ext && r(8) == 0) {
            int k = r(5);
            if (k == 0) { auto v = pick(2); if (v.size() == 2) { auto e = m.add_edge(v[0], v[1], true); log += "edup(" + std::to_string(v[0].idx()) + "," + std::to_string(v[1].idx()) + ")->" + std::to_string(e.idx()) + " "; } }
            auto two = [&](int n, int& a, int& b) { if (n < 2) return false; a = r(n); b = r(n); return a != b; };
            int a, b;
            if (k == 1 && two((int)m.n_vertices(), a, b) && !m.is_deleted(VertexHandle(a)) && !m.is_deleted(VertexHandle(b))) { m.swap_vertex_indices(VertexHandle(a), VertexHandle(b)); log += "swv(" + std::to_string(a) + "," + std::to_string(b) + ") "; }
            if (k == 2 && two((int)m.n_edges(), a, b) && !m.is_deleted(EdgeHandle(a)) && !m.is_deleted(EdgeHandle(b))) { m.swap_edge_indices(EdgeHandle(a), EdgeHandle(b)); log += "swe(" + std::to_string(a) + "," + std::to_string(b) + ") "; }
            if (k == 3 && two((int)m.n_faces(), a, b) && !m.is_deleted(FaceHandle(a)) && !m.is_deleted(FaceHandle(b))) { m.swap_face_indices(FaceHandle(a), FaceHandle(b)); log += "swf(" + std::to_string(a) + "," + std::to_string(b) + ") "; }
            if (k == 4 && two((int)m.n_cells(), a, b) && !m.is_deleted(CellHandle(a)) && !m.is_deleted(CellHandle(b))) { m.swap_cell_indices(CellHandle(a), CellHandle(b)); log += "swc(" + std::to_string(a) + "," + std::to_string(b) + ") "; }
            return;
        }
        if (op < 18) { m.add_vertex(); log += "v "; }
        else if (op < 30) { auto v = pick(2); if (v.size() == 2) { auto e = m.add_edge(v[0], v[1]); log += "e(" + std::to_string(v[0].idx()) + "," + std::to_string(v[1].idx()) + ")->" + std::to_string(e.idx()) + " "; } }
        else if (op < 45) { auto v = pick(3 + r(2)); if (!v.empty()) { auto f = m.add_face(v); log += "f" + hs(v) + "->" + std::to_string(f.idx()) + " "; } }
        else if (op < 80) add_tet();
        else {
            int kind = r(4);
            if (kind == 0 && m.n_vertices()) { VertexHandle h(r((int)m.n_vertices())); if (!m.is_deleted(h)) { m.delete_vertex(h); log += "dv" + std::to_string(h.idx()) + " "; } }
            if (kind == 1 && m.n_edges()) { EdgeHandle h(r((int)m.n_edges())); if (!m.is_deleted(h)) { m.delete_edge(h); log += "de" + std::to_string(h.idx()) + " "; } }
            if (kind == 2 && m.n_faces()) { FaceHandle h(r((int)m.n_faces())); if (!m.is_deleted(h)) { m.delete_face(h); log += "df" + std::to_string(h.idx()) + " "; } }
            if (kind == 3 && m.n_cells()) { CellHandle h(r((int)m.n_cells())); if (!m.is_deleted(h)) { m.delete_cell(h); log += "dc" + std::to_string(h.idx()) + " "; } }
        }
    }
};

int main(int argc, char** argv) {
    int n_meshes = argc > 1 ? atoi(argv[1]) : 2000;
    unsigned seed = argc > 2 ? (unsigned)atoi(argv[2]) : 1;
    g_backward = argc > 3 ? atoi(argv[3]) != 0 : true;
    g_ext = argc > 4 ? atoi(argv[4]) != 0 : false;
    for (int i = 0; i < n_meshes; ++i) {
        Gen g; g.rng.seed(seed * 1000003u + (unsigned)i);
        bool deferred = g.r(3) != 0;
        g.m.enable_deferred_deletion(deferred);
        if (!deferred && g.r(2)) g.m.enable_fast_deletion(true);
        g.log = deferred ? "[deferred] " : (g.m.fast_deletion_enabled() ? "[fast] " : "[immediate] ");
        int steps = g.r(40);
        for (int s = 0; s < steps; ++s) {
            g.step();
            if (g.r(6) == 0) { g_meshdesc = g.log; check_mesh(g.m); }
        }
        // force deleted entities at the front / end sometimes
        if (deferred && g.r(2) && g.m.n_vertices()) { VertexHandle h(g.r(2) ? 0 : (int)g.m.n_vertices() - 1); if (!g.m.is_deleted(h)) { g.m.delete_vertex(h); g.log += "dv" + std::to_string(h.idx()) + " "; } }
        g_meshdesc = g.log; check_mesh(g.m);
        if (deferred && g.r(2)) { g.m.collect_garbage(); g.log += "gc "; g_meshdesc = g.log; check_mesh(g.m); }
    }
    printf("checks: %ld\n", g_checks);
    int total = 0;
    for (auto& kv : g_fail) { printf("FAIL %-55s x%-7d first: %s\n", kv.first.c_str(), kv.second, g_first[kv.first].c_str()); total += kv.second; }
    printf("total failures: %d in %zu classes\n", total, g_fail.size());
    return total ? 1 : 0;
}
