// C05 (tet/hex circulators): tv_iter, hv_iter, csc_iter, hfshf_iter on a tet fan and a 3x2x2 hex grid
// (also after deferred deletion of a cell), forward enumeration vs brute force, laps 1..3, end == begin+n*laps.
// Build: g++ -std=c++17 -O1 -g -I/tmp/probe/P/src -I/tmp/probe/P/_build/src c05_tethex.cc \
//            /tmp/probe/P/_build/Build/lib/libOpenVolumeMesh.a -o c05_tethex
#include <OpenVolumeMesh/Mesh/HexahedralMesh.hh>
#include <OpenVolumeMesh/Mesh/TetrahedralMesh.hh>
#include <algorithm>
#include <cstdio>
#include <set>
using namespace OpenVolumeMesh;
using Vec = Geometry::Vec3d;
static int bad = 0;
#define CHECK(c, ...) do { if (!(c)) { ++bad; printf("FAIL: " __VA_ARGS__); printf("\n"); } } while (0)
template <class H, class Pair> static std::vector<H> collect(Pair pr, size_t expect_n, int laps, const char* what, int centre) {
    std::vector<H> seq; auto it = pr.first; size_t guard = 0;
    while (it.valid() && guard++ < 1000) { seq.push_back(*it); ++it; }
    CHECK(seq.size() == expect_n * laps, "%s(%d) laps %d: %zu elements, expected %zu", what, centre, laps, seq.size(), expect_n * laps);
    CHECK(it == pr.second, "%s(%d): begin advanced past last lap != end", what, centre);
    if (expect_n == 0) CHECK(!pr.first.valid() && pr.first == pr.second, "%s(%d): nothing incident but valid", what, centre);
    std::vector<H> lap0(seq.begin(), seq.begin() + std::min(seq.size(), expect_n));
    return lap0;
}
int main() {
    {
        GeometricTetrahedralMeshV3d m; std::vector<VertexHandle> v; for (int i = 0; i < 8; ++i) v.push_back(m.add_vertex(Vec(i, i % 3, i % 2)));
        m.add_cell(v[0], v[1], v[2], v[3]); m.add_cell(v[0], v[1], v[3], v[4]); m.add_cell(v[0], v[1], v[4], v[5]); m.add_cell(v[4], v[5], v[6], v[7]);
        m.delete_cell(CellHandle(1));
        for (auto c : m.cells()) for (int laps = 1; laps <= 3; ++laps) {
            auto got = collect<VertexHandle>(m.tet_vertices(c, laps), 4, laps, "tet_vertices", c.idx());
            std::set<VertexHandle> s(got.begin(), got.end()), e; for (auto x : m.cell_vertices(c)) e.insert(x);
            CHECK(s == e && s.size() == 4, "tv_iter(%d) set != cell_vertices", c.idx());
            CHECK(got == m.get_cell_vertices(c), "tv_iter(%d) order != get_cell_vertices", c.idx());
        }
    }
    {
        GeometricHexahedralMeshV3d m; const int NX = 3, NY = 2, NZ = 2; std::vector<VertexHandle> v;
        for (int x = 0; x <= NX; ++x) for (int y = 0; y <= NY; ++y) for (int z = 0; z <= NZ; ++z) v.push_back(m.add_vertex(Vec(x, y, z)));
        auto id = [&](int x, int y, int z) { return v[(x * (NY + 1) + y) * (NZ + 1) + z]; };
        for (int x = 0; x < NX; ++x) for (int y = 0; y < NY; ++y) for (int z = 0; z < NZ; ++z)
            m.add_cell({id(x, y, z), id(x + 1, y, z), id(x + 1, y + 1, z), id(x, y + 1, z), id(x, y, z + 1), id(x, y + 1, z + 1), id(x + 1, y + 1, z + 1), id(x + 1, y, z + 1)}, true);
        printf("hex cells %zu\n", m.n_cells());
        for (int pass = 0; pass < 2; ++pass) {
            if (pass == 1) m.delete_cell(CellHandle(5));
            for (auto c : m.cells()) for (int laps = 1; laps <= 3; ++laps) {
                auto got = collect<VertexHandle>(m.hex_vertices(c, laps), 8, laps, "hex_vertices", c.idx());
                std::set<VertexHandle> s(got.begin(), got.end()), e; for (auto x : m.cell_vertices(c)) e.insert(x);
                CHECK(s == e && s.size() == 8, "hv_iter(%d) set != cell_vertices (pass %d)", c.idx(), pass);
                for (unsigned char dir = 0; dir < 6; ++dir) {
                    std::set<CellHandle> exp;
                    for (auto hf : m.cell(c).halffaces()) { auto o = m.orientation(hf, c); if (o != dir && o != m.opposite_orientation(dir)) { auto n = m.incident_cell(m.opposite_halfface_handle(hf)); if (n.is_valid() && !m.is_deleted(n)) exp.insert(n); } }
                    auto g = collect<CellHandle>(m.cell_sheet_cells(c, dir, laps), exp.size(), laps, "cell_sheet_cells", c.idx());
                    CHECK(std::set<CellHandle>(g.begin(), g.end()) == exp, "csc_iter(%d,%d) != brute force (pass %d)", c.idx(), dir, pass);
                }
                for (auto hf : m.cell(c).halffaces()) {
                    // brute force: halffaces hf2 of sheet-neighbour cells that share an edge with hf and have the same orientation label
                    auto o = m.orientation(hf, c); std::set<HalfFaceHandle> exp; std::set<EdgeHandle> es; for (auto e : m.halfface_edges(hf)) es.insert(e);
                    for (auto hs : m.cell(c).halffaces()) { auto os = m.orientation(hs, c); if (os == o || os == m.opposite_orientation(o)) continue; auto n = m.incident_cell(m.opposite_halfface_handle(hs)); if (!n.is_valid() || m.is_deleted(n)) continue;
                        for (auto h2 : m.cell(n).halffaces()) { if (h2 == m.opposite_halfface_handle(hs)) continue; bool share = false; for (auto e : m.halfface_edges(h2)) if (es.count(e)) share = true; if (!share) continue;
                            // coplanar continuation = the one adjacent to opp(hs) across the shared edge, not the one opposite
                            bool touches = false; for (auto e : m.halfface_edges(h2)) for (auto e2 : m.halfface_edges(hs)) if (e == e2 && es.count(e)) touches = true; if (touches) exp.insert(h2); } }
                    auto g = collect<HalfFaceHandle>(m.halfface_sheet_halffaces(hf, laps), exp.size(), laps, "halfface_sheet_halffaces", hf.idx());
                    std::set<HalfFaceHandle> gs(g.begin(), g.end());
                    CHECK(gs.size() == g.size(), "hfshf_iter(%d) duplicates", hf.idx());
                    CHECK(gs == exp, "hfshf_iter(%d) != brute force (pass %d): got %zu expected %zu", hf.idx(), pass, gs.size(), exp.size());
                }
            }
        }
    }
    printf(bad ? "FAIL (%d)\n" : "ok\n", bad); return bad ? 1 : 0;
}
