// ANALYSIS (find5, C05 - low severity / interpretation-dependent)
// Clause: "Every circulator ... visits exactly its incident set ... without duplicates where the relation is a set".
// With duplicate edges (add_edge(a,b,true); "duplicate edges" are part of the quantified mesh states) vv_iter(a) lists b once per
// parallel edge; with a loop edge add_edge(b,b,true) ve_iter(b) lists the loop edge twice and valence(b) counts it twice.
// Cause : VertexVertexIter (Core/Iterators/VertexVertexIter.cc:9-35) maps outgoing_hes_per_vertex_ 1:1 to to_vertex() without de-duplication
//         (VertexCell/VertexFace/CellVertex... all sort+unique); VertexEdgeIterImpl maps voh 1:1 to edges, a loop edge has both halfedges outgoing.
// Fix   : collect + sort/unique the neighbours in the VertexVertexIter constructor like the other derived circulators; for ve_iter skip a
//         halfedge whose opposite was already seen (or reject from==to in add_edge).
// Build: g++ -std=c++17 -I/tmp/probe/P/src -I/tmp/probe/P/_build/src find5.cc /tmp/probe/P/_build/Build/lib/libOpenVolumeMesh.a -o find5
#include <OpenVolumeMesh/Core/TopologyKernel.hh>
#include <cstdio>
#include <set>
using namespace OpenVolumeMesh;
int main() {
    TopologyKernel m; auto a = m.add_vertex(), b = m.add_vertex();
    m.add_edge(a, b); m.add_edge(a, b, true);
    int bad = 0; std::multiset<int> s;
    printf("vv_iter(a):"); for (auto it = m.vv_iter(a); it.valid(); ++it) { printf(" %d", it->idx()); s.insert(it->idx()); } printf("   (adjacent vertex set is {1})\n");
    if (s.count(1) != 1) ++bad;
    auto l = m.add_edge(b, b, true); s.clear();
    printf("ve_iter(b) with loop edge %d:", l.idx()); for (auto it = m.ve_iter(b); it.valid(); ++it) { printf(" %d", it->idx()); s.insert(it->idx()); } printf("   valence(b)=%zu\n", m.valence(b));
    if (s.count(l.idx()) != 1) ++bad;
    if (bad) { printf("FAIL: duplicates in %d set-valued circulators\n", bad); return 1; }
    printf("ok\n"); return 0;
}
