// C20 harness: N reader threads run const queries on one shared mesh; TSan must stay silent and every
// thread's checksum must equal the single-threaded run with the same seed.
// Build: clang++ -std=c++17 -O1 -g -fsanitize=thread -I/tmp/probe/P/src -I/tmp/probe/P/_build_tsan/src c20_harness.cc \
//            /tmp/probe/P/_build_tsan/Build/lib/libOpenVolumeMesh.a -lpthread -o c20_harness
// Run: ./c20_harness [threads=4] [iters=3000] [copy_mesh=0]
//   copy_mesh=1 additionally lets every thread copy-construct the (const) mesh: outside the C20 statement,
//   shows the transient registration of cloned properties in the SOURCE mesh's tracker.
#include <OpenVolumeMesh/Mesh/HexahedralMesh.hh>
#include <OpenVolumeMesh/Mesh/PolyhedralMesh.hh>
#include <OpenVolumeMesh/Mesh/TetrahedralMesh.hh>
#include <cstdio>
#include <cstdlib>
#include <random>
#include <thread>
#include <vector>
using namespace OpenVolumeMesh;
using Vec = Geometry::Vec3d;
static bool g_copy = false;

template <class It> static unsigned long walk(It it) { unsigned long s = 0; int k = 0; for (; it.valid(); ++it) s = s * 31 + (unsigned long)(it->idx() + 1) + (unsigned long)(++k); return s; }

template <class Mesh>
static unsigned long reader(const Mesh& m, const VertexPropertyT<int>& vp, const CellPropertyT<std::string>& cp, const HalfFacePropertyT<bool>& hp, unsigned seed, int iters) {
    std::mt19937 rng(seed); unsigned long s = 0;
    auto R = [&](size_t n) { return n ? (int)(rng() % n) : 0; };
    for (int i = 0; i < iters; ++i) {
        VertexHandle v(R(m.n_vertices())); EdgeHandle e(R(m.n_edges())); HalfEdgeHandle he(R(m.n_halfedges()));
        FaceHandle f(R(m.n_faces())); HalfFaceHandle hf(R(m.n_halffaces())); CellHandle c(R(m.n_cells()));
        int laps = 1 + R(3);
        switch (R(40)) {
        case 0: s += walk(m.vv_iter(v, laps)); break;       case 1: s += walk(m.voh_iter(v, laps)); break;
        case 2: s += walk(m.vih_iter(v, laps)); break;      case 3: s += walk(m.ve_iter(v, laps)); break;
        case 4: s += walk(m.vhf_iter(v, laps)); break;      case 5: s += walk(m.vf_iter(v, laps)); break;
        case 6: s += walk(m.vc_iter(v, laps)); break;       case 7: s += walk(m.hehf_iter(he, laps)); break;
        case 8: s += walk(m.hef_iter(he, laps)); break;     case 9: s += walk(m.hec_iter(he, laps)); break;
        case 10: s += walk(m.ehf_iter(e, laps)); break;     case 11: s += walk(m.ef_iter(e, laps)); break;
        case 12: s += walk(m.ec_iter(e, laps)); break;      case 13: s += walk(m.hfhe_iter(hf, laps)); break;
        case 14: s += walk(m.hfe_iter(hf, laps)); break;    case 15: s += walk(m.hfv_iter(hf, laps)); break;
        case 16: s += walk(m.fv_iter(f, laps)); break;      case 17: s += walk(m.fhe_iter(f, laps)); break;
        case 18: s += walk(m.fe_iter(f, laps)); break;      case 19: s += walk(m.cv_iter(c, laps)); break;
        case 20: s += walk(m.che_iter(c, laps)); break;     case 21: s += walk(m.ce_iter(c, laps)); break;
        case 22: s += walk(m.chf_iter(c, laps)); break;     case 23: s += walk(m.cf_iter(c, laps)); break;
        case 24: s += walk(m.cc_iter(c, laps)); break;      case 25: if (m.is_boundary(hf)) s += walk(m.bhfhf_iter(hf, laps)); break;
        case 26: s += walk(m.v_iter()) + walk(m.e_iter()) + walk(m.he_iter()); break;
        case 27: s += walk(m.f_iter()) + walk(m.hf_iter()) + walk(m.c_iter()); break;
        case 28: s += walk(m.bv_iter()) + walk(m.be_iter()) + walk(m.bhe_iter()); break;
        case 29: s += walk(m.bf_iter()) + walk(m.bhf_iter()) + walk(m.bc_iter()); break;
        case 30: s += (unsigned long)m.find_halfedge(v, VertexHandle(R(m.n_vertices()))).idx() + 7; break;
        case 31: { std::vector<VertexHandle> vs; for (auto it = m.hfv_iter(hf); it.valid(); ++it) vs.push_back(*it); s += (unsigned long)m.find_halfface(vs).idx() + 3; break; }
        case 32: s += m.is_boundary(v) + 2 * m.is_boundary(e) + 4 * m.is_boundary(he) + 8 * m.is_boundary(f) + 16 * m.is_boundary(hf) + 32 * m.is_boundary(c); break;
        case 33: s += m.valence(v) + 3 * m.valence(e) + 5 * m.valence(f) + 7 * m.valence(c); break;
        case 34: s += (unsigned long)vp[v] + (unsigned long)cp[c].size() + (unsigned long)hp[hf]; break;
        case 35: { VertexPropertyT<int> c1 = vp; CellPropertyT<std::string> c2 = cp; HalfFacePropertyT<bool> c3 = hp; std::vector<int> vals(c1.begin(), c1.end()); s += vals.size() + c2.size() + c3.size() + (unsigned long)c1[v]; break; }
        case 36: s += (unsigned long)(m.vertex(v)[0] * 10) + (unsigned long)m.edge(e).from_vertex().idx() + m.face(f).halfedges().size() + m.cell(c).halffaces().size(); break;
        case 37: s += (unsigned long)m.incident_cell(hf).idx() + 2 + (unsigned long)m.adjacent_halfface_in_cell(m.cell(c).halffaces()[0], m.halfface(m.cell(c).halffaces()[0]).halfedges()[0]).idx(); break;
        case 38: s += (unsigned long)m.barycenter(c)[1] + (unsigned long)m.length(e) + (unsigned long)m.next_halfedge_in_halfface(m.halfface(hf).halfedges()[0], hf).idx() + m.get_halfface_vertices(hf).size(); break;
        case 39: if (g_copy) { Mesh cpy(m); s += cpy.n_vertices(); } else { s += m.n_logical_vertices() + m.genus() + (unsigned long)m.template vertex_property_exists<int>("vp"); } break;
        }
    }
    return s;
}

template <class Mesh> static int run(const char* name, Mesh& mesh, int nthreads, int iters) {
    auto vp = mesh.template request_vertex_property<int>("vp", 1);
    auto cp = mesh.template request_cell_property<std::string>("cp", "abc");
    auto hp = mesh.template request_halfface_property<bool>("hp", true);
    mesh.set_persistent(vp);
    int k = 0; for (auto v : mesh.vertices()) vp[v] = ++k;
    const Mesh& cm = mesh;
    std::vector<unsigned long> ref(nthreads), got(nthreads);
    for (int t = 0; t < nthreads; ++t) ref[t] = reader(cm, vp, cp, hp, 100 + t, iters);
    std::vector<std::thread> th;
    for (int t = 0; t < nthreads; ++t) th.emplace_back([&, t] { got[t] = reader(cm, vp, cp, hp, 100 + t, iters); });
    for (auto& x : th) x.join();
    int bad = 0;
    for (int t = 0; t < nthreads; ++t) if (ref[t] != got[t]) { printf("%s: thread %d checksum %lu != single-threaded %lu\n", name, t, got[t], ref[t]); ++bad; }
    printf("%s: %d threads x %d queries, %d checksum mismatches\n", name, nthreads, iters, bad);
    return bad;
}

int main(int argc, char** argv) {
    int nthreads = argc > 1 ? atoi(argv[1]) : 4, iters = argc > 2 ? atoi(argv[2]) : 3000; g_copy = argc > 3 && atoi(argv[3]);
    int bad = 0;
    {   // tetrahedral: fan of tets around an edge + a dangling one
        GeometricTetrahedralMeshV3d m; std::vector<VertexHandle> v;
        for (int i = 0; i < 9; ++i) v.push_back(m.add_vertex(Vec(i, i * i % 5, i % 3)));
        m.add_cell(v[0], v[1], v[2], v[3]); m.add_cell(v[0], v[1], v[3], v[4]); m.add_cell(v[0], v[1], v[4], v[5]); m.add_cell(v[5], v[6], v[7], v[8]);
        m.add_edge(v[2], v[8]);
        bad += run("tet", m, nthreads, iters);
        // also the tet-specific circulator
        const auto& cm = m; std::vector<std::thread> th; std::vector<unsigned long> r(nthreads);
        for (int t = 0; t < nthreads; ++t) th.emplace_back([&, t] { for (int i = 0; i < iters; ++i) r[t] += walk(cm.tv_iter(CellHandle(i % 4), 1 + i % 3)); });
        for (auto& x : th) x.join(); for (int t = 1; t < nthreads; ++t) if (r[t] != r[0]) { printf("tv_iter mismatch\n"); ++bad; }
    }
    {   // polyhedral: two tets sharing a face, a prism-like dangling quad, with deferred-deleted entities
        GeometricPolyhedralMeshV3d m; std::vector<VertexHandle> v;
        for (int i = 0; i < 10; ++i) v.push_back(m.add_vertex(Vec(i % 4, i, i % 2)));
        auto tet = [&](int a, int b, int c, int d) {
            std::vector<HalfFaceHandle> hfs; int t[4][3] = {{a, b, c}, {a, c, d}, {a, d, b}, {b, d, c}};
            for (auto& x : t) { std::vector<VertexHandle> vs{v[x[0]], v[x[1]], v[x[2]]}; auto hf = m.find_halfface(vs); if (!hf.is_valid()) hf = m.add_face(vs).halfface_handle(0); hfs.push_back(hf); }
            return m.add_cell(hfs, true); };
        tet(0, 1, 2, 3); tet(0, 2, 1, 4); auto c3 = tet(5, 6, 7, 8); tet(1, 2, 3, 9);
        m.add_face(std::vector<VertexHandle>{v[4], v[5], v[6], v[9]});
        m.delete_cell(c3);
        bad += run("poly", m, nthreads, iters);
    }
    {   // hexahedral: 2x1x1 grid
        GeometricHexahedralMeshV3d m; std::vector<VertexHandle> v;
        for (int x = 0; x < 3; ++x) for (int y = 0; y < 2; ++y) for (int z = 0; z < 2; ++z) v.push_back(m.add_vertex(Vec(x, y, z)));
        auto id = [&](int x, int y, int z) { return v[x * 4 + y * 2 + z]; };
        for (int x = 0; x < 2; ++x) m.add_cell({id(x, 0, 0), id(x + 1, 0, 0), id(x + 1, 1, 0), id(x, 1, 0), id(x, 0, 1), id(x, 1, 1), id(x + 1, 1, 1), id(x + 1, 0, 1)}, false);
        printf("hex cells: %zu\n", m.n_cells());
        bad += run("hex", m, nthreads, iters);
        const auto& cm = m; std::vector<std::thread> th; std::vector<unsigned long> r(nthreads);
        for (int t = 0; t < nthreads; ++t) th.emplace_back([&, t] { for (int i = 0; i < iters; ++i) { CellHandle c(i % 2); r[t] += walk(cm.hv_iter(c, 1 + i % 3)) + walk(cm.csc_iter(c, (unsigned char)(i % 6))); HalfFaceHandle hf = cm.cell(c).halffaces()[i % 6]; r[t] += walk(cm.hfshf_iter(hf)); r[t] += (unsigned long)cm.opposite_halfface_handle_in_cell(hf, c).idx(); } });
        for (auto& x : th) x.join(); for (int t = 1; t < nthreads; ++t) if (r[t] != r[0]) { printf("hex circulator mismatch\n"); ++bad; }
    }
    printf(bad ? "FAIL\n" : "ok\n");
    return bad ? 1 : 0;
}
