// ANALYSIS (find1, C05)
// Clause: "begin/end pairs, the valid() protocol, range-for and backward stepping all agree" and
//         "stepping backward undoes stepping forward, the end circulator equals the begin circulator advanced past the last lap".
// Cause : every operator--() only ever calls BaseIter::valid(false) (when it underflows) and never valid(true):
//         once operator++() has cleared valid_ at the end, stepping back restores handle and lap but leaves valid_ == false.
//         Entity iterators: Core/Iterators/VertexIter.cc:19-29 (same code in EdgeIter/HalfEdgeIter/FaceIter/HalfFaceIter/CellIter.cc);
//         circulators: operator--() of all 26 classes (e.g. VertexVertexIter.cc:45-62, HalfFaceVertexIter.cc:24-39,
//         detail/*IterImpl.cc, TetrahedralMeshIterators.cc, HexahedralMeshIterators.cc); VertexIHalfEdge/VertexEdgeIterImpl copy
//         valid() from an inner voh_iter_ that make_end_circulator() (TopologyKernel.hh:129) does not move to the end, so there even lap is wrong (-1).
//         BoundaryItemIter.hh:91/94 compares "it_ >= it_begin_" through operator bool (no operator>= exists), so it too relies on valid_.
//         Because operator== includes valid_, --end() != last, std::prev(end), std::reverse_iterator and "for(it=--end; it.valid(); --it)" are all broken.
// Fix   : in each operator--(), set validity from the position instead of only clearing it, e.g. entity iterators:
//             BaseIter::valid(cur_index_ >= 0);          circulators:  BaseIter::valid(lap_ >= 0 && lap_ < max_laps_);
//         (after the --lap_ / index update), and let make_end_circulator()-built VertexIHalfEdge/VertexEdge circulators set the inner voh_iter_ lap too.
// find1: stepping backward never re-validates an iterator/circulator that has been stepped
// past the end (C05: "backward stepping ... agree", "stepping backward undoes stepping forward").
// Build: g++ -std=c++17 -I/tmp/probe/P/src -I/tmp/probe/P/_build/src find1.cc \
//            /tmp/probe/P/_build/Build/lib/libOpenVolumeMesh.a -o find1
#include <OpenVolumeMesh/Core/TopologyKernel.hh>
#include <cstdio>
using namespace OpenVolumeMesh;
int main() {
    TopologyKernel m;
    VertexHandle a = m.add_vertex(), b = m.add_vertex(), c = m.add_vertex();
    FaceHandle f = m.add_face(std::vector<VertexHandle>{a, b, c});
    int bad = 0;

    // 1. entity iterator: --end() must be the last live vertex and valid
    VertexIter e = m.vertices_end();
    --e;
    printf("--vertices_end(): handle %d valid %d (expected handle 2 valid 1)\n", e->idx(), (int)e.valid());
    if (!e.valid()) ++bad;

    // 2. entity iterator: --(++it) == it at the last element
    VertexIter last = m.vertices_begin() + 2;   // at vertex 2
    VertexIter x = last; ++x; --x;
    printf("VertexIter at last element: --(++it) == it ? %d (handle %d valid %d)\n", (int)(x == last), x->idx(), (int)x.valid());
    if (!(x == last)) ++bad;

    // 3. circulator: same at the last element of the last lap
    for (int laps = 1; laps <= 2; ++laps) {
        FaceVertexIter l = m.fv_iter(f, laps) + (3 * laps - 1);
        FaceVertexIter y = l; ++y; --y;
        printf("FaceVertexIter laps=%d at last element: --(++it) == it ? %d (handle %d lap %d valid %d; expected handle %d lap %d valid 1)\n",
               laps, (int)(y == l), y->idx(), y.lap(), (int)y.valid(), l->idx(), l.lap());
        if (!(y == l)) ++bad;
        // 4. stepping back from the end circulator of the range accessor
        auto r = m.face_vertices(f, laps);
        FaceVertexIter z = r.second; --z;
        printf("  --face_vertices().second: handle %d lap %d valid %d (expected handle %d lap %d valid 1)\n", z->idx(), z.lap(), (int)z.valid(), l->idx(), l.lap());
        if (!(z == l)) ++bad;
    }
    // 5. a reverse traversal with the valid() protocol visits nothing
    int n = 0;
    for (VertexIter it = --m.vertices_end(); it.valid(); --it) ++n;
    printf("reverse traversal from --vertices_end() visited %d vertices (expected 3)\n", n);
    if (n != 3) ++bad;

    if (bad) { printf("FAIL: %d backward-stepping violations\n", bad); return 1; }
    printf("ok\n");
    return 0;
}
