// ANALYSIS (find2, C13)
// Clause: "A copy-constructed or assigned mesh ... has the same entities, ... vertex positions ... and equal-valued copies of its
//         persistent properties" quantified over "any mix of shared, private and persistent properties".
// History: Mesh a; a.add_vertex(p); auto pos = a.request_vertex_property<Vec3d>("ovm:position"); a.set_persistent(pos); Mesh b(a);  (or b = a)
// Cause : GeometryKernel::make_prop() (Core/GeometryKernel.hh:216-220) calls create_shared_property("ovm:position") and dereferences the
//         optional unconditionally. The base-class copy (ResourceManager::clone_persistent_properties_from, ResourceManager.cc:71-83) has
//         already cloned the persistent "ovm:position", so create_shared_property refuses the duplicate -> assert(prop.has_value()) fails
//         (debug) / empty optional dereferenced -> null storage -> SIGSEGV in std::copy (NDEBUG). Used from the copy ctor (line 67) and
//         operator= (line 97). The position property is an ordinary shared property reachable by name, so making it persistent is legal API use.
// Fix   : make_prop(): use request_property<VecT, Entity::Vertex>("ovm:position", VecT(0)) (get-or-create), i.e. adopt an already cloned
//         position property instead of insisting on creating it; the following std::copy then just overwrites equal values.
// find2: copying / assigning a mesh whose vertex-position property has been made persistent
// dereferences an empty std::optional in GeometryKernel::make_prop()  (C13).
// Build: g++ -std=c++17 -I/tmp/probe/P/src -I/tmp/probe/P/_build/src find2.cc \
//            /tmp/probe/P/_build/Build/lib/libOpenVolumeMesh.a -o find2
// (with -D_GLIBCXX_ASSERTIONS the empty-optional access aborts; the sanitizer build reports it too)
#include <OpenVolumeMesh/Mesh/PolyhedralMesh.hh>
#include <csignal>
#include <cstdio>
#include <cstdlib>
#include <unistd.h>
using namespace OpenVolumeMesh;
using Mesh = GeometryKernel<Geometry::Vec3d, TopologyKernel>;
static const char* g_stage = "";
static void on_fault(int sig) {
    char buf[200];
    int n = snprintf(buf, sizeof buf, "FAIL: signal %d while %s (GeometryKernel::make_prop dereferenced an empty optional)\n", sig, g_stage);
    (void)!write(1, buf, (size_t)n);
    _exit(1);
}
int main() {
    signal(SIGSEGV, on_fault); signal(SIGABRT, on_fault); signal(SIGBUS, on_fault);
    Mesh a;
    a.add_vertex({1, 2, 3});
    a.add_vertex({4, 5, 6});
    // The position property is an ordinary shared vertex property named "ovm:position":
    auto pos = a.request_vertex_property<Geometry::Vec3d>("ovm:position");
    printf("request(\"ovm:position\") is the position storage: %d\n", (int)(&pos[VertexHandle(0)] == &a.vertex(VertexHandle(0))));
    a.set_persistent(pos);               // legal: shared + named -> persistent
    printf("n_persistent vertex props of a: %zu\n", a.n_persistent_props<Entity::Vertex>());

    g_stage = "copy-constructing the mesh";
    Mesh b(a);                           // clones the persistent "ovm:position", then create_shared_property("ovm:position") fails
    bool ok = b.n_vertices() == 2 && b.vertex(VertexHandle(1)) == Geometry::Vec3d(4, 5, 6);
    // independence
    b.set_vertex(VertexHandle(1), {7, 7, 7});
    ok = ok && a.vertex(VertexHandle(1)) == Geometry::Vec3d(4, 5, 6);
    auto bp = b.get_vertex_property<Geometry::Vec3d>("ovm:position");
    ok = ok && bp && (*bp)[VertexHandle(1)] == b.vertex(VertexHandle(1));
    g_stage = "assigning the mesh";
    Mesh c; c = a;
    ok = ok && c.n_vertices() == 2 && c.vertex(VertexHandle(1)) == Geometry::Vec3d(4, 5, 6);
    if (!ok) { printf("FAIL: copy is not an equal, independent mesh\n"); return 1; }
    printf("ok\n");
    return 0;
}
