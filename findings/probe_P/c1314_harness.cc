// C13/C14 harness: random histories over the property registry and mesh copy/assignment/destruction,
// checked against a small reference model after every step. Run under ASan.
//
// Build:
//   clang++ -std=c++17 -O1 -g -fsanitize=address,undefined -fno-sanitize=vptr -D_GLIBCXX_ASSERTIONS -UNDEBUG \
//       -I/tmp/probe/P/src -I/tmp/probe/P/_build_asan/src c1314_harness.cc \
//       /tmp/probe/P/_build_asan/Build/lib/libOpenVolumeMesh.a -o c1314_harness
//   (-fno-sanitize=vptr and UBSAN_OPTIONS=suppressions not needed: the known Tracked<T> downcast report (F21)
//    is silenced with -fno-sanitize=vptr on the harness only; the library still prints it once per site unless
//    run with UBSAN_OPTIONS=silence_unsigned_overflow=1 ... simply filter "downcast" lines.)
// Run: ./c1314_harness [n_histories=300] [seed=1] [steps=120]
#include <OpenVolumeMesh/Mesh/HexahedralMesh.hh>
#include <OpenVolumeMesh/Mesh/PolyhedralMesh.hh>
#include <OpenVolumeMesh/Mesh/TetrahedralMesh.hh>
#include <cstdio>
#include <cstdlib>
#include <functional>
#include <map>
#include <memory>
#include <random>
#include <sstream>
#include <string>
#include <vector>

using namespace OpenVolumeMesh;
using Poly = GeometricPolyhedralMeshV3d;
using Tet = GeometricTetrahedralMeshV3d;
using Hex = GeometricHexahedralMeshV3d;
using Vec = Geometry::Vec3d;

static std::map<std::string, int> g_fail;
static std::map<std::string, std::string> g_first;
static std::string g_log;
static void fail(const std::string& kind, const std::string& detail) {
    if (g_fail[kind]++ == 0) g_first[kind] = detail + "   [history: " + g_log + "]";
}

// ---------------- type-erased property handle ----------------
struct Box {
    std::function<size_t()> size;
    std::function<bool()> shared, persistent, attached;
    std::function<std::string()> name;
    std::function<std::string(size_t)> get;
    std::function<void(size_t, int)> set;
    std::function<const void*()> ident;
    std::function<std::shared_ptr<Box>()> copy;
    std::function<void(ResourceManager&, bool)> set_shared, set_persistent;  // may throw
};
template <class T> T mkval(int s);
template <> int mkval<int>(int s) { return s; }
template <> bool mkval<bool>(int s) { return s & 1; }
template <> std::string mkval<std::string>(int s) { return "s" + std::to_string(s); }
template <class T> std::string str(const T& v) { std::ostringstream o; o << v; return o.str(); }

template <class T, class E> std::shared_ptr<Box> box(PropertyPtr<T, E> p) {
    auto h = std::make_shared<PropertyPtr<T, E>>(std::move(p));
    auto b = std::make_shared<Box>();
    b->size = [h] { return h->size(); };
    b->shared = [h] { return h->shared(); };
    b->persistent = [h] { return h->persistent(); };
    b->attached = [h] { return (bool)*h; };
    b->name = [h] { return h->name(); };
    b->get = [h](size_t i) { return str<T>(static_cast<const PropertyStoragePtr<T>&>(*h).at(i)); };
    b->set = [h](size_t i, int s) { static_cast<PropertyStoragePtr<T>&>(*h).at(i) = mkval<T>(s); };
    b->ident = [h] { return (const void*)&h->data_vector(); };
    b->copy = [h] { return box<T, E>(*h); };
    b->set_shared = [h](ResourceManager& m, bool e) { m.set_shared(*h, e); };
    b->set_persistent = [h](ResourceManager& m, bool e) { m.set_persistent(*h, e); };
    return b;
}

// ---------------- per (type,kind) operation table ----------------
enum Kind { KV, KHE, KC, KM, NKIND };
struct Combo {
    std::string label; Kind kind; std::string def;
    std::function<std::shared_ptr<Box>(ResourceManager&, const std::string&)> request, create_shared, create_persistent, create_private, get;
    std::function<bool(const ResourceManager&, const std::string&)> exists;
};
template <class T, class E> Combo mkcombo(const std::string& label, Kind k, int defseed) {
    Combo c; c.label = label; c.kind = k; c.def = str<T>(mkval<T>(defseed));
    T def = mkval<T>(defseed);
    c.request = [def](ResourceManager& m, const std::string& n) { return box<T, E>(m.request_property<T, E>(n, def)); };
    c.create_shared = [def](ResourceManager& m, const std::string& n) { auto o = m.create_shared_property<T, E>(n, def); return o ? box<T, E>(*o) : nullptr; };
    c.create_persistent = [def](ResourceManager& m, const std::string& n) { auto o = m.create_persistent_property<T, E>(n, def); return o ? box<T, E>(*o) : nullptr; };
    c.create_private = [def](ResourceManager& m, const std::string& n) { return box<T, E>(m.create_private_property<T, E>(n, def)); };
    c.get = [](ResourceManager& m, const std::string& n) { auto o = m.get_property<T, E>(n); return o ? box<T, E>(*o) : nullptr; };
    c.exists = [](const ResourceManager& m, const std::string& n) { return m.property_exists<T, E>(n); };
    return c;
}
static std::vector<Combo> g_combos;

// ---------------- meshes ----------------
struct MeshBox {
    int type;  // 0 poly 1 tet 2 hex
    std::unique_ptr<Poly> p; std::unique_ptr<Tet> t; std::unique_ptr<Hex> h;
    TopologyKernel& tk() { return type == 0 ? static_cast<TopologyKernel&>(*p) : type == 1 ? static_cast<TopologyKernel&>(*t) : static_cast<TopologyKernel&>(*h); }
    ResourceManager& rm() { return tk(); }
    Vec pos(VertexHandle v) { return type == 0 ? p->vertex(v) : type == 1 ? t->vertex(v) : h->vertex(v); }
    void set_pos(VertexHandle v, Vec x) { if (type == 0) p->set_vertex(v, x); else if (type == 1) t->set_vertex(v, x); else h->set_vertex(v, x); }
    bool has_cells_or_faces() { return tk().n_faces() > 0; }
};
static size_t count(TopologyKernel& m, Kind k) { return k == KV ? m.n_vertices() : k == KHE ? m.n_halfedges() : k == KC ? m.n_cells() : 1; }
static size_t nprops(ResourceManager& m, Kind k) { return k == KV ? m.n_props<Entity::Vertex>() : k == KHE ? m.n_props<Entity::HalfEdge>() : k == KC ? m.n_props<Entity::Cell>() : m.n_props<Entity::Mesh>(); }
static size_t npers(ResourceManager& m, Kind k) { return k == KV ? m.n_persistent_props<Entity::Vertex>() : k == KHE ? m.n_persistent_props<Entity::HalfEdge>() : k == KC ? m.n_persistent_props<Entity::Cell>() : m.n_persistent_props<Entity::Mesh>(); }

static std::string digest(MeshBox& mb) {
    TopologyKernel& m = mb.tk();
    std::ostringstream o;
    o << "V" << m.n_vertices() << " E" << m.n_edges() << " F" << m.n_faces() << " C" << m.n_cells() << " bu" << m.has_vertex_bottom_up_incidences() << m.has_edge_bottom_up_incidences() << m.has_face_bottom_up_incidences()
      << " dd" << m.deferred_deletion_enabled() << " fd" << m.fast_deletion_enabled() << "|";
    for (int i = 0; i < (int)m.n_vertices(); ++i) o << mb.pos(VertexHandle(i)) << (m.is_deleted(VertexHandle(i)) ? "x" : "") << ";";
    for (int i = 0; i < (int)m.n_edges(); ++i) o << m.edge(EdgeHandle(i)).from_vertex().idx() << "-" << m.edge(EdgeHandle(i)).to_vertex().idx() << (m.is_deleted(EdgeHandle(i)) ? "x" : "") << ";";
    for (int i = 0; i < (int)m.n_faces(); ++i) { for (auto h : m.face(FaceHandle(i)).halfedges()) o << h.idx() << ","; o << (m.is_deleted(FaceHandle(i)) ? "x" : "") << ";"; }
    for (int i = 0; i < (int)m.n_cells(); ++i) { for (auto h : m.cell(CellHandle(i)).halffaces()) o << h.idx() << ","; o << (m.is_deleted(CellHandle(i)) ? "x" : "") << ";"; }
    // bottom-up caches (through the public queries)
    if (m.has_vertex_bottom_up_incidences()) for (int i = 0; i < (int)m.n_vertices(); ++i) { o << "o:"; for (auto it = m.voh_iter(VertexHandle(i)); it.valid(); ++it) o << it->idx() << ","; }
    if (m.has_edge_bottom_up_incidences()) for (int i = 0; i < (int)m.n_halfedges(); ++i) { o << "h:"; for (auto it = m.hehf_iter(HalfEdgeHandle(i)); it.valid(); ++it) o << it->idx() << ","; }
    if (m.has_face_bottom_up_incidences()) for (int i = 0; i < (int)m.n_halffaces(); ++i) o << "c:" << m.incident_cell(HalfFaceHandle(i)).idx();
    return o.str();
}

// ---------------- model ----------------
struct MProp { int combo; std::string name; bool shared, persistent; int mesh; std::vector<std::string> values; int nh = 0; };
struct Handle { std::shared_ptr<Box> box; int prop; };
struct World {
    std::mt19937 rng;
    std::vector<std::unique_ptr<MeshBox>> meshes;  // nullptr when destroyed
    std::map<int, MProp> props; int next_prop = 0;
    std::vector<Handle> handles;
    int r(int n) { return n <= 0 ? 0 : (int)(rng() % (unsigned)n); }
    std::string rname() { static const char* n[] = {"", "a", "b", "a"}; return n[r(4)]; }

    int find_shared(int mesh, int combo, const std::string& name) {
        if (name.empty()) return -1;
        for (auto& kv : props) if (kv.second.mesh == mesh && kv.second.combo == combo && kv.second.shared && kv.second.name == name) return kv.first;
        return -1;
    }
    int new_prop(int mesh, int combo, const std::string& name, bool shared, bool pers) {
        MProp p; p.combo = combo; p.name = name; p.shared = shared; p.persistent = pers; p.mesh = mesh;
        p.values.assign(count(meshes[mesh]->tk(), g_combos[combo].kind), g_combos[combo].def);
        props[next_prop] = p; return next_prop++;
    }
    void add_handle(std::shared_ptr<Box> b, int prop) { handles.push_back({b, prop}); props[prop].nh++; }
    void reap() { for (auto it = props.begin(); it != props.end();) if (it->second.nh == 0 && !(it->second.persistent && it->second.mesh >= 0)) it = props.erase(it); else ++it; }
    void model_clear_props(int mesh, int kind /* -1 all */) {
        for (auto& kv : props) if (kv.second.mesh == mesh && (kind < 0 || g_combos[kv.second.combo].kind == kind)) { kv.second.shared = false; kv.second.persistent = false; }
        reap();
    }
    void model_resize(int mesh) {
        for (auto& kv : props) if (kv.second.mesh == mesh) kv.second.values.resize(count(meshes[mesh]->tk(), g_combos[kv.second.combo].kind), g_combos[kv.second.combo].def);
    }
    void model_clone_persistent(int src, int dst) {
        std::vector<MProp> add;
        for (auto& kv : props) if (kv.second.mesh == src && kv.second.persistent) { MProp c = kv.second; c.mesh = dst; c.nh = 0; add.push_back(c); }
        for (auto& c : add) props[next_prop++] = c;
    }

    void check(const std::string& where) {
        for (size_t i = 0; i < handles.size(); ++i) {
            auto& h = handles[i]; auto it = props.find(h.prop);
            if (it == props.end()) { fail("model lost a property that still has a handle", where); continue; }
            MProp& p = it->second; Box& b = *h.box;
            std::string id = where + " handle#" + std::to_string(i) + " prop(" + g_combos[p.combo].label + ",'" + p.name + "')";
            if (b.size() != p.values.size()) { fail("handle size != expected entity count", id + " size " + std::to_string(b.size()) + " expected " + std::to_string(p.values.size())); continue; }
            for (size_t k = 0; k < p.values.size(); ++k) if (b.get(k) != p.values[k]) { fail("handle value differs", id + " [" + std::to_string(k) + "]=" + b.get(k) + " expected " + p.values[k]); break; }
            if (b.attached() != (p.mesh >= 0)) fail("attached flag wrong", id + " attached=" + std::to_string(b.attached()));
            if (b.name() != p.name) fail("name wrong", id);
            if (p.mesh >= 0) {
                if (b.shared() != p.shared) fail("shared flag wrong", id + " shared=" + std::to_string(b.shared()));
                if (b.persistent() != p.persistent) fail("persistent flag wrong", id + " persistent=" + std::to_string(b.persistent()));
            }
        }
        for (size_t mi = 0; mi < meshes.size(); ++mi) {
            if (!meshes[mi]) continue;
            ResourceManager& m = meshes[mi]->rm();
            for (int k = 0; k < NKIND; ++k) {
                size_t np = (k == KV) ? 1 : 0, npp = 0;  // +1: vertex positions
                for (auto& kv : props) if (kv.second.mesh == (int)mi && g_combos[kv.second.combo].kind == k) { ++np; if (kv.second.persistent) ++npp; }
                if (nprops(m, (Kind)k) != np) fail("n_props wrong", where + " mesh " + std::to_string(mi) + " kind " + std::to_string(k) + " got " + std::to_string(nprops(m, (Kind)k)) + " expected " + std::to_string(np));
                if (npers(m, (Kind)k) != npp) fail("n_persistent_props wrong", where + " mesh " + std::to_string(mi) + " kind " + std::to_string(k) + " got " + std::to_string(npers(m, (Kind)k)) + " expected " + std::to_string(npp));
            }
            for (size_t c = 0; c < g_combos.size(); ++c) for (const char* nm : {"", "a", "b"}) {
                int f = find_shared((int)mi, (int)c, nm);
                bool ex = g_combos[c].exists(m, nm);
                if (ex != (f >= 0)) fail("property_exists wrong", where + " mesh " + std::to_string(mi) + " " + g_combos[c].label + " '" + nm + "' got " + std::to_string(ex));
                auto g = g_combos[c].get(m, nm);
                if ((bool)g != (f >= 0)) fail("get_property visibility wrong", where + " " + g_combos[c].label + " '" + nm + "'");
                if (g && f >= 0) {
                    // same storage as an existing handle of that model prop (if any), and values equal
                    for (auto& h : handles) if (h.prop == f && h.box->ident() != g->ident()) fail("get_property returned different storage than live handle", where);
                    if (g->size() != props[f].values.size()) fail("found property size wrong", where);
                    else for (size_t k = 0; k < g->size(); ++k) if (g->get(k) != props[f].values[k]) { fail("found property value wrong (clone not equal-valued / not independent)", where + " " + g_combos[c].label + " '" + nm + "'"); break; }
                }
            }
        }
    }

    int live_mesh() { std::vector<int> l; for (size_t i = 0; i < meshes.size(); ++i) if (meshes[i]) l.push_back((int)i); return l.empty() ? -1 : l[r((int)l.size())]; }
    int new_mesh(int type) {
        auto mb = std::make_unique<MeshBox>(); mb->type = type;
        if (type == 0) mb->p = std::make_unique<Poly>(); else if (type == 1) mb->t = std::make_unique<Tet>(); else mb->h = std::make_unique<Hex>();
        meshes.push_back(std::move(mb)); return (int)meshes.size() - 1;
    }
    // dst = src for all 9 type pairs
    void assign(MeshBox& d, MeshBox& s) {
        auto go = [&](auto& dm) { if (s.type == 0) dm = *s.p; else if (s.type == 1) dm = *s.t; else dm = *s.h; };
        if (d.type == 0) go(*d.p); else if (d.type == 1) go(*d.t); else go(*d.h);
    }
    void grow(int mi) {
        MeshBox& mb = *meshes[mi]; TopologyKernel& m = mb.tk();
        int k = r(4);
        if (k <= 1 || m.n_vertices() < 4) { VertexHandle v = m.add_vertex(); mb.set_pos(v, Vec(r(10), r(10), r(10))); g_log += "m" + std::to_string(mi) + ".addv "; }
        else if (k == 2) { int a = r((int)m.n_vertices()), b = r((int)m.n_vertices()); if (a != b && !m.is_deleted(VertexHandle(a)) && !m.is_deleted(VertexHandle(b))) { m.add_edge(VertexHandle(a), VertexHandle(b)); g_log += "m" + std::to_string(mi) + ".adde "; } }
        else if (mb.type != 2) {
            // a tet on 4 fresh vertices (always legal for poly and tet)
            std::vector<VertexHandle> v; for (int i = 0; i < 4; ++i) { v.push_back(m.add_vertex()); mb.set_pos(v.back(), Vec(r(10), r(10), r(10))); }
            std::vector<HalfFaceHandle> hfs;
            int tri[4][3] = {{0, 1, 2}, {0, 2, 3}, {0, 3, 1}, {1, 3, 2}};
            for (auto& t : tri) hfs.push_back(m.add_face(std::vector<VertexHandle>{v[t[0]], v[t[1]], v[t[2]]}).halfface_handle(0));
            m.add_cell(hfs, true); g_log += "m" + std::to_string(mi) + ".addtet ";
        }
        model_resize(mi);
    }

    void step() {
        int mi = live_mesh();
        int op = r(100);
        if (mi < 0 || (op < 4 && meshes.size() < 8)) { int t = r(3); int n = new_mesh(t); g_log += "new m" + std::to_string(n) + "(type" + std::to_string(t) + ") "; return; }
        MeshBox& mb = *meshes[mi]; ResourceManager& m = mb.rm();
        std::string M = "m" + std::to_string(mi);
        if (op < 14) { grow(mi); return; }
        if (op < 44) {  // creation / lookup
            int c = r((int)g_combos.size()); std::string nm = rname(); int k = r(5);
            std::string tag = M + "." + (k == 0 ? "request" : k == 1 ? "create_shared" : k == 2 ? "create_persistent" : k == 3 ? "create_private" : "get") + "<" + g_combos[c].label + ">('" + nm + "') ";
            g_log += tag;
            int f = find_shared(mi, c, nm);
            if (k == 0) { auto b = g_combos[c].request(m, nm); if (f < 0) f = new_prop(mi, c, nm, !nm.empty(), false); add_handle(b, f); }
            else if (k == 1 || k == 2) {
                if (nm.empty()) { g_log += "(skipped: empty name) "; return; }  // see find3: create_shared/persistent("") gives a shared anonymous property
                auto b = (k == 1 ? g_combos[c].create_shared : g_combos[c].create_persistent)(m, nm);
                if (f >= 0) { if (b) fail("create_* did not refuse a duplicate", tag); }
                else if (!b) fail("create_* refused although no such shared property exists", tag);
                else add_handle(b, new_prop(mi, c, nm, true, k == 2));
            } else if (k == 3) { auto b = g_combos[c].create_private(m, nm); add_handle(b, new_prop(mi, c, nm, false, false)); }
            else { auto b = g_combos[c].get(m, nm); if ((bool)b != (f >= 0)) fail("get_property visibility wrong", tag); else if (b) add_handle(b, f); }
            return;
        }
        if (op < 56 && !handles.empty()) {  // write a value through a handle
            int hi = r((int)handles.size()); MProp& p = props[handles[hi].prop];
            if (!p.values.empty()) { size_t i = (size_t)r((int)p.values.size()); int s = r(1000); handles[hi].box->set(i, s);
                const Combo& c = g_combos[p.combo]; (void)c;
                p.values[i] = handles[hi].box->get(i); g_log += "h" + std::to_string(hi) + "[" + std::to_string(i) + "]=" + p.values[i] + " "; }
            return;
        }
        if (op < 64 && !handles.empty()) { int hi = r((int)handles.size()); add_handle(handles[hi].box->copy(), handles[hi].prop); g_log += "copy h" + std::to_string(hi) + " "; return; }
        if (op < 74 && !handles.empty()) { int hi = r((int)handles.size()); props[handles[hi].prop].nh--; handles.erase(handles.begin() + hi); reap(); g_log += "drop h" + std::to_string(hi) + " "; return; }
        if (op < 84 && !handles.empty()) {  // set_shared / set_persistent
            int hi = r((int)handles.size()); MProp& p = props[handles[hi].prop]; if (p.mesh < 0) return;
            ResourceManager& pm = meshes[p.mesh]->rm();
            bool en = r(2); bool which = r(2);
            std::string tag = "m" + std::to_string(p.mesh) + (which ? ".set_shared(h" : ".set_persistent(h") + std::to_string(hi) + "," + std::to_string(en) + ") ";
            g_log += tag;
            bool expect_throw = false;
            if (which) { if (en && !p.shared) expect_throw = p.name.empty() || find_shared(p.mesh, p.combo, p.name) >= 0; }
            else { if (en && !p.persistent) expect_throw = !p.shared; }
            bool threw = false;
            try { if (which) handles[hi].box->set_shared(pm, en); else handles[hi].box->set_persistent(pm, en); } catch (std::exception&) { threw = true; }
            if (threw != expect_throw) fail(threw ? "unexpected throw" : "invariant-breaking transition did not throw", tag);
            if (!threw) { if (which) { p.shared = en; if (!en) p.persistent = false; } else p.persistent = en; }
            reap();
            return;
        }
        if (op < 88) { int k = r(NKIND + 1);
            if (k == KV) m.clear_vertex_props(); else if (k == KHE) m.clear_halfedge_props(); else if (k == KC) m.clear_cell_props(); else if (k == KM) m.clear_mesh_props(); else m.clear_all_props();
            g_log += M + ".clear_props(" + std::to_string(k) + ") "; model_clear_props(mi, k == NKIND ? -1 : k); return; }
        if (op < 90) { bool cp = r(2); mb.tk().clear(cp); g_log += M + ".clear(" + std::to_string(cp) + ") "; if (cp) model_clear_props(mi, -1); model_resize(mi); return; }
        if (op < 93 && meshes.size() < 8) {  // copy construction (same type)
            std::string before = digest(mb);
            int n = (int)meshes.size(); auto nb = std::make_unique<MeshBox>(); nb->type = mb.type;
            if (mb.type == 0) nb->p = std::make_unique<Poly>(*mb.p); else if (mb.type == 1) nb->t = std::make_unique<Tet>(*mb.t); else nb->h = std::make_unique<Hex>(*mb.h);
            meshes.push_back(std::move(nb)); g_log += "m" + std::to_string(n) + "=copy(" + M + ") ";
            model_clone_persistent(mi, n);
            if (digest(*meshes[n]) != before) fail("copy-constructed mesh differs from source", M);
            grow(n); if (meshes[n]->tk().n_vertices()) meshes[n]->set_pos(VertexHandle(0), Vec(-1, -1, -1));
            if (digest(mb) != before) fail("mutating the copy changed the source", M);
            return;
        }
        if (op < 98) {  // assignment
            int si = live_mesh(); MeshBox& s = *meshes[si];
            if (mb.type == 2 && s.has_cells_or_faces()) return;                // tets are not legal content for a hex mesh
            std::string before = digest(s);
            assign(mb, s);
            g_log += M + "=m" + std::to_string(si) + " ";
            if (si != mi) { model_clear_props(mi, -1); model_resize(mi); model_clone_persistent(si, mi); }
            if (digest(mb) != before) fail("assigned mesh differs from source", M + "=m" + std::to_string(si) + "\n got " + digest(mb) + "\n exp " + before);
            if (si != mi) { grow(mi); if (mb.tk().n_vertices()) mb.set_pos(VertexHandle(0), Vec(-2, -2, -2)); if (digest(s) != before) fail("mutating the assigned-to mesh changed the source", M);
                            std::string d2 = digest(mb); grow(si); if (digest(mb) != d2) fail("mutating the source changed the assigned-to mesh", M); }
            return;
        }
        // mesh destruction
        g_log += "destroy " + M + " ";
        meshes[mi].reset();
        for (auto& kv : props) if (kv.second.mesh == mi) kv.second.mesh = -1;
        reap();
    }
};

int main(int argc, char** argv) {
    int n_hist = argc > 1 ? atoi(argv[1]) : 300; unsigned seed = argc > 2 ? (unsigned)atoi(argv[2]) : 1; int steps = argc > 3 ? atoi(argv[3]) : 120;
    g_combos.push_back(mkcombo<int, Entity::Vertex>("int,V", KV, 7));
    g_combos.push_back(mkcombo<std::string, Entity::Vertex>("string,V", KV, 1));
    g_combos.push_back(mkcombo<bool, Entity::Vertex>("bool,V", KV, 1));
    g_combos.push_back(mkcombo<int, Entity::HalfEdge>("int,HE", KHE, 3));
    g_combos.push_back(mkcombo<std::string, Entity::Cell>("string,C", KC, 2));
    g_combos.push_back(mkcombo<int, Entity::Cell>("int,C", KC, 5));
    g_combos.push_back(mkcombo<int, Entity::Mesh>("int,M", KM, 9));
    g_combos.push_back(mkcombo<bool, Entity::Mesh>("bool,M", KM, 0));
    long total_steps = 0;
    for (int hI = 0; hI < n_hist; ++hI) {
        World w; w.rng.seed(seed * 7919u + (unsigned)hI); g_log.clear();
        for (int s = 0; s < steps; ++s) { w.step(); w.check("step " + std::to_string(s)); ++total_steps; }
        // end of history: destroy meshes and handles in random order
        while (true) {
            std::vector<int> l; for (size_t i = 0; i < w.meshes.size(); ++i) if (w.meshes[i]) l.push_back((int)i);
            if (l.empty() && w.handles.empty()) break;
            if (!l.empty() && (w.handles.empty() || w.r(2))) { int mi = l[w.r((int)l.size())]; g_log += "destroy m" + std::to_string(mi) + " "; w.meshes[mi].reset(); for (auto& kv : w.props) if (kv.second.mesh == mi) kv.second.mesh = -1; w.reap(); }
            else { int hi = w.r((int)w.handles.size()); w.props[w.handles[hi].prop].nh--; w.handles.erase(w.handles.begin() + hi); w.reap(); }
            w.check("teardown");
        }
    }
    printf("steps: %ld\n", total_steps);
    int total = 0;
    for (auto& kv : g_fail) { printf("FAIL %-60s x%-6d first: %s\n", kv.first.c_str(), kv.second, g_first[kv.first].c_str()); total += kv.second; }
    printf("total failures: %d in %zu classes\n", total, g_fail.size());
    return total ? 1 : 0;
}
