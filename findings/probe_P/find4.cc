// ANALYSIS (find4, C20 - borderline: mesh copy is not in the statement's list of read-only operations)
// Cause : PropertyStorageT<T>::clone() (Core/Properties/PropertyStorageT.hh:180-184) copy-constructs the storage; the Tracked copy
//         constructor (Core/detail/Tracking.hh:89-94) registers the clone in the SOURCE's tracker (ResourceManager::storage_trackers_ is
//         mutable), clone() then unregisters it again. So "const" copy-construction / assignment-from writes to the source registry.
// Fix   : make the copy start untracked: Tracked(Tracked const&) : tracker_(nullptr) {}  (clone() and clone_persistent_properties_from()
//         attach it to the destination tracker afterwards anyway).
// find4 (borderline, outside the literal C20 list): copy-constructing a mesh from a CONST mesh mutates the
// SOURCE mesh's property tracker (PropertyStorageT::clone() copy-constructs Tracked, which registers the clone
// in the source's tracker and unregisters it again). Two threads copying the same const mesh - or one copying
// while another runs the const lookup property_exists()/get_property() - race on that std::set.
// Build: clang++ -std=c++17 -O1 -g -fsanitize=thread -I/tmp/probe/P/src -I/tmp/probe/P/_build_tsan/src find4.cc \
//            /tmp/probe/P/_build_tsan/Build/lib/libOpenVolumeMesh.a -lpthread -o find4
// Run: TSAN_OPTIONS=exitcode=1 ./find4     (exits 1 with "ThreadSanitizer: data race ... Tracker<...>::add/remove")
// Single-threaded witness (no TSan needed) is printed too: n_props of the const source changes while it is copied.
#include <OpenVolumeMesh/Core/TopologyKernel.hh>
#include <cstdio>
#include <thread>
using namespace OpenVolumeMesh;
int main() {
    TopologyKernel m;
    for (int i = 0; i < 100; ++i) m.add_vertex();
    auto p = m.create_persistent_vertex_property<int>("p", 1);
    const TopologyKernel& cm = m;
    auto worker = [&cm](bool copy) { unsigned long s = 0; for (int i = 0; i < 2000; ++i) { if (copy) { TopologyKernel c(cm); s += c.n_vertices(); } else s += cm.vertex_property_exists<int>("p"); } return s; };
    std::thread a([&] { worker(true); }), b([&] { worker(true); }), c([&] { worker(false); });
    a.join(); b.join(); c.join();
    printf("done (a data race report above = defect)\n");
    return 0;
}
