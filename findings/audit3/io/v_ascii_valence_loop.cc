// C07 "no unbounded loop": FileManager::readStream reads a face/cell valence into uint64_t val but counts
// the handles with `unsigned int e`:  for(unsigned int e = 0; e < val; ++e)   (FileManagerT_impl.hh:241 and :304).
// For val >= 2^32 the counter wraps and the loop never ends; every turn appends a handle (a failed extraction leaves v1 == 0,
// a valid halfedge) until memory is exhausted.
// The test gives the reader an allocator in which huge blocks are backed by one aliased 64 MB segment (so 16 GB of
// vector storage cost 64 MB of RAM) and reports a violation when the reader asks for MORE room than the declared
// valence (2^32 handles = 16 GiB) needs, i.e. when it has appended more than `val` handles.
#include <sys/mman.h>
#include <unistd.h>
#include <cstdlib>
#include <new>
#include <cstdio>
static const size_t CH = 64ull<<20;
static int g_fd = -1; static void* g_big[8]; static size_t g_bigsz[8]; static size_t g_max_req = 0; static bool g_over = false;
static const size_t DECLARED = (1ull<<32)*4;          // bytes for 2^32 HalfEdgeHandles
void* operator new(size_t n){
    if (n < (1ull<<30)) { void*p=malloc(n?n:1); if(!p) throw std::bad_alloc(); return p; }
    if (n > g_max_req) g_max_req = n;
    if (n > DECLARED + (1ull<<20)) { g_over = true; throw std::bad_alloc(); }
    if (g_fd < 0) { g_fd = memfd_create("alias",0); if (ftruncate(g_fd, CH)) abort(); }
    size_t r = (n + CH - 1) / CH * CH;
    char* base = (char*)mmap(nullptr, r, PROT_NONE, MAP_PRIVATE|MAP_ANONYMOUS|MAP_NORESERVE, -1, 0);
    if (base == MAP_FAILED) throw std::bad_alloc();
    for (size_t off = 0; off < r; off += CH) if (mmap(base+off, CH, PROT_READ|PROT_WRITE, MAP_SHARED|MAP_FIXED, g_fd, 0) == MAP_FAILED) abort();
    for (int i=0;i<8;++i) if(!g_big[i]) { g_big[i]=base; g_bigsz[i]=r; return base; }
    abort();
}
void operator delete(void* p) noexcept { for(int i=0;i<8;++i) if(p && g_big[i]==p){ munmap(p,g_bigsz[i]); g_big[i]=nullptr; return; } free(p); }
void operator delete(void* p, size_t) noexcept { operator delete(p); }
#include "common.hh"
int main(){
    std::string f = "OVM ASCII\nVertices\n3\n0 0 0\n1 0 0\n0 1 0\nEdges\n3\n0 1\n1 2\n2 0\n"
                    "Faces\n1\n4294967296 0 2 4\nPolyhedra\n0\n";
    PolyhedralMesh m; bool ok=false; const char* how="returned";
    try { ok = ascii_read(f, m, false, true); } catch (std::bad_alloc&) { how="bad_alloc"; } catch (std::exception&) { how="exception"; }
    printf("readStream %s (%d); largest block requested: %zu bytes; declared valence needs %zu bytes\n", how, (int)ok, g_max_req, DECLARED);
    if (g_over) { printf("VIOLATION: the face-handle loop appended more than the declared 4294967296 handles (counter `unsigned int e` wrapped): unbounded loop\n"); return 1; }
    return 0;
}
