#include "common.hh"
template<class M> void tet(M&m, int n){ // n disjoint-ish tets chain
    using P=typename M::PointT;
    for(int k=0;k<n;++k){ auto a=m.add_vertex(P(k,0,0)),b=m.add_vertex(P(k,1,0)),c=m.add_vertex(P(k,0,1)),d=m.add_vertex(P(k,1,1));
        
        auto F=[&](VertexHandle x,VertexHandle y,VertexHandle z){ std::vector<VertexHandle> vs{x,y,z}; return m.halfface_handle(m.add_face(vs),0); };
        std::vector<HalfFaceHandle> hfs{F(a,b,c),F(a,d,b),F(b,d,c),F(a,c,d)}; if(!m.add_cell(hfs,true).is_valid()) std::cout<<"harness: tet rejected\n"; }
}
template<class A,class B> void rt_both(A const&m, B&, const char*what, bool tc){
    std::string why;
    { B r; auto s=ascii_write(m); if(!ascii_read(s,r,tc,true)) FAIL(what<<" ascii read failed"); else { if(!same_topo(m,r,why)) FAIL(what<<" ascii "<<why);
        for(size_t i=0;i<m.n_vertices();++i) for(int d=0;d<3;++d) if((double)m.vertex(VertexHandle(i))[d]!=(double)r.vertex(VertexHandle(i))[d]) {FAIL(what<<" ascii pos "<<i); goto o1;} o1:; if(ascii_write(r)!=s) FAIL(what<<" ascii 2nd trip differs"); } }
    { B r; OIO::WriteResult wr; auto s=ovmb_write_s(m,&wr); if(wr!=OIO::WriteResult::Ok) FAIL(what<<" ovmb write"); auto rr=ovmb_read_s(s,r,tc,true);
      if(rr!=OIO::ReadResult::Ok) FAIL(what<<" ovmb read failed: "<<OIO::to_string(rr)); else { if(!same_topo(m,r,why)) FAIL(what<<" ovmb "<<why);
        for(size_t i=0;i<m.n_vertices();++i) for(int d=0;d<3;++d) if((double)m.vertex(VertexHandle(i))[d]!=(double)r.vertex(VertexHandle(i))[d]) {FAIL(what<<" ovmb pos "<<i); goto o2;} o2:; } }
}
int main(){
    { PolyhedralMesh e, r; rt_both(e,r,"empty",true); }
    { PolyhedralMesh e, r; e.add_vertex(Vec3d(1,2,3)); rt_both(e,r,"1 vertex",true); }
    { TetrahedralMesh t; tet(t,3); TetrahedralMesh r; rt_both(t,r,"tet->tet",true); rt_both(t,r,"tet->tet notc",false); PolyhedralMesh p; rt_both(t,p,"tet->poly",true); }
    { PolyhedralMesh t; tet(t,3); TetrahedralMesh r; rt_both(t,r,"poly(tet)->tet",true); }
    { GeometricPolyhedralMeshV3f f; f.add_vertex(Vec3f(0.1f,1e-30f,3.4e38f)); f.add_vertex(Vec3f(-0.f,16777217.f,1.f/3)); GeometricPolyhedralMeshV3f r;
      OIO::WriteResult wr; auto s=ovmb_write_s(f,&wr); auto rr=ovmb_read_s(s,r); if(rr!=OIO::ReadResult::Ok) FAIL("V3f ovmb read"); else for(int i=0;i<2;++i) if(memcmp(&f.vertex(VertexHandle(i)),&r.vertex(VertexHandle(i)),12)) FAIL("V3f ovmb pos not bit exact");
      PolyhedralMesh d; rr=ovmb_read_s(s,d); if(rr!=OIO::ReadResult::Ok) FAIL("V3f file into V3d mesh"); else if(d.vertex(VertexHandle(0))[0]!=(double)0.1f) FAIL("V3f->V3d pos");
      GeometricPolyhedralMeshV3f r2; auto a=ascii_write(f); if(!ascii_read(a,r2)) FAIL("V3f ascii read"); else if(ascii_write(r2)!=a) FAIL("V3f ascii second trip differs"); }
    // index width boundaries
    for (int n : {255,256,257,65535,65536,65537}) {
        PolyhedralMesh m; for(int i=0;i<n;++i) m.add_vertex(Vec3d(i,0,0));
        // edges referencing the last vertex; n edges -> 2n halfedges; faces referencing last halfedge
        for(int i=0;i<n;++i) m.add_edge(VertexHandle(i),VertexHandle((i+1)%n),true);
        m.add_edge(VertexHandle(n-1),VertexHandle(0),true);
        std::vector<HalfEdgeHandle> loop; for(int i=0;i<n;++i) loop.push_back(HalfEdgeHandle(2*i)); 
        m.add_face(loop); // valence n face (255/256 valence boundary too)
        m.add_face({HalfEdgeHandle(2*n+1), HalfEdgeHandle(2*n)});
        PolyhedralMesh r; std::string w="n="+std::to_string(n); rt_both(m,r,w.c_str(),false);
    }
    // n faces boundary for halfface handle width: 128 faces -> 256 halffaces
    for (int nf : {127,128,129,32767,32768,32769}) {
        PolyhedralMesh m; for(int i=0;i<3;++i) m.add_vertex(Vec3d(i,0,0)); m.add_edge(VertexHandle(0),VertexHandle(1)); m.add_edge(VertexHandle(1),VertexHandle(2)); m.add_edge(VertexHandle(2),VertexHandle(0));
        for(int i=0;i<nf;++i) m.add_face({HalfEdgeHandle(0),HalfEdgeHandle(2),HalfEdgeHandle(4)});
        m.add_cell({HalfFaceHandle(2*nf-1),HalfFaceHandle(2*nf-2)}); m.add_cell({HalfFaceHandle(0),HalfFaceHandle(2*nf-1)});
        PolyhedralMesh r; std::string w="nf="+std::to_string(nf); rt_both(m,r,w.c_str(),false);
    }
    return g_fail;
}
