#include "common.hh"
int main(){
    HexahedralMesh h; std::vector<VertexHandle> v;
    // two cubes side by side
    for(int x=0;x<3;++x)for(int y=0;y<2;++y)for(int z=0;z<2;++z) v.push_back(h.add_vertex(Vec3d(x,y,z)));
    auto id=[&](int x,int y,int z){return v[x*4+y*2+z];};
    for(int x=0;x<2;++x){ std::vector<VertexHandle> c{id(x,0,0),id(x+1,0,0),id(x+1,1,0),id(x,1,0),id(x,0,1),id(x,1,1),id(x+1,1,1),id(x+1,0,1)}; if(!h.add_cell(c,true).is_valid()) std::cout<<"harness: hex rejected\n"; }
    std::cout<<"hex cells "<<h.n_cells()<<" faces "<<h.n_faces()<<"\n";
    std::string why;
    for(int tc=0;tc<2;++tc){
        { HexahedralMesh r; auto s=ascii_write(h); if(!ascii_read(s,r,tc,true)) FAIL("hex ascii read tc="<<tc); else if(!same_topo(h,r,why)) FAIL("hex ascii tc="<<tc<<" "<<why);
          std::ofstream("/tmp/audit2/work3/io/hex.ovm")<<s; OIO::FileManager fm; if(!fm.isHexahedralMesh("/tmp/audit2/work3/io/hex.ovm")) FAIL("isHexahedralMesh false"); if(fm.isTetrahedralMesh("/tmp/audit2/work3/io/hex.ovm")) FAIL("isTet true");
          PolyhedralMesh p; if(!ascii_read(s,p,tc,true)) FAIL("hex->poly ascii"); else if(!same_topo(h,p,why)) FAIL("hex->poly ascii "<<why); }
        { HexahedralMesh r; auto s=ovmb_write_s(h); auto rr=ovmb_read_s(s,r,tc,true); if(rr!=OIO::ReadResult::Ok) FAIL("hex ovmb read tc="<<tc); else if(!same_topo(h,r,why)) FAIL("hex ovmb tc="<<tc<<" "<<why);
          PolyhedralMesh p; rr=ovmb_read_s(s,p,tc,true); if(rr!=OIO::ReadResult::Ok) FAIL("hex->poly ovmb"); else if(!same_topo(h,p,why)) FAIL("hex->poly ovmb "<<why);
          TetrahedralMesh t; rr=ovmb_read_s(s,t,tc,true); if(rr==OIO::ReadResult::Ok) FAIL("hex file accepted by tet mesh");
          // poly copy -> autodetect hex -> into hex mesh
          auto s2=ovmb_write_s(p); HexahedralMesh r2; rr=ovmb_read_s(s2,r2,tc,true); if(rr!=OIO::ReadResult::Ok) FAIL("poly(hex)->hex ovmb: "<<OIO::to_string(rr)); else if(!same_topo(h,r2,why)) FAIL("poly(hex)->hex "<<why); }
    }
    return g_fail;
}
