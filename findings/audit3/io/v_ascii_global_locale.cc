// C06: ASCII round trip of positions depends on the process-wide locale.  readStream imbues the classic locale on
// the input stream, but parses every line of the Vertices/Edges/Faces/Polyhedra sections through a local
// std::stringstream `sstr` (FileManagerT_impl.hh:66) that is constructed with the *global* locale.  With a global
// locale whose decimal point is ',' (de_DE, fr_FR, ...; emulated here with a numpunct facet) the file that
// writeStream produced ("0.5 1.25 -2.75") reads back with different positions.
#include "common.hh"
#include <locale>
struct comma : std::numpunct<char> { char do_decimal_point() const override { return ','; } char do_thousands_sep() const override { return '.'; } std::string do_grouping() const override { return "\3"; } };
int main(){
    PolyhedralMesh m; m.add_vertex(Vec3d(0.5,1.25,-2.75)); m.add_vertex(Vec3d(1000.5,2,3));
    std::locale::global(std::locale(std::locale::classic(), new comma));
    auto file = ascii_write(m);
    PolyhedralMesh r; bool ok = ascii_read(file, r);
    std::locale::global(std::locale::classic());
    std::cout << file;
    if(!ok) { FAIL("read failed"); return 1; }
    for(int i=0;i<2;++i) if(!(m.vertex(VertexHandle(i))==r.vertex(VertexHandle(i)))) FAIL("vertex "<<i<<": wrote "<<m.vertex(VertexHandle(i))<<" read "<<r.vertex(VertexHandle(i)));
    return g_fail;
}
