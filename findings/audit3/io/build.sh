#!/bin/bash
# usage: build.sh name [asan]
if [ "$2" = asan ]; then X="-fsanitize=address,undefined -g"; fi
g++ -std=c++17 -O1 $X -w -I/repo/src -I/repo/_build/src $1.cc /repo/_build/Build/lib/libOpenVolumeMesh.a -o $1
