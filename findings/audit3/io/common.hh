#pragma once
#include <OpenVolumeMesh/Mesh/PolyhedralMesh.hh>
#include <OpenVolumeMesh/Mesh/TetrahedralMesh.hh>
#include <OpenVolumeMesh/Mesh/HexahedralMesh.hh>
#include <OpenVolumeMesh/FileManager/FileManager.hh>
#include <OpenVolumeMesh/IO/ovmb_read.hh>
#include <OpenVolumeMesh/IO/ovmb_write.hh>
#include <sstream>
#include <iostream>
#include <fstream>
#include <cstdio>
#include <cstring>
using namespace OpenVolumeMesh;
namespace OIO = OpenVolumeMesh::IO;
static int g_fail = 0;
#define FAIL(msg) do { std::cout << "VIOLATION: " << msg << std::endl; g_fail = 1; } while(0)
#define NOTE(msg) do { std::cout << "note: " << msg << std::endl; } while(0)

// C07 validity: every stored handle designates an existing entity, every persistent prop sized right
template<class M> bool valid_mesh(M const& m, std::string &why) {
    std::ostringstream o;
    for (size_t i = 0; i < m.n_edges(); ++i) {
        auto e = m.edge(EdgeHandle((int)i));
        if (e.from_vertex().idx() < 0 || (size_t)e.from_vertex().idx() >= m.n_vertices() ||
            e.to_vertex().idx() < 0 || (size_t)e.to_vertex().idx() >= m.n_vertices()) { o << "edge " << i << " vertex out of range"; why = o.str(); return false; }
    }
    for (size_t i = 0; i < m.n_faces(); ++i) {
        auto const& f = m.face(FaceHandle((int)i));
        if (f.halfedges().empty()) { o << "face " << i << " empty"; why = o.str(); return false; }
        for (auto h : f.halfedges()) if (h.idx() < 0 || (size_t)h.idx() >= m.n_halfedges()) { o << "face " << i << " halfedge " << h.idx() << " out of range"; why = o.str(); return false; }
    }
    for (size_t i = 0; i < m.n_cells(); ++i) {
        auto const& c = m.cell(CellHandle((int)i));
        if (c.halffaces().empty()) { o << "cell " << i << " empty"; why = o.str(); return false; }
        for (auto h : c.halffaces()) if (h.idx() < 0 || (size_t)h.idx() >= m.n_halffaces()) { o << "cell " << i << " halfface " << h.idx() << " out of range"; why = o.str(); return false; }
    }
    auto chk = [&](auto tag, size_t n, const char* kind) {
        using Tag = decltype(tag);
        for (auto it = m.template persistent_props_begin<Tag>(); it != m.template persistent_props_end<Tag>(); ++it) {
            if ((*it)->size() != n) { o << kind << " prop '" << (*it)->name() << "' size " << (*it)->size() << " != " << n; why = o.str(); return false; }
        }
        return true;
    };
    if (!chk(Entity::Vertex{}, m.n_vertices(), "V")) return false;
    if (!chk(Entity::Edge{}, m.n_edges(), "E")) return false;
    if (!chk(Entity::HalfEdge{}, m.n_halfedges(), "HE")) return false;
    if (!chk(Entity::Face{}, m.n_faces(), "F")) return false;
    if (!chk(Entity::HalfFace{}, m.n_halffaces(), "HF")) return false;
    if (!chk(Entity::Cell{}, m.n_cells(), "C")) return false;
    if (!chk(Entity::Mesh{}, 1, "M")) return false;
    return true;
}

template<class A, class B> bool same_topo(A const& a, B const& b, std::string &why) {
    std::ostringstream o;
    if (a.n_vertices()!=b.n_vertices()||a.n_edges()!=b.n_edges()||a.n_faces()!=b.n_faces()||a.n_cells()!=b.n_cells()) {
        o << "counts differ: " << a.n_vertices()<<"/"<<a.n_edges()<<"/"<<a.n_faces()<<"/"<<a.n_cells() << " vs " << b.n_vertices()<<"/"<<b.n_edges()<<"/"<<b.n_faces()<<"/"<<b.n_cells(); why=o.str(); return false; }
    for (size_t i=0;i<a.n_edges();++i){ auto x=a.edge(EdgeHandle((int)i)); auto y=b.edge(EdgeHandle((int)i));
        if (x.from_vertex()!=y.from_vertex()||x.to_vertex()!=y.to_vertex()){o<<"edge "<<i<<" differs: ("<<x.from_vertex().idx()<<","<<x.to_vertex().idx()<<") vs ("<<y.from_vertex().idx()<<","<<y.to_vertex().idx()<<")";why=o.str();return false;}}
    for (size_t i=0;i<a.n_faces();++i){ if (a.face(FaceHandle((int)i)).halfedges()!=b.face(FaceHandle((int)i)).halfedges()){o<<"face "<<i<<" differs";why=o.str();return false;}}
    for (size_t i=0;i<a.n_cells();++i){ if (a.cell(CellHandle((int)i)).halffaces()!=b.cell(CellHandle((int)i)).halffaces()){o<<"cell "<<i<<" differs";why=o.str();return false;}}
    return true;
}
template<class M> size_t n_persistent(M const& m) {
    size_t n=0;
    auto cnt=[&](auto tag){ using Tag=decltype(tag); for(auto it=m.template persistent_props_begin<Tag>(); it!=m.template persistent_props_end<Tag>(); ++it) ++n; };
    cnt(Entity::Vertex{}); cnt(Entity::Edge{}); cnt(Entity::HalfEdge{}); cnt(Entity::Face{}); cnt(Entity::HalfFace{}); cnt(Entity::Cell{}); cnt(Entity::Mesh{});
    return n;
}
template<class M> std::string ascii_write(M const& m){ std::ostringstream o; OIO::FileManager fm; fm.setVerbosityLevel(0); fm.writeStream(o,m); return o.str(); }
template<class M> bool ascii_read(std::string const&s, M &m, bool tc=true, bool bu=true){ std::istringstream i(s); OIO::FileManager fm; fm.setVerbosityLevel(0); return fm.readStream(i,m,tc,bu); }
template<class M> std::string ovmb_write_s(M const& m, OIO::WriteResult *r=nullptr, OIO::WriteOptions wo = OIO::WriteOptions()){ std::ostringstream o(std::ios::binary); auto res = OIO::ovmb_write(o,m,wo); if(r)*r=res; return o.str(); }
template<class M> OIO::ReadResult ovmb_read_s(std::string const&s, M &m, bool tc=true, bool bu=true){ std::istringstream i(s, std::ios::binary); OIO::ReadOptions ro; ro.topology_check=tc; ro.bottom_up_incidences=bu; return OIO::ovmb_read(i,m,ro); }
using PolyhedralMesh = GeometricPolyhedralMeshV3d;
using TetrahedralMesh = GeometricTetrahedralMeshV3d;
using HexahedralMesh = GeometricHexahedralMeshV3d;
using Geometry::Vec3d; using Geometry::Vec3f;
