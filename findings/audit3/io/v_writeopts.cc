// C06: WriteOptions::topology_type set explicitly to a type the mesh does not have:
// ovmb_write reports Ok but the file cannot be read back by any mesh type.
#include "common.hh"
int main(){
    PolyhedralMesh m; std::vector<VertexHandle> q; for(int i=0;i<4;++i) q.push_back(m.add_vertex(Vec3d(i&1,(i>>1)&1,0)));
    std::swap(q[2],q[3]); m.add_face(q); // one quad, no cells
    for (auto tt : {OIO::WriteOptions::TopologyType::Polyhedral, OIO::WriteOptions::TopologyType::Tetrahedral, OIO::WriteOptions::TopologyType::Hexahedral}) {
        OIO::WriteOptions wo; wo.topology_type = tt; OIO::WriteResult wr; auto s = ovmb_write_s(m,&wr,wo);
        PolyhedralMesh r; auto rr = ovmb_read_s(s,r); std::string why;
        std::cout<<"topology_type="<<(int)tt<<" write="<<OIO::to_string(wr)<<" read(poly)="<<OIO::to_string(rr)<<"\n";
        if (wr==OIO::WriteResult::Ok && (rr!=OIO::ReadResult::Ok || !same_topo(m,r,why))) FAIL("write Ok with topology_type="<<(int)tt<<" but file does not read back ("<<OIO::to_string(rr)<<")");
    }
    return g_fail;
}
