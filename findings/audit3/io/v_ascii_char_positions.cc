// C06: ASCII round trip of a polyhedral mesh whose point type has char / unsigned char coordinates
// (GeometricPolyhedralMeshV3c / V3uc are library typedefs): writeStream prints v[0] v[1] v[2] with operator<<,
// i.e. as raw characters; readStream extracts them as characters.  Positions are not preserved.
#include "common.hh"
template<class M> void go(const char*what){
    using P = typename M::PointT; M m; m.add_vertex(P(65,66,67)); m.add_vertex(P(1,2,3)); m.add_vertex(P(32,10,48)); m.add_vertex(P(100,35,7));
    auto s = ascii_write(m); M r; bool ok = ascii_read(s,r,true,true);
    if(!ok){ FAIL(what<<": file written by writeStream is rejected by readStream"); return; }
    if(r.n_vertices()!=m.n_vertices()){ FAIL(what<<": vertex count "<<r.n_vertices()); return; }
    for(int i=0;i<4;++i) for(int d=0;d<3;++d) if(m.vertex(VertexHandle(i))[d]!=r.vertex(VertexHandle(i))[d]) { FAIL(what<<": vertex "<<i<<" coord "<<d<<": wrote "<<(int)m.vertex(VertexHandle(i))[d]<<" read "<<(int)r.vertex(VertexHandle(i))[d]); return; }
    // OVMB for comparison
    M r2; auto b=ovmb_write_s(m); if(ovmb_read_s(b,r2)!=OIO::ReadResult::Ok) FAIL(what<<" ovmb read"); else for(int i=0;i<4;++i) if(!(m.vertex(VertexHandle(i))==r2.vertex(VertexHandle(i)))) FAIL(what<<" ovmb pos");
}
int main(){ go<GeometricPolyhedralMeshV3c>("V3c"); go<GeometricPolyhedralMeshV3uc>("V3uc"); go<GeometricPolyhedralMeshV3i>("V3i"); return g_fail; }
