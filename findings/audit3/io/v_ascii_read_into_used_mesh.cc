// C06: ASCII readStream into a mesh that is already in use (readStream calls _mesh.clear(false), keeping properties):
//  (a) deserialize(std::istream&, std::string&) does not assign when the stored length is 0 ("0:"), so an empty string
//      value keeps whatever the element held before (the property default / stale value);
//  (b) persistent properties the target had before the read are still persistent afterwards, although the file has none.
// ovmb_read (out.clear()) does not show either effect.
#include "common.hh"
int main(){
    PolyhedralMesh m; for(int i=0;i<3;++i) m.add_vertex(Vec3d(i,0,0));
    auto s=m.request_vertex_property<std::string>("label"); m.set_persistent(s); s[VertexHandle(0)]="a"; s[VertexHandle(1)]=""; s[VertexHandle(2)]="c";
    auto file=ascii_write(m);
    PolyhedralMesh r; r.add_vertex(Vec3d(5,5,5));
    auto old=r.request_vertex_property<std::string>("label","unset"); r.set_persistent(old);
    auto stale=r.request_edge_property<int>("stale"); r.set_persistent(stale);
    if(!ascii_read(file,r)) { FAIL("read failed"); return 1; }
    auto got=r.get_property<std::string,Entity::Vertex>("label");
    if(!got) FAIL("label missing"); else if((*got)[VertexHandle(1)]!="") FAIL("(a) vertex 1 label: wrote \"\" read \""<<(*got)[VertexHandle(1)]<<"\"");
    if(n_persistent(r)!=n_persistent(m)) FAIL("(b) file has "<<n_persistent(m)<<" persistent property, mesh has "<<n_persistent(r)<<" after readStream; re-writing it gives a different file: "<<(ascii_write(r)==file?"same":"different"));
    // direct demonstration of (a) on the serializer
    std::string x="old"; std::istringstream is("0:"); OpenVolumeMesh::deserialize(is,x); if(x!="") FAIL("(a) deserialize(\"0:\") left the string as \""<<x<<"\"");
    return g_fail;
}
