#include "common.hh"
#include <new>
static const char* BASE_V = "OVM ASCII\nVertices\n4\n0 0 0\n1 0 0\n0 1 0\n0 0 1\n";
static const char* BASE_E = "Edges\n6\n0 1\n1 2\n2 0\n0 3\n1 3\n2 3\n";
static const char* BASE_F = "Faces\n4\n3 0 2 4\n3 1 9 6\n3 3 10 5\n3 7 8 2\n";  // not nec. consistent
template<class M> void run(std::string const& name, std::string const& file){
    for(int tc=0;tc<2;++tc){
        M m; bool ok=false;
        try { ok=ascii_read(file,m,tc,true); }
        catch(std::bad_alloc&){ std::cout<<name<<": bad_alloc (allowed)\n"; continue; }
        catch(std::length_error&){ std::cout<<name<<": length_error (allowed)\n"; continue; }
        catch(std::exception&e){ FAIL(name<<" tc="<<tc<<" "<<typeid(M).name()<<": exception escaped: "<<e.what()); continue; }
        std::string why;
        if(ok && !valid_mesh(m,why)) FAIL(name<<" tc="<<tc<<" "<<typeid(M).name()<<": success with invalid mesh: "<<why);
        if(ok && tc==0 && std::is_same<M,PolyhedralMesh>::value) std::cout<<name<<": ok v/e/f/c="<<m.n_vertices()<<"/"<<m.n_edges()<<"/"<<m.n_faces()<<"/"<<m.n_cells()<<"\n";
    }
}
static bool g_nohuge=false;
void all(std::string const& name, std::string const& file){ if(g_nohuge && (name.find("huge")!=std::string::npos||name.find("neg")!=std::string::npos||name.find("2^")!=std::string::npos||name.find("big len")!=std::string::npos)) return; run<PolyhedralMesh>(name,file); run<TetrahedralMesh>(name,file); run<HexahedralMesh>(name,file); }
int main(int argc,char**argv){ g_nohuge = argc>1;
    std::string V=BASE_V,E=BASE_E,F=BASE_F;
    all("val0 face", V+E+"Faces\n1\n0\nPolyhedra\n0\n");
    all("val0 cell", V+E+F+"Polyhedra\n1\n0\n");
    all("neg verts", "OVM ASCII\nVertices\n-1\n");
    all("neg edges", V+"Edges\n-1\n");
    all("neg faces", V+E+"Faces\n-1\n");
    all("neg cells", V+E+F+"Polyhedra\n-1\n");
    all("huge verts", "OVM ASCII\nVertices\n99999999999999999999\n");
    all("huge edges", V+"Edges\n99999999999999999999\n");
    all("huge faces", V+E+"Faces\n99999999999999999999\n");
    all("huge cells", V+E+F+"Polyhedra\n99999999999999999999\n");
    all("neg valence face", V+E+"Faces\n1\n-1 0 2 4\nPolyhedra\n0\n");
    all("neg valence cell", V+E+F+"Polyhedra\n1\n-1 0 2 4\n");
    all("huge valence face 2^63", V+E+"Faces\n1\n9223372036854775808 0 2 4\nPolyhedra\n0\n");
    all("neg handle edge", V+"Edges\n1\n-1 2\nFaces\n0\nPolyhedra\n0\n");
    all("neg handle edge2", V+"Edges\n1\n1 -2\nFaces\n0\nPolyhedra\n0\n");
    all("oob handle edge", V+"Edges\n1\n1 4\nFaces\n0\nPolyhedra\n0\n");
    all("big handle edge", V+"Edges\n1\n1 4294967296\nFaces\n0\nPolyhedra\n0\n");
    all("neg handle face", V+E+"Faces\n1\n3 0 -2 4\nPolyhedra\n0\n");
    all("oob handle face", V+E+"Faces\n1\n3 0 12 4\nPolyhedra\n0\n");
    all("neg handle cell", V+E+F+"Polyhedra\n1\n4 0 -2 4 6\n");
    all("oob handle cell", V+E+F+"Polyhedra\n1\n4 0 8 4 6\n");
    all("fewer face handles than valence", V+E+"Faces\n1\n3 0 2\nPolyhedra\n0\n");
    all("fewer vertex lines", "OVM ASCII\nVertices\n4\n0 0 0\nEdges\n0\nFaces\n0\nPolyhedra\n0\n");
    all("more vertex lines", "OVM ASCII\nVertices\n1\n0 0 0\n1 1 1\nEdges\n0\nFaces\n0\nPolyhedra\n0\n");
    all("no header", "Vertices\n1\n0 0 0\nEdges\n0\nFaces\n0\nPolyhedra\n0\n");
    all("lower header", "ovm ascii\nvertices\n1\n0 0 0\nedges\n0\nfaces\n0\npolyhedra\n0\n");
    all("binary header", "OVM BINARY\nVertices\n1\n0 0 0\nEdges\n0\nFaces\n0\nPolyhedra\n0\n");
    all("missing polyhedra", V+E+F);
    all("empty", ""); all("only header", "OVM ASCII\n");
    std::string Z="OVM ASCII\nVertices\n2\n0 0 0\n1 1 1\nEdges\n0\nFaces\n0\nPolyhedra\n0\n";
    all("prop on zero entities", Z+"EProp int \"a\"\nFProp string \"b\"\nCProp vector_double \"c\"\nVProp int \"d\"\n1\n2\n");
    all("dup prop name same type", Z+"VProp int \"d\"\n1\n2\nVProp int \"d\"\n3\n4\n");
    all("dup prop name diff type", Z+"VProp int \"d\"\n1\n2\nVProp double \"d\"\n3\n4\n");
    all("prop too few values", Z+"VProp int \"d\"\n1\n");
    all("prop no name", Z+"VProp int\n1\n2\n");
    all("prop unknown type", Z+"VProp foo \"d\"\n1\n2\n");
    all("prop unknown entity", Z+"XProp int \"d\"\n1\n2\n");
    all("string huge len", Z+"VProp string \"d\"\n99999999999999999999:a\n");
    all("string big len", Z+"VProp string \"d\"\n9223372036854775807:a\n");
    all("string len > data", Z+"VProp string \"d\"\n100:a\n");
    all("string neg len", Z+"VProp string \"d\"\n-1:a\n");
    all("vector huge", Z+"VProp vector_double \"d\"\n99999999999999999999\n1\n");
    all("vector 2^62", Z+"VProp vector_double \"d\"\n4611686018427387904\n1\n");
    all("vector neg", Z+"VProp vector_double \"d\"\n-1\n1\n");
    all("vvhf huge", Z+"MProp vector_vector_hfh \"d\"\n2\n99999999999\n1\n");
    all("map huge", Z+"VProp map_heh_int \"d\"\n99999999999999\n1 2\n");
    all("mprop", Z+"MProp int \"d\"\n5\n6\n7\n");
    all("bool weird", Z+"VProp bool \"d\"\n2\ntrue\n");
    all("vec3 short", Z+"VProp vec3d \"d\"\n1 2\n3\n");
    all("crlf", "OVM ASCII\r\nVertices\r\n1\r\n0 0 0\r\nEdges\r\n0\r\nFaces\r\n0\r\nPolyhedra\r\n0\r\n");
    all("nul bytes", std::string("OVM ASCII\nVertices\n1\n0 0\0 0\nEdges\n0\nFaces\n0\nPolyhedra\n0\n",57));
    all("loop edge + 1-face", "OVM ASCII\nVertices\n1\n0 0 0\nEdges\n1\n0 0\nFaces\n1\n1 0\nPolyhedra\n1\n1 0\n");
    all("cell same hf many", V+E+F+"Polyhedra\n1\n6 0 0 0 1 1 1\n");
    return g_fail;
}
