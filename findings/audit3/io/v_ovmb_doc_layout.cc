// C06 sentence 2: "The bytes the OVMB writer produces decode under the published format description to that same mesh".
// /repo/documentation/subpages/binary_file_format.docu publishes
//   FileHeader { u8 file_version; u8 header_version; u8 vertex_dim; VertexEncoding vertex_encoding; TopoType topo_type; 3 bytes padding; 4 x u64 }
//   ChunkHeader.file_length = "number of payload bytes, excluding chunk header and padding"
//   VertexChunkHeader.enc "must match the VertexEncoding given in the file header"
// The writer (ovmb_codec.cc write(FileHeader)/BinaryFileWriter::write_chunk) emits
//   file_version, header_version, vertex_dim, topo_type, 4 reserved bytes   and   file_length = payload + padding.
// Decoding the writer's bytes by the published layout gives another mesh kind / an inconsistent file.
#include "common.hh"
int main(){
    TetrahedralMesh t; auto a=t.add_vertex(Vec3d(0,0,0)),b=t.add_vertex(Vec3d(1,0,0)),c=t.add_vertex(Vec3d(0,1,0)),d=t.add_vertex(Vec3d(0,0,1)); t.add_cell(a,b,c,d);
    auto s=ovmb_write_s(t); auto u=[&](size_t i){return (unsigned)(unsigned char)s[i];};
    unsigned doc_vertex_encoding=u(11), doc_topo_type=u(12);
    // first chunk header at 48: type(4) version pad compression flags file_length(8)
    size_t off=48; std::string ty=s.substr(off,4); unsigned pad=u(off+5); uint64_t flen=0; for(int i=0;i<8;++i) flen|=(uint64_t)u(off+8+i)<<(8*i);
    while(ty!="VERT"){ off+=16+flen; ty=s.substr(off,4); pad=u(off+5); flen=0; for(int i=0;i<8;++i) flen|=(uint64_t)u(off+8+i)<<(8*i);} 
    unsigned vert_enc=u(off+16+12);
    std::cout<<"doc layout: vertex_encoding="<<doc_vertex_encoding<<" topo_type="<<doc_topo_type<<"; VERT chunk enc="<<vert_enc<<" pad="<<pad<<" file_length="<<flen<<" (payload "<<12+4+4*24<<")\n";
    if(doc_topo_type!=1) FAIL("tetrahedral mesh: topo_type byte at the published offset is "<<doc_topo_type<<" (Polyhedral), the writer stores it one byte earlier, where the description has vertex_encoding");
    if(doc_vertex_encoding!=vert_enc) FAIL("header vertex_encoding (published offset) = "<<doc_vertex_encoding<<" but VERT chunk enc = "<<vert_enc<<" (description: must match)");
    if(pad && flen != 12+4+4*24) FAIL("file_length "<<flen<<" includes the "<<pad<<" padding bytes; the description says it excludes them");
    return g_fail;
}
