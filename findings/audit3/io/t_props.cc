#include "common.hh"
#include <map>
template<class M> void build(M &m){
    for(int i=0;i<5;++i) m.add_vertex(Vec3d(i*0.25, i*1.5, -i));
    auto V=[&](int i){return VertexHandle(i);};
    auto f0=m.add_face({V(0),V(1),V(2)}); auto f1=m.add_face({V(0),V(2),V(3)}); auto f2=m.add_face({V(0),V(3),V(1)}); auto f3=m.add_face({V(1),V(3),V(2)});
    m.add_cell({m.halfface_handle(f0,1),m.halfface_handle(f1,1),m.halfface_handle(f2,1),m.halfface_handle(f3,1)});
}
template<class T, class Tag, class M> void cmp(M const&a, M const&b, std::string name, const char*fmt, bool cmpdef){
    auto pa=a.template get_property<T,Tag>(name); auto pb=b.template get_property<T,Tag>(name);
    if(!pa){ std::cout<<"harness: missing in source "<<name<<"\n"; return; }
    if(!pb){ FAIL(fmt<<": property '"<<name<<"' ("<<typeid(T).name()<<","<<typeid(Tag).name()<<") missing after read"); return; }
    if(!pb->persistent()) FAIL(fmt<<": '"<<name<<"' not persistent");
    if(pa->size()!=pb->size()){ FAIL(fmt<<": '"<<name<<"' size"); return; }
    for(size_t i=0;i<pa->size();++i){ using H=HandleT<Tag>; if(!((*pa)[H((int)i)]==(*pb)[H((int)i)])) { FAIL(fmt<<": '"<<name<<"' ("<<typeid(T).name()<<","<<typeid(Tag).name()<<") value "<<i<<" differs"); break; } }
    if(cmpdef && !(pa->def()==pb->def())) FAIL(fmt<<": '"<<name<<"' default differs");
}
int main(){
    PolyhedralMesh m; build(m);
    auto vx=m.request_vertex_property<int>("x",7); m.set_persistent(vx);
    auto ex=m.request_edge_property<int>("x",8); m.set_persistent(ex);
    auto hex=m.request_halfedge_property<int>("x",9); m.set_persistent(hex);
    auto fx=m.request_face_property<int>("x",10); m.set_persistent(fx);
    auto hfx=m.request_halfface_property<int>("x",11); m.set_persistent(hfx);
    auto cx=m.request_cell_property<int>("x",12); m.set_persistent(cx);
    auto mx=m.request_mesh_property<int>("x",13); m.set_persistent(mx);
    auto vxd=m.request_vertex_property<double>("x",0.5); m.set_persistent(vxd);
    for(int i=0;i<5;++i){ vx[VertexHandle(i)]=i*3-4; vxd[VertexHandle(i)]=i*0.125; }
    for(size_t i=0;i<m.n_edges();++i) ex[EdgeHandle(i)]=100+i;
    for(size_t i=0;i<m.n_halfedges();++i) hex[HalfEdgeHandle(i)]=200+i;
    for(size_t i=0;i<m.n_faces();++i) fx[FaceHandle(i)]=300+i;
    for(size_t i=0;i<m.n_halffaces();++i) hfx[HalfFaceHandle(i)]=400+i;
    cx[CellHandle(0)]=-500; mx[MeshHandle(0)]=600;
    auto vs=m.request_vertex_property<std::string>("s p a c e","dflt"); m.set_persistent(vs);
    vs[VertexHandle(0)]="hello world"; vs[VertexHandle(1)]=""; vs[VertexHandle(2)]=" lead\"quote\" "; vs[VertexHandle(3)]="#hash\nVProp int \"z\""; vs[VertexHandle(4)]="5:abc";
    auto vb=m.request_vertex_property<bool>("#b",true); m.set_persistent(vb); vb[VertexHandle(1)]=false; vb[VertexHandle(4)]=false;
    auto vf=m.request_vertex_property<float>(" f ",1.5f); m.set_persistent(vf); vf[VertexHandle(2)]=-0.75f;
    auto v3=m.request_face_property<Vec3d>("v3",Vec3d(1,2,3)); m.set_persistent(v3); v3[FaceHandle(1)]=Vec3d(-1,0.5,4);
    auto u8=m.request_cell_property<uint8_t>("u8",200); m.set_persistent(u8);
    auto i64=m.request_mesh_property<int64_t>("i64",-(1ll<<40)); m.set_persistent(i64); i64[MeshHandle(0)]=(1ll<<50)+3;
    auto u64=m.request_edge_property<uint64_t>("u64",~0ull); m.set_persistent(u64); u64[EdgeHandle(1)]=1ull<<63;
    auto hvh=m.request_halfedge_property<VertexHandle>("vh",VertexHandle(-1)); m.set_persistent(hvh); hvh[HalfEdgeHandle(3)]=VertexHandle(2);
    // OVMB
    {
        OIO::WriteResult wr; auto s=ovmb_write_s(m,&wr); if(wr!=OIO::WriteResult::Ok) FAIL("ovmb write");
        for(int pre=0;pre<2;++pre){
        PolyhedralMesh r;
        if(pre){ build(r); r.add_vertex(Vec3d(9,9,9)); auto q=r.request_vertex_property<int>("stale",1); r.set_persistent(q);
                 auto q2=r.request_vertex_property<float>("x",2.f); r.set_persistent(q2); auto q3=r.request_vertex_property<int>("x",99); r.set_persistent(q3); for(auto v:r.vertices()) q3[v]=1234; }
        auto rr=ovmb_read_s(s,r); if(rr!=OIO::ReadResult::Ok){FAIL("ovmb read "<<OIO::to_string(rr)); continue;}
        std::string why; if(!same_topo(m,r,why)) FAIL("ovmb topo "<<why); if(!valid_mesh(r,why)) FAIL("ovmb invalid: "<<why);
        std::string F = pre? "ovmb(into non-empty mesh)":"ovmb";
        cmp<int,Entity::Vertex>(m,r,"x",F.c_str(),true); cmp<int,Entity::Edge>(m,r,"x",F.c_str(),true); cmp<int,Entity::HalfEdge>(m,r,"x",F.c_str(),true); cmp<int,Entity::Face>(m,r,"x",F.c_str(),true);
        cmp<int,Entity::HalfFace>(m,r,"x",F.c_str(),true); cmp<int,Entity::Cell>(m,r,"x",F.c_str(),true); cmp<int,Entity::Mesh>(m,r,"x",F.c_str(),true); cmp<double,Entity::Vertex>(m,r,"x",F.c_str(),true);
        cmp<std::string,Entity::Vertex>(m,r,"s p a c e",F.c_str(),true); cmp<bool,Entity::Vertex>(m,r,"#b",F.c_str(),true); cmp<float,Entity::Vertex>(m,r," f ",F.c_str(),true);
        cmp<Vec3d,Entity::Face>(m,r,"v3",F.c_str(),true); cmp<uint8_t,Entity::Cell>(m,r,"u8",F.c_str(),true); cmp<int64_t,Entity::Mesh>(m,r,"i64",F.c_str(),true); cmp<uint64_t,Entity::Edge>(m,r,"u64",F.c_str(),true);
        cmp<VertexHandle,Entity::HalfEdge>(m,r,"vh",F.c_str(),true);
        if(n_persistent(r)!=n_persistent(m)) FAIL(F<<": number of persistent props "<<n_persistent(r)<<" vs "<<n_persistent(m));
        }
    }
    // ASCII (drop types not in typeName list: uint8_t=uchar known-bad, int64=long ok, u64=ulong ok, VertexHandle not in list)
    {
        m.set_persistent(u8,false); m.set_persistent(hvh,false);
        auto vd=m.request_vertex_property<std::vector<double>>("vd"); m.set_persistent(vd); vd[VertexHandle(0)]={1.5,2.25}; vd[VertexHandle(3)]={-8};
        auto mp=m.request_edge_property<std::map<HalfEdgeHandle,int>>("map"); m.set_persistent(mp); mp[EdgeHandle(0)][HalfEdgeHandle(3)]=4; mp[EdgeHandle(0)][HalfEdgeHandle(1)]=-2;
        auto vv=m.request_cell_property<std::vector<VertexHandle>>("vvh"); m.set_persistent(vv); vv[CellHandle(0)]={VertexHandle(3),VertexHandle(-1)};
        auto vh=m.request_face_property<std::vector<HalfFaceHandle>>("vhf"); m.set_persistent(vh); vh[FaceHandle(2)]={HalfFaceHandle(1)};
        auto vvh=m.request_mesh_property<std::vector<std::vector<HalfFaceHandle>>>("vvhf"); m.set_persistent(vvh); vvh[MeshHandle(0)]={{HalfFaceHandle(1)},{},{HalfFaceHandle(2),HalfFaceHandle(0)}};
        auto sh=m.request_vertex_property<short>("sh",-3); m.set_persistent(sh); sh[VertexHandle(1)]=-32768;
        auto ui=m.request_vertex_property<unsigned int>("ui",3); m.set_persistent(ui); ui[VertexHandle(1)]=4294967295u;
        auto v2f=m.request_halfface_property<Geometry::Vec2f>("v2f"); m.set_persistent(v2f); v2f[HalfFaceHandle(1)]=Geometry::Vec2f(0.5f,-2.f);
        auto v4i=m.request_halfedge_property<Geometry::Vec4i>("v4i"); m.set_persistent(v4i); v4i[HalfEdgeHandle(1)]=Geometry::Vec4i(1,-2,3,-4);
        auto s=ascii_write(m);
        for(int pre=0;pre<2;++pre){
        PolyhedralMesh r;
        if(pre){ build(r); r.add_vertex(Vec3d(9,9,9)); auto q=r.request_vertex_property<int>("stale",1); r.set_persistent(q);
                 auto q2=r.request_vertex_property<std::string>("s p a c e","OLD"); r.set_persistent(q2); for(auto v:r.vertices()) q2[v]="oldval"; }
        bool ok=ascii_read(s,r); if(!ok){FAIL("ascii read"); std::cout<<s; continue;}
        std::string why; if(!same_topo(m,r,why)) FAIL("ascii topo "<<why); if(!valid_mesh(r,why)) FAIL("ascii invalid: "<<why);
        std::string F = pre? "ascii(into non-empty mesh)":"ascii";
        cmp<int,Entity::Vertex>(m,r,"x",F.c_str(),false); cmp<int,Entity::Edge>(m,r,"x",F.c_str(),false); cmp<int,Entity::HalfEdge>(m,r,"x",F.c_str(),false); cmp<int,Entity::Face>(m,r,"x",F.c_str(),false);
        cmp<int,Entity::HalfFace>(m,r,"x",F.c_str(),false); cmp<int,Entity::Cell>(m,r,"x",F.c_str(),false); cmp<int,Entity::Mesh>(m,r,"x",F.c_str(),false); cmp<double,Entity::Vertex>(m,r,"x",F.c_str(),false);
        cmp<std::string,Entity::Vertex>(m,r,"s p a c e",F.c_str(),false); cmp<bool,Entity::Vertex>(m,r,"#b",F.c_str(),false); cmp<float,Entity::Vertex>(m,r," f ",F.c_str(),false);
        cmp<Vec3d,Entity::Face>(m,r,"v3",F.c_str(),false); cmp<int64_t,Entity::Mesh>(m,r,"i64",F.c_str(),false); cmp<uint64_t,Entity::Edge>(m,r,"u64",F.c_str(),false);
        cmp<std::vector<double>,Entity::Vertex>(m,r,"vd",F.c_str(),false); cmp<std::map<HalfEdgeHandle,int>,Entity::Edge>(m,r,"map",F.c_str(),false);
        cmp<std::vector<VertexHandle>,Entity::Cell>(m,r,"vvh",F.c_str(),false); cmp<std::vector<HalfFaceHandle>,Entity::Face>(m,r,"vhf",F.c_str(),false);
        cmp<std::vector<std::vector<HalfFaceHandle>>,Entity::Mesh>(m,r,"vvhf",F.c_str(),false);
        cmp<short,Entity::Vertex>(m,r,"sh",F.c_str(),false); cmp<unsigned int,Entity::Vertex>(m,r,"ui",F.c_str(),false);
        cmp<Geometry::Vec2f,Entity::HalfFace>(m,r,"v2f",F.c_str(),false); cmp<Geometry::Vec4i,Entity::HalfEdge>(m,r,"v4i",F.c_str(),false);
        if(n_persistent(r)!=n_persistent(m)) FAIL(F<<": number of persistent props "<<n_persistent(r)<<" vs "<<n_persistent(m));
        }
    }
    return g_fail;
}
