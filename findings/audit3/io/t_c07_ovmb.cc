#include "common.hh"
struct B { std::string s;
  B& u8(uint8_t v){s.push_back((char)v);return *this;} B& u16(uint16_t v){u8(v&255);u8(v>>8);return *this;} B& u32(uint32_t v){u16(v&65535);u16(v>>16);return *this;}
  B& u64(uint64_t v){u32((uint32_t)v);u32(v>>32);return *this;} B& dbl(double d){uint64_t t;memcpy(&t,&d,8);return u64(t);} B& raw(std::string const&x){s+=x;return *this;}
  B& str(std::string const&x){u32(x.size());s+=x;return *this;} };
std::string header(uint8_t dim,uint8_t topo,uint64_t nv,uint64_t ne,uint64_t nf,uint64_t nc){ B b; b.raw(std::string("OVMB\n\r\n\xff",8)); b.u8(1).u8(1).u8(dim).u8(topo).u32(0).u64(nv).u64(ne).u64(nf).u64(nc); return b.s; }
std::string chunk(const char*type,std::string payload,uint8_t flags=1){ B b; size_t pad=(8-payload.size()%8)%8; b.raw(std::string(type,4)).u8(0).u8(pad).u8(0).u8(flags).u64(payload.size()+pad).raw(payload).raw(std::string(pad,'\0')); return b.s; }
std::string verts(uint64_t first,std::vector<double> xs,int dim=3){ B b; b.u64(first).u32(xs.size()/dim).u8(2).u8(0).u8(0).u8(0); for(double d:xs)b.dbl(d); return chunk("VERT",b.s); }
std::string topo(uint8_t ent,uint64_t first,uint32_t count,uint8_t valence,uint8_t valenc,uint8_t henc,uint64_t off,std::vector<uint32_t> vals,std::vector<uint32_t> hs){
  B b; b.u64(first).u32(count).u8(ent).u8(valence).u8(valenc).u8(henc).u64(off); auto put=[&](uint8_t e,uint32_t v){ if(e==1)b.u8(v); else if(e==2)b.u16(v); else b.u32(v); };
  for(auto v:vals)put(valenc,v); for(auto h:hs)put(henc,h); return chunk("TOPO",b.s); }
std::string dirent(uint8_t kind,std::string name,std::string type,std::string def){ B b; b.u8(kind).str(name).str(type).str(def); return b.s; }
std::string prop(uint64_t first,uint32_t count,uint32_t idx,std::string data){ B b; b.u64(first).u32(count).u32(idx).raw(data); return chunk("PROP",b.s); }
std::string eof(){ return chunk("EOF ",""); }
template<class M> void run(std::string const& name, std::string const& file, bool expect_ok=false){
    for(int tc=0;tc<2;++tc){ M m; OIO::ReadResult rr;
        try { rr=ovmb_read_s(file,m,tc,true); } catch(std::bad_alloc&){ std::cout<<name<<": bad_alloc\n"; continue;} catch(std::length_error&){std::cout<<name<<": length_error\n";continue;}
        catch(std::exception&e){ FAIL(name<<": exception escaped "<<e.what()); continue; }
        std::string why; bool ok = rr==OIO::ReadResult::Ok;
        if(ok && !valid_mesh(m,why)) FAIL(name<<" tc="<<tc<<" "<<typeid(M).name()<<": Ok with invalid mesh: "<<why);
        if(tc==0) std::cout<<name<<" ["<<typeid(M).name()[0]<<"]: "<<OIO::to_string(rr)<<(ok? " v/e/f/c="+std::to_string(m.n_vertices())+"/"+std::to_string(m.n_edges())+"/"+std::to_string(m.n_faces())+"/"+std::to_string(m.n_cells())+" props="+std::to_string(n_persistent(m)):"")<<"\n";
        if(expect_ok && !ok) FAIL(name<<": permitted encoding rejected: "<<OIO::to_string(rr));
    } }
void all(std::string const& n,std::string const&f,bool e=false){ run<PolyhedralMesh>(n,f,e); }
int main(){
    std::vector<double> P{0,0,0, 1,0,0, 0,1,0, 0,0,1};
    std::string VE = verts(0,P);
    std::string ED = topo(1,0,3,2,0,1,0,{},{0,1, 1,2, 2,0});
    std::string FA = topo(2,0,1,3,0,1,0,{},{0,2,4});
    all("baseline", header(3,0,4,3,1,0)+VE+ED+FA+eof(), true);
    all("no VERT chunk", header(3,0,4,0,0,0)+eof());
    for(int d: {0,1,2,4,255}) all("vertex_dim "+std::to_string(d), header(d,0,4,0,0,0)+verts(0,P,d?std::min(d,4):1)+eof());
    all("faces before edges", header(3,0,4,3,1,0)+VE+FA+ED+eof());
    all("edges before verts", header(3,0,4,3,1,0)+ED+VE+FA+eof());
    all("zero-count topo", header(3,0,4,3,1,0)+VE+ED+topo(2,1,0,3,0,1,0,{},{})+FA+eof());
    all("overlapping span", header(3,0,4,3,1,0)+VE+topo(1,0,2,2,0,1,0,{},{0,1,1,2})+topo(1,1,2,2,0,1,0,{},{1,2,2,0})+FA+eof());
    all("split spans", header(3,0,4,3,1,0)+verts(0,{0,0,0,1,0,0})+verts(2,{0,1,0,0,0,1})+topo(1,0,2,2,0,1,0,{},{0,1,1,2})+topo(1,2,1,2,0,4,0,{},{2,0})+FA+eof(), true);
    all("offset", header(3,0,4,3,1,0)+VE+topo(1,0,3,2,0,2,1,{},{0xffff,0, 0,1, 1,0xffff})+eof());
    all("offset ok", header(3,0,4,3,1,0)+VE+topo(1,0,3,2,0,1,1,{},{0,1, 1,2, 2,0})+topo(2,0,1,0,4,2,1,{3},{4,2,0})+eof(), true);
    all("tet header w/ quad", header(3,1,4,4,1,0)+VE+topo(1,0,4,2,0,1,0,{},{0,1,1,2,2,3,3,0})+topo(2,0,1,4,0,1,0,{},{0,2,4,6})+eof());
    all("edge vertex oob", header(3,0,4,1,0,0)+VE+topo(1,0,1,2,0,1,0,{},{0,4})+eof());
    all("face he oob", header(3,0,4,3,1,0)+VE+ED+topo(2,0,1,3,0,1,0,{},{0,2,6})+eof());
    all("cell hf oob", header(3,0,4,3,1,1)+VE+ED+FA+topo(3,0,1,2,0,1,0,{},{0,2})+eof());
    all("cell ok", header(3,0,4,3,1,1)+VE+ED+FA+topo(3,0,1,2,0,1,0,{},{0,1})+eof(), true);
    all("valence0 in list", header(3,0,4,3,1,0)+VE+ED+topo(2,0,1,0,1,1,0,{0},{})+eof());
    std::string D = chunk("DIRP", dirent(0,"a","i32",std::string("\x07\0\0\0",4)) + dirent(0,"a","i32",std::string("\x08\0\0\0",4)) + dirent(0,"a","d",std::string(8,'\0')) + dirent(6,"m","s32",std::string("\x01\0\0\0x",5)));
    std::string I4(16,'\1');
    all("dup dir entries", header(3,0,4,0,0,0)+D+VE+prop(0,4,0,I4)+prop(0,4,1,I4)+eof(), true);
    all("prop idx oob", header(3,0,4,0,0,0)+D+VE+prop(0,4,4,I4)+eof());
    all("prop before dir", header(3,0,4,0,0,0)+VE+prop(0,4,0,I4)+D+eof());
    all("dir after verts", header(3,0,4,0,0,0)+VE+D+prop(0,4,0,I4)+eof(), true);
    all("prop before verts", header(3,0,4,0,0,0)+D+prop(0,4,0,I4)+VE+eof());
    all("prop partial spans", header(3,0,4,0,0,0)+D+VE+prop(2,2,0,std::string(8,'\2'))+prop(0,1,0,std::string(4,'\3'))+eof(), true);
    all("mesh prop span 2", header(3,0,4,0,0,0)+D+VE+prop(0,2,3,std::string("\x01\0\0\0y\x01\0\0\0z",10))+eof());
    all("string huge len", header(3,0,4,0,0,0)+D+VE+prop(0,1,3,std::string("\xff\xff\xff\xffy",5))+eof());
    all("invalid kind", header(3,0,4,0,0,0)+chunk("DIRP",dirent(7,"a","i32",std::string(4,'\0')))+VE+eof());
    all("invalid kind unknown type", header(3,0,4,0,0,0)+chunk("DIRP",dirent(7,"a","zz",std::string(4,'\0')))+VE+eof());
    all("empty name", header(3,0,4,0,0,0)+chunk("DIRP",dirent(0,"","i32",std::string(4,'\0')))+VE+eof());
    all("unknown type + prop", header(3,0,4,0,0,0)+chunk("DIRP",dirent(0,"q","zz",std::string(3,'\0')))+VE+prop(0,4,0,"abc")+eof(), true);
    all("optional unknown chunk", header(3,0,4,0,0,0)+chunk("XXXX","hello",0)+VE+eof(), true);
    all("mandatory unknown chunk", header(3,0,4,0,0,0)+chunk("XXXX","hello",1)+VE+eof());
    all("float verts", header(3,0,1,0,0,0)+chunk("VERT",B().u64(0).u32(1).u8(1).u8(0).u8(0).u8(0).u32(0x3f800000).u32(0).u32(0xbf800000).s)+eof(), true);
    all("u32 valences", header(3,0,4,3,1,0)+VE+ED+topo(2,0,1,0,4,4,0,{3},{0,2,4})+eof(), true);
    all("big valence sum", header(3,0,4,3,2,0)+VE+ED+topo(2,0,2,0,4,1,0,{0xffffffff,4},{0,2,4})+eof());
    all("bool prop", header(3,0,4,0,0,0)+chunk("DIRP",dirent(0,"b","b",std::string("\1",1)))+VE+prop(0,4,0,std::string("\x05",1))+eof(), true);
    all("bool prop split 3+1", header(3,0,4,0,0,0)+chunk("DIRP",dirent(0,"b","b",std::string("\1",1)))+VE+prop(0,3,0,std::string("\x05",1))+prop(3,1,0,std::string("\x01",1))+eof(), true);
    return g_fail;
}
