#include "common.hh"
int main(){
    PolyhedralMesh m;
    for(int i=0;i<7;++i) m.add_vertex(Vec3d(i*0.25, i*1.5, -i));
    auto V=[&](int i){return VertexHandle(i);};
    auto e0=m.add_edge(V(5),V(2));      // direction matters
    auto e1=m.add_edge(V(2),V(0));
    auto e2=m.add_edge(V(0),V(5));
    auto e3=m.add_edge(V(5),V(2),true); // duplicate
    auto e4=m.add_edge(V(2),V(5),true); // duplicate reversed
    auto e5=m.add_edge(V(3),V(3),true); // loop
    auto H=[&](EdgeHandle e,int s){return m.halfedge_handle(e,s);};
    auto f0=m.add_face({H(e0,0),H(e1,0),H(e2,0)});
    auto f1=m.add_face({H(e0,0),H(e1,0),H(e2,0)}); // same halfedges
    auto f2=m.add_face({H(e1,0),H(e2,0),H(e0,0)}); // rotated
    auto f3=m.add_face({H(e0,0),H(e4,0)}); // valence 2
    auto f4=m.add_face({H(e5,0)}); // valence 1
    auto f5=m.add_face({H(e0,0),H(e0,1)}); // both halfedges
    std::cout<<"faces "<<f0.idx()<<f1.idx()<<f2.idx()<<f3.idx()<<f4.idx()<<f5.idx()<<" n_faces="<<m.n_faces()<<"\n";
    auto c0=m.add_cell({m.halfface_handle(f0,0),m.halfface_handle(f0,1)});
    auto c1=m.add_cell({m.halfface_handle(f0,0),m.halfface_handle(f1,1)});
    auto c2=m.add_cell({m.halfface_handle(f3,1)});
    std::cout<<"cells "<<c0.idx()<<c1.idx()<<c2.idx()<<" n_cells="<<m.n_cells()<<"\n";
    std::string why;
    for (int tc=0; tc<2; ++tc) for (int bu=0; bu<2; ++bu) {
        { PolyhedralMesh r; auto s=ascii_write(m); bool ok=ascii_read(s,r,tc,bu);
          if(!ok){ if(!tc) FAIL("ascii read failed tc="<<tc); else NOTE("ascii tc=1 rejected"); }
          else { if(!same_topo(m,r,why)) FAIL("ascii tc="<<tc<<" bu="<<bu<<": "<<why);
                 for(int i=0;i<7;++i) if(m.vertex(V(i))!=r.vertex(V(i))) FAIL("ascii pos "<<i);
                 auto s2=ascii_write(r); if(s2!=s) FAIL("ascii second round trip differs"); } }
        { PolyhedralMesh r; OIO::WriteResult wr; auto s=ovmb_write_s(m,&wr); if(wr!=OIO::WriteResult::Ok) FAIL("ovmb write");
          auto rr=ovmb_read_s(s,r,tc,bu);
          if(rr!=OIO::ReadResult::Ok){ if(!tc) FAIL("ovmb read failed tc=0: "<<OIO::to_string(rr)); else NOTE("ovmb tc=1 rejected"); }
          else { if(!same_topo(m,r,why)) FAIL("ovmb tc="<<tc<<" bu="<<bu<<": "<<why);
                 for(int i=0;i<7;++i) if(m.vertex(V(i))!=r.vertex(V(i))) FAIL("ovmb pos "<<i);
                 if (bu && !(r.has_vertex_bottom_up_incidences()&&r.has_edge_bottom_up_incidences()&&r.has_face_bottom_up_incidences())) FAIL("bu not enabled");
                 if (ovmb_write_s(r)!=s) FAIL("ovmb rewrite differs"); } }
    }
    return g_fail;
}
