// C01: valence(E) ("number of incident faces") and edge->faces equal a brute-force scan. 2-gon add_face({a,b}) uses both halfedges of one edge.
#include <OpenVolumeMesh/Mesh/PolyhedralMesh.hh>
#include <iostream>
using namespace OpenVolumeMesh;
int main(){
  TopologyKernel m; auto a=m.add_vertex(), b=m.add_vertex();
  auto f=m.add_face(std::vector<VertexHandle>{a,b});
  if(!f.is_valid()||m.n_edges()!=1){std::cout<<"setup: f="<<f.idx()<<" n_edges="<<m.n_edges()<<"\n";return 2;}
  int bad=0;
  size_t brute=0; for(int i=0;i<(int)m.n_faces();++i){ bool inc=false; for(auto he:m.face(FaceHandle(i)).halfedges()) if(he.idx()/2==0) inc=true; brute+=inc; }
  if(m.valence(EdgeHandle(0))!=brute){ std::cout<<"valence(e0)="<<m.valence(EdgeHandle(0))<<" brute-force incident faces="<<brute<<"\n"; bad=1; }
  int n=0; for(auto it=m.ef_iter(EdgeHandle(0)); it.valid(); ++it) ++n;
  if(n!=(int)brute){ std::cout<<"ef_iter(e0) yields "<<n<<" faces, brute force "<<brute<<"\n"; bad=1; }
  n=0; for(auto it=m.vf_iter(a); it.valid(); ++it) ++n; if(n!=1){std::cout<<"vf_iter "<<n<<"\n";bad=1;}
  return bad;
}
