// C19: "norms ... min/max/mean reductions ... for all vectors of dimension 2,3,4 over int/unsigned/float/double"
#include <OpenVolumeMesh/Geometry/VectorT.hh>
#include <iostream>
using namespace OpenVolumeMesh::Geometry;
int main(){
  typedef VectorT<unsigned,3> V;
  V v(3u,1u,2u);
  int bad=0;
  if(v.max_abs()!=3u){std::cout<<"max_abs "<<v.max_abs()<<"\n";bad=1;}
  if(v.min_abs()!=1u){std::cout<<"min_abs "<<v.min_abs()<<"\n";bad=1;}
  if(v.l8_norm()!=3u){std::cout<<"l8_norm "<<v.l8_norm()<<"\n";bad=1;}
  return bad;
}
