#include <OpenVolumeMesh/Mesh/TetrahedralMesh.hh>
#include <OpenVolumeMesh/Mesh/TetrahedralGeometryKernel.hh>
#include <iostream>
using namespace OpenVolumeMesh;
using TM = TetrahedralGeometryKernel<Vec3d>;
static void dump(TM& m) {
    for (size_t i=0;i<m.n_edges();++i) std::cerr << " e" << i << "(" << m.edge(EdgeHandle(i)).from_vertex().idx() << "," << m.edge(EdgeHandle(i)).to_vertex().idx() << ")" << (m.is_deleted(EdgeHandle(i))?"D":""); std::cerr << "\n";
    for (size_t i=0;i<m.n_faces();++i) { std::cerr << " f" << i << "("; for (auto he: m.face(FaceHandle(i)).halfedges()) std::cerr << he.idx() << " "; std::cerr << ")" << (m.is_deleted(FaceHandle(i))?"D":""); } std::cerr << "\n";
    for (size_t i=0;i<m.n_cells();++i) { std::cerr << " c" << i << "("; for (auto hf: m.cell(CellHandle(i)).halffaces()) std::cerr << hf.idx() << " "; std::cerr << ")" << (m.is_deleted(CellHandle(i))?"D":""); } std::cerr << "\n";
}
static int sane(TM& m, const char* when) {
    for (auto c: m.cells()) for (auto hf: m.cell(c).halffaces()) if (hf.uidx() >= m.n_halffaces() || m.is_deleted(hf.face_handle())) { std::cerr << when << ": live cell " << c.idx() << " refers to nonexistent/deleted halfface " << hf.idx() << " (n_halffaces " << m.n_halffaces() << ")\n"; return 1; }
    for (auto f: m.faces()) for (auto he: m.face(f).halfedges()) if (he.uidx() >= m.n_halfedges() || m.is_deleted(he.edge_handle())) { std::cerr << when << ": live face " << f.idx() << " refers to nonexistent/deleted halfedge " << he.idx() << " (n_halfedges " << m.n_halfedges() << ")\n"; return 1; }
    for (auto f: m.faces()) { auto hes = m.face(f).halfedges(); for (size_t i = 0; i < hes.size(); ++i) if (m.to_vertex_handle(hes[i]) != m.from_vertex_handle(hes[(i+1)%hes.size()])) { std::cerr << when << ": live face " << f.idx() << " is not a closed loop\n"; return 1; } }
    return 0;
}
int main(int argc, char** argv) {
    int mode = argc > 1 ? atoi(argv[1]) : 1; // bit0 fast, bit1 deferred
    TM m; m.enable_deferred_deletion(mode & 2); m.enable_fast_deletion(mode & 1);
    VertexHandle v[4]; for (int i = 0; i < 4; ++i) v[i] = m.add_vertex(Vec3d(i==1, i==2, i==3));
    m.add_cell(v[0], v[1], v[2], v[3]);
    if (argc > 3) m.add_cell(v[0], v[2], v[1], v[3]);   // the same four faces seen from the other side
    std::cerr << "built: nv=" << m.n_vertices() << " ne=" << m.n_edges() << " nf=" << m.n_faces() << " nc=" << m.n_cells() << "\n"; dump(m);
    if (argc > 2) m.split_face(FaceHandle(0));
    std::cerr << "after split: nv=" << m.n_vertices() << " ne=" << m.n_edges() << " nf=" << m.n_faces() << " nc=" << m.n_cells() << "\n"; dump(m);
    if (sane(m, "after split_face")) return 1;
    m.delete_vertex(VertexHandle(argc > 4 ? atoi(argv[4]) : 3));
    std::cerr << "after delete_vertex(3): nv=" << m.n_vertices() << " ne=" << m.n_edges() << " nf=" << m.n_faces() << " nc=" << m.n_cells() << "\n"; dump(m);
    if (sane(m, "after delete_vertex")) return 1;
    return 0;
}
