// C03 randomized: one element per slot, defaults for new entities, values of all value types move together,
// positions follow; across growth paths, clear, copy/assign, split_edge/split_face, modes.
#include <OpenVolumeMesh/Mesh/TetrahedralMesh.hh>
#include <OpenVolumeMesh/Mesh/TetrahedralGeometryKernel.hh>
#include <functional>
#include <algorithm>
#include <OpenVolumeMesh/Mesh/PolyhedralMesh.hh>
#include <iostream>
#include <random>
#include <memory>
#include <sstream>
#include <set>
using namespace OpenVolumeMesh;
using TM = TetrahedralGeometryKernel<Vec3d>;
static std::mt19937 rng;
static int R(int n) { return n <= 0 ? 0 : (int)(rng() % (unsigned)n); }
static std::string trace;
[[noreturn]] static void die(std::string const& m) { std::cerr << "VIOLATION: " << m << "\n  history: " << trace << "\n"; exit(1); }

static int next_id = 0;
static Vec3d gpos(int id) { return Vec3d(id, id * 0.5, -id); }

template<class E> struct Set {
    std::optional<PropertyPtr<int, E>> id;          // persistent, def -1
    std::optional<PropertyPtr<bool, E>> b;          // shared, def true
    std::optional<PropertyPtr<std::string, E>> s;   // private, def "dflt"
    std::optional<PropertyPtr<double, E>> d;        // persistent def 2.5
    std::optional<PropertyPtr<std::vector<int>, E>> v; // shared def {7,8}
    std::optional<PropertyPtr<bool, E>> late;       // created mid-history (private bool def false)
    void bind(ResourceManager& m) {
        id = m.request_property<int, E>("id", -1); m.set_persistent(*id);
        b = m.request_property<bool, E>("b", true);
        s = m.create_private_property<std::string, E>("s", "dflt");
        d = m.request_property<double, E>("d", 2.5); m.set_persistent(*d);
        v = m.request_property<std::vector<int>, E>("v", std::vector<int>{7,8});
        late.reset();
    }
};
struct Zombie { std::shared_ptr<void> keep; std::function<size_t()> size; std::function<bool(size_t)> is_def; EntityType et; size_t prev; };

struct World {
    TM m;
    Set<Entity::Vertex> V; Set<Entity::Edge> E; Set<Entity::HalfEdge> HE; Set<Entity::Face> F; Set<Entity::HalfFace> HF; Set<Entity::Cell> C; Set<Entity::Mesh> M;
    std::vector<Zombie> zombies;
    void bind() { V.bind(m); E.bind(m); HE.bind(m); F.bind(m); HF.bind(m); C.bind(m); M.bind(m); }
};

template<class E, class S> void check_set(TM& m, S& st, const char* kind, bool is_vertex, std::function<bool(size_t)> deleted) {
    size_t n = m.template n<E>();
    auto chk = [&](auto& p, const char* nm) { if (p && p->size() != n) { std::ostringstream o; o << kind << " prop '" << nm << "' has " << p->size() << " elements, mesh has " << n << " slots"; die(o.str()); } };
    chk(st.id, "id"); chk(st.b, "b"); chk(st.s, "s"); chk(st.d, "d"); chk(st.v, "v"); chk(st.late, "late");
    using H = HandleT<E>;
    for (size_t i = 0; i < n; ++i) {
        H h((int)i);
        int id = (*st.id)[h];
        bool del = deleted(i);
        if (id == -1) {
            // new entity: everything default
            std::ostringstream o; o << kind << " slot " << i << " is new (id==-1) but ";
            if ((*st.b)[h] != true) { o << "bool prop != default true"; if(!del) die(o.str()); }
            if ((*st.s)[h] != "dflt") { o << "string prop == '" << (*st.s)[h] << "' != default"; if(!del) die(o.str()); }
            if ((*st.d)[h] != 2.5) { o << "double prop == " << (*st.d)[h] << " != default 2.5"; if(!del) die(o.str()); }
            if ((*st.v)[h] != std::vector<int>{7,8}) { o << "vector prop != default"; if(!del) die(o.str()); }
            if (st.late && (*st.late)[h] != false) { o << "late bool prop != default false"; if(!del) die(o.str()); }
            if (is_vertex) {
                // positions: must be default unless add_vertex(p) was used: we mark those by setting id right away
                if (!(m.vertex(VertexHandle((int)i)) == Vec3d(0,0,0))) { o << "position " << m.vertex(VertexHandle((int)i)) << " != default (0,0,0)"; if(!del) die(o.str()); }
            }
            id = next_id++;
            (*st.id)[h] = id; (*st.b)[h] = (id & 1); (*st.s)[h] = std::to_string(id); (*st.d)[h] = id * 0.25; (*st.v)[h] = std::vector<int>(id % 3, id);
            if (st.late) (*st.late)[h] = (id % 3 == 0);
            if (is_vertex) m.set_vertex(VertexHandle((int)i), gpos(id));
        } else if (!del) {
            std::ostringstream o; o << kind << " slot " << i << " id " << id << ": ";
            if ((*st.b)[h] != bool(id & 1)) { o << "bool prop detached"; die(o.str()); }
            if ((*st.s)[h] != std::to_string(id)) { o << "string prop '" << (*st.s)[h] << "' detached"; die(o.str()); }
            if ((*st.d)[h] != id * 0.25) { o << "double prop detached"; die(o.str()); }
            if ((*st.v)[h] != std::vector<int>(id % 3, id)) { o << "vector prop detached"; die(o.str()); }
            if (st.late && (*st.late)[h] != (id % 3 == 0)) { o << "late bool prop detached"; die(o.str()); }
            if (is_vertex && !(m.vertex(VertexHandle((int)i)) == gpos(id))) { o << "position " << m.vertex(VertexHandle((int)i)) << " != " << gpos(id); die(o.str()); }
        }
    }
}
static void check(World& w) {
    TM& m = w.m;
    for (auto c: m.cells()) for (auto hf: m.cell(c).halffaces()) if (!hf.is_valid() || hf.uidx() >= m.n_halffaces() || m.is_deleted(hf.face_handle())) { std::ostringstream o; o << "TOPOLOGY: live cell " << c.idx() << " refers to nonexistent/deleted halfface " << hf.idx() << " (n_halffaces " << m.n_halffaces() << ")"; die(o.str()); }
    for (auto f: m.faces()) for (auto he: m.face(f).halfedges()) if (!he.is_valid() || he.uidx() >= m.n_halfedges() || m.is_deleted(he.edge_handle())) { std::ostringstream o; o << "TOPOLOGY: live face " << f.idx() << " refers to nonexistent/deleted halfedge " << he.idx(); die(o.str()); }
    for (auto e: m.edges()) { auto E = m.edge(e); if (E.from_vertex().uidx() >= m.n_vertices() || E.to_vertex().uidx() >= m.n_vertices() || m.is_deleted(E.from_vertex()) || m.is_deleted(E.to_vertex())) { std::ostringstream o; o << "TOPOLOGY: live edge " << e.idx() << " refers to nonexistent/deleted vertex"; die(o.str()); } }
    check_set<Entity::Vertex>(m, w.V, "vertex", true, [&](size_t i){ return m.is_deleted(VertexHandle((int)i)); });
    check_set<Entity::Edge>(m, w.E, "edge", false, [&](size_t i){ return m.is_deleted(EdgeHandle((int)i)); });
    check_set<Entity::HalfEdge>(m, w.HE, "halfedge", false, [&](size_t i){ return m.is_deleted(HalfEdgeHandle((int)i)); });
    check_set<Entity::Face>(m, w.F, "face", false, [&](size_t i){ return m.is_deleted(FaceHandle((int)i)); });
    check_set<Entity::HalfFace>(m, w.HF, "halfface", false, [&](size_t i){ return m.is_deleted(HalfFaceHandle((int)i)); });
    check_set<Entity::Cell>(m, w.C, "cell", false, [&](size_t i){ return m.is_deleted(CellHandle((int)i)); });
    check_set<Entity::Mesh>(m, w.M, "mesh", false, [&](size_t){ return false; });
    // halfedge/halfface side: he id parity trick not available; check sides by separate rule: id of he(2e) < id of he(2e+1) assigned in order -> both assigned at same scan ascending
    for (auto e: m.edges()) { int a = (*w.HE.id)[m.halfedge_handle(e,0)], b = (*w.HE.id)[m.halfedge_handle(e,1)]; if (b != a + 1) { std::ostringstream o; o << "halfedge sides of edge " << e.idx() << " carry ids " << a << "," << b << " (expected consecutive: sides swapped or mixed)"; die(o.str()); } }
    for (auto f: m.faces()) { int a = (*w.HF.id)[m.halfface_handle(f,0)], b = (*w.HF.id)[m.halfface_handle(f,1)]; if (b != a + 1) { std::ostringstream o; o << "halfface sides of face " << f.idx() << " carry ids " << a << "," << b; die(o.str()); } }
    for (auto& z: w.zombies) {
        size_t n = 0;
        switch (z.et) { case EntityType::Vertex: n = m.n_vertices(); break; case EntityType::Edge: n = m.n_edges(); break; case EntityType::HalfEdge: n = m.n_halfedges(); break;
            case EntityType::Face: n = m.n_faces(); break; case EntityType::HalfFace: n = m.n_halffaces(); break; case EntityType::Cell: n = m.n_cells(); break; case EntityType::Mesh: n = 1; break; }
        if (z.size() != n) { std::ostringstream o; o << "old handle (entity type " << (int)z.et << ") has " << z.size() << " elements, mesh has " << n; die(o.str()); }
    }
}
template<class S> void zombify(World& w, S& st, EntityType et) {
    auto add = [&](auto& p) { if (!p) return; auto cp = std::make_shared<std::decay_t<decltype(*p)>>(*p); w.zombies.push_back({cp, [cp]{ return cp->size(); }, nullptr, et, cp->size()}); };
    add(st.id); add(st.b); add(st.s); add(st.d); add(st.v); add(st.late);
}
static void zombify_all(World& w) {
    zombify(w, w.V, EntityType::Vertex); zombify(w, w.E, EntityType::Edge); zombify(w, w.HE, EntityType::HalfEdge); zombify(w, w.F, EntityType::Face);
    zombify(w, w.HF, EntityType::HalfFace); zombify(w, w.C, EntityType::Cell); zombify(w, w.M, EntityType::Mesh);
    if (w.zombies.size() > 60) w.zombies.erase(w.zombies.begin(), w.zombies.begin() + 30);
}
template<class S> void refill1(S& st, size_t n) { using ET = typename std::decay_t<decltype(*st.id)>::EntityTagT;
    for (size_t i = 0; i < n; ++i) { HandleT<ET> h((int)i); int id = (*st.id)[h]; if (id == -1) continue;
        if ((*st.b)[h] != true || (*st.s)[h] != "dflt" || (*st.v)[h] != std::vector<int>{7,8}) die("fresh non-persistent prop on copied mesh is not default-filled");
        (*st.b)[h] = (id & 1); (*st.s)[h] = std::to_string(id); (*st.v)[h] = std::vector<int>(id % 3, id); } }
static void refill(World& w) { auto& m = w.m; refill1(w.V, m.n_vertices()); refill1(w.E, m.n_edges()); refill1(w.HE, m.n_halfedges()); refill1(w.F, m.n_faces()); refill1(w.HF, m.n_halffaces()); refill1(w.C, m.n_cells()); refill1(w.M, 1); }
static void claim(World& w, VertexHandle v) {
    auto& st = w.V; if ((*st.id)[v] != -1) die("split vertex is not new");
    if ((*st.b)[v] != true || (*st.s)[v] != "dflt" || (*st.d)[v] != 2.5 || (st.late && (*st.late)[v] != false)) die("split vertex props not default");
    int id = next_id++; (*st.id)[v] = id; (*st.b)[v] = (id & 1); (*st.s)[v] = std::to_string(id); (*st.d)[v] = id * 0.25; (*st.v)[v] = std::vector<int>(id % 3, id);
    if (st.late) (*st.late)[v] = (id % 3 == 0); w.m.set_vertex(v, gpos(id));
}
template<class H, class It> H pick_live(It b, It e) { std::vector<H> v(b, e); if (v.empty()) return H(-1); return v[R((int)v.size())]; }

#include <csignal>
struct Tr { template<class X> Tr& operator<<(X const& x) { std::ostringstream o; o << x; trace += o.str(); return *this; } };
static void onsig(int) { std::cerr << "CRASH history: " << trace << std::endl; _exit(3); }
int main(int argc, char** argv) { signal(SIGSEGV, onsig); signal(SIGABRT, onsig);
    int seeds = argc > 1 ? atoi(argv[1]) : 300, steps = argc > 2 ? atoi(argv[2]) : 60; int seed0 = argc > 3 ? atoi(argv[3]) : 0;
    for (int seed = seed0; seed < seed0 + seeds; ++seed) {
        rng.seed(seed); trace = "seed " + std::to_string(seed) + ":"; next_id = 0;
        auto w = std::make_unique<World>();
        w->m.enable_deferred_deletion(R(2)); w->m.enable_fast_deletion(R(2));
        trace += " def=" + std::to_string(w->m.deferred_deletion_enabled()) + " fast=" + std::to_string(w->m.fast_deletion_enabled());
        w->bind();
        for (int st = 0; st < steps; ++st) {
            TM& m = w->m;
            int op = R(24);
            Tr t;
            switch (op) {
            case 0: case 1: { t << " addv"; m.add_vertex(); break; }
            case 2: { int k = R(4); t << " addnv" << k; m.add_n_vertices(k); break; }
            case 3: { t << " reserve"; m.reserve_vertices(m.n_vertices() + 10); m.reserve_edges(m.n_edges() + 7); m.reserve_faces(m.n_faces() + 5); m.reserve_cells(m.n_cells() + 3); break; }
            case 4: case 5: case 6: case 7: { // add tet on 4 random live distinct vertices
                std::vector<VertexHandle> vs(m.vertices_begin(), m.vertices_end());
                if (vs.size() < 4) { m.add_vertex(); t << " addv'"; break; }
                std::shuffle(vs.begin(), vs.end(), rng);
                t << " addtet(" << vs[0].idx() << "," << vs[1].idx() << "," << vs[2].idx() << "," << vs[3].idx() << ")";
                {   // precondition of the statements: no halfface used by two live cells
                    auto used = [&](VertexHandle a, VertexHandle b, VertexHandle c) { auto hf = m.find_halfface(std::vector<VertexHandle>{a,b,c}); return hf.is_valid() && m.incident_cell(hf).is_valid(); };
                    if (used(vs[0],vs[1],vs[2]) || used(vs[0],vs[2],vs[3]) || used(vs[0],vs[3],vs[1]) || used(vs[1],vs[3],vs[2])) { t << "[skipped]"; break; }
                }
                {   bool dup = false; std::set<int> want{vs[0].idx(), vs[1].idx(), vs[2].idx(), vs[3].idx()};
                    for (auto c: m.cells()) { std::set<int> have; for (auto it = m.cv_iter(c); it.valid(); ++it) have.insert(it->idx()); if (have == want) dup = true; }
                    if (dup) { t << "[dup]"; break; } }
                m.add_cell(vs[0], vs[1], vs[2], vs[3]);
                break; }
            case 8: { auto h = pick_live<VertexHandle>(m.vertices_begin(), m.vertices_end()); if (!h.is_valid()) break; t << " delv" << h.idx(); m.delete_vertex(h); break; }
            case 9: { auto h = pick_live<EdgeHandle>(m.edges_begin(), m.edges_end()); if (!h.is_valid()) break; t << " dele" << h.idx(); m.delete_edge(h); break; }
            case 10: { auto h = pick_live<FaceHandle>(m.faces_begin(), m.faces_end()); if (!h.is_valid()) break; t << " delf" << h.idx(); m.delete_face(h); break; }
            case 11: { auto h = pick_live<CellHandle>(m.cells_begin(), m.cells_end()); if (!h.is_valid()) break; t << " delc" << h.idx(); m.delete_cell(h); break; }
            case 12: { t << " gc"; m.collect_garbage(); break; }
            case 13: { bool d = R(2); t << " deferred=" << d; m.enable_deferred_deletion(d); break; }
            case 14: { bool f = R(2); t << " fast=" << f; m.enable_fast_deletion(f); break; }
            case 15: { if (R(4)) break; bool cp = R(2); t << " clear(" << cp << ")"; if (cp) zombify_all(*w); m.clear(cp); if (cp) w->bind(); break; }
            case 16: { // copy-construct and continue on copy
                if (R(3)) break; t << " copyctor";
                auto n = std::make_unique<World>(); 
                // cannot copy-construct World::m in place; use assignment into fresh + separately test copy ctor
                TM c(m); n->m = c; n->bind(); refill(*n);
                w = std::move(n); break; }
            case 17: { // assign into a mesh that has own content and live handles
                if (R(3)) break; t << " assign";
                auto n = std::make_unique<World>(); n->m.enable_deferred_deletion(R(2));
                n->bind(); for (int i = 0; i < 5; ++i) n->m.add_vertex(); auto vs = std::vector<VertexHandle>(n->m.vertices_begin(), n->m.vertices_end()); n->m.add_cell(vs[0], vs[1], vs[2], vs[3]);
                if (R(2)) n->m.delete_vertex(vs[R(5)]);
                zombify_all(*n);
                n->m = m; n->bind(); refill(*n);
                w = std::move(n); break; }
            case 18: { auto a = pick_live<VertexHandle>(m.vertices_begin(), m.vertices_end()), b = pick_live<VertexHandle>(m.vertices_begin(), m.vertices_end()); if (!a.is_valid()) break; t << " swapv" << a.idx() << "," << b.idx(); m.swap_vertex_indices(a, b); break; }
            case 19: { auto h = pick_live<EdgeHandle>(m.edges_begin(), m.edges_end()); if (!h.is_valid()) break; if (R(2)) break;
                // split_edge needs bottom-up; ensure no garbage-dependent issue
                t << " split_edge" << h.idx(); auto v = m.split_edge(m.halfedge_handle(h, R(2)), 0.5); claim(*w, v); break; }
            case 20: { auto h = pick_live<FaceHandle>(m.faces_begin(), m.faces_end()); if (!h.is_valid()) break; if (R(2)) break;
                t << " split_face" << h.idx(); if (getenv("DUMP")) { std::cerr << "DUMP before split_face" << h.idx() << " def=" << m.deferred_deletion_enabled() << " fast=" << m.fast_deletion_enabled() << " nv=" << m.n_vertices() << "\n";
                  for (size_t i=0;i<m.n_vertices();++i) std::cerr << " v" << i << (m.is_deleted(VertexHandle(i))?"D":"") ; std::cerr << "\n";
                  for (size_t i=0;i<m.n_edges();++i) std::cerr << " e" << i << "(" << m.edge(EdgeHandle(i)).from_vertex().idx() << "," << m.edge(EdgeHandle(i)).to_vertex().idx() << ")" << (m.is_deleted(EdgeHandle(i))?"D":""); std::cerr << "\n";
                  for (size_t i=0;i<m.n_faces();++i) { std::cerr << " f" << i << "("; for (auto he: m.face(FaceHandle(i)).halfedges()) std::cerr << he.idx() << " "; std::cerr << ")" << (m.is_deleted(FaceHandle(i))?"D":""); } std::cerr << "\n";
                  for (size_t i=0;i<m.n_cells();++i) { std::cerr << " c" << i << "("; for (auto hf: m.cell(CellHandle(i)).halffaces()) std::cerr << hf.idx() << " "; std::cerr << ")" << (m.is_deleted(CellHandle(i))?"D":""); } std::cerr << "\n"; } auto v = m.split_face(h); claim(*w, v); break; }
            case 21: { // create late props
                t << " late";
                w->V.late = m.create_private_property<bool, Entity::Vertex>("late", false); w->E.late = m.create_private_property<bool, Entity::Edge>("late", false);
                w->HE.late = m.create_private_property<bool, Entity::HalfEdge>("late", false); w->F.late = m.create_private_property<bool, Entity::Face>("late", false);
                w->HF.late = m.create_private_property<bool, Entity::HalfFace>("late", false); w->C.late = m.create_private_property<bool, Entity::Cell>("late", false);
                w->M.late = m.create_private_property<bool, Entity::Mesh>("late", false);
                // fill to expected
                auto fill = [&](auto& st, size_t n) { using ET = typename std::decay_t<decltype(*st.id)>::EntityTagT; for (size_t i = 0; i < n; ++i) { HandleT<ET> h((int)i); int id = (*st.id)[h]; if (id != -1) (*st.late)[h] = (id % 3 == 0); } };
                fill(w->V, m.n_vertices()); fill(w->E, m.n_edges()); fill(w->HE, m.n_halfedges()); fill(w->F, m.n_faces()); fill(w->HF, m.n_halffaces()); fill(w->C, m.n_cells()); fill(w->M, 1);
                break; }
            case 22: { auto a = pick_live<CellHandle>(m.cells_begin(), m.cells_end()), b = pick_live<CellHandle>(m.cells_begin(), m.cells_end()); if (!a.is_valid()) break; t << " swapc" << a.idx() << "," << b.idx(); m.swap_cell_indices(a, b); break; }
            case 23: { auto a = pick_live<EdgeHandle>(m.edges_begin(), m.edges_end()), b = pick_live<EdgeHandle>(m.edges_begin(), m.edges_end()); if (!a.is_valid()) break; t << " swape" << a.idx() << "," << b.idx(); m.swap_edge_indices(a, b); break; }
            }
            check(*w);
        }
    }
    std::cerr << "ok\n";
    return 0;
}
