#include <OpenVolumeMesh/Mesh/PolyhedralMesh.hh>
#include <iostream>
#include <memory>
using namespace OpenVolumeMesh;
using PM = GeometricPolyhedralMeshV3d;
static int fails = 0;
#define CHECK(c, msg) do { if(!(c)) { std::cerr << "FAIL line " << __LINE__ << ": " << msg << "\n"; ++fails; } } while(0)
template<class F> bool throws(F f) { try { f(); } catch (std::exception const&) { return true; } return false; }
int main() {
    // outliving handles
    {
        std::optional<VertexPropertyPtr<std::string>> p; std::optional<VertexPropertyPtr<bool>> q; std::optional<MeshPropertyPtr<int>> mp;
        std::optional<VertexPropertyPtr<Vec3d>> pos;
        {
            PM m; for (int i = 0; i < 3; ++i) m.add_vertex(Vec3d(i,0,0));
            p = m.create_persistent_vertex_property<std::string>("p", "x"); (*p)[VertexHandle(1)] = "one";
            q = m.create_private_vertex_property<bool>("q", true);
            mp = m.request_mesh_property<int>("mp", 3);
            pos = m.vertex_positions();
            CHECK(bool(*p) && bool(*q) && bool(*mp), "attached");
        }
        CHECK(!bool(*p) && !bool(*q) && !bool(*mp) && !bool(*pos), "detached reported");
        CHECK(p->size() == 3 && (*p)[VertexHandle(1)] == "one" && q->size() == 3 && (*q)[VertexHandle(2)] && mp->size() == 1 && pos->size() == 3 && (*pos)[VertexHandle(2)] == Vec3d(2,0,0), "data kept");
        auto p2 = *p; p.reset(); CHECK(p2.name() == "p" && p2.def() == "x", "copy ok");
        p2.fill("z"); p2.set_name("w");
        PM n; n.add_vertex(Vec3d(0,0,0));
        CHECK(n.n_props<Entity::Vertex>() == 1, "n_props");
    }
    // colliding names over types/kinds
    {
        PM m; m.add_vertex(Vec3d(0,0,0)); m.add_vertex(Vec3d(1,0,0)); m.add_edge(VertexHandle(0), VertexHandle(1));
        auto a = m.request_vertex_property<int>("n", 1);
        auto b = m.request_vertex_property<double>("n", 2.0);
        auto c = m.request_edge_property<int>("n", 3);
        auto a2 = m.request_vertex_property<int>("n", 99);
        a[VertexHandle(0)] = 42;
        CHECK(a2[VertexHandle(0)] == 42 && a2.def() == 1, "same storage");
        CHECK(m.n_props<Entity::Vertex>() == 3 && m.n_props<Entity::Edge>() == 1, "n_props " << m.n_props<Entity::Vertex>());
        CHECK(!m.create_shared_vertex_property<int>("n").has_value(), "create refuses dup");
        CHECK(!m.create_persistent_vertex_property<double>("n").has_value(), "create_persistent refuses dup");
        CHECK(m.create_shared_vertex_property<float>("n").has_value() , "other type ok");
        CHECK(m.n_props<Entity::Vertex>() == 3, "temp dropped");
        auto priv = m.create_private_vertex_property<int>("n", 5);
        CHECK(throws([&]{ m.set_shared(priv, true); }) && !priv.shared(), "set_shared dup throws");
        CHECK(throws([&]{ m.set_persistent(priv, true); }) && !priv.persistent() && m.n_persistent_props<Entity::Vertex>() == 0, "set_persistent private throws");
        auto anon = m.create_private_vertex_property<int>("", 5);
        CHECK(throws([&]{ m.set_shared(anon, true); }) && !anon.shared(), "anon shared throws");
        m.set_persistent(a, true);
        { auto drop = a; } a2 = m.request_vertex_property<int>("other");
        { auto tmp = std::move(a); }
        CHECK(m.n_persistent_props<Entity::Vertex>() == 1 && m.vertex_property_exists<int>("n"), "persistent survives handle drop");
        auto a3o = m.get_vertex_property<int>("n"); auto& a3 = *a3o; CHECK(a3[VertexHandle(0)] == 42, "values survive");
        m.set_shared(a3, false);
        CHECK(!a3.persistent() && !a3.shared() && m.n_persistent_props<Entity::Vertex>() == 0 && !m.vertex_property_exists<int>("n"), "unshare drops persistence");
        size_t before = m.n_props<Entity::Vertex>();
        { auto x = std::move(a3); } a3o.reset(); // PropertyPtr has no move ctor (virtual dtor): std::move copies
        CHECK(m.n_props<Entity::Vertex>() == before && bool(a) && !a.shared(), "handle a (std::move copies) keeps it alive"); (void)before;
        // clear_vertex_props with live handles
        m.set_persistent(b, true);
        m.clear_vertex_props();
        CHECK(!b.shared() && !b.persistent() && m.n_persistent_props<Entity::Vertex>() == 0 && c.shared(), "clear_vertex_props only vertex");
        m.add_vertex(Vec3d(0,0,0));
        CHECK(b.size() == 3 && b[VertexHandle(2)] == 2.0, "grows after clear_props");
        CHECK(m.vertex(VertexHandle(1)) == Vec3d(1,0,0), "positions survive clear_vertex_props");
        PM cp(m); CHECK(cp.vertex(VertexHandle(1)) == Vec3d(1,0,0) && cp.n_vertices() == 3, "copy after clear_vertex_props");
        // const mesh
        PM const& cm = m; auto cpv = cm.create_private_vertex_property<int>("k", 8); CHECK(cpv.size() == 3, "const create");
        auto g = cm.get_edge_property<int>("n"); CHECK(g.has_value() && (*g)[EdgeHandle(0)] == 3, "const get");
    }
    std::cerr << "fails=" << fails << "\n";
    return fails ? 1 : 0;
}
