#include <OpenVolumeMesh/Mesh/TetrahedralMesh.hh>
#include <OpenVolumeMesh/Mesh/TetrahedralGeometryKernel.hh>
#include <iostream>
#include <set>
using namespace OpenVolumeMesh;
using TM = TetrahedralGeometryKernel<Vec3d>;
static void dump(TM& m) {
    for (size_t i=0;i<m.n_edges();++i) std::cerr << " e" << i << "(" << m.edge(EdgeHandle(i)).from_vertex().idx() << "," << m.edge(EdgeHandle(i)).to_vertex().idx() << ")" << (m.is_deleted(EdgeHandle(i))?"D":""); std::cerr << "\n";
    for (size_t i=0;i<m.n_faces();++i) { std::cerr << " f" << i << "("; for (auto he: m.face(FaceHandle(i)).halfedges()) std::cerr << he.idx() << " "; std::cerr << ")" << (m.is_deleted(FaceHandle(i))?"D":""); } std::cerr << "\n";
    for (size_t i=0;i<m.n_cells();++i) { std::cerr << " c" << i << "("; for (auto hf: m.cell(CellHandle(i)).halffaces()) std::cerr << hf.idx() << " "; std::cerr << ")" << (m.is_deleted(CellHandle(i))?"D":""); } std::cerr << "\n";
}
static int sane(TM& m, const char* when) {
    for (auto c: m.cells()) for (auto hf: m.cell(c).halffaces()) if (hf.uidx() >= m.n_halffaces() || m.is_deleted(hf.face_handle())) { std::cerr << when << ": live cell " << c.idx() << " refers to nonexistent/deleted halfface " << hf.idx() << "\n"; return 1; }
    for (auto f: m.faces()) for (auto he: m.face(f).halfedges()) if (he.uidx() >= m.n_halfedges() || m.is_deleted(he.edge_handle())) { std::cerr << when << ": live face " << f.idx() << " refers to nonexistent/deleted halfedge " << he.idx() << " (n_halfedges " << m.n_halfedges() << ")\n"; return 1; }
    // bottom-up vs brute force
    for (auto he: m.halfedges()) {
        std::multiset<int> bu, bf;
        for (auto it = m.hehf_iter(he); it.valid(); ++it) bu.insert(it->idx());
        for (auto f: m.faces()) for (int s = 0; s < 2; ++s) { auto hf = m.halfface_handle(f, s); for (auto h: m.halfface(hf).halfedges()) if (h == he) bf.insert(hf.idx()); }
        if (bu != bf) { std::cerr << when << ": halfedge " << he.idx() << " bottom-up halffaces {"; for (int x: bu) std::cerr << x << " "; std::cerr << "} != brute force {"; for (int x: bf) std::cerr << x << " "; std::cerr << "}\n"; return 1; }
    }
    return 0;
}
int main(int argc, char** argv) {
    int variant = argc > 1 ? atoi(argv[1]) : 0;
    TM m; m.enable_deferred_deletion(false); m.enable_fast_deletion(false);
    VertexHandle v[5]; for (int i = 0; i < 4; ++i) v[i] = m.add_vertex(Vec3d(i==1, i==2, i==3));
    auto c = m.add_cell(v[0], v[1], v[2], v[3]);
    dump(m);
    if (variant == 0) m.split_face(FaceHandle(0));
    else {
        m.enable_deferred_deletion(true);
        v[4] = m.add_vertex(Vec3d(.3,.3,0));
        auto vs = m.get_cell_vertices(m.halfface_handle(FaceHandle(0), 1)); if (vs.empty()) vs = m.get_cell_vertices(m.halfface_handle(FaceHandle(0), 0));
        m.delete_cell(c);
        if (variant != 3) m.delete_face(FaceHandle(0));
        if (variant == 1 || variant == 3) { m.add_cell(vs[0], vs[1], v[4], vs[3]); m.add_cell(vs[0], v[4], vs[2], vs[3]); m.add_cell(v[4], vs[1], vs[2], vs[3]); }
        std::cerr << "before gc:\n"; dump(m);
        m.enable_deferred_deletion(false);
    }
    std::cerr << "after split:\n"; dump(m);
    if (sane(m, "after split")) return 1;
    m.delete_vertex(VertexHandle(3));
    std::cerr << "after delete_vertex(3):\n"; dump(m);
    if (sane(m, "after delete_vertex")) return 1;
    return 0;
}
