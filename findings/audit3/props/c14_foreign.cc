// C14: set_persistent()/set_shared() accept a handle that does not belong to the mesh
// (handle that outlived its mesh, or handle of another mesh).
#include <OpenVolumeMesh/Mesh/PolyhedralMesh.hh>
#include <iostream>
#include <memory>
using namespace OpenVolumeMesh;
using Mesh = GeometricPolyhedralMeshV3d;
int main() {
    int fails = 0;
    // (1) handle that outlived its mesh
    std::optional<VertexPropertyPtr<int>> p;
    {
        auto old = std::make_unique<Mesh>();
        old->add_vertex(Vec3d(0,0,0));
        p = old->create_shared_vertex_property<int>("x", 7);
    }
    if (bool(*p)) { std::cerr << "not detached\n"; return 2; }
    Mesh m;
    for (int i = 0; i < 5; ++i) m.add_vertex(Vec3d(i,0,0));
    auto mine = *m.create_persistent_vertex_property<int>("x", 1); // m's own unique "x"
    bool threw = false;
    try { m.set_persistent(*p, true); } catch (std::exception const&) { threw = true; }
    std::cerr << "set_persistent(detached) threw=" << threw
              << " n_persistent=" << m.n_persistent_props<Entity::Vertex>()
              << " n_props=" << m.n_props<Entity::Vertex>() << " p.size=" << p->size() << "\n";
    if (!threw) {
        if (m.n_persistent_props<Entity::Vertex>() != 1) {
            std::cerr << "VIOLATION: mesh lists " << m.n_persistent_props<Entity::Vertex>()
                      << " persistent vertex props named 'x' (int), expected 1 (unique)\n"; ++fails;
        }
        Mesh c(m);
        // count shared int props named "x" in the copy and check sizes
        int cnt = 0; bool badsize = false;
        for (auto it = c.persistent_props_begin<Entity::Vertex>(); it != c.persistent_props_end<Entity::Vertex>(); ++it) {
            if ((*it)->name() == "x") { ++cnt; if ((*it)->size() != c.n_vertices()) badsize = true; }
        }
        std::cerr << "copy: persistent 'x' count=" << cnt << " badsize=" << badsize << "\n";
        if (cnt != 1) { std::cerr << "VIOLATION: copy has " << cnt << " persistent shared int vertex props named 'x'\n"; ++fails; }
        if (badsize) { std::cerr << "VIOLATION: copy has a persistent vertex prop with size != n_vertices (5)\n"; ++fails; }
    }
    // (2) handle of another live mesh
    Mesh a, b;
    a.add_vertex(Vec3d(0,0,0));
    for (int i = 0; i < 4; ++i) b.add_vertex(Vec3d(i,0,0));
    auto pa = *a.create_shared_vertex_property<int>("y", 3);
    threw = false;
    try { b.set_persistent(pa, true); } catch (std::exception const&) { threw = true; }
    std::cerr << "b.set_persistent(prop of a) threw=" << threw << " a.n_persistent=" << a.n_persistent_props<Entity::Vertex>()
              << " b.n_persistent=" << b.n_persistent_props<Entity::Vertex>() << " pa.persistent=" << pa.persistent() << "\n";
    if (!threw) {
        if (pa.persistent() && a.n_persistent_props<Entity::Vertex>() == 0) {
            std::cerr << "VIOLATION: property of mesh a reports persistent but a.n_persistent_props == 0; b counts it instead\n"; ++fails;
        }
        Mesh bc(b);
        for (auto it = bc.persistent_props_begin<Entity::Vertex>(); it != bc.persistent_props_end<Entity::Vertex>(); ++it)
            if ((*it)->size() != bc.n_vertices()) { std::cerr << "VIOLATION: copy of b has persistent vertex prop '" << (*it)->name() << "' of size " << (*it)->size() << " != n_vertices " << bc.n_vertices() << "\n"; ++fails; }
    }
    return fails ? 1 : 0;
}
