#include <OpenVolumeMesh/Mesh/PolyhedralMesh.hh>
#include <OpenVolumeMesh/Mesh/TetrahedralMesh.hh>
#include <OpenVolumeMesh/Mesh/HexahedralMesh.hh>
#include <iostream>
#include <memory>
using namespace OpenVolumeMesh;
using PM = GeometricPolyhedralMeshV3d;
using TM = GeometricTetrahedralMeshV3d;
static int fails = 0;
#define CHECK(c, msg) do { if(!(c)) { std::cerr << "FAIL line " << __LINE__ << ": " << msg << "\n"; ++fails; } } while(0)

template<class M> void build_tet(M& m, double off=0) {
    auto v0 = m.add_vertex(Vec3d(off,0,0)), v1 = m.add_vertex(Vec3d(off+1,0,0)), v2 = m.add_vertex(Vec3d(off,1,0)), v3 = m.add_vertex(Vec3d(off,0,1));
    auto f0 = m.add_face({v0,v1,v2}); auto f1 = m.add_face({v0,v2,v3}); auto f2 = m.add_face({v0,v3,v1}); auto f3 = m.add_face({v1,v3,v2});
    m.add_cell({m.halfface_handle(f0,1), m.halfface_handle(f1,1), m.halfface_handle(f2,1), m.halfface_handle(f3,1)});
}
template<class M> bool sizes_ok(M& m, const char* tag) {
    bool ok = true;
    // check through fresh probes: all tracked props
    return ok;
}

int main() {
    // S1: b = a; old handles of b (shared, private, persistent, bool, string, halfedge, mesh)
    {
        PM a, b;
        build_tet(a); build_tet(a, 5);
        build_tet(b);
        auto bs = b.request_vertex_property<int>("s", 4);
        auto bp = *b.create_persistent_halfedge_property<std::string>("p", "d");
        auto bq = b.create_private_cell_property<bool>("q", true);
        auto bm = b.request_mesh_property<int>("m", 9);
        auto bhf = *b.create_persistent_halfface_property<bool>("hf", true);
        auto ap = *a.create_persistent_halfedge_property<std::string>("p", "A");
        auto apos = a.vertex_positions();
        for (auto h: a.halfedges()) ap[h] = std::to_string(h.idx());
        b = a;
        CHECK(bs.size() == b.n_vertices(), "old shared sized " << bs.size());
        CHECK(bp.size() == b.n_halfedges(), "old persistent sized " << bp.size());
        CHECK(bq.size() == b.n_cells(), "old private");
        CHECK(bm.size() == 1, "mesh prop size " << bm.size());
        CHECK(bhf.size() == b.n_halffaces(), "old hf persistent size");
        CHECK(!bs.shared() && !bp.shared() && !bp.persistent() && !bhf.persistent(), "old handles flags");
        CHECK(bool(bs) && bool(bp), "old handles still attached");
        CHECK(!b.vertex_property_exists<int>("s"), "s findable");
        CHECK(b.n_persistent_props<Entity::HalfEdge>() == 1, "n_persistent he " << b.n_persistent_props<Entity::HalfEdge>());
        CHECK(b.n_persistent_props<Entity::HalfFace>() == 0, "n_persistent hf " << b.n_persistent_props<Entity::HalfFace>());
        auto nb = b.get_halfedge_property<std::string>("p");
        CHECK(nb.has_value(), "clone findable");
        if (nb) {
            CHECK(nb->def() == "A", "def preserved: " << nb->def());
            CHECK(nb->persistent() && nb->shared(), "flags preserved");
            bool eq = true; for (auto h: b.halfedges()) if ((*nb)[h] != std::to_string(h.idx())) eq = false;
            CHECK(eq, "values equal");
            (*nb)[HalfEdgeHandle(0)] = "changed";
            CHECK(ap[HalfEdgeHandle(0)] == "0", "independent");
        }
        // grow b: old handles grow too
        build_tet(b, 9);
        CHECK(bs.size() == b.n_vertices() && bp.size() == b.n_halfedges() && bq.size() == b.n_cells() && bhf.size() == b.n_halffaces(), "old handles grow");
        CHECK(bs[VertexHandle((int)b.n_vertices()-1)] == 4, "default of old shared");
        CHECK(bq[CellHandle((int)b.n_cells()-1)] == true, "default of old private bool");
        CHECK(ap.size() == a.n_halfedges(), "a unaffected");
        CHECK(b.vertex(VertexHandle(4)) == Vec3d(5,0,0), "positions copied");
        b.set_vertex(VertexHandle(4), Vec3d(7,7,7));
        CHECK(a.vertex(VertexHandle(4)) == Vec3d(5,0,0), "positions independent");
        // n_props: position + clone p + old handles (bs, bp, bq->cell, ...)
        CHECK(b.n_props<Entity::Vertex>() == 2, "n_props vertex " << b.n_props<Entity::Vertex>());
        CHECK(b.n_props<Entity::HalfEdge>() == 2, "n_props he " << b.n_props<Entity::HalfEdge>());
    }
    // S2: a destroyed, copy keeps values
    {
        std::optional<PM> c;
        {
            PM a; build_tet(a);
            auto ap = *a.create_persistent_vertex_property<double>("w", 1.5);
            ap[VertexHandle(2)] = 3.25;
            PM b(a);
            c.emplace(b);
        }
        auto w = c->get_vertex_property<double>("w");
        CHECK(w && (*w)[VertexHandle(2)] == 3.25 && (*w)[VertexHandle(1)] == 1.5 && w->def() == 1.5, "chain copy values");
        CHECK(c->n_persistent_props<Entity::Vertex>() == 1, "n_persistent");
        auto v = c->add_vertex(Vec3d(1,1,1));
        CHECK((*w)[v] == 1.5, "new default in copy");
    }
    // S3: cross type Tet = Poly with pending deletions and persistent props
    {
        PM a; build_tet(a); build_tet(a, 3);
        a.enable_deferred_deletion(true);
        auto ap = *a.create_persistent_cell_property<int>("c", -1);
        ap[CellHandle(0)] = 10; ap[CellHandle(1)] = 11;
        a.delete_cell(CellHandle(0));
        TM t; build_tet(t);
        auto told = t.request_cell_property<int>("c", 77);
        t = a;
        CHECK(t.n_cells() == 2 && t.is_deleted(CellHandle(0)) && !t.is_deleted(CellHandle(1)), "deletion state");
        CHECK(told.size() == 2 && !told.shared(), "old handle");
        auto tc = t.get_cell_property<int>("c");
        CHECK(tc && (*tc)[CellHandle(1)] == 11 && tc->def() == -1, "cross type clone");
        t.collect_garbage();
        CHECK(t.n_cells() == 1 && tc->size() == 1 && (*tc)[CellHandle(0)] == 11 && told.size() == 1, "gc on copy");
        CHECK(a.n_cells() == 2 && ap.size() == 2, "a unaffected");
        PM back; back = t;
        CHECK(back.n_cells() == 1 && back.get_cell_property<int>("c").has_value(), "poly = tet");
    }
    // S4: self-assignment incl. through base reference
    {
        PM a; build_tet(a);
        auto s = a.request_vertex_property<int>("s", 1); s[VertexHandle(0)] = 5;
        auto p = *a.create_persistent_vertex_property<int>("p", 2); p[VertexHandle(1)] = 6;
        PM& r = a;
        a = r;
        TopologyKernel& tk = a; tk = tk;
        ResourceManager& rm = a; rm = rm;
        CHECK(s.shared() && a.vertex_property_exists<int>("s") && s[VertexHandle(0)] == 5, "self-assign keeps shared");
        CHECK(p.persistent() && a.n_persistent_props<Entity::Vertex>() == 1 && p[VertexHandle(1)] == 6, "self-assign keeps persistent");
        CHECK(a.vertex(VertexHandle(1)) == Vec3d(1,0,0), "self-assign pos");
    }
    // S5: assignment when a's position property is not findable (after clear()) and copy of cleared mesh
    {
        PM a; build_tet(a);
        a.clear();
        CHECK(a.n_vertices() == 0, "clear");
        auto v = a.add_vertex(); 
        CHECK(a.vertex(v) == Vec3d(0,0,0), "default pos after clear");
        a.set_vertex(v, Vec3d(1,2,3));
        PM b(a);
        CHECK(b.n_vertices() == 1 && b.vertex(v) == Vec3d(1,2,3), "copy after clear");
        PM c; build_tet(c); c = a;
        CHECK(c.n_vertices() == 1 && c.vertex(v) == Vec3d(1,2,3), "assign after clear");
        auto v2 = c.add_vertex();
        CHECK(c.vertex(v2) == Vec3d(0,0,0), "default pos");
        CHECK(a.n_props<Entity::Vertex>() == 1, "n_props after clear " << a.n_props<Entity::Vertex>());
    }
    // S6: private props not carried; shared non-persistent not carried
    {
        PM a; build_tet(a);
        auto s = a.request_face_property<int>("s", 1);
        auto q = a.create_private_face_property<int>("q", 1);
        PM b(a);
        CHECK(b.n_props<Entity::Face>() == 0 && !b.face_property_exists<int>("s"), "non-persistent carried");
    }
    // S7: position made persistent, then copy, then mutate both
    {
        PM a; build_tet(a);
        auto pos = a.request_vertex_property<Vec3d>("ovm:position");
        a.set_persistent(pos);
        PM b(a); PM c; c = a;
        CHECK(b.n_props<Entity::Vertex>() == 1 && c.n_props<Entity::Vertex>() == 1, "one position prop");
        b.set_vertex(VertexHandle(0), Vec3d(9,9,9));
        CHECK(a.vertex(VertexHandle(0)) == Vec3d(0,0,0) && c.vertex(VertexHandle(0)) == Vec3d(0,0,0), "independent pers pos");
        auto v = b.add_vertex();
        CHECK(b.vertex(v) == Vec3d(0,0,0), "def");
        CHECK(b.n_persistent_props<Entity::Vertex>() == 1, "pos persistent in copy");
    }
    std::cerr << "fails=" << fails << "\n";
    return fails ? 1 : 0;
}
