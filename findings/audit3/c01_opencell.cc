// C01: edge->cells / halfedge->cells "returns exactly what a brute-force scan over the stored ... cell definitions yields"
// A cell that is not a closed surface (add_cell without topology check / set_cell): one triangle side only.
#include <OpenVolumeMesh/Mesh/PolyhedralMesh.hh>
#include <iostream>
using namespace OpenVolumeMesh;
int main(){
  TopologyKernel m; for(int i=0;i<4;++i) m.add_vertex();
  auto f0=m.add_face({VertexHandle(0),VertexHandle(1),VertexHandle(2)});
  auto f1=m.add_face({VertexHandle(0),VertexHandle(2),VertexHandle(3)});
  // open cell made of the two odd halffaces (no topology check)
  auto c=m.add_cell({HalfFaceHandle(2*f0.idx()+1), HalfFaceHandle(2*f1.idx()+1)}, false);
  if(!c.is_valid()){std::cout<<"cell rejected\n";return 2;}
  int bad=0;
  for(int e=0;e<(int)m.n_edges();++e){
    // brute force: the cell contains a face that contains edge e?
    bool inc=false; for(auto hf: m.cell(c).halffaces()) for(auto he: m.halfface(hf).halfedges()) if(he.idx()/2==e) inc=true;
    int n=0; for(auto it=m.ec_iter(EdgeHandle(e)); it.valid(); ++it) ++n;
    int n0=0; for(auto it=m.hec_iter(HalfEdgeHandle(2*e)); it.valid(); ++it) ++n0;
    int n1=0; for(auto it=m.hec_iter(HalfEdgeHandle(2*e+1)); it.valid(); ++it) ++n1;
    if((n>0)!=inc || (n0>0)!=inc || (n1>0)!=inc){ std::cout<<"edge "<<e<<" ("<<m.edge(EdgeHandle(e)).from_vertex().idx()<<"-"<<m.edge(EdgeHandle(e)).to_vertex().idx()<<"): brute force incident to cell="<<inc<<" ec_iter="<<n<<" hec_iter(he0)="<<n0<<" hec_iter(he1)="<<n1<<"\n"; bad=1;}
  }
  // vertex->cells for comparison
  for(int v=0;v<4;++v){ int n=0; for(auto it=m.vc_iter(VertexHandle(v)); it.valid(); ++it) ++n; if(n!=1){std::cout<<"vc_iter("<<v<<")="<<n<<"\n";bad=1;} }
  return bad;
}
