// C10: get_halfface_vertices (all three forms) return the requested order/starting point exactly when brute force finds one, empty otherwise
#include <OpenVolumeMesh/Mesh/PolyhedralMesh.hh>
#include <iostream>
using namespace OpenVolumeMesh;
int main(){
  TopologyKernel m; for(int i=0;i<5;++i) m.add_vertex();
  auto f=m.add_face({VertexHandle(0),VertexHandle(1),VertexHandle(2)});
  auto e03=m.add_edge(VertexHandle(0),VertexHandle(3));
  auto e34=m.add_edge(VertexHandle(3),VertexHandle(4));
  HalfFaceHandle hf0(2*f.idx());
  int bad=0;
  // halfedge 1->0 is not a halfedge of hf0 (it belongs to hf1)
  auto he10 = m.find_halfedge(VertexHandle(1),VertexHandle(0));
  auto r = m.get_halfface_vertices(hf0, he10);
  if(!r.empty()){ std::cout<<"get_halfface_vertices(hf0, he 1->0) returned "<<r.size()<<" vertices starting "<<r[0].idx()<<","<<r[1].idx()<<" although 1->0 is not a halfedge of hf0 (expected empty)\n"; bad=1;}
  // halfedge 0->3 is not on the face at all
  r = m.get_halfface_vertices(hf0, HalfEdgeHandle(2*e03.idx()));
  if(!r.empty()){ std::cout<<"get_halfface_vertices(hf0, he 0->3) returned "<<r.size()<<" vertices (expected empty)\n"; bad=1;}
  r = m.get_halfface_vertices(hf0, HalfEdgeHandle(2*e34.idx()));
  if(!r.empty()){ std::cout<<"get_halfface_vertices(hf0, he 3->4) nonempty\n"; bad=1;}
  return bad;
}
