// Random differential tester: derived upward queries vs brute force (C01).
#include <OpenVolumeMesh/Mesh/PolyhedralMesh.hh>
#include <iostream>
#include <random>
#include <set>
#include <map>
#include <algorithm>
using namespace OpenVolumeMesh;
typedef TopologyKernel M;
static std::mt19937 rng;
static int R(int n){ return n<=0?0: (int)(rng()%n); }
static std::vector<std::string> logv;
#define LOG(x) do{ std::ostringstream os; os<<x; logv.push_back(os.str()); }while(0)
static void fail(const std::string&m, unsigned seed){
  std::cout<<"FAIL seed="<<seed<<": "<<m<<"\nhistory:\n"; for(auto&s:logv) std::cout<<"  "<<s<<"\n"; exit(1);
}
template<class H> static std::string S(const std::vector<H>&v){ std::ostringstream os; os<<"{"; for(auto h:v) os<<h.idx()<<","; os<<"}"; return os.str(); }
template<class H> static std::vector<H> sorted(std::vector<H> v){ std::sort(v.begin(),v.end()); return v; }

struct BF {
  const M& m;
  std::vector<VertexHandle> lv; std::vector<EdgeHandle> le; std::vector<FaceHandle> lf; std::vector<CellHandle> lc;
  BF(const M&m_):m(m_){
    for(int i=0;i<(int)m.n_vertices();++i) if(!m.is_deleted(VertexHandle(i))) lv.push_back(VertexHandle(i));
    for(int i=0;i<(int)m.n_edges();++i) if(!m.is_deleted(EdgeHandle(i))) le.push_back(EdgeHandle(i));
    for(int i=0;i<(int)m.n_faces();++i) if(!m.is_deleted(FaceHandle(i))) lf.push_back(FaceHandle(i));
    for(int i=0;i<(int)m.n_cells();++i) if(!m.is_deleted(CellHandle(i))) lc.push_back(CellHandle(i));
  }
  bool e_has_v(EdgeHandle e, VertexHandle v) const { return m.edge(e).from_vertex()==v||m.edge(e).to_vertex()==v; }
  bool f_has_e(FaceHandle f, EdgeHandle e) const { for(auto h: m.face(f).halfedges()) if(h.idx()/2==e.idx()) return true; return false; }
  bool f_has_v(FaceHandle f, VertexHandle v) const { for(auto h: m.face(f).halfedges()) if(e_has_v(EdgeHandle(h.idx()/2),v)) return true; return false; }
  bool c_has_f(CellHandle c, FaceHandle f) const { for(auto h: m.cell(c).halffaces()) if(h.idx()/2==f.idx()) return true; return false; }
  bool c_has_hf(CellHandle c, HalfFaceHandle hf) const { for(auto h: m.cell(c).halffaces()) if(h==hf) return true; return false; }
  bool c_has_e(CellHandle c, EdgeHandle e) const { for(auto h: m.cell(c).halffaces()) if(f_has_e(FaceHandle(h.idx()/2),e)) return true; return false; }
  bool c_has_v(CellHandle c, VertexHandle v) const { for(auto h: m.cell(c).halffaces()) if(f_has_v(FaceHandle(h.idx()/2),v)) return true; return false; }
  CellHandle inc(HalfFaceHandle hf) const { for(auto c: lc) if(c_has_hf(c,hf)) return c; return CellHandle(-1); }
  bool bnd(HalfFaceHandle hf) const { return !inc(hf).is_valid(); }
  bool bnd(FaceHandle f) const { return bnd(HalfFaceHandle(2*f.idx()))||bnd(HalfFaceHandle(2*f.idx()+1)); }
  bool bnd(EdgeHandle e) const { for(auto f: lf) if(f_has_e(f,e)&&bnd(f)) return true; return false; }
  bool bnd(VertexHandle v) const { for(auto e: le) if(e_has_v(e,v)&&bnd(e)) return true; return false; }
  bool bnd(CellHandle c) const { for(auto h: m.cell(c).halffaces()) if(bnd(FaceHandle(h.idx()/2))) return true; return false; }
};

template<class It, class H> static std::vector<H> collect(It it){ std::vector<H> r; int guard=0; for(; it.valid(); ++it){ r.push_back(*it); if(++guard>100000) break;} return r; }

static void check(M& m, unsigned seed){
  BF b(m);
  if(!m.has_full_bottom_up_incidences()) return;
  for(auto v: b.lv){
    std::vector<EdgeHandle> ee; std::vector<FaceHandle> ff; std::vector<CellHandle> cc; std::vector<HalfFaceHandle> hh; size_t val=0;
    for(auto e:b.le) if(b.e_has_v(e,v)){ ee.push_back(e); val += (m.edge(e).from_vertex()==m.edge(e).to_vertex())?2:1; }
    for(auto f:b.lf) if(b.f_has_v(f,v)){ ff.push_back(f); hh.push_back(HalfFaceHandle(2*f.idx())); hh.push_back(HalfFaceHandle(2*f.idx()+1)); }
    for(auto c:b.lc) if(b.c_has_v(c,v)) cc.push_back(c);
    auto gf = sorted(collect<VertexFaceIter,FaceHandle>(m.vf_iter(v)));
    if(gf!=ff) fail("vf_iter("+std::to_string(v.idx())+") got "+S(gf)+" expected "+S(ff),seed);
    auto gc = sorted(collect<VertexCellIter,CellHandle>(m.vc_iter(v)));
    if(gc!=cc) fail("vc_iter("+std::to_string(v.idx())+") got "+S(gc)+" expected "+S(cc),seed);
    auto gh = sorted(collect<VertexHalfFaceIter,HalfFaceHandle>(m.vhf_iter(v)));
    if(gh!=hh) fail("vhf_iter("+std::to_string(v.idx())+") got "+S(gh)+" expected "+S(hh),seed);
    if(m.valence(v)!=val) fail("valence(v"+std::to_string(v.idx())+") got "+std::to_string(m.valence(v))+" expected "+std::to_string(val),seed);
    if(m.is_boundary(v)!=b.bnd(v)) fail("is_boundary(v"+std::to_string(v.idx())+")",seed);
  }
  for(auto e: b.le){
    std::vector<FaceHandle> ff; std::vector<CellHandle> cc;
    for(auto f:b.lf) if(b.f_has_e(f,e)) ff.push_back(f);
    for(auto c:b.lc) if(b.c_has_e(c,e)) cc.push_back(c);
    auto gf = sorted(collect<EdgeFaceIter,FaceHandle>(m.ef_iter(e)));
    if(gf!=ff) fail("ef_iter("+std::to_string(e.idx())+") got "+S(gf)+" expected "+S(ff),seed);
    auto gc = sorted(collect<EdgeCellIter,CellHandle>(m.ec_iter(e)));
    if(gc!=cc) fail("ec_iter("+std::to_string(e.idx())+") got "+S(gc)+" expected "+S(cc),seed);
    for(int s=0;s<2;++s){
      auto g2 = sorted(collect<HalfEdgeCellIter,CellHandle>(m.hec_iter(HalfEdgeHandle(2*e.idx()+s))));
      if(g2!=cc) fail("hec_iter("+std::to_string(2*e.idx()+s)+") got "+S(g2)+" expected "+S(cc),seed);
      if(m.is_boundary(HalfEdgeHandle(2*e.idx()+s))!=b.bnd(e)) fail("is_boundary(he)",seed);
    }
    if(m.valence(e)!=ff.size()) fail("valence(e"+std::to_string(e.idx())+") got "+std::to_string(m.valence(e))+" expected "+std::to_string(ff.size()),seed);
    if(m.is_boundary(e)!=b.bnd(e)) fail("is_boundary(e"+std::to_string(e.idx())+")",seed);
  }
  for(auto f: b.lf){
    if(m.is_boundary(f)!=b.bnd(f)) fail("is_boundary(f"+std::to_string(f.idx())+")",seed);
    for(int s=0;s<2;++s){ HalfFaceHandle hf(2*f.idx()+s);
      if(m.incident_cell(hf)!=b.inc(hf)) fail("incident_cell(hf"+std::to_string(hf.idx())+") got "+std::to_string(m.incident_cell(hf).idx())+" expected "+std::to_string(b.inc(hf).idx()),seed);
      if(m.is_boundary(hf)!=b.bnd(hf)) fail("is_boundary(hf)",seed);
    }
    auto fc = m.face_cells(f);
    if(fc[0]!=b.inc(HalfFaceHandle(2*f.idx()))||fc[1]!=b.inc(HalfFaceHandle(2*f.idx()+1))) fail("face_cells",seed);
  }
  for(auto c: b.lc){
    std::vector<CellHandle> cc;
    for(auto h: m.cell(c).halffaces()){ auto o=b.inc(HalfFaceHandle(h.idx()^1)); if(o.is_valid()) cc.push_back(o);}
    cc=sorted(cc); cc.erase(std::unique(cc.begin(),cc.end()),cc.end());
    auto gc = sorted(collect<CellCellIter,CellHandle>(m.cc_iter(c)));
    if(gc!=cc) fail("cc_iter("+std::to_string(c.idx())+") got "+S(gc)+" expected "+S(cc),seed);
    if(m.is_boundary(c)!=b.bnd(c)) fail("is_boundary(c)",seed);
  }
  // boundary iterators
  { std::vector<VertexHandle> x; for(auto v:b.lv) if(b.bnd(v)) x.push_back(v);
    auto g=collect<BoundaryVertexIter,VertexHandle>(m.bv_iter()); if(g!=x) fail("bv_iter got "+S(g)+" expected "+S(x),seed);}
  { std::vector<EdgeHandle> x; for(auto v:b.le) if(b.bnd(v)) x.push_back(v);
    auto g=collect<BoundaryEdgeIter,EdgeHandle>(m.be_iter()); if(g!=x) fail("be_iter got "+S(g)+" expected "+S(x),seed);}
  { std::vector<HalfEdgeHandle> x; for(auto v:b.le) if(b.bnd(v)){ x.push_back(HalfEdgeHandle(2*v.idx())); x.push_back(HalfEdgeHandle(2*v.idx()+1)); }
    auto g=collect<BoundaryHalfEdgeIter,HalfEdgeHandle>(m.bhe_iter()); if(g!=x) fail("bhe_iter got "+S(g)+" expected "+S(x),seed);}
  { std::vector<FaceHandle> x; for(auto v:b.lf) if(b.bnd(v)) x.push_back(v);
    auto g=collect<BoundaryFaceIter,FaceHandle>(m.bf_iter()); if(g!=x) fail("bf_iter got "+S(g)+" expected "+S(x),seed);}
  { std::vector<HalfFaceHandle> x; for(auto v:b.lf) for(int s=0;s<2;++s) if(b.bnd(HalfFaceHandle(2*v.idx()+s))) x.push_back(HalfFaceHandle(2*v.idx()+s));
    auto g=collect<BoundaryHalfFaceIter,HalfFaceHandle>(m.bhf_iter()); if(g!=x) fail("bhf_iter got "+S(g)+" expected "+S(x),seed);
    for(auto hf: x){
      std::vector<HalfFaceHandle> nb;
      for(auto he: m.halfface(hf).halfedges()){ for(auto f:b.lf) for(int s=0;s<2;++s){ HalfFaceHandle h2(2*f.idx()+s); if(!b.bnd(h2)) continue; for(auto he2: m.halfface(h2).halfedges()) if(he2.idx()==(he.idx()^1)) nb.push_back(h2);} }
      auto g2=sorted(collect<BoundaryHalfFaceHalfFaceIter,HalfFaceHandle>(m.bhfhf_iter(hf)));
      if(g2!=sorted(nb)) fail("bhfhf_iter("+std::to_string(hf.idx())+") got "+S(g2)+" expected "+S(sorted(nb)),seed);
    }
  }
  { std::vector<CellHandle> x; for(auto v:b.lc) if(b.bnd(v)) x.push_back(v);
    auto g=collect<BoundaryCellIter,CellHandle>(m.bc_iter()); if(g!=x) fail("bc_iter got "+S(g)+" expected "+S(x),seed);}
}


static std::vector<VertexHandle> hfverts(const M&m, HalfFaceHandle hf){ std::vector<VertexHandle> r; for(auto he: m.halfface(hf).halfedges()) r.push_back(m.halfedge(he).from_vertex()); return r; }
static bool cyc_prefix(const std::vector<VertexHandle>&cyc, const std::vector<VertexHandle>&q, bool exact){
  size_t n=cyc.size(); if(exact && n!=q.size()) return false; if(q.size()>n) return false;
  for(size_t s=0;s<n;++s){ bool ok=true; for(size_t i=0;i<q.size();++i) if(cyc[(s+i)%n]!=q[i]){ok=false;break;} if(ok) return true; } return false; }
static void check10(M& m, unsigned seed){
  BF b(m); if(!m.has_full_bottom_up_incidences()) return;
  // pairs
  for(auto a:b.lv) for(auto c:b.lv){ if(a==c) continue;
    bool ex=false; for(auto e:b.le){ if(m.edge(e).from_vertex()==a&&m.edge(e).to_vertex()==c) ex=true; if(m.edge(e).from_vertex()==c&&m.edge(e).to_vertex()==a) ex=true; }
    auto he=m.find_halfedge(a,c);
    if(ex!=he.is_valid()) fail("find_halfedge("+std::to_string(a.idx())+","+std::to_string(c.idx())+") validity",seed);
    if(he.is_valid()){ if(m.is_deleted(he)||m.halfedge(he).from_vertex()!=a||m.halfedge(he).to_vertex()!=c) fail("find_halfedge wrong",seed); }
    for(auto ch:b.lc){
      bool exc=false; for(auto hf:m.cell(ch).halffaces()) for(auto h:m.halfface(hf).halfedges()){ auto E=m.halfedge(h); if((E.from_vertex()==a&&E.to_vertex()==c)||(E.from_vertex()==c&&E.to_vertex()==a)) exc=true; }
      auto h2=m.find_halfedge_in_cell(a,c,ch);
      if(exc!=h2.is_valid()) fail("find_halfedge_in_cell validity",seed);
      if(h2.is_valid()&&(m.halfedge(h2).from_vertex()!=a||m.halfedge(h2).to_vertex()!=c)) fail("find_halfedge_in_cell wrong",seed);
    }
  }
  // triples
  for(auto a:b.lv) for(auto c:b.lv) for(auto d:b.lv){ if(a==c||c==d||a==d) continue;
    std::vector<VertexHandle> q{a,c,d};
    bool exP=false, exE=false;
    for(auto f:b.lf) for(int s=0;s<2;++s){ auto cyc=hfverts(m,HalfFaceHandle(2*f.idx()+s)); if(cyc_prefix(cyc,q,false)) exP=true; if(cyc_prefix(cyc,q,true)) exE=true; }
    auto hf=m.find_halfface(q);
    if(exP!=hf.is_valid()) fail("find_halfface"+S(q)+" validity got "+std::to_string(hf.idx()),seed);
    if(hf.is_valid()&&(m.is_deleted(hf.face_handle())||!cyc_prefix(hfverts(m,hf),q,false))) fail("find_halfface"+S(q)+" wrong",seed);
    auto hx=m.find_halfface_extensive(q);
    if(exE!=hx.is_valid()) fail("find_halfface_extensive"+S(q)+" validity got "+std::to_string(hx.idx()),seed);
    if(hx.is_valid()&&(m.is_deleted(hx.face_handle())||!cyc_prefix(hfverts(m,hx),q,true))) fail("find_halfface_extensive wrong",seed);
    for(auto ch:b.lc){
      bool exc=false; for(auto h:m.cell(ch).halffaces()) if(cyc_prefix(hfverts(m,h),q,false)) exc=true;
      // only ask when the edge a-c is in the cell (closed cells)
      auto h3=m.find_halfface_in_cell(q,ch);
      if(exc!=h3.is_valid()) fail("find_halfface_in_cell"+S(q)+" c"+std::to_string(ch.idx())+" validity got "+std::to_string(h3.idx()),seed);
      if(h3.is_valid()){ bool inc=false; for(auto h:m.cell(ch).halffaces()) if(h==h3) inc=true; if(!inc||!cyc_prefix(hfverts(m,h3),q,false)) fail("find_halfface_in_cell wrong",seed); }
    }
  }
  // quads, extensive
  for(auto f:b.lf){ if(m.face(f).halfedges().size()!=4) continue; for(int s=0;s<2;++s){ HalfFaceHandle h(2*f.idx()+s); auto cyc=hfverts(m,h);
    for(int r=0;r<4;++r){ std::vector<VertexHandle> q; for(int i=0;i<4;++i) q.push_back(cyc[(r+i)%4]); auto g=m.find_halfface_extensive(q); if(!g.is_valid()||!cyc_prefix(hfverts(m,g),q,true)) fail("extensive rotated quad",seed);
      std::swap(q[2],q[3]); bool ex=false; for(auto f2:b.lf) for(int s2=0;s2<2;++s2) if(cyc_prefix(hfverts(m,HalfFaceHandle(2*f2.idx()+s2)),q,true)) ex=true; g=m.find_halfface_extensive(q); if(ex!=g.is_valid()) fail("extensive twisted quad",seed); }
    // n_vertices_in_cell / is_incident
  }}
  for(auto ch:b.lc){ std::set<int> vs; for(auto h:m.cell(ch).halffaces()) for(auto v:hfverts(m,h)) vs.insert(v.idx()); if(m.n_vertices_in_cell(ch)!=vs.size()) fail("n_vertices_in_cell",seed); }
  for(auto f:b.lf) for(auto e:b.le) if(m.is_incident(f,e)!=b.f_has_e(f,e)) fail("is_incident",seed);
}

int main(int argc,char**argv){
  unsigned s0 = argc>1? atoi(argv[1]):1, n = argc>2? atoi(argv[2]):2000;
  for(unsigned seed=s0; seed<s0+n; ++seed){
    rng.seed(seed); logv.clear();
    M m;
    bool def = seed&1, fast=(seed>>1)&1;
    m.enable_deferred_deletion(def); m.enable_fast_deletion(fast);
    LOG("deferred="<<def<<" fast="<<fast);
    int nops = 10+R(40);
    for(int op=0; op<nops; ++op){
      BF b(m);
      int k=R(100);
      if((k<14 && b.lv.size()<7) || b.lv.size()<4){ if(R(4)==0){ m.add_n_vertices(2); LOG("add_n_vertices(2)"); } else { m.add_vertex(); LOG("add_vertex"); } }
      else if(k<24){ auto a=b.lv[R(b.lv.size())], c=b.lv[R(b.lv.size())]; if(a==c) continue; bool dup=false; auto e=m.add_edge(a,c,dup); LOG("add_edge("<<a.idx()<<","<<c.idx()<<","<<dup<<")="<<e.idx()); }
      else if(k<40){ // face from vertices
        int nv=3+R(2); std::vector<VertexHandle> vs; std::set<int> u; while((int)vs.size()<nv){ auto v=b.lv[R(b.lv.size())]; if(u.insert(v.idx()).second) vs.push_back(v);}
        auto f=m.add_face(vs); LOG("add_face"<<S(vs)<<"="<<f.idx()); }
      else if(k<58){ // tet from 4 vertices
        std::vector<VertexHandle> vs; std::set<int> u; while((int)vs.size()<4){ auto v=b.lv[R(b.lv.size())]; if(u.insert(v.idx()).second) vs.push_back(v);}
        int tri[4][3]={{0,1,2},{0,2,3},{0,3,1},{1,3,2}};
        std::vector<HalfFaceHandle> hfs; bool ok=true;
        for(auto&t:tri){ std::vector<VertexHandle> tv{vs[t[0]],vs[t[1]],vs[t[2]]}; HalfFaceHandle hf = m.find_halfface(tv); if(!hf.is_valid()){ auto f=m.add_face(tv); hf=HalfFaceHandle(2*f.idx()); // orientation check
              auto gv=m.get_halfface_vertices(hf); bool same=false; for(int r=0;r<3;++r) if(gv[r]==tv[0]&&gv[(r+1)%3]==tv[1]) same=true; if(!same) hf=HalfFaceHandle(hf.idx()^1);}
          if(m.incident_cell(hf).is_valid()) ok=false; hfs.push_back(hf);}
        if(ok){ auto c=m.add_cell(hfs,true); LOG("add_tet"<<S(vs)<<" hfs"<<S(hfs)<<"="<<c.idx()); } else LOG("faces for tet"<<S(vs)<<" (cell skipped)"); }
      else if(k<61 && !b.lf.empty()){ auto f=b.lf[R(b.lf.size())]; HalfFaceHandle h0(2*f.idx()),h1(2*f.idx()+1); if(m.incident_cell(h0).is_valid()||m.incident_cell(h1).is_valid()) continue; auto c=m.add_cell({h0,h1},true); LOG("add_pillow(f"<<f.idx()<<")="<<c.idx()); }
      else if(k<66 && !b.lv.empty()){ auto v=b.lv[R(b.lv.size())]; LOG("delete_vertex("<<v.idx()<<")"); m.delete_vertex(v); }
      else if(k<72 && !b.le.empty()){ auto v=b.le[R(b.le.size())]; LOG("delete_edge("<<v.idx()<<")"); m.delete_edge(v); }
      else if(k<78 && !b.lf.empty()){ auto v=b.lf[R(b.lf.size())]; LOG("delete_face("<<v.idx()<<")"); m.delete_face(v); }
      else if(k<84 && !b.lc.empty()){ auto v=b.lc[R(b.lc.size())]; LOG("delete_cell("<<v.idx()<<")"); m.delete_cell(v); }
      else if(k<87){ LOG("collect_garbage"); m.collect_garbage(); }
      else if(k<89 && b.lv.size()>1){ auto a=b.lv[R(b.lv.size())], c=b.lv[R(b.lv.size())]; LOG("swap_v("<<a.idx()<<","<<c.idx()<<")"); m.swap_vertex_indices(a,c);}
      else if(k<91 && b.le.size()>1 && !m.needs_garbage_collection()){ auto a=b.le[R(b.le.size())], c=b.le[R(b.le.size())]; LOG("swap_e("<<a.idx()<<","<<c.idx()<<")"); m.swap_edge_indices(a,c);}
      else if(k<93 && b.lf.size()>1 && !m.needs_garbage_collection()){ auto a=b.lf[R(b.lf.size())], c=b.lf[R(b.lf.size())]; LOG("swap_f("<<a.idx()<<","<<c.idx()<<")"); m.swap_face_indices(a,c);}
      else if(k<95 && b.lc.size()>1){ auto a=b.lc[R(b.lc.size())], c=b.lc[R(b.lc.size())]; LOG("swap_c("<<a.idx()<<","<<c.idx()<<")"); m.swap_cell_indices(a,c);}
      else if(k<97){ int w=R(3); LOG("toggle bottom-up "<<w); if(w==0){m.enable_vertex_bottom_up_incidences(false); m.enable_vertex_bottom_up_incidences(true);} if(w==1){m.enable_edge_bottom_up_incidences(false); m.enable_edge_bottom_up_incidences(true);} if(w==2){m.enable_face_bottom_up_incidences(false); m.enable_face_bottom_up_incidences(true);} }
      else if(k<98){ bool d=R(2); LOG("enable_deferred("<<d<<")"); m.enable_deferred_deletion(d); }
      else if(k<99){ bool d=R(2); LOG("enable_fast("<<d<<")"); m.enable_fast_deletion(d); }
      else if(R(6)==0){ LOG("clear(false)"); m.clear(false); }
      else if(!b.le.empty()){ // set_edge on a dangling edge
        auto e=b.le[R(b.le.size())]; bool dang=true; for(auto f:b.lf) if(b.f_has_e(f,e)) dang=false; if(!dang) continue;
        auto a=b.lv[R(b.lv.size())], c=b.lv[R(b.lv.size())]; if(a==c || m.find_halfedge(a,c).is_valid()) continue; LOG("set_edge("<<e.idx()<<","<<a.idx()<<","<<c.idx()<<")"); m.set_edge(e,a,c); }
      check(m,seed); check10(m,seed);
    }
  }
  std::cout<<"ok\n"; return 0;
}
