// find2: StatusAttrib::garbage_collection remaps a tracked handle twice when the same handle
// object is handed in twice; the handle of a surviving entity ends up invalid (or on another entity).
// Responsible: StatusAttrib::garbage_collection(vh_to_update, hh_to_update, hfh_to_update, ch_to_update, bool)
//   src/OpenVolumeMesh/Attribs/StatusAttribT_impl.hh lines 130-133:
//     for (auto *vh: vh_to_update) { if (vh->is_valid()) *vh = new_vh[vh->idx()]; }   (same for heh/hfh/ch)
//   The old->new table is applied in place once per container entry, so a handle object that occurs
//   twice is mapped old->new->new_vh[new].
// Fix: apply the table once per distinct handle object, e.g. `std::set<const void*> done;` and
//   `if (done.insert(vh).second && vh->is_valid()) *vh = new_vh[vh->idx()];` in the four loops
//   (validated with scratch/inc/OpenVolumeMesh/Attribs/StatusAttribT_impl.hh: this program prints ok).
// build: g++ -std=c++17 -I/tmp/probe2/S/src -I/tmp/probe2/S/_build/src find2.cc /tmp/probe2/S/_build/Build/lib/libOpenVolumeMesh.a -o find2
#include <OpenVolumeMesh/Mesh/PolyhedralMesh.hh>
#include <OpenVolumeMesh/Attribs/StatusAttrib.hh>
#include <iostream>
using namespace OpenVolumeMesh;
using Mesh = GeometricPolyhedralMeshV3d;
int main() {
    int bad = 0;
    for (int fast = 0; fast < 2; ++fast) {
        Mesh m; m.enable_fast_deletion(fast);
        auto lab = m.request_vertex_property<int>("label", -1);
        for (int i = 0; i < 6; ++i) lab[m.add_vertex(Mesh::PointT(i, 0, 0))] = i;
        StatusAttrib st(m);
        st[VertexHandle(0)].set_deleted(true);
        st[VertexHandle(1)].set_deleted(true);
        VertexHandle a(5), b(5), c(4);           // a is handed in twice, b (same value, other object) once
        std::vector<VertexHandle*> vhs{&a, &b, &a, &c};
        std::vector<HalfEdgeHandle*> hhs; std::vector<HalfFaceHandle*> hfhs; std::vector<CellHandle*> chs;
        st.garbage_collection(vhs, hhs, hfhs, chs, false);
        int lb = m.is_valid(b) ? lab[b] : -1, la = m.is_valid(a) ? lab[a] : -1, lc = m.is_valid(c) ? lab[c] : -1;
        std::cout << "fast=" << fast << ": vertex 5 survives; handle b -> " << b.idx() << " (label " << lb << "), handle a (handed in twice) -> " << a.idx() << " (label " << la << "), c -> " << c.idx() << " (label " << lc << ")\n";
        if (lb != 5 || lc != 4) { std::cout << "  unexpected: singly tracked handles wrong\n"; ++bad; }
        if (la != 5) { std::cout << "  WRONG: handle a no longer designates the vertex labelled 5\n"; ++bad; }
    }
    if (bad) { std::cout << "FAIL\n"; return 1; }
    std::cout << "ok\n"; return 0;
}
