// h1: random histories of kernel operations + StatusAttrib garbage collection + copies.
// build: g++ -std=c++17 -O1 -g -I/tmp/probe2/S/src -I/tmp/probe2/S/_build/src h1.cc /tmp/probe2/S/_build/Build/lib/libOpenVolumeMesh.a -o h1
// usage: ./h1 <kind 0=poly 1=tet 2=hex> <first seed> <n seeds> <n ops> [flags: i=skip fast-mode iterator check, q=quiet log]
#include "common.hh"
#include <memory>
#include <OpenVolumeMesh/Mesh/TetrahedralGeometryKernel.hh>
#include <functional>
#include <array>

static bool g_skip_fast_iter = false;
static bool g_skip_iter = false;

template<class M, int KIND> struct Harness {
    M m;
    std::mt19937 rng;
    Labels L;
    int next = 0, serial = 0;
    std::vector<Extra<bool>> xb; std::vector<Extra<std::string>> xs; std::vector<Extra<double>> xd;
    std::vector<std::string> log;
    std::unique_ptr<StatusAttrib> st;

    explicit Harness(unsigned seed) : rng(seed), L(get_labels(m, true)) {}

    int R(int n) { return n <= 0 ? 0 : (int)(rng() % (unsigned)n); }
    bool coin(int pct = 50) { return R(100) < pct; }
    template<class... A> void LOG(A&&... a) { std::ostringstream os; (os << ... << a); log.push_back(os.str()); }

    template<class H> std::vector<H> live(size_t n) { std::vector<H> r; for (int i = 0; i < (int)n; ++i) if (!m.is_deleted(H(i))) r.push_back(H(i)); return r; }
    std::vector<VH> liveV() { return live<VH>(m.n_vertices()); }
    std::vector<EH> liveE() { return live<EH>(m.n_edges()); }
    std::vector<FH> liveF() { return live<FH>(m.n_faces()); }
    std::vector<CH> liveC() { return live<CH>(m.n_cells()); }

    void check_extras() {
        for (auto &x : xb) check_extra(m, L, x, "bool");
        for (auto &x : xs) check_extra(m, L, x, "string");
        for (auto &x : xd) check_extra(m, L, x, "double");
    }
    // labels brand-new entities (label -1); they must sit in slots >= the old counts
    void label_new(size_t ov, size_t oe, size_t of, size_t oc) {
        for (int i = 0; i < (int)m.n_vertices(); ++i) if (L.vl[VH(i)] < 0 && !m.is_deleted(VH(i))) {
            if ((size_t)i < ov) FAIL("old vertex slot " << i << " lost its label");
            int l = next++; L.vl[VH(i)] = l;
            m.set_vertex(VH(i), typename M::PointT(l, 2.0 * l, -1.0 * l));
            for (auto &x : xb) x.v[VH(i)] = derived<bool>(0, l);
            for (auto &x : xs) x.v[VH(i)] = derived<std::string>(0, l);
            for (auto &x : xd) x.v[VH(i)] = derived<double>(0, l);
        }
        for (int i = 0; i < (int)m.n_edges(); ++i) if (L.el[EH(i)] < 0 && !m.is_deleted(EH(i))) {
            if ((size_t)i < oe) FAIL("old edge slot " << i << " lost its label");
            int l = next++; L.el[EH(i)] = l;
            for (int s = 0; s < 2; ++s) {
                HEH he = m.halfedge_handle(EH(i), s);
                if (L.hel[he] != -1) FAIL("new halfedge " << he.idx() << " does not hold the default label but " << L.hel[he]);
                L.hel[he] = 2 * l + s;
                for (auto &x : xb) x.he[he] = derived<bool>(2, 2 * l + s);
                for (auto &x : xs) x.he[he] = derived<std::string>(2, 2 * l + s);
                for (auto &x : xd) x.he[he] = derived<double>(2, 2 * l + s);
            }
            for (auto &x : xb) x.e[EH(i)] = derived<bool>(1, l);
            for (auto &x : xs) x.e[EH(i)] = derived<std::string>(1, l);
            for (auto &x : xd) x.e[EH(i)] = derived<double>(1, l);
        }
        for (int i = 0; i < (int)m.n_faces(); ++i) if (L.fl[FH(i)] < 0 && !m.is_deleted(FH(i))) {
            if ((size_t)i < of) FAIL("old face slot " << i << " lost its label");
            int l = next++; L.fl[FH(i)] = l;
            for (int s = 0; s < 2; ++s) {
                HFH hf = m.halfface_handle(FH(i), s);
                if (L.hfl[hf] != -1) FAIL("new halfface " << hf.idx() << " does not hold the default label but " << L.hfl[hf]);
                L.hfl[hf] = 2 * l + s;
                for (auto &x : xb) x.hf[hf] = derived<bool>(4, 2 * l + s);
                for (auto &x : xs) x.hf[hf] = derived<std::string>(4, 2 * l + s);
                for (auto &x : xd) x.hf[hf] = derived<double>(4, 2 * l + s);
            }
            for (auto &x : xb) x.f[FH(i)] = derived<bool>(3, l);
            for (auto &x : xs) x.f[FH(i)] = derived<std::string>(3, l);
            for (auto &x : xd) x.f[FH(i)] = derived<double>(3, l);
        }
        for (int i = 0; i < (int)m.n_cells(); ++i) if (L.cl[CH(i)] < 0 && !m.is_deleted(CH(i))) {
            if ((size_t)i < oc) FAIL("old cell slot " << i << " lost its label");
            int l = next++; L.cl[CH(i)] = l;
            for (auto &x : xb) x.c[CH(i)] = derived<bool>(5, l);
            for (auto &x : xs) x.c[CH(i)] = derived<std::string>(5, l);
            for (auto &x : xd) x.c[CH(i)] = derived<double>(5, l);
        }
    }
    void check_positions() {
        for (auto v : m.vertices()) {
            int l = L.vl[v];
            auto p = m.vertex(v);
            if (p[0] != l || p[1] != 2.0 * l || p[2] != -1.0 * l) FAIL("position of vertex " << v.idx() << " (label " << l << ") is " << p[0] << "," << p[1] << "," << p[2]);
        }
    }
    void check_shape() {
        if (KIND == 1) {
            for (auto f : m.faces()) if (m.face(f).halfedges().size() != 3) FAIL("tet mesh: face with " << m.face(f).halfedges().size() << " edges");
            for (auto c : m.cells()) {
                if (m.cell(c).halffaces().size() != 4) FAIL("tet mesh: cell with " << m.cell(c).halffaces().size() << " faces");
                if (m.n_vertices_in_cell(c) != 4) FAIL("tet mesh: cell with " << m.n_vertices_in_cell(c) << " vertices");
            }
        }
        if (KIND == 2) {
            for (auto f : m.faces()) if (m.face(f).halfedges().size() != 4) FAIL("hex mesh: face with " << m.face(f).halfedges().size() << " edges");
            for (auto c : m.cells()) {
                auto hfs = m.cell(c).halffaces();
                if (hfs.size() != 6) FAIL("hex mesh: cell with " << hfs.size() << " faces");
                if (m.n_vertices_in_cell(c) != 8) FAIL("hex mesh: cell with " << m.n_vertices_in_cell(c) << " vertices");
                for (int k = 0; k < 3; ++k) {
                    auto a = hf_vertices(m, hfs[2 * k]), b = hf_vertices(m, hfs[2 * k + 1]);
                    for (auto x : a) for (auto y : b) if (x == y) FAIL("hex cell " << c.idx() << ": halffaces " << 2 * k << " and " << 2 * k + 1 << " share a vertex");
                }
                // walking around hfs[0] meets 2,4,3,5 cyclically
                std::vector<int> seq;
                for (auto he : m.halfface(hfs[0]).halfedges()) {
                    HEH o = m.opposite_halfedge_handle(he);
                    int found = -1;
                    for (int k = 1; k < 6; ++k) for (auto h2 : m.halfface(hfs[k]).halfedges()) if (h2 == o) found = k;
                    seq.push_back(found);
                }
                const int want[4] = {2, 4, 3, 5};
                bool ok = false;
                for (int off = 0; off < 4 && !ok; ++off) { bool t = true; for (int i = 0; i < 4; ++i) if (seq[i] != want[(i + off) % 4]) t = false; ok = t; }
                if (!ok) FAIL("hex cell " << c.idx() << ": walking around halfface 0 meets " << seq[0] << seq[1] << seq[2] << seq[3] << " not 2,4,3,5 cyclically");
            }
        }
    }
    Snap full_check(size_t ov, size_t oe, size_t of, size_t oc) {
        check_kernel(m);
        check_extras();
        label_new(ov, oe, of, oc);
        Snap s = snapshot(m, L);
        check_positions();
        check_shape();
        return s;
    }
    static Snap restrict_to(const Snap &s, int firstNew) {
        Snap r;
        for (int v : s.V) if (v < firstNew) r.V.insert(v);
        for (auto &e : s.E) if (e.first < firstNew) r.E.insert(e);
        for (auto &f : s.F) if (f.first < firstNew) r.F.insert(f);
        for (auto &c : s.C) if (c.first < firstNew) r.C.insert(c);
        return r;
    }
    void expect_eq(const Snap &got, const Snap &exp, const char *what) {
        if (!(got == exp)) FAIL(what << ": logical mesh differs\n  got " << got.str() << "\n  exp " << exp.str());
    }

    HFH getHF(const std::vector<VH> &cyc) {
        HFH hf = brute_find_hf(m, cyc);
        if (hf.is_valid()) return hf;
        FH f = m.add_face(cyc);
        if (!f.is_valid()) FAIL("add_face(vertices) returned invalid");
        return m.halfface_handle(f, 0);
    }
    bool cycles_free(const std::vector<std::vector<VH>> &cycs) {
        for (auto &c : cycs) { HFH hf = brute_find_hf(m, c); if (hf.is_valid() && hf_occupied(m, hf)) return false; }
        return true;
    }
    bool full_bu() { return m.has_full_bottom_up_incidences(); }

    // ---- operations; each returns false if not applicable
    bool op_add(const Snap &before) {
        size_t ov = m.n_vertices(), oe = m.n_edges(), of = m.n_faces(), oc = m.n_cells();
        int firstNew = next;
        int k = R(10);
        auto lv = liveV();
        if (k == 0 || lv.size() < 4) {
            if (m.n_logical_vertices() >= (KIND == 2 ? 18u : 12u)) return false;
            if (coin(80)) { m.add_vertex(typename M::PointT(0, 0, 0)); LOG("add_vertex"); }
            else { int n = 1 + R(3); m.add_n_vertices(n); LOG("add_n_vertices ", n); }
        } else if (k == 1) {
            VH a = lv[R(lv.size())], b = lv[R(lv.size())];
            if (a == b) return false;
            m.add_edge(a, b); LOG("add_edge ", a.idx(), " ", b.idx());
        } else if (k == 2) {
            size_t n = KIND == 1 ? 3 : KIND == 2 ? 4 : 3 + R(2);
            if (lv.size() < n || m.n_logical_faces() > 40) return false;
            std::shuffle(lv.begin(), lv.end(), rng); lv.resize(n);
            auto rev = lv; std::reverse(rev.begin(), rev.end());
            if (brute_find_hf(m, lv).is_valid() || brute_find_hf(m, rev).is_valid()) return false;
            FH f = m.add_face(lv); LOG("add_face(vertices) n=", n, " -> ", f.idx());
            if (!f.is_valid()) FAIL("add_face(vertices) rejected distinct live vertices");
        } else {
            if (m.n_logical_cells() >= 10) return false;
            bool hex = KIND == 2 || (KIND == 0 && coin(30));
            size_t n = hex ? 8 : 4;
            if (lv.size() < n) return false;
            std::shuffle(lv.begin(), lv.end(), rng); lv.resize(n);
            auto &v = lv;
            std::vector<std::vector<VH>> cyc;
            if (!hex) cyc = {{v[0], v[1], v[2]}, {v[0], v[2], v[3]}, {v[0], v[3], v[1]}, {v[1], v[3], v[2]}};
            else cyc = {{v[3], v[2], v[1], v[0]}, {v[7], v[6], v[5], v[4]}, {v[1], v[2], v[6], v[7]}, {v[4], v[5], v[3], v[0]}, {v[1], v[7], v[4], v[0]}, {v[2], v[3], v[5], v[6]}};
            if (!cycles_free(cyc)) return false;
            {   // no second cell on the same vertex set (keeps the complex a proper cell complex)
                std::set<VH> want(v.begin(), v.end());
                for (auto c2 : m.cells()) { std::set<VH> have; for (auto hf : m.cell(c2).halffaces()) for (auto x : hf_vertices(m, hf)) have.insert(x); if (have == want) return false; }
            }
            bool chk = coin();
            CH c;
            std::ostringstream vs; for (auto x : v) vs << x.idx() << " ";
            if (KIND != 0 && full_bu() && coin(60)) {
                if constexpr (KIND == 1) {
                    if (coin()) { c = m.add_cell(v[0], v[1], v[2], v[3], chk); LOG("tet add_cell(4 VH) ", vs.str(), " chk=", chk, " -> ", c.idx()); }
                    else { c = m.add_cell(std::vector<VH>(v.begin(), v.end()), chk); LOG("tet add_cell(vector<VH>) ", vs.str(), " chk=", chk, " -> ", c.idx()); }
                } else if constexpr (KIND == 2) {
                    c = m.add_cell(std::vector<VH>(v.begin(), v.end()), chk); LOG("hex add_cell(vector<VH>) ", vs.str(), " chk=", chk, " -> ", c.idx());
                }
            } else {
                std::vector<HFH> hfs;
                for (auto &cy : cyc) hfs.push_back(getHF(cy));
                if (KIND == 2) chk = true; // convention only promised with check
                c = m.add_cell(hfs, chk); LOG("add_cell(halffaces) verts ", vs.str(), " chk=", chk, " -> ", c.idx());
            }
            if (!c.is_valid()) FAIL("add_cell rejected a valid free cell");
        }
        Snap after = full_check(ov, oe, of, oc);
        expect_eq(restrict_to(after, firstNew), before, "after add");
        return true;
    }

    template<class H, class It> void check_ret_iter(const char *what, H h, size_t n_before, int exp_label_shift, int exp_label_fast, It it, It end, std::function<int(H)> lab) {
        if (g_skip_iter) return;
        bool def = m.deferred_deletion_enabled(), fast = m.fast_deletion_enabled();
        bool isfast = fast && !def;
        int exp = isfast ? exp_label_fast : exp_label_shift;
        if (isfast && g_skip_fast_iter) return;
        int got = (it == end || !it.valid()) ? -1 : lab(*it);
        if (got != exp) FAIL("ITER" << (isfast ? "-FAST" : "") << ": " << what << "(" << h.idx() << ") of " << n_before << " returned iterator designating label " << got << " expected label " << exp << " (deferred=" << def << " fast=" << fast << ")");
    }

    bool op_delete(const Snap &before) {
        int kind = R(4);
        Snap exp = before;
        size_t ov = m.n_vertices(), oe = m.n_edges(), of = m.n_faces(), oc = m.n_cells();
        auto pick = [&](auto lv) { int r = R(3); return r == 0 ? lv.front() : r == 1 ? lv.back() : lv[R(lv.size())]; };
        if (kind == 0) {
            auto lv = liveV(); if (lv.empty()) return false;
            VH h = pick(lv);
            exp.delV(L.vl[h]);
            int nxt = -1; for (auto x : lv) if (x.idx() > h.idx()) { nxt = L.vl[x]; break; }
            int lst = (lv.back() == h) ? -1 : L.vl[lv.back()];
            LOG("delete_vertex ", h.idx(), " of ", ov);
            auto it = m.delete_vertex(h);
            check_ret_iter<VH, VertexIter>("delete_vertex", h, ov, nxt, lst, it, m.vertices_end(), [&](VH x) { return L.vl[x]; });
        } else if (kind == 1) {
            auto lv = liveE(); if (lv.empty()) return false;
            EH h = pick(lv);
            exp.delE(L.el[h]);
            int nxt = -1; for (auto x : lv) if (x.idx() > h.idx()) { nxt = L.el[x]; break; }
            int lst = (lv.back() == h) ? -1 : L.el[lv.back()];
            LOG("delete_edge ", h.idx(), " of ", oe);
            auto it = m.delete_edge(h);
            check_ret_iter<EH, EdgeIter>("delete_edge", h, oe, nxt, lst, it, m.edges_end(), [&](EH x) { return L.el[x]; });
        } else if (kind == 2) {
            auto lv = liveF(); if (lv.empty()) return false;
            FH h = pick(lv);
            exp.delF(L.fl[h]);
            int nxt = -1; for (auto x : lv) if (x.idx() > h.idx()) { nxt = L.fl[x]; break; }
            int lst = (lv.back() == h) ? -1 : L.fl[lv.back()];
            LOG("delete_face ", h.idx(), " of ", of);
            auto it = m.delete_face(h);
            check_ret_iter<FH, FaceIter>("delete_face", h, of, nxt, lst, it, m.faces_end(), [&](FH x) { return L.fl[x]; });
        } else {
            auto lv = liveC(); if (lv.empty()) return false;
            CH h = pick(lv);
            exp.delC(L.cl[h]);
            int nxt = -1; for (auto x : lv) if (x.idx() > h.idx()) { nxt = L.cl[x]; break; }
            int lst = (lv.back() == h) ? -1 : L.cl[lv.back()];
            LOG("delete_cell ", h.idx(), " of ", oc);
            auto it = m.delete_cell(h);
            check_ret_iter<CH, CellIter>("delete_cell", h, oc, nxt, lst, it, m.cells_end(), [&](CH x) { return L.cl[x]; });
        }
        Snap after = full_check(ov, oe, of, oc);
        expect_eq(after, exp, "after delete");
        if (!m.deferred_deletion_enabled()) {
            if (m.n_vertices() != exp.V.size() || m.n_edges() != exp.E.size() || m.n_faces() != exp.F.size() || m.n_cells() != exp.C.size()) FAIL("entity counts after immediate deletion");
        }
        return true;
    }

    bool op_mode(const Snap &before) {
        int k = R(6);
        if (k == 0) { bool b = coin(); LOG("enable_deferred_deletion ", b); m.enable_deferred_deletion(b); if (!b && m.needs_garbage_collection()) FAIL("pending deletions after leaving deferred mode"); }
        else if (k == 1) { bool b = coin(); LOG("enable_fast_deletion ", b); m.enable_fast_deletion(b); }
        else if (k == 2) { LOG("collect_garbage"); m.collect_garbage(); if (m.needs_garbage_collection()) FAIL("needs_garbage_collection after collect_garbage"); }
        else if (k == 3) { bool b = coin(); LOG("enable_vertex_bottom_up_incidences ", b); m.enable_vertex_bottom_up_incidences(b); }
        else if (k == 4) { bool b = coin(); LOG("enable_edge_bottom_up_incidences ", b); m.enable_edge_bottom_up_incidences(b); }
        else { bool b = coin(); LOG("enable_face_bottom_up_incidences ", b); m.enable_face_bottom_up_incidences(b); }
        Snap after = full_check(m.n_vertices(), m.n_edges(), m.n_faces(), m.n_cells());
        expect_eq(after, before, "after mode switch / collect_garbage");
        return true;
    }

    bool op_props() {
        int k = R(8);
        int vis = R(3);
        if (k == 0) { xb.push_back(mkextra<bool>(m, vis, serial++)); fill_extra(m, L, xb.back()); LOG("new bool props vis=", vis); }
        else if (k == 1) { xs.push_back(mkextra<std::string>(m, vis, serial++)); fill_extra(m, L, xs.back()); LOG("new string props vis=", vis); }
        else if (k == 2) { xd.push_back(mkextra<double>(m, vis, serial++)); fill_extra(m, L, xd.back()); LOG("new double props vis=", vis); }
        else if (k == 3 && !xb.empty()) { xb.erase(xb.begin() + R(xb.size())); LOG("drop bool props"); }
        else if (k == 4 && !xs.empty()) { xs.erase(xs.begin() + R(xs.size())); LOG("drop string props"); }
        else if (k == 5 && !xd.empty()) { xd.erase(xd.begin() + R(xd.size())); LOG("drop double props"); }
        else if (k == 6) { int n = R(40); LOG("reserve ", n); m.reserve_vertices(n); m.reserve_edges(n); m.reserve_faces(n); m.reserve_cells(n); }
        else return false;
        check_extras();
        return true;
    }

    bool op_clear() {
        bool cp = coin();
        LOG("clear(", cp, ")");
        m.clear(cp);
        if (cp) {
            // props were made private; make the labels findable again
            m.set_shared(L.vl, true); m.set_persistent(L.vl, true);
            m.set_shared(L.el, true); m.set_persistent(L.el, true);
            m.set_shared(L.hel, true); m.set_persistent(L.hel, true);
            m.set_shared(L.fl, true); m.set_persistent(L.fl, true);
            m.set_shared(L.hfl, true); m.set_persistent(L.hfl, true);
            m.set_shared(L.cl, true); m.set_persistent(L.cl, true);
        }
        Snap after = full_check(0, 0, 0, 0);
        expect_eq(after, Snap{}, "after clear");
        if (m.n_vertices() || m.n_edges() || m.n_faces() || m.n_cells() || m.needs_garbage_collection()) FAIL("counts after clear");
        return true;
    }

    bool op_set(const Snap &before) {
        int k = R(3);
        Snap exp = before;
        if (k == 0) {
            auto le = liveE(); auto lv = liveV(); if (le.empty() || lv.size() < 2) return false;
            EH e = le[R(le.size())];
            for (auto &f : before.F) for (int he : f.second) if (he / 2 == L.el[e]) return false; // only face-less edges
            VH a = lv[R(lv.size())], b = lv[R(lv.size())]; if (a == b) return false;
            for (auto &e2 : before.E) if ((e2.second.first == L.vl[a] && e2.second.second == L.vl[b]) || (e2.second.first == L.vl[b] && e2.second.second == L.vl[a])) return false; // no parallel edges
            LOG("set_edge ", e.idx(), " ", a.idx(), " ", b.idx());
            m.set_edge(e, a, b);
            exp.E[L.el[e]] = {L.vl[a], L.vl[b]};
        } else if (k == 1) {
            auto lf = liveF(); if (lf.empty()) return false;
            FH f = lf[R(lf.size())];
            auto hes = m.face(f).halfedges();
            std::rotate(hes.begin(), hes.begin() + 1, hes.end());
            LOG("set_face ", f.idx(), " rotated");
            m.set_face(f, hes);
            auto &d = exp.F[L.fl[f]]; std::rotate(d.begin(), d.begin() + 1, d.end());
        } else {
            if (KIND == 2) return false;
            auto lc = liveC(); if (lc.empty()) return false;
            CH c = lc[R(lc.size())];
            auto hfs = m.cell(c).halffaces();
            std::rotate(hfs.begin(), hfs.begin() + 1, hfs.end());
            LOG("set_cell ", c.idx(), " rotated");
            m.set_cell(c, hfs);
            auto &d = exp.C[L.cl[c]]; std::rotate(d.begin(), d.begin() + 1, d.end());
        }
        Snap after = full_check(m.n_vertices(), m.n_edges(), m.n_faces(), m.n_cells());
        expect_eq(after, exp, "after set_*");
        return true;
    }

    bool op_status(const Snap &before) {
        if (!st) { st = std::make_unique<StatusAttrib>(m); LOG("StatusAttrib constructed"); }
        StatusAttrib &S = *st;
        Snap exp = before;
        bool def = m.deferred_deletion_enabled();
        int pct = 5 + R(25);
        std::ostringstream marks;
        // flags by label on every live entity; reset deleted
        for (auto v : m.vertices()) { int l = L.vl[v]; S[v].set_selected(l % 2 == 0); S[v].set_tagged(l % 3 == 0); S[v].set_hidden(l % 5 == 0); S[v].set_deleted(false); }
        for (auto e : m.edges()) { int l = L.el[e]; S[e].set_selected(l % 2 == 0); S[e].set_tagged(l % 3 == 0); S[e].set_deleted(false); }
        for (auto h : m.halfedges()) { int l = L.hel[h]; S[h].set_selected(l % 2 == 0); S[h].set_tagged(l % 3 == 0); }
        for (auto f : m.faces()) { int l = L.fl[f]; S[f].set_selected(l % 2 == 0); S[f].set_tagged(l % 3 == 0); S[f].set_deleted(false); }
        for (auto h : m.halffaces()) { int l = L.hfl[h]; S[h].set_selected(l % 2 == 0); S[h].set_tagged(l % 3 == 0); }
        for (auto c : m.cells()) { int l = L.cl[c]; S[c].set_selected(l % 2 == 0); S[c].set_tagged(l % 3 == 0); S[c].set_deleted(false); }
        for (auto v : m.vertices()) if (coin(pct / 3)) { S[v].set_deleted(true); exp.delV(L.vl[v]); marks << "v" << v.idx() << " "; }
        for (auto e : m.edges()) if (coin(pct / 2)) { S[e].set_deleted(true); exp.delE(L.el[e]); marks << "e" << e.idx() << " "; }
        for (auto f : m.faces()) if (coin(pct)) { S[f].set_deleted(true); exp.delF(L.fl[f]); marks << "f" << f.idx() << " "; }
        for (auto c : m.cells()) if (coin(pct)) { S[c].set_deleted(true); exp.delC(L.cl[c]); marks << "c" << c.idx() << " "; }
        bool manifold = coin(35);
        if (manifold) exp.pruneNonManifold();
        // tracked handles
        int mode = R(4); // 0: untracked api, 1: all four kinds, 2: random subset of kinds non-empty, 3: only one kind
        std::vector<VH> tv; std::vector<HEH> th; std::vector<HFH> thf; std::vector<CH> tc;
        std::vector<int> lv_, lh_, lhf_, lc_;
        auto gen = [&](auto &vec, std::vector<int> &labs, int n, auto labfn, auto delfn) {
            int cnt = R(6) + 1;
            for (int i = 0; i < cnt; ++i) {
                int idx = R(n + 1) - 1; // -1 .. n-1
                if (!vec.empty() && coin(20)) idx = vec[R(vec.size())].idx(); // duplicate by value
                using H = typename std::decay_t<decltype(vec)>::value_type;
                H h(idx); vec.push_back(h);
                labs.push_back(idx < 0 || delfn(h) ? -1 : labfn(h));
            }
        };
        bool useV = mode == 1 || (mode == 2 && coin()) || (mode == 3);
        bool useH = mode == 1 || (mode == 2 && coin());
        bool useHF = mode == 1 || (mode == 2 && coin());
        bool useC = mode == 1 || (mode == 2 && coin());
        if (mode == 3) { int w = R(4); useV = w == 0; useH = w == 1; useHF = w == 2; useC = w == 3; }
        if (useV) gen(tv, lv_, (int)m.n_vertices(), [&](VH h) { return L.vl[h]; }, [&](VH h) { return m.is_deleted(h); });
        if (useH) gen(th, lh_, (int)m.n_halfedges(), [&](HEH h) { return L.hel[h]; }, [&](HEH h) { return m.is_deleted(h); });
        if (useHF) gen(thf, lhf_, (int)m.n_halffaces(), [&](HFH h) { return L.hfl[h]; }, [&](HFH h) { return m.is_deleted(h); });
        if (useC) gen(tc, lc_, (int)m.n_cells(), [&](CH h) { return L.cl[h]; }, [&](CH h) { return m.is_deleted(h); });
        std::vector<VH*> pv; for (auto &x : tv) pv.push_back(&x);
        std::vector<HEH*> ph; for (auto &x : th) ph.push_back(&x);
        std::vector<HFH*> phf; for (auto &x : thf) phf.push_back(&x);
        std::vector<CH*> pc; for (auto &x : tc) pc.push_back(&x);
        std::ostringstream tr;
        tr << "V["; for (auto x : tv) tr << x.idx() << " "; tr << "] HE["; for (auto x : th) tr << x.idx() << " "; tr << "] HF["; for (auto x : thf) tr << x.idx() << " "; tr << "] C["; for (auto x : tc) tr << x.idx() << " "; tr << "]";
        LOG("status GC marks{", marks.str(), "} manifold=", manifold, " mode=", mode, " tracked ", tr.str(), " pending_before=", m.needs_garbage_collection());
        if (mode == 0) S.garbage_collection(manifold);
        else S.garbage_collection(pv, ph, phf, pc, manifold);
        if (m.needs_garbage_collection()) FAIL("needs_garbage_collection after StatusAttrib::garbage_collection");
        if (m.deferred_deletion_enabled() != def) FAIL("StatusAttrib::garbage_collection changed the deferred-deletion mode");
        Snap after = full_check(m.n_vertices(), m.n_edges(), m.n_faces(), m.n_cells());
        expect_eq(after, exp, "after StatusAttrib::garbage_collection");
        if (m.n_vertices() != exp.V.size() || m.n_edges() != exp.E.size() || m.n_faces() != exp.F.size() || m.n_cells() != exp.C.size()) FAIL("entity counts after StatusAttrib::garbage_collection");
        // tracked handles
        for (size_t i = 0; i < tv.size(); ++i) {
            bool surv = lv_[i] >= 0 && exp.V.count(lv_[i]);
            if (!surv) { if (tv[i].is_valid()) FAIL("tracked vertex handle #" << i << " of a removed/invalid entity is " << tv[i].idx() << " not invalid"); }
            else if (!m.is_valid(tv[i]) || L.vl[tv[i]] != lv_[i]) FAIL("tracked vertex handle #" << i << " (label " << lv_[i] << ") now " << tv[i].idx());
        }
        for (size_t i = 0; i < th.size(); ++i) {
            bool surv = lh_[i] >= 0 && exp.E.count(lh_[i] / 2);
            if (!surv) { if (th[i].is_valid()) FAIL("tracked halfedge handle #" << i << " of a removed/invalid entity is " << th[i].idx() << " not invalid"); }
            else if (!m.is_valid(th[i]) || L.hel[th[i]] != lh_[i]) FAIL("tracked halfedge handle #" << i << " (label " << lh_[i] << ") now " << th[i].idx());
        }
        for (size_t i = 0; i < thf.size(); ++i) {
            bool surv = lhf_[i] >= 0 && exp.F.count(lhf_[i] / 2);
            if (!surv) { if (thf[i].is_valid()) FAIL("tracked halfface handle #" << i << " of a removed/invalid entity is " << thf[i].idx() << " not invalid"); }
            else if (!m.is_valid(thf[i]) || L.hfl[thf[i]] != lhf_[i]) FAIL("tracked halfface handle #" << i << " (label " << lhf_[i] << ") now " << thf[i].idx());
        }
        for (size_t i = 0; i < tc.size(); ++i) {
            bool surv = lc_[i] >= 0 && exp.C.count(lc_[i]);
            if (!surv) { if (tc[i].is_valid()) FAIL("tracked cell handle #" << i << " of a removed/invalid entity is " << tc[i].idx() << " not invalid"); }
            else if (!m.is_valid(tc[i]) || L.cl[tc[i]] != lc_[i]) FAIL("tracked cell handle #" << i << " (label " << lc_[i] << ") now " << tc[i].idx());
        }
        // status flags follow their entities
        for (auto v : m.vertices()) { int l = L.vl[v]; if (S[v].selected() != (l % 2 == 0) || S[v].tagged() != (l % 3 == 0) || S[v].hidden() != (l % 5 == 0) || S[v].deleted()) FAIL("status of vertex label " << l); }
        for (auto e : m.edges()) { int l = L.el[e]; if (S[e].selected() != (l % 2 == 0) || S[e].tagged() != (l % 3 == 0) || S[e].deleted()) FAIL("status of edge label " << l); }
        for (auto h : m.halfedges()) { int l = L.hel[h]; if (S[h].selected() != (l % 2 == 0) || S[h].tagged() != (l % 3 == 0)) FAIL("status of halfedge label " << l); }
        for (auto f : m.faces()) { int l = L.fl[f]; if (S[f].selected() != (l % 2 == 0) || S[f].tagged() != (l % 3 == 0) || S[f].deleted()) FAIL("status of face label " << l); }
        for (auto h : m.halffaces()) { int l = L.hfl[h]; if (S[h].selected() != (l % 2 == 0) || S[h].tagged() != (l % 3 == 0)) FAIL("status of halfface label " << l); }
        for (auto c : m.cells()) { int l = L.cl[c]; if (S[c].selected() != (l % 2 == 0) || S[c].tagged() != (l % 3 == 0) || S[c].deleted()) FAIL("status of cell label " << l); }
        return true;
    }

    bool op_copy(const Snap &before) {
        bool assign = coin(40);
        LOG("copy mesh (assign=", assign, "), mutate copy");
        M cp0;
        if (assign) { // pre-populate target with own content and properties
            auto pz = cp0.template request_property<int, Entity::Vertex>("L_v", 77);
            auto pq = cp0.template create_persistent_property<std::string, Entity::Cell>("own", "o");
            for (int i = 0; i < 5; ++i) cp0.add_vertex(typename M::PointT(9, 9, 9));
            cp0.add_edge(VH(0), VH(1)); cp0.add_face(std::vector<VH>(KIND == 2 ? std::vector<VH>{VH(0), VH(1), VH(2), VH(3)} : std::vector<VH>{VH(0), VH(1), VH(2)}));
            cp0.delete_vertex(VH(4));
            cp0 = m;
            if (pz.size() != m.n_vertices()) FAIL("assignment: old property of target not resized to new mesh (" << pz.size() << " vs " << m.n_vertices() << ")");
        }
        M cp1(m);
        M &cp = assign ? cp0 : cp1;
        {
            Labels LC = get_labels(cp, false);
            check_kernel(cp);
            Snap sc = snapshot(cp, LC);
            expect_eq(sc, before, "copy");
            if (cp.needs_garbage_collection() != m.needs_garbage_collection()) FAIL("copy: needs_garbage_collection differs");
            // same positions
            for (auto v : cp.vertices()) { auto p = cp.vertex(v); int l = LC.vl[v]; if (p[0] != l) FAIL("copy: position of vertex label " << l); }
            int k = R(4);
            Snap exp = sc;
            if (k == 0) { cp.enable_deferred_deletion(true); cp.collect_garbage(); }
            else if (k == 1) { cp.enable_deferred_deletion(false); }
            else if (k == 2) { StatusAttrib s2(cp); s2.garbage_collection(false); }
            else { auto lv = liveV(); if (!lv.empty()) { VH h = lv[R(lv.size())]; exp.delV(LC.vl[h]); cp.delete_vertex(h); } if (coin()) cp.collect_garbage(); }
            check_kernel(cp);
            Snap sc2 = snapshot(cp, LC);
            expect_eq(sc2, exp, "copy after mutation");
            if (coin(30)) cp.clear(coin());
        }
        Snap after = full_check(m.n_vertices(), m.n_edges(), m.n_faces(), m.n_cells());
        expect_eq(after, before, "original after copy was mutated");
        return true;
    }


    // canonical oriented tet (even permutations) in vertex labels
    static std::array<int,4> canon(std::array<int,4> t) {
        static const int P[12][4] = {{0,1,2,3},{0,2,3,1},{0,3,1,2},{1,0,3,2},{1,2,0,3},{1,3,2,0},{2,0,1,3},{2,1,3,0},{2,3,0,1},{3,0,2,1},{3,1,0,2},{3,2,1,0}};
        std::array<int,4> best = t; bool first = true;
        for (auto &p : P) { std::array<int,4> c{t[p[0]], t[p[1]], t[p[2]], t[p[3]]}; if (first || c < best) { best = c; first = false; } }
        return best;
    }
    std::array<int,4> tet_tuple(CH c) {
        auto hfs = m.cell(c).halffaces();
        auto a = hf_vertices(m, hfs[0]);
        VH d(-1);
        for (auto v : hf_vertices(m, hfs[1])) if (v != a[0] && v != a[1] && v != a[2]) d = v;
        if (!d.is_valid()) FAIL("tet without fourth vertex");
        return canon({L.vl[a[0]], L.vl[a[1]], L.vl[a[2]], L.vl[d]});
    }
    static inline long g_inherit = 0, g_default = 0, g_splits = 0;
    bool op_split(const Snap &before) {
        if constexpr (KIND == 1) {
            if (!full_bu()) return false;
            if (m.n_logical_vertices() >= 14) return false;
            std::map<int, std::array<int,4>> tup; // cell label -> tuple
            for (auto c : m.cells()) tup[L.cl[c]] = tet_tuple(c);
            Snap exp = before;
            int firstNew = next;
            std::vector<std::pair<int, std::array<int,4>>> expNew; // (parent label, tuple with placeholder -1000 for m)
            bool edge = coin();
            VH mv;
            std::set<int> removedFaces;
            if (edge) {
                auto le = liveE(); if (le.empty()) return false;
                EH e = le[R(le.size())];
                int la = L.vl[m.edge(e).from_vertex()], lb = L.vl[m.edge(e).to_vertex()];
                for (auto &t : tup) {
                    bool ha = false, hb = false; for (int x : t.second) { ha |= x == la; hb |= x == lb; }
                    if (ha && hb) { auto t1 = t.second, t2 = t.second; for (auto &x : t1) if (x == la) x = -1000; for (auto &x : t2) if (x == lb) x = -1000; expNew.push_back({t.first, t1}); expNew.push_back({t.first, t2}); }
                }
                exp.delE(L.el[e]);
                int variant = R(3);
                LOG("split_edge e", e.idx(), " variant ", variant, " (vertices ", m.edge(e).from_vertex().idx(), ",", m.edge(e).to_vertex().idx(), ")");
                if (variant == 0) mv = m.split_edge(e);
                else if (variant == 1) mv = m.split_edge(m.halfedge_handle(e, 0), 0.25);
                else mv = m.split_edge(m.halfedge_handle(e, 1), 0.5);
            } else {
                auto lf = liveF(); if (lf.empty()) return false;
                FH f = lf[R(lf.size())];
                auto fv = hf_vertices(m, m.halfface_handle(f, 0));
                int l0 = L.vl[fv[0]], l1 = L.vl[fv[1]], l2 = L.vl[fv[2]];
                for (auto &t : tup) {
                    int cnt = 0; for (int x : t.second) if (x == l0 || x == l1 || x == l2) ++cnt;
                    if (cnt == 3) for (int who : {l0, l1, l2}) { auto t1 = t.second; for (auto &x : t1) if (x == who) x = -1000; expNew.push_back({t.first, t1}); }
                }
                exp.delF(L.fl[f]);
                bool withpos = coin();
                LOG("split_face f", f.idx(), " withpos=", withpos);
                mv = withpos ? m.split_face(f, typename M::PointT(1, 2, 3)) : m.split_face(f);
            }
            if (!m.is_valid(mv) || m.is_deleted(mv)) FAIL("split returned unusable vertex handle " << mv.idx());
            if (L.vl[mv] != -1) FAIL("split vertex does not hold the default label");
            int lm = next++; L.vl[mv] = lm; m.set_vertex(mv, typename M::PointT(lm, 2.0 * lm, -1.0 * lm));
            for (auto &x : xb) { if (bool(x.v[mv]) != defval<bool>()) FAIL("split vertex bool prop not default"); x.v[mv] = derived<bool>(0, lm); }
            for (auto &x : xs) { if (std::string(x.v[mv]) != defval<std::string>()) FAIL("split vertex string prop not default"); x.v[mv] = derived<std::string>(0, lm); }
            for (auto &x : xd) { if (double(x.v[mv]) != defval<double>()) FAIL("split vertex double prop not default"); x.v[mv] = derived<double>(0, lm); }
            std::multiset<std::array<int,4>> wantT, gotT;
            std::map<std::array<int,4>, int> parentOf;
            for (auto &pn : expNew) { auto t = pn.second; for (auto &x : t) if (x == -1000) x = lm; t = canon(t); wantT.insert(t); parentOf[t] = pn.first; }
            for (auto c : m.cells()) {
                if (m.cell(c).halffaces().size() != 4) FAIL("cell with " << m.cell(c).halffaces().size() << " halffaces after split");
                auto t = tet_tuple(c);
                bool hasM = false; for (int x : t) hasM |= x == lm;
                if (!hasM) continue;
                gotT.insert(t);
                int lab = L.cl[c];
                if (lab == -1) ++g_default;
                else if (parentOf.count(t) && parentOf[t] == lab) ++g_inherit;
                else FAIL("new cell after split holds label " << lab << " which is neither the default nor its parent's");
                // neutralise to default so that the generic flow can label it
                if (lab != -1) {
                    for (auto &x : xb) if (bool(x.c[c]) != derived<bool>(5, lab)) FAIL("split: child cell bool prop is not the parent's value");
                    for (auto &x : xs) if (std::string(x.c[c]) != derived<std::string>(5, lab)) FAIL("split: child cell string prop is not the parent's value");
                    for (auto &x : xd) if (double(x.c[c]) != derived<double>(5, lab)) FAIL("split: child cell double prop is not the parent's value");
                    L.cl[c] = -1;
                    for (auto &x : xb) x.c[c] = defval<bool>();
                    for (auto &x : xs) x.c[c] = defval<std::string>();
                    for (auto &x : xd) x.c[c] = defval<double>();
                }
            }
            if (wantT != gotT) FAIL("split: set of cells containing the new vertex is wrong (" << gotT.size() << " vs " << wantT.size() << ")");
            ++g_splits;
            Snap after = full_check(0, 0, 0, 0);
            expect_eq(restrict_to(after, firstNew), exp, "after split (old entities)");
            // every new edge contains m, every new face contains m
            for (auto &e : after.E) if (e.first >= firstNew && e.second.first != lm && e.second.second != lm) FAIL("split created an edge not at the new vertex");
            for (auto &e : after.E) if (e.first >= firstNew) for (auto &e2 : after.E) if (e2.first != e.first && ((e2.second == e.second) || (e2.second.first == e.second.second && e2.second.second == e.second.first))) FAIL("split created a duplicate edge");
            return true;
        }
        return false;
    }

    void run(int nops) {
        // random initial configuration
        if (coin(30)) m.enable_deferred_deletion(coin());
        if (coin(30)) m.enable_fast_deletion(coin());
        LOG("init deferred=", m.deferred_deletion_enabled(), " fast=", m.fast_deletion_enabled());
        if (coin(60)) { xb.push_back(mkextra<bool>(m, R(3), serial++)); fill_extra(m, L, xb.back()); }
        if (coin(60)) { xs.push_back(mkextra<std::string>(m, R(3), serial++)); fill_extra(m, L, xs.back()); }
        for (int i = 0; i < nops; ++i) {
            Snap before = snapshot(m, L);
            int k = R(100);
            bool done = false;
            // structural additions need (for the native vertex overloads) nothing special; getHF is brute force
            if (k < 40) done = op_add(before);
            else if (k < 62) done = op_delete(before);
            else if (k < 74) done = op_mode(before);
            else if (k < 80) done = op_props();
            else if (k < 82) done = op_clear();
            else if (k < 86) done = op_set(before);
            else if (k < 92) done = op_status(before);
            else if (k < 96) done = op_split(before);
            else done = op_copy(before);
            (void)done;
        }
    }
};

template<class M, int KIND> int drive(unsigned first, int nseeds, int nops, bool quiet) {
    int fails = 0;
    std::map<std::string, int> kinds;
    for (unsigned s = first; s < first + (unsigned)nseeds; ++s) {
        Harness<M, KIND> h(s);
        try { h.run(nops); }
        catch (Fail &f) {
            ++fails;
            std::string msg = f.what();
            std::string key = msg.substr(0, msg.find_first_of("0123456789\n"));
            if (kinds[key]++ < 2 && !quiet) {
                std::cout << "=== FAIL kind=" << KIND << " seed=" << s << " after " << h.log.size() << " logged ops: " << msg << "\n";
                size_t from = h.log.size() > 40 ? h.log.size() - 40 : 0;
                for (size_t i = from; i < h.log.size(); ++i) std::cout << "    " << h.log[i] << "\n";
                std::cout << "    [bu v/e/f=" << h.m.has_vertex_bottom_up_incidences() << h.m.has_edge_bottom_up_incidences() << h.m.has_face_bottom_up_incidences() << " deferred=" << h.m.deferred_deletion_enabled() << " fast=" << h.m.fast_deletion_enabled() << "]\n";
            }
        }
    }
    std::cout << "splits=" << Harness<M,KIND>::g_splits << " child cells inheriting parent props=" << Harness<M,KIND>::g_inherit << " default=" << Harness<M,KIND>::g_default << "\n";
    std::cout << "kind " << KIND << ": " << fails << " failing seeds of " << nseeds << "\n";
    for (auto &k : kinds) std::cout << "   " << k.second << " x " << k.first << "\n";
    return fails;
}

int main(int argc, char **argv) {
    int kind = argc > 1 ? atoi(argv[1]) : 0;
    unsigned first = argc > 2 ? atoi(argv[2]) : 1;
    int nseeds = argc > 3 ? atoi(argv[3]) : 200;
    int nops = argc > 4 ? atoi(argv[4]) : 80;
    std::string flags = argc > 5 ? argv[5] : "";
    g_skip_fast_iter = flags.find('i') != std::string::npos;
    g_skip_iter = flags.find('I') != std::string::npos;
    bool quiet = flags.find('q') != std::string::npos;
    if (kind == 0) return drive<GeometricPolyhedralMeshV3d, 0>(first, nseeds, nops, quiet) ? 1 : 0;
    if (kind == 1) return drive<TetrahedralGeometryKernel<Geometry::Vec3d, TetrahedralMeshTopologyKernel>, 1>(first, nseeds, nops, quiet) ? 1 : 0;
    return drive<GeometricHexahedralMeshV3d, 2>(first, nseeds, nops, quiet) ? 1 : 0;
}
