// h3: hexahedral blocks: add_cell(8 vertices) in all 24 rotations with faces pre-existing in other
// rotations/orientations, deletions in all modes, garbage collection; halfface-order convention,
// hex_vertices pattern, opposite_halfface_handle_in_cell, after every step.
// build: g++ -std=c++17 -O1 -g -I/tmp/probe2/S/src -I/tmp/probe2/S/_build/src h3.cc /tmp/probe2/S/_build/Build/lib/libOpenVolumeMesh.a -o h3
#include "common.hh"
#include <array>
using M = GeometricHexahedralMeshV3d;

static const int C8[8][3] = {{0,0,0},{1,0,0},{1,1,0},{0,1,0},{0,0,1},{0,1,1},{1,1,1},{1,0,1}};

static std::vector<std::array<int,8>> rotations() {
    std::vector<std::array<int,8>> r;
    int perm[3] = {0,1,2};
    do {
        for (int s = 0; s < 8; ++s) {
            int sg[3] = {s & 1 ? -1 : 1, s & 2 ? -1 : 1, s & 4 ? -1 : 1};
            // determinant = sign(perm) * prod(sg)
            int inv = 0; for (int i = 0; i < 3; ++i) for (int j = i + 1; j < 3; ++j) if (perm[i] > perm[j]) ++inv;
            int det = (inv % 2 ? -1 : 1) * sg[0] * sg[1] * sg[2];
            if (det != 1) continue;
            std::array<int,8> p;
            for (int i = 0; i < 8; ++i) {
                int c[3]; for (int k = 0; k < 3; ++k) { int x = 2 * C8[i][perm[k]] - 1; x *= sg[k]; c[k] = (x + 1) / 2; }
                int f = -1; for (int j = 0; j < 8; ++j) if (C8[j][0] == c[0] && C8[j][1] == c[1] && C8[j][2] == c[2]) f = j;
                p[i] = f;
            }
            r.push_back(p);
        }
    } while (std::next_permutation(perm, perm + 3));
    return r;
}

static void check_convention(const M &m) {
    for (auto c : m.cells()) {
        auto hfs = m.cell(c).halffaces();
        if (hfs.size() != 6) FAIL("cell " << c.idx() << " has " << hfs.size() << " halffaces");
        if (m.n_vertices_in_cell(c) != 8) FAIL("cell " << c.idx() << " has " << m.n_vertices_in_cell(c) << " vertices");
        for (auto hf : hfs) if (m.halfface(hf).halfedges().size() != 4) FAIL("non-quad face");
        for (int k = 0; k < 3; ++k) {
            auto a = hf_vertices(m, hfs[2 * k]), b = hf_vertices(m, hfs[2 * k + 1]);
            for (auto x : a) for (auto y : b) if (x == y) FAIL("cell " << c.idx() << ": halffaces " << 2 * k << "," << 2 * k + 1 << " share a vertex");
            if (m.opposite_halfface_handle_in_cell(hfs[2 * k], c) != hfs[2 * k + 1] || m.opposite_halfface_handle_in_cell(hfs[2 * k + 1], c) != hfs[2 * k]) FAIL("opposite_halfface_handle_in_cell");
        }
        std::vector<int> seq;
        for (auto he : m.halfface(hfs[0]).halfedges()) {
            HEH o = m.opposite_halfedge_handle(he); int found = -1;
            for (int k = 1; k < 6; ++k) for (auto h2 : m.halfface(hfs[k]).halfedges()) if (h2 == o) found = k;
            seq.push_back(found);
        }
        const int want[4] = {2, 4, 3, 5}; bool ok = false;
        for (int off = 0; off < 4 && !ok; ++off) { bool t = true; for (int i = 0; i < 4; ++i) if (seq[i] != want[(i + off) % 4]) t = false; ok = t; }
        if (!ok) FAIL("cell " << c.idx() << ": around halfface 0: " << seq[0] << seq[1] << seq[2] << seq[3]);
        if (m.xfront_halfface(c) != hfs[0] || m.xback_halfface(c) != hfs[1] || m.yfront_halfface(c) != hfs[2] || m.yback_halfface(c) != hfs[3] || m.zfront_halfface(c) != hfs[4] || m.zback_halfface(c) != hfs[5]) FAIL("front/back accessors");
        if (m.has_full_bottom_up_incidences()) {
            // hex_vertices pattern
            std::vector<VH> hv; for (auto it = m.hv_iter(c); it.valid(); ++it) hv.push_back(*it);
            if (hv.size() != 8) FAIL("hv_iter gives " << hv.size());
            std::set<VH> d(hv.begin(), hv.end()); if (d.size() != 8) FAIL("hv_iter vertices not distinct");
            auto f0 = hf_vertices(m, hfs[0]);
            // first four: first halfface's vertices against its cyclic order starting at source of its first halfedge
            std::vector<VH> want4 = {f0[0], f0[3], f0[2], f0[1]};
            for (int i = 0; i < 4; ++i) if (hv[i] != want4[i]) FAIL("hex_vertices first four of cell " << c.idx());
            auto joined = [&](VH a, VH b) { for (auto hf : hfs) for (auto he : m.halfface(hf).halfedges()) { auto e = m.halfedge(he); if ((e.from_vertex() == a && e.to_vertex() == b) || (e.from_vertex() == b && e.to_vertex() == a)) return true; } return false; };
            if (!joined(hv[0], hv[4]) || !joined(hv[1], hv[7]) || !joined(hv[2], hv[6]) || !joined(hv[3], hv[5])) FAIL("hex_vertices pattern edges of cell " << c.idx());
            auto f1 = hf_vertices(m, hfs[1]); std::set<VH> s1(f1.begin(), f1.end());
            for (int i = 4; i < 8; ++i) if (!s1.count(hv[i])) FAIL("hex_vertices last four not on opposite halfface");
        }
    }
}

int main(int argc, char **argv) {
    unsigned first = argc > 1 ? atoi(argv[1]) : 1; int nseeds = argc > 2 ? atoi(argv[2]) : 300;
    auto rots = rotations();
    if (rots.size() != 24) { std::cout << "rotations " << rots.size() << "\n"; return 2; }
    int fails = 0;
    for (unsigned seed = first; seed < first + (unsigned)nseeds; ++seed) {
        std::mt19937 rng(seed); auto R = [&](int n) { return (int)(rng() % (unsigned)n); };
        std::vector<std::string> log;
        M m;
        try {
            Labels L = get_labels(m, true);
            int next = 0;
            int nx = 1 + R(3), ny = 1 + R(2), nz = 1 + R(2);
            auto vid = [&](int x, int y, int z) { return VH((z * (ny + 1) + y) * (nx + 1) + x); };
            for (int i = 0; i < (nx + 1) * (ny + 1) * (nz + 1); ++i) m.add_vertex(M::PointT(i, 0, 0));
            m.enable_deferred_deletion(R(2)); m.enable_fast_deletion(R(2));
            std::vector<std::array<int,3>> cells;
            for (int x = 0; x < nx; ++x) for (int y = 0; y < ny; ++y) for (int z = 0; z < nz; ++z) cells.push_back({x, y, z});
            std::shuffle(cells.begin(), cells.end(), rng);
            auto labelAll = [&]() {
                for (int i = 0; i < (int)m.n_vertices(); ++i) if (L.vl[VH(i)] < 0) L.vl[VH(i)] = next++;
                for (int i = 0; i < (int)m.n_edges(); ++i) if (L.el[EH(i)] < 0) { int l = next++; L.el[EH(i)] = l; L.hel[HEH(2 * i)] = 2 * l; L.hel[HEH(2 * i + 1)] = 2 * l + 1; }
                for (int i = 0; i < (int)m.n_faces(); ++i) if (L.fl[FH(i)] < 0) { int l = next++; L.fl[FH(i)] = l; L.hfl[HFH(2 * i)] = 2 * l; L.hfl[HFH(2 * i + 1)] = 2 * l + 1; }
                for (int i = 0; i < (int)m.n_cells(); ++i) if (L.cl[CH(i)] < 0) L.cl[CH(i)] = next++;
            };
            for (auto &cc : cells) {
                std::array<VH,8> base; for (int i = 0; i < 8; ++i) base[i] = vid(cc[0] + C8[i][0], cc[1] + C8[i][1], cc[2] + C8[i][2]);
                auto &p = rots[R(24)];
                std::vector<VH> v(8); for (int i = 0; i < 8; ++i) v[i] = base[p[i]];
                std::vector<std::vector<VH>> cyc = {{v[3], v[2], v[1], v[0]}, {v[7], v[6], v[5], v[4]}, {v[1], v[2], v[6], v[7]}, {v[4], v[5], v[3], v[0]}, {v[1], v[7], v[4], v[0]}, {v[2], v[3], v[5], v[6]}};
                // pre-create some faces in another rotation / orientation
                for (auto cy : cyc) if (R(3) == 0) {
                    auto rev = cy; std::reverse(rev.begin(), rev.end());
                    if (brute_find_hf(m, cy).is_valid()) continue;
                    std::vector<VH> f = R(2) ? cy : rev; std::rotate(f.begin(), f.begin() + R(4), f.end());
                    m.add_face(f); log.push_back("pre-face");
                }
                bool chk = R(2);
                Snap before; labelAll(); before = snapshot(m, L);
                CH c = m.add_cell(v, chk);
                std::ostringstream os; os << "add_cell(8) cell " << cc[0] << cc[1] << cc[2] << " chk=" << chk << " -> " << c.idx(); log.push_back(os.str());
                if (!c.is_valid()) FAIL("add_cell(8 vertices) rejected a valid grid cell");
                check_kernel(m); check_convention(m); labelAll();
                if (R(4) == 0 && m.n_logical_cells() > 0) { // interleaved deletion
                    Snap s = snapshot(m, L); auto it = m.cells_begin(); int k = R((int)m.n_logical_cells()); while (k--) ++it;
                    CH d = *it; s.delC(L.cl[d]); log.push_back("delete_cell " + std::to_string(d.idx())); m.delete_cell(d);
                    check_kernel(m); check_convention(m); if (!(snapshot(m, L) == s)) FAIL("after delete_cell");
                }
            }
            for (int step = 0; step < 12; ++step) {
                Snap s = snapshot(m, L);
                int k = R(8);
                if (k == 0 && m.n_logical_vertices()) { auto it = m.vertices_begin(); int j = R((int)m.n_logical_vertices()); while (j--) ++it; s.delV(L.vl[*it]); log.push_back("delete_vertex " + std::to_string(it->idx())); m.delete_vertex(*it); }
                else if (k == 1 && m.n_logical_edges()) { auto it = m.edges_begin(); int j = R((int)m.n_logical_edges()); while (j--) ++it; s.delE(L.el[*it]); log.push_back("delete_edge " + std::to_string(it->idx())); m.delete_edge(*it); }
                else if (k == 2 && m.n_logical_faces()) { auto it = m.faces_begin(); int j = R((int)m.n_logical_faces()); while (j--) ++it; s.delF(L.fl[*it]); log.push_back("delete_face " + std::to_string(it->idx())); m.delete_face(*it); }
                else if (k == 3 && m.n_logical_cells()) { auto it = m.cells_begin(); int j = R((int)m.n_logical_cells()); while (j--) ++it; s.delC(L.cl[*it]); log.push_back("delete_cell " + std::to_string(it->idx())); m.delete_cell(*it); }
                else if (k == 4) { log.push_back("collect_garbage"); m.collect_garbage(); }
                else if (k == 5) { bool b = R(2); log.push_back("deferred " + std::to_string(b)); m.enable_deferred_deletion(b); }
                else if (k == 6) { bool b = R(2); log.push_back("fast " + std::to_string(b)); m.enable_fast_deletion(b); }
                else { StatusAttrib st(m); bool mf = R(2); for (auto c : m.cells()) if (R(4) == 0) { st[c].set_deleted(true); s.delC(L.cl[c]); } if (mf) s.pruneNonManifold(); log.push_back("status gc manifold=" + std::to_string(mf)); st.garbage_collection(mf); }
                check_kernel(m); check_convention(m);
                if (!(snapshot(m, L) == s)) FAIL("logical mesh after step differs");
            }
        } catch (Fail &f) {
            ++fails;
            if (fails <= 3) { std::cout << "=== FAIL seed " << seed << ": " << f.what() << "\n"; for (auto &l : log) std::cout << "   " << l << "\n"; }
        }
    }
    std::cout << "h3: " << fails << " failing seeds of " << nseeds << "\n";
    return fails ? 1 : 0;
}
