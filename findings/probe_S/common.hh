// Model-based random tester infrastructure for OpenVolumeMesh (second-wave probe S).
// Identity labels live in persistent properties; the oracle is a brute-force
// snapshot of the live entities expressed in labels.
#pragma once
#include <OpenVolumeMesh/Mesh/PolyhedralMesh.hh>
#include <OpenVolumeMesh/Mesh/TetrahedralMesh.hh>
#include <OpenVolumeMesh/Mesh/HexahedralMesh.hh>
#include <OpenVolumeMesh/Attribs/StatusAttrib.hh>
#include <random>
#include <map>
#include <set>
#include <sstream>
#include <iostream>
#include <optional>
#include <algorithm>

using namespace OpenVolumeMesh;
using VH = VertexHandle; using EH = EdgeHandle; using HEH = HalfEdgeHandle;
using FH = FaceHandle; using HFH = HalfFaceHandle; using CH = CellHandle;

struct Fail : std::runtime_error { using std::runtime_error::runtime_error; };
#define FAIL(msg) do { std::ostringstream os_; os_ << msg; throw Fail(os_.str()); } while (0)

struct Snap {
    std::set<int> V;
    std::map<int, std::pair<int,int>> E;   // edge label -> (from vlabel, to vlabel)
    std::map<int, std::vector<int>> F;     // face label -> halfedge labels (2*el+side)
    std::map<int, std::vector<int>> C;     // cell label -> halfface labels (2*fl+side)
    bool operator==(const Snap &o) const { return V == o.V && E == o.E && F == o.F && C == o.C; }
    void delC(int c) { C.erase(c); }
    void delF(int f) {
        F.erase(f);
        std::vector<int> cs;
        for (auto &c : C) for (int hf : c.second) if (hf / 2 == f) { cs.push_back(c.first); break; }
        for (int c : cs) delC(c);
    }
    void delE(int e) {
        E.erase(e);
        std::vector<int> fs;
        for (auto &f : F) for (int he : f.second) if (he / 2 == e) { fs.push_back(f.first); break; }
        for (int f : fs) delF(f);
    }
    void delV(int v) {
        V.erase(v);
        std::vector<int> es;
        for (auto &e : E) if (e.second.first == v || e.second.second == v) es.push_back(e.first);
        for (int e : es) delE(e);
    }
    void pruneNonManifold() {
        std::vector<int> fs;
        for (auto &f : F) {
            bool used = false;
            for (auto &c : C) for (int hf : c.second) if (hf / 2 == f.first) used = true;
            if (!used) fs.push_back(f.first);
        }
        for (int f : fs) F.erase(f);
        std::vector<int> es;
        for (auto &e : E) {
            bool used = false;
            for (auto &f : F) for (int he : f.second) if (he / 2 == e.first) used = true;
            if (!used) es.push_back(e.first);
        }
        for (int e : es) E.erase(e);
        std::vector<int> vs;
        for (int v : V) {
            bool used = false;
            for (auto &e : E) if (e.second.first == v || e.second.second == v) used = true;
            if (!used) vs.push_back(v);
        }
        for (int v : vs) V.erase(v);
    }
    std::string str() const {
        std::ostringstream os;
        os << "V{"; for (int v : V) os << v << " "; os << "} E{";
        for (auto &e : E) os << e.first << ":(" << e.second.first << "," << e.second.second << ") ";
        os << "} F{";
        for (auto &f : F) { os << f.first << ":["; for (int h : f.second) os << h << " "; os << "] "; }
        os << "} C{";
        for (auto &c : C) { os << c.first << ":["; for (int h : c.second) os << h << " "; os << "] "; }
        os << "}";
        return os.str();
    }
};

struct Labels {
    VertexPropertyT<int> vl; EdgePropertyT<int> el; HalfEdgePropertyT<int> hel;
    FacePropertyT<int> fl; HalfFacePropertyT<int> hfl; CellPropertyT<int> cl;
};

template<class M> Labels get_labels(M &m, bool create) {
    if (create) {
        return Labels{ *m.template create_persistent_property<int, Entity::Vertex>("L_v", -1),
                       *m.template create_persistent_property<int, Entity::Edge>("L_e", -1),
                       *m.template create_persistent_property<int, Entity::HalfEdge>("L_he", -1),
                       *m.template create_persistent_property<int, Entity::Face>("L_f", -1),
                       *m.template create_persistent_property<int, Entity::HalfFace>("L_hf", -1),
                       *m.template create_persistent_property<int, Entity::Cell>("L_c", -1) };
    }
    auto a = m.template get_property<int, Entity::Vertex>("L_v");
    auto b = m.template get_property<int, Entity::Edge>("L_e");
    auto c = m.template get_property<int, Entity::HalfEdge>("L_he");
    auto d = m.template get_property<int, Entity::Face>("L_f");
    auto e = m.template get_property<int, Entity::HalfFace>("L_hf");
    auto f = m.template get_property<int, Entity::Cell>("L_c");
    if (!a || !b || !c || !d || !e || !f) FAIL("copy lacks a persistent label property");
    return Labels{*a, *b, *c, *d, *e, *f};
}

// Brute-force snapshot of the live mesh in labels; also checks label sanity.
template<class M> Snap snapshot(const M &m, const Labels &L) {
    Snap s;
    if (L.vl.size() != m.n_vertices()) FAIL("vertex label prop size " << L.vl.size() << " != n_vertices " << m.n_vertices());
    if (L.el.size() != m.n_edges()) FAIL("edge label prop size " << L.el.size() << " != n_edges " << m.n_edges());
    if (L.hel.size() != m.n_halfedges()) FAIL("halfedge label prop size " << L.hel.size() << " != n_halfedges " << m.n_halfedges());
    if (L.fl.size() != m.n_faces()) FAIL("face label prop size " << L.fl.size() << " != n_faces " << m.n_faces());
    if (L.hfl.size() != m.n_halffaces()) FAIL("halfface label prop size " << L.hfl.size() << " != n_halffaces " << m.n_halffaces());
    if (L.cl.size() != m.n_cells()) FAIL("cell label prop size " << L.cl.size() << " != n_cells " << m.n_cells());
    for (int i = 0; i < (int)m.n_vertices(); ++i) {
        VH h(i); if (m.is_deleted(h)) continue;
        int l = L.vl[h]; if (l < 0) FAIL("live vertex " << i << " has label " << l);
        if (!s.V.insert(l).second) FAIL("duplicate vertex label " << l);
    }
    for (int i = 0; i < (int)m.n_edges(); ++i) {
        EH h(i); if (m.is_deleted(h)) continue;
        int l = L.el[h]; if (l < 0) FAIL("live edge " << i << " has label " << l);
        if (L.hel[m.halfedge_handle(h, 0)] != 2 * l || L.hel[m.halfedge_handle(h, 1)] != 2 * l + 1)
            FAIL("halfedge labels of edge " << i << " (label " << l << ") are " << L.hel[m.halfedge_handle(h, 0)] << "," << L.hel[m.halfedge_handle(h, 1)]);
        auto e = m.edge(h);
        if (!m.is_valid(e.from_vertex()) || !m.is_valid(e.to_vertex())) FAIL("live edge " << i << " refers to out-of-range vertex");
        if (m.is_deleted(e.from_vertex()) || m.is_deleted(e.to_vertex())) FAIL("live edge " << i << " (label " << l << ") refers to deleted vertex");
        if (s.E.count(l)) FAIL("duplicate edge label " << l);
        s.E[l] = {L.vl[e.from_vertex()], L.vl[e.to_vertex()]};
    }
    for (int i = 0; i < (int)m.n_faces(); ++i) {
        FH h(i); if (m.is_deleted(h)) continue;
        int l = L.fl[h]; if (l < 0) FAIL("live face " << i << " has label " << l);
        if (L.hfl[m.halfface_handle(h, 0)] != 2 * l || L.hfl[m.halfface_handle(h, 1)] != 2 * l + 1)
            FAIL("halfface labels of face " << i << " (label " << l << ") are " << L.hfl[m.halfface_handle(h, 0)] << "," << L.hfl[m.halfface_handle(h, 1)]);
        std::vector<int> d;
        for (auto he : m.face(h).halfedges()) {
            if (!m.is_valid(he)) FAIL("live face " << i << " refers to out-of-range halfedge " << he.idx());
            if (m.is_deleted(he)) FAIL("live face " << i << " (label " << l << ") refers to deleted halfedge " << he.idx());
            d.push_back(L.hel[he]);
        }
        if (s.F.count(l)) FAIL("duplicate face label " << l);
        s.F[l] = d;
    }
    for (int i = 0; i < (int)m.n_cells(); ++i) {
        CH h(i); if (m.is_deleted(h)) continue;
        int l = L.cl[h]; if (l < 0) FAIL("live cell " << i << " has label " << l);
        std::vector<int> d;
        for (auto hf : m.cell(h).halffaces()) {
            if (!m.is_valid(hf)) FAIL("live cell " << i << " refers to out-of-range halfface " << hf.idx());
            if (m.is_deleted(hf)) FAIL("live cell " << i << " (label " << l << ") refers to deleted halfface " << hf.idx());
            d.push_back(L.hfl[hf]);
        }
        if (s.C.count(l)) FAIL("duplicate cell label " << l);
        s.C[l] = d;
    }
    return s;
}

// Counts, flags, genus, bottom-up caches versus brute force.
template<class M> void check_kernel(const M &m) {
    size_t lv = 0, le = 0, lf = 0, lc = 0;
    for (int i = 0; i < (int)m.n_vertices(); ++i) if (!m.is_deleted(VH(i))) ++lv;
    for (int i = 0; i < (int)m.n_edges(); ++i) if (!m.is_deleted(EH(i))) ++le;
    for (int i = 0; i < (int)m.n_faces(); ++i) if (!m.is_deleted(FH(i))) ++lf;
    for (int i = 0; i < (int)m.n_cells(); ++i) if (!m.is_deleted(CH(i))) ++lc;
    if (m.n_logical_vertices() != lv) FAIL("n_logical_vertices " << m.n_logical_vertices() << " != live " << lv);
    if (m.n_logical_edges() != le) FAIL("n_logical_edges " << m.n_logical_edges() << " != live " << le);
    if (m.n_logical_faces() != lf) FAIL("n_logical_faces " << m.n_logical_faces() << " != live " << lf);
    if (m.n_logical_cells() != lc) FAIL("n_logical_cells " << m.n_logical_cells() << " != live " << lc);
    if (m.n_logical_halfedges() != 2 * le || m.n_logical_halffaces() != 2 * lf) FAIL("n_logical_half*");
    if (m.n_halfedges() != 2 * m.n_edges() || m.n_halffaces() != 2 * m.n_faces()) FAIL("n_half*");
    bool pending = lv != m.n_vertices() || le != m.n_edges() || lf != m.n_faces() || lc != m.n_cells();
    if (m.needs_garbage_collection() != pending) FAIL("needs_garbage_collection " << m.needs_garbage_collection() << " but pending=" << pending);
    if (pending && !m.deferred_deletion_enabled()) FAIL("pending deletions while deferred deletion is off");
    int g = 1 - ((int)lv - (int)le + (int)lf - (int)lc);
    int eg = (g % 2 == 0) ? g / 2 : -1;
    if (m.genus() != eg) FAIL("genus " << m.genus() << " expected " << eg);
    // iterators visit exactly the live entities
    { size_t k = 0; for (auto h : m.vertices()) { if (m.is_deleted(h)) FAIL("vertices() visits deleted"); ++k; } if (k != lv) FAIL("vertices() count"); }
    { size_t k = 0; for (auto h : m.edges()) { if (m.is_deleted(h)) FAIL("edges() visits deleted"); ++k; } if (k != le) FAIL("edges() count"); }
    { size_t k = 0; for (auto h : m.halfedges()) { if (m.is_deleted(h)) FAIL("halfedges() visits deleted"); ++k; } if (k != 2*le) FAIL("halfedges() count"); }
    { size_t k = 0; for (auto h : m.faces()) { if (m.is_deleted(h)) FAIL("faces() visits deleted"); ++k; } if (k != lf) FAIL("faces() count"); }
    { size_t k = 0; for (auto h : m.halffaces()) { if (m.is_deleted(h)) FAIL("halffaces() visits deleted"); ++k; } if (k != 2*lf) FAIL("halffaces() count"); }
    { size_t k = 0; for (auto h : m.cells()) { if (m.is_deleted(h)) FAIL("cells() visits deleted"); ++k; } if (k != lc) FAIL("cells() count"); }

    if (m.has_vertex_bottom_up_incidences()) {
        for (int i = 0; i < (int)m.n_vertices(); ++i) {
            VH v(i); if (m.is_deleted(v)) continue;
            std::multiset<int> got, exp;
            for (auto it = m.voh_iter(v); it.valid(); ++it) got.insert(it->idx());
            for (int j = 0; j < (int)m.n_edges(); ++j) {
                EH e(j); if (m.is_deleted(e)) continue;
                if (m.edge(e).from_vertex() == v) exp.insert(2 * j);
                if (m.edge(e).to_vertex() == v) exp.insert(2 * j + 1);
            }
            if (got != exp) FAIL("vertex bottom-up cache of vertex " << i << " wrong (" << got.size() << " vs " << exp.size() << ")");
            if (m.valence(v) != exp.size()) FAIL("valence(vertex)");
        }
    }
    if (m.has_edge_bottom_up_incidences()) {
        for (int i = 0; i < (int)m.n_halfedges(); ++i) {
            HEH he(i); if (m.is_deleted(he)) continue;
            std::multiset<int> got, exp;
            for (auto it = m.hehf_iter(he); it.valid(); ++it) got.insert(it->idx());
            for (int j = 0; j < (int)m.n_halffaces(); ++j) {
                HFH hf(j); if (m.is_deleted(hf)) continue;
                for (auto h2 : m.halfface(hf).halfedges()) if (h2 == he) exp.insert(j);
            }
            if (got != exp) FAIL("edge bottom-up cache of halfedge " << i << " wrong (" << got.size() << " vs " << exp.size() << ")");
        }
    }
    if (m.has_face_bottom_up_incidences()) {
        for (int j = 0; j < (int)m.n_halffaces(); ++j) {
            HFH hf(j); if (m.is_deleted(hf)) continue;
            std::vector<int> cs;
            for (int c = 0; c < (int)m.n_cells(); ++c) {
                if (m.is_deleted(CH(c))) continue;
                for (auto h2 : m.cell(CH(c)).halffaces()) if (h2 == hf) cs.push_back(c);
            }
            CH got = m.incident_cell(hf);
            if (cs.empty() && got.is_valid()) FAIL("incident_cell(halfface " << j << ") = " << got.idx() << " but no live cell has it");
            if (cs.size() == 1 && got.idx() != cs[0]) FAIL("incident_cell(halfface " << j << ") = " << got.idx() << " expected " << cs[0]);
        }
    }
}

template<class T> T derived(int kind, int label);
template<> inline bool derived<bool>(int kind, int label) { return (((unsigned)label * 2654435761u + kind * 40503u) >> 7) & 1u; }
template<> inline std::string derived<std::string>(int kind, int label) { return "k" + std::to_string(kind) + "_" + std::to_string(label) + std::string((label % 5) * 7, 'x'); }
template<> inline double derived<double>(int kind, int label) { return label + 0.125 * kind; }
template<class T> T defval();
template<> inline bool defval<bool>() { return false; }
template<> inline std::string defval<std::string>() { return "DEF"; }
template<> inline double defval<double>() { return -7.5; }

template<class T> struct Extra {
    PropertyPtr<T, Entity::Vertex> v; PropertyPtr<T, Entity::Edge> e; PropertyPtr<T, Entity::HalfEdge> he;
    PropertyPtr<T, Entity::Face> f; PropertyPtr<T, Entity::HalfFace> hf; PropertyPtr<T, Entity::Cell> c;
    PropertyPtr<T, Entity::Mesh> mm;
    int vis;
};

template<class T, class E, class M> PropertyPtr<T, E> mkprop(M &m, int vis, const std::string &name) {
    if (vis == 0) return m.template request_property<T, E>(name, defval<T>());
    if (vis == 1) return m.template create_private_property<T, E>(name, defval<T>());
    auto p = m.template create_persistent_property<T, E>(name, defval<T>());
    if (!p) FAIL("create_persistent_property failed");
    return *p;
}
template<class T, class M> Extra<T> mkextra(M &m, int vis, int serial) {
    std::string n = "X" + std::to_string(serial) + "_";
    return Extra<T>{ mkprop<T, Entity::Vertex>(m, vis, n + "v"), mkprop<T, Entity::Edge>(m, vis, n + "e"),
                     mkprop<T, Entity::HalfEdge>(m, vis, n + "he"), mkprop<T, Entity::Face>(m, vis, n + "f"),
                     mkprop<T, Entity::HalfFace>(m, vis, n + "hf"), mkprop<T, Entity::Cell>(m, vis, n + "c"),
                     mkprop<T, Entity::Mesh>(m, vis, n + "m"), vis };
}

template<class T, class M> void fill_extra(const M &m, const Labels &L, Extra<T> &x) {
    for (int i = 0; i < (int)m.n_vertices(); ++i) if (L.vl[VH(i)] >= 0) x.v[VH(i)] = derived<T>(0, L.vl[VH(i)]);
    for (int i = 0; i < (int)m.n_edges(); ++i) if (L.el[EH(i)] >= 0) x.e[EH(i)] = derived<T>(1, L.el[EH(i)]);
    for (int i = 0; i < (int)m.n_halfedges(); ++i) if (L.hel[HEH(i)] >= 0) x.he[HEH(i)] = derived<T>(2, L.hel[HEH(i)]);
    for (int i = 0; i < (int)m.n_faces(); ++i) if (L.fl[FH(i)] >= 0) x.f[FH(i)] = derived<T>(3, L.fl[FH(i)]);
    for (int i = 0; i < (int)m.n_halffaces(); ++i) if (L.hfl[HFH(i)] >= 0) x.hf[HFH(i)] = derived<T>(4, L.hfl[HFH(i)]);
    for (int i = 0; i < (int)m.n_cells(); ++i) if (L.cl[CH(i)] >= 0) x.c[CH(i)] = derived<T>(5, L.cl[CH(i)]);
    x.mm[MeshHandle(0)] = derived<T>(6, 99);
}

// every extra property: one element per slot; live labelled entities hold the derived value,
// unlabelled (brand-new) entities hold the default.
template<class T, class M> void check_extra(const M &m, const Labels &L, const Extra<T> &x, const char *tn) {
    if (x.v.size() != m.n_vertices()) FAIL(tn << " vertex prop size " << x.v.size() << " != " << m.n_vertices());
    if (x.e.size() != m.n_edges()) FAIL(tn << " edge prop size " << x.e.size() << " != " << m.n_edges());
    if (x.he.size() != m.n_halfedges()) FAIL(tn << " halfedge prop size " << x.he.size() << " != " << m.n_halfedges());
    if (x.f.size() != m.n_faces()) FAIL(tn << " face prop size " << x.f.size() << " != " << m.n_faces());
    if (x.hf.size() != m.n_halffaces()) FAIL(tn << " halfface prop size " << x.hf.size() << " != " << m.n_halffaces());
    if (x.c.size() != m.n_cells()) FAIL(tn << " cell prop size " << x.c.size() << " != " << m.n_cells());
    if (x.mm.size() != 1) FAIL(tn << " mesh prop size " << x.mm.size());
    if (T(x.mm[MeshHandle(0)]) != derived<T>(6, 99)) FAIL(tn << " mesh prop value changed");
    auto chk = [&](int kind, int idx, int label, T got, bool deleted) {
        if (deleted) return;
        T exp = label >= 0 ? derived<T>(kind, label) : defval<T>();
        if (!(got == exp)) { std::ostringstream a; a << tn << " prop (vis " << x.vis << ") kind " << kind << " slot " << idx << " label " << label << ": value differs from " << (label >= 0 ? "the entity's value" : "the default"); throw Fail(a.str()); }
    };
    for (int i = 0; i < (int)m.n_vertices(); ++i) chk(0, i, L.vl[VH(i)], x.v[VH(i)], m.is_deleted(VH(i)));
    for (int i = 0; i < (int)m.n_edges(); ++i) chk(1, i, L.el[EH(i)], x.e[EH(i)], m.is_deleted(EH(i)));
    for (int i = 0; i < (int)m.n_halfedges(); ++i) chk(2, i, L.hel[HEH(i)], x.he[HEH(i)], m.is_deleted(HEH(i)));
    for (int i = 0; i < (int)m.n_faces(); ++i) chk(3, i, L.fl[FH(i)], x.f[FH(i)], m.is_deleted(FH(i)));
    for (int i = 0; i < (int)m.n_halffaces(); ++i) chk(4, i, L.hfl[HFH(i)], x.hf[HFH(i)], m.is_deleted(HFH(i)));
    for (int i = 0; i < (int)m.n_cells(); ++i) chk(5, i, L.cl[CH(i)], x.c[CH(i)], m.is_deleted(CH(i)));
}

template<class M> std::vector<VH> hf_vertices(const M &m, HFH hf) {
    std::vector<VH> r;
    for (auto he : m.halfface(hf).halfedges()) r.push_back(m.halfedge(he).from_vertex());
    return r;
}
inline bool same_cycle(const std::vector<VH> &a, const std::vector<VH> &b) {
    if (a.size() != b.size()) return false;
    size_t n = a.size();
    for (size_t off = 0; off < n; ++off) {
        bool ok = true;
        for (size_t i = 0; i < n && ok; ++i) if (a[i] != b[(i + off) % n]) ok = false;
        if (ok) return true;
    }
    return false;
}
// brute force: live halfface with exactly this vertex cycle (any rotation)
template<class M> HFH brute_find_hf(const M &m, const std::vector<VH> &cyc) {
    for (int j = 0; j < (int)m.n_halffaces(); ++j) {
        HFH hf(j); if (m.is_deleted(hf)) continue;
        if (same_cycle(hf_vertices(m, hf), cyc)) return hf;
    }
    return HFH(-1);
}
template<class M> bool hf_occupied(const M &m, HFH hf) {
    for (int c = 0; c < (int)m.n_cells(); ++c) {
        if (m.is_deleted(CH(c))) continue;
        for (auto h2 : m.cell(CH(c)).halffaces()) if (h2 == hf) return true;
    }
    return false;
}
