// find1: in fast (swap-with-last) immediate deletion mode the iterator returned by
// delete_vertex/delete_edge/delete_face/delete_cell is end() instead of designating the
// next surviving entity (the one that was swapped into the vacated slot).
// Responsible: TopologyKernel::delete_vertex_core / delete_edge_core / delete_face_core / delete_cell_core
//   (src/OpenVolumeMesh/Core/TopologyKernel.cc). In fast mode the handle is redirected, `h = last_...`
//   (lines 962, 1068, 1234, 1389), the last slot is erased, and the function ends with
//   `return VertexIter(this, h)` (1031), `EdgeIter(this, h)` (1196), `FaceIter(this, h)` (1355),
//   `CellIter(this, h)` (1447): h is now == n_entities, i.e. end(). The entity that was swapped into
//   the vacated slot _h (and everything between _h and the old end) is skipped.
// Fix: return the iterator at the original slot: `return VertexIter(this, _h);` etc. (4 one-token changes;
//   validated with scratch/TK_patched.cc: this program prints ok and h1 passes with the iterator check on).
// build: g++ -std=c++17 -I/tmp/probe2/S/src -I/tmp/probe2/S/_build/src find1.cc /tmp/probe2/S/_build/Build/lib/libOpenVolumeMesh.a -o find1
#include <OpenVolumeMesh/Mesh/PolyhedralMesh.hh>
#include <iostream>
using namespace OpenVolumeMesh;
using Mesh = GeometricPolyhedralMeshV3d;

static int run(bool deferred, bool fast, const char *name) {
    int bad = 0;
    {   // vertices: 5 labelled vertices, delete vertex 1, then use the returned iterator
        Mesh m; m.enable_deferred_deletion(deferred); m.enable_fast_deletion(fast);
        auto lab = m.request_vertex_property<int>("label", -1);
        for (int i = 0; i < 5; ++i) lab[m.add_vertex(Mesh::PointT(i, 0, 0))] = i;
        VertexIter it = m.delete_vertex(VertexHandle(1));
        // every mode: survivors are labels 0,2,3,4; the entities not yet visited when standing at
        // handle 1 are those that now come at/after the returned iterator
        std::set<int> rest; for (; it != m.vertices_end(); ++it) rest.insert(lab[*it]);
        std::set<int> all; for (auto v : m.vertices()) all.insert(lab[v]);
        // the returned iterator must not be past a surviving entity that no earlier handle (0) designates
        std::set<int> before; before.insert(lab[VertexHandle(0)]);
        std::set<int> missed; for (int l : all) if (!rest.count(l) && !before.count(l)) missed.insert(l);
        if (!missed.empty()) { ++bad; std::cout << name << ": delete_vertex(1) returned an iterator that skips surviving vertex label"; for (int l : missed) std::cout << " " << l; std::cout << " (it == vertices_end())\n"; }
    }
    {   // the canonical erase loop: delete all cells whose label is even
        Mesh m; m.enable_deferred_deletion(deferred); m.enable_fast_deletion(fast);
        std::vector<VertexHandle> v; for (int i = 0; i < 4; ++i) v.push_back(m.add_vertex(Mesh::PointT(i, 0, 0)));
        // six independent "cells" on the same closed surface are not needed: use faces
        auto lab = m.request_face_property<int>("label", -1);
        int l = 0;
        for (int a = 0; a < 4; ++a) for (int b = a + 1; b < 4; ++b) for (int c = b + 1; c < 4; ++c) lab[m.add_face(std::vector<VertexHandle>{v[a], v[b], v[c]})] = l++;
        l = 10; for (int a = 0; a < 4; ++a) for (int b = a + 1; b < 4; ++b) for (int c = b + 1; c < 4; ++c) lab[m.add_face(std::vector<VertexHandle>{v[c], v[b], v[a]})] = l++;
        // labels 0..3 and 10..13; delete the even ones with the erase idiom
        for (FaceIter it = m.faces_begin(); it != m.faces_end();) {
            if (lab[*it] % 2 == 0) it = m.delete_face(*it); else ++it;
        }
        std::set<int> left; for (auto f : m.faces()) left.insert(lab[f]);
        std::set<int> want{1, 3, 11, 13};
        if (left != want) { ++bad; std::cout << name << ": erase loop 'it = delete_face(*it)' left faces with labels"; for (int x : left) std::cout << " " << x; std::cout << " (expected 1 3 11 13)\n"; }
    }
    return bad;
}
int main() {
    int bad = 0;
    bad += run(true, false, "deferred");
    bad += run(true, true, "deferred+fast");
    bad += run(false, false, "immediate");
    bad += run(false, true, "fast");
    if (bad) { std::cout << "FAIL: " << bad << " discrepancies\n"; return 1; }
    std::cout << "ok\n"; return 0;
}
