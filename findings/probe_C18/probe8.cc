// side probes (not counted as C18 findings):
//  (1) a DIRP entry (vertex, "ovm:position", "3d") aliases the mesh's internal position property: its PROP chunk overwrites the VERT data
//  (2) ovmb_read on a stream positioned behind a prefix: stream_length() measures from the beginning of the stream
#include "repro_common.hh"
int main() {
    {
        PolyM m; m.add_vertex(Vec3d(1,2,3)); m.add_vertex(Vec3d(4,5,6));
        auto p = *m.create_persistent_vertex_property<Vec3d>("xyz", Vec3d(0,0,0)); p[VertexHandle(0)] = Vec3d(9,9,9); p[VertexHandle(1)] = Vec3d(8,8,8);
        std::string b = write_ovmb(m);
        auto d = find_chunk(b, "DIRP"); size_t pad = uint8_t(b[d.off + 5]);
        std::string pl = b.substr(d.payload, d.end - pad - d.payload);
        size_t at = pl.find("xyz"); wr(pl, at - 4, 4, 12); pl.replace(at, 3, "ovm:position");
        std::string nb = b.substr(0, d.off) + make_chunk("DIRP", pl) + b.substr(d.end);
        PolyM r; auto res = read_ovmb(nb, r);
        std::cout << "(1) " << IO::to_string(res); if (res == IO::ReadResult::Ok) std::cout << " vertex 0 = " << r.vertex(VertexHandle(0)) << " (VERT chunk says 1 2 3)"; std::cout << "\n";
    }
    {
        PolyM m; m.add_vertex(Vec3d(1,2,3));
        std::string b = write_ovmb(m);
        std::istringstream is(std::string("PREFIX__") + b, std::ios::binary); is.seekg(8);
        PolyM r; std::cout << "(2) valid file behind an 8 byte prefix, stream positioned at its start: " << IO::to_string(IO::ovmb_read(is, r)) << "\n";
    }
}
