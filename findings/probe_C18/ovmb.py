#!/usr/bin/env python3
"""Independent OVMB parser / serializer written from extra/ovmb-kaitai/ovmb.ksy and
documentation/subpages/binary_file_format.docu.  Gives the byte range and meaning of
every header / sub-header field so that mutate.py can target them by name."""
import struct

MAGIC = b'OVMB\n\r\n\xff'
INT_ENC = {1: 'B', 2: 'H', 4: 'I'}
VERT_ENC = {1: ('f', 4), 2: ('d', 8)}


class Field:
    __slots__ = ('name', 'off', 'size', 'value', 'kind')

    def __init__(self, name, off, size, value, kind):
        self.name, self.off, self.size, self.value, self.kind = name, off, size, value, kind

    def __repr__(self):
        return f'{self.name}@{self.off}+{self.size}={self.value!r}'


class Chunk:
    def __init__(self):
        self.off = 0          # offset of chunk header
        self.end = 0          # end of chunk incl. padding
        self.type = b''
        self.fields = []      # header + sub-header fields (Field)
        self.hdr = {}
        self.sub = {}
        self.payload_off = 0  # first payload byte (after chunk header)
        self.payload_end = 0  # end of payload, excl. padding
        self.data_off = 0     # first byte after the sub-header
        self.entries = []     # DIRP
        self.ok = True
        self.note = ''

    def raw(self, b):
        return b[self.off:self.end]


def u(b, off, n):
    return int.from_bytes(b[off:off + n], 'little')


def parse(b):
    """returns (header_fields, chunks). Raises ValueError for a structurally broken file."""
    if len(b) < 48:
        raise ValueError('short header')
    hf = []
    for i in range(8):
        hf.append(Field(f'magic[{i}]', i, 1, b[i], 'magic'))
    hf.append(Field('file_version', 8, 1, b[8], 'u'))
    hf.append(Field('header_version', 9, 1, b[9], 'u'))
    hf.append(Field('vertex_dim', 10, 1, b[10], 'u'))
    hf.append(Field('topo_type', 11, 1, b[11], 'enum'))
    for i in range(4):
        hf.append(Field(f'reserved[{i}]', 12 + i, 1, b[12 + i], 'reserved'))
    for i, n in enumerate(('n_vertices', 'n_edges', 'n_faces', 'n_cells')):
        hf.append(Field(n, 16 + 8 * i, 8, u(b, 16 + 8 * i, 8), 'u'))
    if b[:8] != MAGIC:
        raise ValueError('magic')
    vdim = b[10]
    chunks = []
    pos = 48
    while pos < len(b):
        if len(b) - pos < 16:
            raise ValueError('short chunk header')
        c = Chunk()
        c.off = pos
        c.type = bytes(b[pos:pos + 4])
        F = c.fields
        for i in range(4):
            F.append(Field(f'type[{i}]', pos + i, 1, b[pos + i], 'fourcc'))
        F.append(Field('version', pos + 4, 1, b[pos + 4], 'u'))
        F.append(Field('padding_bytes', pos + 5, 1, b[pos + 5], 'u'))
        F.append(Field('compression', pos + 6, 1, b[pos + 6], 'u'))
        F.append(Field('flags', pos + 7, 1, b[pos + 7], 'flags'))
        F.append(Field('file_length', pos + 8, 8, u(b, pos + 8, 8), 'u'))
        c.hdr = {f.name: f.value for f in F}
        flen, pad = c.hdr['file_length'], c.hdr['padding_bytes']
        if pad > flen or pos + 16 + flen > len(b):
            raise ValueError('chunk length')
        c.payload_off = pos + 16
        c.payload_end = pos + 16 + flen - pad
        c.end = pos + 16 + flen
        for i in range(pad):
            F.append(Field(f'padding[{i}]', c.payload_end + i, 1, b[c.payload_end + i], 'padding'))
        p = c.payload_off
        if c.type == b'VERT':
            F.append(Field('span.base', p, 8, u(b, p, 8), 'u'))
            F.append(Field('span.count', p + 8, 4, u(b, p + 8, 4), 'u'))
            F.append(Field('vertex_encoding', p + 12, 1, b[p + 12], 'enum'))
            for i in range(3):
                F.append(Field(f'vreserved[{i}]', p + 13 + i, 1, b[p + 13 + i], 'reserved'))
            c.data_off = p + 16
            enc = b[p + 12]
            cnt = u(b, p + 8, 4)
            if enc in VERT_ENC:
                if c.payload_end - c.data_off != cnt * vdim * VERT_ENC[enc][1]:
                    c.ok = False
                    c.note = 'VERT size'
        elif c.type == b'TOPO':
            F.append(Field('span.base', p, 8, u(b, p, 8), 'u'))
            F.append(Field('span.count', p + 8, 4, u(b, p + 8, 4), 'u'))
            F.append(Field('entity', p + 12, 1, b[p + 12], 'enum'))
            F.append(Field('valence', p + 13, 1, b[p + 13], 'u'))
            F.append(Field('valence_encoding', p + 14, 1, b[p + 14], 'enum'))
            F.append(Field('handle_encoding', p + 15, 1, b[p + 15], 'enum'))
            F.append(Field('handle_offset', p + 16, 8, u(b, p + 16, 8), 'u'))
            c.data_off = p + 24
        elif c.type == b'PROP':
            F.append(Field('span.base', p, 8, u(b, p, 8), 'u'))
            F.append(Field('span.count', p + 8, 4, u(b, p + 8, 4), 'u'))
            F.append(Field('prop_idx', p + 12, 4, u(b, p + 12, 4), 'u'))
            c.data_off = p + 16
        elif c.type == b'DIRP':
            q = p
            k = 0
            while q < c.payload_end:
                ent = {'off': q}
                F.append(Field(f'entry[{k}].entity', q, 1, b[q], 'enum'))
                q += 1
                for nm in ('name', 'type', 'default'):
                    ln = u(b, q, 4)
                    F.append(Field(f'entry[{k}].{nm}_len', q, 4, ln, 'u'))
                    q += 4
                    ent[nm] = bytes(b[q:q + ln])
                    ent[nm + '_off'] = q
                    q += ln
                    if q > c.payload_end:
                        raise ValueError('DIRP entry')
                ent['entity'] = b[ent['off']]
                c.entries.append(ent)
                k += 1
            c.data_off = c.payload_end
        else:
            c.data_off = p
        c.sub = {f.name: f.value for f in F if f.off >= c.payload_off and f.off < c.payload_end}
        chunks.append(c)
        pos = c.end
    return hf, chunks


# ---------------------------------------------------------------- decoding to a model
def decode_topo(b, c):
    """-> list of handle lists (offset applied)"""
    s = c.sub
    cnt, val = s['span.count'], s['valence']
    p = c.data_off
    if val == 0:
        ve = s['valence_encoding']
        vals = list(struct.unpack_from('<%d%s' % (cnt, INT_ENC[ve]), b, p))
        p += cnt * ve
    else:
        vals = [val] * cnt
    he = s['handle_encoding']
    tot = sum(vals)
    hs = struct.unpack_from('<%d%s' % (tot, INT_ENC[he]), b, p)
    assert p + tot * he == c.payload_end, 'TOPO size'
    out, i = [], 0
    for v in vals:
        out.append([h + s['handle_offset'] for h in hs[i:i + v]])
        i += v
    return out


def decode_vert(b, c, dim):
    s = c.sub
    ch, sz = VERT_ENC[s['vertex_encoding']]
    vals = struct.unpack_from('<%d%s' % (s['span.count'] * dim, ch), b, c.data_off)
    return [vals[i * dim:(i + 1) * dim] for i in range(s['span.count'])]


# ---------------------------------------------------------------- serializer
def chunk_bytes(ctype, payload, version=0, compression=0, flags=1, extra_pad=0, align=8):
    pad = (-len(payload)) % align + extra_pad
    return (ctype + bytes([version, pad, compression, flags]) + struct.pack('<Q', len(payload) + pad)
            + payload + b'\0' * pad)


def vert_chunk(first, pts, enc=2):
    ch = VERT_ENC[enc][0]
    pl = struct.pack('<QIB3x', first, len(pts), enc)
    for p in pts:
        if enc == 1:
            p = [x if abs(x) < 3e38 else 1.0 for x in p]
        pl += struct.pack('<%d%s' % (len(p), ch), *p)
    return chunk_bytes(b'VERT', pl)


def topo_chunk(first, entity, lists, henc, fixed=True, venc=1, offset=0):
    vals = [len(l) for l in lists]
    if fixed:
        assert len(set(vals)) == 1
        pl = struct.pack('<QIBBBBQ', first, len(lists), entity, vals[0], 0, henc, offset)
    else:
        pl = struct.pack('<QIBBBBQ', first, len(lists), entity, 0, venc, henc, offset)
        pl += struct.pack('<%d%s' % (len(vals), INT_ENC[venc]), *vals)
    flat = [h - offset for l in lists for h in l]
    pl += struct.pack('<%d%s' % (len(flat), INT_ENC[henc]), *flat)
    return chunk_bytes(b'TOPO', pl)


def eof_chunk():
    return chunk_bytes(b'EOF ', b'')


def header_bytes(hf_or_vals):
    d = hf_or_vals
    return MAGIC + bytes([d['file_version'], d['header_version'], d['vertex_dim'], d['topo_type']]) + b'\0' * 4 + \
        struct.pack('<4Q', d['n_vertices'], d['n_edges'], d['n_faces'], d['n_cells'])


def header_dict(hf):
    return {f.name: f.value for f in hf}


if __name__ == '__main__':
    import sys
    b = open(sys.argv[1], 'rb').read()
    hf, chunks = parse(b)
    for f in hf:
        print('  ', f)
    for c in chunks:
        print(c.type, c.off, c.end, 'payload', c.payload_off, c.payload_end, c.note)
        for f in c.fields:
            print('     ', f)
        for e in c.entries:
            print('      entry', e['entity'], e['name'], e['type'], e['default'].hex())
