// ovmtool: generator of valid OVMB files + batch runner for mutants + stream-failure drivers.
// build: see /tmp/probe2/C18/_out/build.sh
#include <OpenVolumeMesh/Mesh/PolyhedralMesh.hh>
#include <OpenVolumeMesh/Mesh/TetrahedralMesh.hh>
#include <OpenVolumeMesh/Mesh/HexahedralMesh.hh>
#include <OpenVolumeMesh/IO/ovmb_read.hh>
#include <OpenVolumeMesh/IO/ovmb_write.hh>
#include <OpenVolumeMesh/IO/PropertyCodecs.hh>
#include <OpenVolumeMesh/IO/detail/WriteBuffer.hh>
#include <fstream>
#include <sstream>
#include <iostream>
#include <functional>
#include <cstring>
#include <map>

using namespace OpenVolumeMesh;
using PolyM = GeometricPolyhedralMeshV3d;
using PolyMf = GeometricPolyhedralMeshV3f;
using TetM  = GeometricTetrahedralMeshV3d;
using HexM  = GeometricHexahedralMeshV3d;
using Vec3d = Geometry::Vec3d;
using Vec3f = Geometry::Vec3f;

static std::string slurp(const std::string &p) {
    std::ifstream f(p, std::ios::binary);
    std::stringstream ss; ss << f.rdbuf(); return ss.str();
}
static void spit(const std::string &p, const std::string &s) {
    std::ofstream f(p, std::ios::binary); f.write(s.data(), s.size());
}
static uint64_t fnv(const std::string &s) {
    uint64_t h = 1469598103934665603ULL;
    for (unsigned char c : s) { h ^= c; h *= 1099511628211ULL; }
    return h;
}

// ---------- mesh dump (content fingerprint) ----------
template<typename M>
std::string dump_mesh(M const &m, bool *handles_ok = nullptr)
{
    std::ostringstream os;
    bool ok = true;
    os << "V" << m.n_vertices() << " E" << m.n_edges() << " F" << m.n_faces() << " C" << m.n_cells() << "\n";
    for (auto vh : m.vertices()) {
        auto p = m.vertex(vh);
        for (int d = 0; d < 3; ++d) { double x = p[d]; uint64_t u; memcpy(&u, &x, 8); os << std::hex << u << std::dec << " "; }
        os << "\n";
    }
    for (auto eh : m.edges()) {
        auto e = m.edge(eh);
        os << "e " << e.from_vertex().idx() << " " << e.to_vertex().idx() << "\n";
        if (!e.from_vertex().is_valid() || e.from_vertex().uidx() >= m.n_vertices()) ok = false;
        if (!e.to_vertex().is_valid() || e.to_vertex().uidx() >= m.n_vertices()) ok = false;
    }
    for (auto fh : m.faces()) {
        os << "f";
        for (auto heh : m.face(fh).halfedges()) { os << " " << heh.idx(); if (!heh.is_valid() || heh.uidx() >= m.n_halfedges()) ok = false; }
        os << "\n";
    }
    for (auto ch : m.cells()) {
        os << "c";
        for (auto hfh : m.cell(ch).halffaces()) { os << " " << hfh.idx(); if (!hfh.is_valid() || hfh.uidx() >= m.n_halffaces()) ok = false; }
        os << "\n";
    }
    // persistent properties through the OVMB encoders
    ResourceManager const &rm = m;
    int kind = 0;
    for_each_entity([&](auto tag) {
        using Tag = decltype(tag);
        std::map<std::string, std::string> sorted;
        for (auto it = rm.persistent_props_begin<Tag>(); it != rm.persistent_props_end<Tag>(); ++it) {
            PropertyStorageBase *p = *it;
            std::ostringstream ps;
            ps << "prop k" << kind << " '" << p->name() << "' " << p->internal_type_name() << " n=" << p->size();
            size_t expect = rm.n<Tag>();
            if (p->size() != expect) { ps << " SIZE_MISMATCH(" << expect << ")"; ok = false; }
            auto enc = IO::g_default_property_codecs.get_encoder(p->internal_type_name());
            if (enc) {
                IO::detail::WriteBuffer wb;
                enc->serialize_default(p, wb);
                auto dv = wb.vec();
                ps << " def=";
                for (auto b : dv) ps << std::hex << int(b) << std::dec << ",";
                wb.reset();
                if (p->size() > 0) enc->serialize(p, wb, 0, p->size());
                auto v = wb.vec();
                ps << " data=";
                for (auto b : v) ps << std::hex << int(b) << std::dec << ",";
            }
            sorted[p->name() + "/" + p->internal_type_name()] += ps.str() + "\n";
        }
        for (auto &kv : sorted) os << kv.second;
        ++kind;
    });
    if (handles_ok) *handles_ok = ok;
    return os.str();
}

// ---------- readers ----------
struct RR { IO::ReadResult res; std::string dump; bool handles_ok = true; bool threw = false; std::string what; };

template<typename M>
RR read_as(std::istream &is, bool topo_check, bool bottom_up)
{
    RR r;
    M m;
    IO::ReadOptions opt; opt.topology_check = topo_check; opt.bottom_up_incidences = bottom_up;
    try {
        r.res = IO::ovmb_read(is, m, opt);
    } catch (std::exception &e) {
        r.res = IO::ReadResult::OtherError; r.threw = true; r.what = e.what();
        return r;
    }
    if (r.res == IO::ReadResult::Ok) r.dump = dump_mesh(m, &r.handles_ok);
    return r;
}
static RR read_kind(std::istream &is, char kind, bool topo_check = true, bool bottom_up = true)
{
    switch (kind) {
    case 'T': return read_as<TetM>(is, topo_check, bottom_up);
    case 'H': return read_as<HexM>(is, topo_check, bottom_up);
    case 'F': return read_as<PolyMf>(is, topo_check, bottom_up);
    default:  return read_as<PolyM>(is, topo_check, bottom_up);
    }
}
static RR read_bytes(const std::string &bytes, char kind, bool topo_check = true, bool bottom_up = true)
{
    std::istringstream is(bytes, std::ios::binary);
    return read_kind(is, kind, topo_check, bottom_up);
}

// ---------- mesh builders ----------
template<typename M>
void add_props_small(M &m)
{
    // several value types on several entity kinds
    auto vb = *m.template create_persistent_vertex_property<bool>("vbool", false);
    int i = 0;
    for (auto vh : m.vertices()) vb[vh] = ((i++ * 7) % 3) != 0;
    auto vd = *m.template create_persistent_vertex_property<double>("vdbl", -1.5);
    i = 0; for (auto vh : m.vertices()) vd[vh] = 0.25 * i++;
    auto ei = *m.template create_persistent_edge_property<int32_t>("eint", -7);
    i = 0; for (auto eh : m.edges()) ei[eh] = 1000 - 3 * i++;
    auto evh = *m.template create_persistent_edge_property<VertexHandle>("evh", VertexHandle(-1));
    for (auto eh : m.edges()) evh[eh] = m.edge(eh).from_vertex();
    auto heu = *m.template create_persistent_halfedge_property<uint8_t>("heu8", 9);
    i = 0; for (auto heh : m.halfedges()) heu[heh] = uint8_t(i++ * 5);
    auto fv = *m.template create_persistent_face_property<Vec3d>("fvec3d", Vec3d(1, 2, 3));
    i = 0; for (auto fh : m.faces()) { fv[fh] = Vec3d(i, -i, 0.5 * i); ++i; }
    auto hff = *m.template create_persistent_halfface_property<float>("hff", 2.5f);
    i = 0; for (auto hfh : m.halffaces()) hff[hfh] = 0.125f * i++;
    auto cs = *m.template create_persistent_cell_property<std::string>("cstr", "dflt");
    i = 0; for (auto ch : m.cells()) cs[ch] = std::string("cell#") + std::to_string(i++) + std::string(i, 'x');
    auto cb = *m.template create_persistent_cell_property<bool>("cbool", true);
    i = 0; for (auto ch : m.cells()) cb[ch] = (i++ % 2) == 0;
    auto ms = *m.template create_persistent_property<std::string, Entity::Mesh>("mname", "");
    ms[MeshHandle(0)] = "a mesh";
    auto mu = *m.template create_persistent_property<uint64_t, Entity::Mesh>("mu64", 0);
    mu[MeshHandle(0)] = 0x1122334455667788ULL;
    auto v3f = *m.template create_persistent_vertex_property<Vec3f>("v3f", Vec3f(0, 0, 0));
    i = 0; for (auto vh : m.vertices()) { v3f[vh] = Vec3f(float(i), 1.f, -2.f); ++i; }
}

template<typename M> std::vector<VertexHandle> add_verts(M &m, std::vector<std::array<double,3>> const &ps) {
    std::vector<VertexHandle> r;
    for (auto &p : ps) r.push_back(m.add_vertex(typename M::PointT(p[0], p[1], p[2])));
    return r;
}

static void build_poly(PolyM &m)
{
    // pyramid (quad base + 4 tris) and a tet glued on one triangle: variable face and cell valences
    auto v = add_verts(m, {{0,0,0},{1,0,0},{1,1,0},{0,1,0},{0.5,0.5,1},{0.5,-1,0.5}});
    auto base = m.add_face(std::vector<VertexHandle>{v[0], v[3], v[2], v[1]});
    auto t0 = m.add_face(std::vector<VertexHandle>{v[0], v[1], v[4]});
    auto t1 = m.add_face(std::vector<VertexHandle>{v[1], v[2], v[4]});
    auto t2 = m.add_face(std::vector<VertexHandle>{v[2], v[3], v[4]});
    auto t3 = m.add_face(std::vector<VertexHandle>{v[3], v[0], v[4]});
    auto c0 = m.add_cell({m.halfface_handle(base,0), m.halfface_handle(t0,0), m.halfface_handle(t1,0), m.halfface_handle(t2,0), m.halfface_handle(t3,0)}, true);
    if (!c0.is_valid()) { std::cerr << "pyramid rejected\n"; exit(2); }
    auto u0 = m.add_face(std::vector<VertexHandle>{v[0], v[1], v[5]});
    auto u1 = m.add_face(std::vector<VertexHandle>{v[1], v[4], v[5]});
    auto u2 = m.add_face(std::vector<VertexHandle>{v[4], v[0], v[5]});
    auto c1 = m.add_cell({m.halfface_handle(t0,1), m.halfface_handle(u0,0), m.halfface_handle(u1,0), m.halfface_handle(u2,0)}, true);
    if (!c1.is_valid()) { std::cerr << "tet rejected\n"; exit(2); }
}
static void build_tet(TetM &m, int n)
{
    // a fan of n tets around a common edge-ish (chain sharing faces)
    std::vector<VertexHandle> v;
    v.push_back(m.add_vertex(Vec3d(0,0,0)));
    v.push_back(m.add_vertex(Vec3d(1,0,0)));
    v.push_back(m.add_vertex(Vec3d(0,1,0)));
    for (int i = 0; i < n; ++i) {
        v.push_back(m.add_vertex(Vec3d(0.3, 0.3, 1.0 + i)));
        auto c = m.add_cell(v[i], v[i+1], v[i+2], v[i+3], true);
        if (!c.is_valid()) { std::cerr << "tet " << i << " rejected\n"; exit(2); }
    }
}
static void build_hex(HexM &m, int nx, int ny, int nz)
{
    std::vector<VertexHandle> v((nx+1)*(ny+1)*(nz+1));
    auto id = [&](int x, int y, int z) { return (z*(ny+1) + y)*(nx+1) + x; };
    for (int z = 0; z <= nz; ++z) for (int y = 0; y <= ny; ++y) for (int x = 0; x <= nx; ++x)
        v[id(x,y,z)] = m.add_vertex(Vec3d(x, y * 1.5, z * 0.1));
    for (int z = 0; z < nz; ++z) for (int y = 0; y < ny; ++y) for (int x = 0; x < nx; ++x) {
        std::vector<VertexHandle> c = {
            v[id(x,y,z)], v[id(x+1,y,z)], v[id(x+1,y+1,z)], v[id(x,y+1,z)],
            v[id(x,y,z+1)], v[id(x,y+1,z+1)], v[id(x+1,y+1,z+1)], v[id(x+1,y,z+1)] };
        auto ch = m.add_cell(c, true);
        if (!ch.is_valid()) { std::cerr << "hex rejected\n"; exit(2); }
    }
}

template<typename M>
std::string write_mesh(M const &m, IO::WriteOptions wo = IO::WriteOptions())
{
    std::ostringstream os(std::ios::binary);
    auto r = IO::ovmb_write(os, m, wo);
    if (r != IO::WriteResult::Ok) { std::cerr << "write failed\n"; exit(2); }
    return os.str();
}

struct Gen { std::string name; char kind; std::function<std::string()> make; };
static std::vector<Gen> generators()
{
    std::vector<Gen> g;
    g.push_back({"empty", 'P', []{ PolyM m; return write_mesh(m); }});
    g.push_back({"verts", 'P', []{ PolyM m; add_verts(m, {{0,0,0},{1,2,3},{-1,1e300,5e-324},{4,5,6},{7,8,9}}); return write_mesh(m); }});
    g.push_back({"verts_props", 'P', []{ PolyM m; add_verts(m, {{0,0,0},{1,2,3},{-1,1e300,5e-324},{4,5,6},{7,8,9}}); add_props_small(m); return write_mesh(m); }});
    g.push_back({"edges", 'P', []{ PolyM m; auto v = add_verts(m, {{0,0,0},{1,2,3},{4,5,6}}); m.add_edge(v[0],v[1]); m.add_edge(v[1],v[2]); return write_mesh(m); }});
    g.push_back({"faces", 'P', []{ PolyM m; auto v = add_verts(m, {{0,0,0},{1,0,0},{1,1,0},{0,1,0}}); m.add_face(std::vector<VertexHandle>{v[0],v[1],v[2]}); m.add_face(std::vector<VertexHandle>{v[0],v[2],v[3]}); return write_mesh(m); }});
    g.push_back({"poly", 'P', []{ PolyM m; build_poly(m); return write_mesh(m); }});
    g.push_back({"poly_props", 'P', []{ PolyM m; build_poly(m); add_props_small(m); return write_mesh(m); }});
    g.push_back({"polyf_props", 'F', []{ PolyMf m; m.add_vertex(Vec3f(0,0,0)); m.add_vertex(Vec3f(1.5f,0,0)); m.add_vertex(Vec3f(0,1.25f,0)); m.add_vertex(Vec3f(0,0,1));
        std::vector<VertexHandle> v{VertexHandle(0),VertexHandle(1),VertexHandle(2),VertexHandle(3)};
        auto f0=m.add_face(std::vector<VertexHandle>{v[0],v[1],v[2]}); auto f1=m.add_face(std::vector<VertexHandle>{v[0],v[3],v[1]});
        auto f2=m.add_face(std::vector<VertexHandle>{v[1],v[3],v[2]}); auto f3=m.add_face(std::vector<VertexHandle>{v[0],v[2],v[3]});
        m.add_cell({m.halfface_handle(f0,1),m.halfface_handle(f1,1),m.halfface_handle(f2,1),m.halfface_handle(f3,1)}, true);
        add_props_small(m); IO::WriteOptions wo; wo.topology_type = IO::WriteOptions::TopologyType::Polyhedral; return write_mesh(m, wo); }});
    g.push_back({"tet2", 'T', []{ TetM m; build_tet(m, 2); return write_mesh(m); }});
    g.push_back({"tet5_props", 'T', []{ TetM m; build_tet(m, 5); add_props_small(m); return write_mesh(m); }});
    g.push_back({"hex2", 'H', []{ HexM m; build_hex(m, 2, 1, 1); return write_mesh(m); }});
    g.push_back({"hex_props", 'H', []{ HexM m; build_hex(m, 2, 2, 1); add_props_small(m); return write_mesh(m); }});
    g.push_back({"hex_u16", 'H', []{ HexM m; build_hex(m, 7, 7, 7); return write_mesh(m); }});           // 512 verts: U16 handles
    g.push_back({"tet_u16_props", 'T', []{ TetM m; build_tet(m, 300); add_props_small(m); return write_mesh(m); }});
    g.push_back({"hex_u32", 'H', []{ HexM m; build_hex(m, 22, 22, 22); return write_mesh(m); }});        // > 65535 halffaces: U32 handles
    return g;
}

// ---------- failing stream buffers ----------
// input: serves data[0..fail_at) and then reports failure (underflow -> eof, xsgetn short); seeking works
struct FailInBuf : std::streambuf {
    std::string const &d; size_t fail_at; size_t pos = 0; bool throwing;
    FailInBuf(std::string const &data, size_t k, bool thr) : d(data), fail_at(k), throwing(thr) {}
    int_type underflow() override {
        if (pos >= fail_at || pos >= d.size()) { if (throwing && pos < d.size()) throw std::ios_base::failure("io error"); return traits_type::eof(); }
        return traits_type::to_int_type(d[pos]);
    }
    int_type uflow() override {
        if (pos >= fail_at || pos >= d.size()) { if (throwing && pos < d.size()) throw std::ios_base::failure("io error"); return traits_type::eof(); }
        return traits_type::to_int_type(d[pos++]);
    }
    std::streamsize xsgetn(char *s, std::streamsize n) override {
        size_t lim = std::min(fail_at, d.size());
        size_t can = pos < lim ? std::min<size_t>(n, lim - pos) : 0;
        memcpy(s, d.data() + pos, can); pos += can;
        if (throwing && can < size_t(n) && pos < d.size()) throw std::ios_base::failure("io error");
        return can;
    }
    pos_type seekoff(off_type off, std::ios_base::seekdir dir, std::ios_base::openmode) override {
        off_type base = dir == std::ios_base::beg ? 0 : dir == std::ios_base::cur ? off_type(pos) : off_type(d.size());
        off_type np = base + off;
        if (np < 0 || size_t(np) > d.size()) return pos_type(off_type(-1));
        pos = np; return pos_type(np);
    }
    pos_type seekpos(pos_type p, std::ios_base::openmode m) override { return seekoff(off_type(p), std::ios_base::beg, m); }
};
// output: accepts fail_at bytes, then every write fails
struct FailOutBuf : std::streambuf {
    size_t fail_at; size_t written = 0; int mode; // 0: short write, 1: throw, 2: only sync() fails (buffered device)
    std::string got;
    FailOutBuf(size_t k, int m) : fail_at(k), mode(m) {}
    int_type overflow(int_type c) override {
        if (c == traits_type::eof()) return traits_type::not_eof(c);
        char ch = traits_type::to_char_type(c);
        return xsputn(&ch, 1) == 1 ? c : traits_type::eof();
    }
    std::streamsize xsputn(const char *s, std::streamsize n) override {
        if (mode == 2) { got.append(s, n); written += n; return n; }
        size_t can = written < fail_at ? std::min<size_t>(n, fail_at - written) : 0;
        got.append(s, can); written += can;
        if (can < size_t(n) && mode == 1) throw std::ios_base::failure("disk full");
        return can;
    }
    int sync() override { if (mode == 2 && written > fail_at) return -1; return 0; }
};

template<typename M>
int writefail_for(const char *name, M const &m, size_t step)
{
    std::string good = write_mesh(m);
    int bad = 0; size_t tried = 0;
    for (int mode = 0; mode < 3; ++mode) {
        for (size_t k = 0; k < good.size(); k += (k < 256 || k + 256 > good.size()) ? 1 : step) {
            FailOutBuf buf(k, mode);
            std::ostream os(&buf);
            IO::WriteResult r;
            try { r = IO::ovmb_write(os, m); } catch (std::exception &e) { r = IO::WriteResult::Error; std::cout << "WRITEFAIL-THROW\t" << name << "\tmode" << mode << "\tk=" << k << "\t" << e.what() << "\n"; }
            ++tried;
            if (r == IO::WriteResult::Ok) { ++bad; std::cout << "WRITEFAIL-OK\t" << name << "\tmode" << mode << "\tk=" << k << "\n"; }
        }
    }
    std::cout << "writefail\t" << name << "\tsize=" << good.size() << "\ttried=" << tried << "\taccepted=" << bad << "\n";
    return bad;
}

int main(int argc, char **argv)
{
    std::string mode = argc > 1 ? argv[1] : "";
    if (mode == "gen") {
        std::string dir = argv[2];
        std::ofstream idx(dir + "/index.txt");
        for (auto &g : generators()) {
            auto bytes = g.make();
            spit(dir + "/" + g.name + ".ovmb", bytes);
            auto r = read_bytes(bytes, g.kind);
            auto rp = read_bytes(bytes, 'P');
            idx << g.name << " " << g.kind << " " << bytes.size() << " " << IO::to_string(r.res) << " " << std::hex << fnv(r.dump) << " " << fnv(rp.dump) << std::dec << "\n";
            if (r.res != IO::ReadResult::Ok) std::cerr << "valid file not readable: " << g.name << "\n";
        }
        return 0;
    }
    if (mode == "dump") {
        auto bytes = slurp(argv[2]);
        auto r = read_bytes(bytes, argv[3][0], argc > 4 ? atoi(argv[4]) : 1);
        std::cout << IO::to_string(r.res) << "\n" << r.dump;
        return 0;
    }
    if (mode == "run") {
        // batch: repeated [u32 label_len][label][u8 kind][u8 topo_check][u32 len][bytes]
        std::ifstream f(argv[2], std::ios::binary);
        std::ofstream out(argv[3]);
        auto rd32 = [&](uint32_t &v) { return bool(f.read(reinterpret_cast<char*>(&v), 4)); };
        uint32_t ll;
        size_t n = 0;
        while (rd32(ll)) {
            std::string label(ll, 0); f.read(label.data(), ll);
            char kind = f.get(); int tc = f.get();
            std::string bytes;
            if (tc & 0x80) {
                tc &= 0x7f;
                uint32_t bl; rd32(bl); std::string bn(bl, 0); f.read(bn.data(), bl);
                static std::map<std::string, std::string> cache;
                if (!cache.count(bn)) cache[bn] = slurp(bn);
                uint64_t p, dl; uint32_t il;
                f.read(reinterpret_cast<char*>(&p), 8); f.read(reinterpret_cast<char*>(&dl), 8); rd32(il);
                std::string ins(il, 0); f.read(ins.data(), il);
                std::string const &base = cache[bn];
                bytes = base.substr(0, p) + ins + base.substr(p + dl);
            } else {
                uint32_t len; rd32(len);
                bytes.assign(len, 0); f.read(bytes.data(), len);
            }
            if (getenv("OVM_TRACE")) { std::cerr << label << std::endl; }
            if (getenv("OVM_SKIP_BIG") && bytes.size() >= 48) {
                // sanitizer runs: a header count of ~2^31 makes the reader allocate tens of GB (see report); skip those
                bool big = false;
                for (int q = 0; q < 4; ++q) { uint64_t v; memcpy(&v, bytes.data() + 16 + 8*q, 8); if (v > 20000000ULL && v <= 0x7fffffffULL) big = true; }
                if (big) { out << label << "\tSKIPPED-BIGALLOC\t0\thok\n"; ++n; continue; }
            }
            if (getenv("OVM_TC")) tc = atoi(getenv("OVM_TC"));
            auto r = read_bytes(bytes, kind, tc != 0);
            out << label << "\t" << IO::to_string(r.res) << "\t" << std::hex << fnv(r.dump) << std::dec << "\t" << (r.handles_ok ? "hok" : "HANDLES_BAD") << (r.threw ? "\tTHREW " + r.what : "") << "\n";
            ++n;
        }
        std::cerr << "ran " << n << " mutants\n";
        return 0;
    }
    if (mode == "readfail") {
        // every position at which the input stream starts failing
        std::string path = argv[2]; char kind = argv[3][0];
        size_t step = argc > 4 ? atoi(argv[4]) : 1;
        auto bytes = slurp(path);
        size_t acc = 0, tried = 0;
        for (int thr = 0; thr < 2; ++thr)
        for (size_t k = 0; k < bytes.size(); k += (k < 512 || k + 512 > bytes.size()) ? 1 : step) {
            FailInBuf buf(bytes, k, thr);
            std::istream is(&buf);
            RR r;
            try { r = read_kind(is, kind); } catch (...) { r.res = IO::ReadResult::OtherError; std::cout << "READFAIL-ESCAPED-EXC\t" << path << "\t" << k << "\n"; }
            ++tried;
            if (r.res == IO::ReadResult::Ok) { ++acc; std::cout << "READFAIL-OK\t" << path << "\tthr" << thr << "\tk=" << k << "\n"; }
        }
        std::cout << "readfail\t" << path << "\tsize=" << bytes.size() << "\ttried=" << tried << "\taccepted=" << acc << "\n";
        return acc ? 1 : 0;
    }
    if (mode == "trunc") {
        std::string path = argv[2]; char kind = argv[3][0];
        size_t step = argc > 4 ? atoi(argv[4]) : 1;
        auto bytes = slurp(path);
        size_t acc = 0, tried = 0;
        for (size_t k = 0; k < bytes.size(); k += (k < 4096 || k + 4096 > bytes.size()) ? 1 : step) {
            auto r = read_bytes(bytes.substr(0, k), kind);
            ++tried;
            if (r.res == IO::ReadResult::Ok) { ++acc; std::cout << "TRUNC-OK\t" << path << "\tk=" << k << "\n"; }
        }
        std::cout << "trunc\t" << path << "\tsize=" << bytes.size() << "\ttried=" << tried << "\taccepted=" << acc << "\n";
        return acc ? 1 : 0;
    }
    if (mode == "writefail") {
        int bad = 0;
        { PolyM m; bad += writefail_for("empty", m, 1); }
        { PolyM m; build_poly(m); add_props_small(m); bad += writefail_for("poly_props", m, 1); }
        { TetM m; build_tet(m, 5); add_props_small(m); bad += writefail_for("tet5_props", m, 1); }
        { HexM m; build_hex(m, 2, 2, 1); add_props_small(m); bad += writefail_for("hex_props", m, 1); }
        { HexM m; build_hex(m, 7, 7, 7); bad += writefail_for("hex_u16", m, 997); }
        return bad ? 1 : 0;
    }
    std::cerr << "usage: ovmtool gen DIR | dump FILE KIND [topocheck] | run BATCH RESULTS | readfail FILE KIND [step] | trunc FILE KIND [step] | writefail\n";
    return 2;
}
