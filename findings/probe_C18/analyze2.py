import sys, collections, re
rows=[l.rstrip('\n').split('\t') for l in open(sys.argv[1])]
ident={}
for r in rows:
    f,cls,det,_,exp=r[0].split('|')
    if cls=='identity': ident[f]=r[2]
g=collections.defaultdict(lambda: collections.Counter())
ex=collections.defaultdict(list)
for r in rows:
    f,cls,det,_,exp=r[0].split('|')
    if cls=='identity': continue
    d=re.sub(r'(PROP|entry)\d+','\\1*',det); d=re.sub(r'\(count=\d+\)','',d); d=re.sub(r'^\d+:','',d); d=re.sub(r'\(mesh has \d+ vertices\)','',d); d=re.sub(r'value\[0\]=0x[0-9a-f]+','value[0]=<out of range>',d)
    res = 'rej' if r[1]!='Ok' else ('acc-same' if r[2]==ident[f] else 'acc-DIFF')
    if len(r)>3 and r[3]!='hok': res+='-HANDLESBAD'
    g[(cls,d,exp)][res]+=1
    ex[(cls,d,exp,res)].append(f)
for k in sorted(g):
    c=g[k]
    flag=''
    if k[2].startswith('I') and (c['acc-same'] or c['acc-DIFF']): flag='  <<<<'
    if k[2].startswith('V') and (c['rej'] or c['acc-DIFF']): flag='  !!!! valid variant rejected/different'
    print('%-10s %-85s exp=%-3s %s%s'%(k[0],k[1][:85],k[2],dict(c),flag))
