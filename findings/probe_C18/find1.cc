// F1 (C18 "handle values", C07): TOPO handle_offset + stored handle is computed modulo 2^64.
// Single-field mutation of a writer-produced file: handle_offset of the cell TOPO chunk 0 -> 0xffffffffffffffff.
// Stored halfface handles 1,3,5,7 then "designate" 2^64+0, 2^64+2, ... which is no entity of the file, yet the
// reader accepts the file and silently builds the cell from halffaces 0,2,4,6 (a different mesh).
#include "repro_common.hh"
int main() {
    PolyM m; build_one_tet(m, 1);                         // the cell uses halffaces 1,3,5,7
    std::string b = write_ovmb(m);
    auto c = find_chunk(b, "TOPO", 0, 3);                 // TOPO chunk of the cells
    size_t handle_offset = c.payload + 16;                // TopoChunkHeader: span(12) entity valence valence_enc handle_enc handle_offset(u64)
    wr(b, handle_offset, 8, 0xffffffffffffffffULL);
    PolyM r; auto res = read_ovmb(b, r);
    std::cout << "result: " << IO::to_string(res) << "\n";
    if (res == IO::ReadResult::Ok) {
        std::cout << "cell 0 halffaces:"; for (auto h : r.cell(CellHandle(0)).halffaces()) std::cout << " " << h.idx();
        std::cout << "  (file stores 1 3 5 7 with handle_offset 2^64-1)\nDEFECT: inconsistent handle_offset accepted\n";
        return 1;
    }
    return 0;
}
