// F5 (C18 "entity spans ... inconsistent with the rest of the file", silently different content):
// the reader never checks that the PROP chunks of a property cover all its elements, and an empty span is accepted
// with any base.  (a) single-field mutation span.count 6 -> 5 of a bool property: same payload size, last element silently
// becomes the default; (b) a PROP chunk removed altogether: Ok, all values silently the default; (c) span (2^63, 0).
#include "repro_common.hh"
int main() {
    PolyM m; for (int i = 0; i < 6; ++i) m.add_vertex(Vec3d(i,0,0));
    auto pb = *m.create_persistent_vertex_property<bool>("flag", false);
    for (auto v : m.vertices()) pb[v] = true;
    auto pd = *m.create_persistent_vertex_property<double>("w", -1.0);
    for (auto v : m.vertices()) pd[v] = v.idx();
    std::string b = write_ovmb(m);
    int rc = 0;
    {   // (a)
        int idx_flag = -1; std::string nb = b;
        for (int k = 0; k < 2; ++k) { auto c = find_chunk(b, "PROP", k); if (c.end - c.payload <= 24) idx_flag = k; }   // the short chunk is the bool one
        auto c = find_chunk(b, "PROP", idx_flag);
        wr(nb, c.payload + 8, 4, 5);                      // span.count 6 -> 5
        PolyM r; auto res = read_ovmb(nb, r);
        std::cout << "(a) bool PROP span.count 6->5: " << IO::to_string(res);
        if (res == IO::ReadResult::Ok) { auto q = *r.get_property<bool, Entity::Vertex>("flag"); std::cout << ", flag[5] = " << q[VertexHandle(5)] << " (file data says 1)"; rc = 1; }
        std::cout << "\n";
    }
    {   // (b)
        auto c0 = find_chunk(b, "PROP", 0), c1 = find_chunk(b, "PROP", 1);
        std::string nb = b.substr(0, c0.off) + b.substr(c1.end);
        PolyM r; auto res = read_ovmb(nb, r);
        std::cout << "(b) both PROP chunks removed: " << IO::to_string(res);
        if (res == IO::ReadResult::Ok) { auto q = *r.get_property<double, Entity::Vertex>("w"); std::cout << ", w[3] = " << q[VertexHandle(3)] << " (written 3)"; rc = 1; }
        std::cout << "\n";
    }
    {   // (c)
        auto c1 = find_chunk(b, "PROP", 1);
        std::string pl(16, '\0'); wr(pl, 0, 8, 1ULL << 63); wr(pl, 8, 4, 0); wr(pl, 12, 4, 0);
        std::string nb = b.substr(0, c1.end) + make_chunk("PROP", pl) + b.substr(c1.end);
        PolyM r; auto res = read_ovmb(nb, r);
        std::cout << "(c) extra PROP chunk with span (first=2^63, count=0) for 6 vertices: " << IO::to_string(res) << "\n";
        if (res == IO::ReadResult::Ok) rc = 1;
    }
    if (rc) std::cout << "DEFECT: PROP spans inconsistent with the entity count accepted\n";
    return rc;
}
