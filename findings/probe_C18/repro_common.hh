// shared helpers for the findN.cc reproducers: write a mesh with ovmb_write, walk the chunk list, patch named fields
#pragma once
#include <OpenVolumeMesh/Mesh/PolyhedralMesh.hh>
#include <OpenVolumeMesh/Mesh/TetrahedralMesh.hh>
#include <OpenVolumeMesh/Mesh/HexahedralMesh.hh>
#include <OpenVolumeMesh/IO/ovmb_read.hh>
#include <OpenVolumeMesh/IO/ovmb_write.hh>
#include <sstream>
#include <iostream>
#include <cstring>
using namespace OpenVolumeMesh;
using PolyM = GeometricPolyhedralMeshV3d;
using TetM  = GeometricTetrahedralMeshV3d;
using Vec3d = Geometry::Vec3d;

template<typename M> std::string write_ovmb(M const &m, IO::WriteOptions wo = IO::WriteOptions()) {
    std::ostringstream os(std::ios::binary);
    if (IO::ovmb_write(os, m, wo) != IO::WriteResult::Ok) { std::cerr << "setup: write failed\n"; exit(2); }
    return os.str();
}
template<typename M> IO::ReadResult read_ovmb(std::string const &bytes, M &m, bool topo_check = true) {
    std::istringstream is(bytes, std::ios::binary);
    IO::ReadOptions o; o.topology_check = topo_check;
    return IO::ovmb_read(is, m, o);
}
inline uint64_t rd(std::string const &b, size_t off, int n) { uint64_t v = 0; for (int i = n - 1; i >= 0; --i) v = (v << 8) | uint8_t(b[off + i]); return v; }
inline void wr(std::string &b, size_t off, int n, uint64_t v) { for (int i = 0; i < n; ++i) b[off + i] = char((v >> (8 * i)) & 0xff); }
struct ChunkPos { size_t off, payload, end; std::string type; };   // off: chunk header, payload: first byte after the 16 byte chunk header
inline std::vector<ChunkPos> chunks_of(std::string const &b) {
    std::vector<ChunkPos> r; size_t p = 48;                          // 48 = size of the file header
    while (p + 16 <= b.size()) { uint64_t len = rd(b, p + 8, 8); r.push_back({p, p + 16, p + 16 + size_t(len), b.substr(p, 4)}); p += 16 + len; }
    return r;
}
// n-th (0-based) chunk of the given fourcc; for TOPO additionally filtered by the entity byte (1 edge, 2 face, 3 cell) when ent != 0
inline ChunkPos find_chunk(std::string const &b, const char *fourcc, int nth = 0, int ent = 0) {
    for (auto &c : chunks_of(b)) if (c.type == fourcc && (ent == 0 || uint8_t(b[c.payload + 12]) == ent) && nth-- == 0) return c;
    std::cerr << "setup: chunk not found\n"; exit(2);
}
inline std::string make_chunk(const char *fourcc, std::string payload) {
    size_t pad = (8 - payload.size() % 8) % 8;
    std::string c(fourcc, 4); c += char(0); c += char(pad); c += char(0); c += char(1);   // version 0, padding, compression 0, flags=mandatory
    c.resize(16); wr(c, 8, 8, payload.size() + pad);
    return c + payload + std::string(pad, '\0');
}
inline void build_one_tet(PolyM &m, int side) {
    auto a = m.add_vertex(Vec3d(0,0,0)), b = m.add_vertex(Vec3d(1,0,0)), c = m.add_vertex(Vec3d(0,1,0)), d = m.add_vertex(Vec3d(0,0,1));
    auto f0 = m.add_face(std::vector<VertexHandle>{a,b,c}), f1 = m.add_face(std::vector<VertexHandle>{a,d,b});
    auto f2 = m.add_face(std::vector<VertexHandle>{b,d,c}), f3 = m.add_face(std::vector<VertexHandle>{a,c,d});
    auto ch = m.add_cell({m.halfface_handle(f0,side), m.halfface_handle(f1,side), m.halfface_handle(f2,side), m.halfface_handle(f3,side)}, true);
    if (!ch.is_valid()) { std::cerr << "setup: cell rejected\n"; exit(2); }
}
