#!/usr/bin/env python3
"""Second wave: multi-chunk / re-encoded variants that the writer itself never produces.
usage: craft.py VALID_DIR BATCH_OUT
labels: file|class|detail|-|expect   (expect = V: valid per description -> must be accepted with same mesh,
                                                I: inconsistent -> must be rejected)"""
import sys, os, struct
import ovmb
from mutate import Batch


def model(b):
    hf, chunks = ovmb.parse(b)
    hd = ovmb.header_dict(hf)
    m = {'hd': hd, 'verts': [], 'E': [], 'F': [], 'C': [], 'dirp': None, 'props': [], 'chunks': chunks}
    for c in chunks:
        if c.type == b'VERT':
            m['verts'] += ovmb.decode_vert(b, c, hd['vertex_dim'])
        elif c.type == b'TOPO':
            m[{1: 'E', 2: 'F', 3: 'C'}[c.sub['entity']]] += ovmb.decode_topo(b, c)
        elif c.type == b'DIRP':
            m['dirp'] = c
        elif c.type == b'PROP':
            m['props'].append(c)
    return m


def henc(maxv):
    return 1 if maxv <= 255 else 2 if maxv <= 65535 else 4


def assemble(b, m, vert_chunks=None, e_chunks=None, f_chunks=None, c_chunks=None, dirp=None, props=None, hd=None):
    """default = canonical single-chunk encoding"""
    V, E, F, C = m['verts'], m['E'], m['F'], m['C']
    out = ovmb.header_bytes(hd or m['hd'])
    if dirp is None:
        dirp = [m['dirp'].raw(b)] if m['dirp'] else []
    out += b''.join(dirp)
    if vert_chunks is None:
        vert_chunks = [ovmb.vert_chunk(0, V)] if V else []
    out += b''.join(vert_chunks)
    if e_chunks is None:
        e_chunks = [ovmb.topo_chunk(0, 1, E, henc(len(V)))] if E else []
    out += b''.join(e_chunks)
    if f_chunks is None:
        fx = len(set(map(len, F))) == 1
        f_chunks = [ovmb.topo_chunk(0, 2, F, henc(2 * len(E)), fixed=fx)] if F else []
    out += b''.join(f_chunks)
    if c_chunks is None:
        fx = len(set(map(len, C))) == 1
        c_chunks = [ovmb.topo_chunk(0, 3, C, henc(2 * len(F)), fixed=fx)] if C else []
    out += b''.join(c_chunks)
    if props is None:
        props = [p.raw(b) for p in m['props']]
    out += b''.join(props)
    return out + ovmb.eof_chunk()


def split(lst, k):
    k = max(1, min(k, len(lst)))
    return [(0, lst[:k]), (k, lst[k:])] if k < len(lst) else [(0, lst)]


def gen(name, kind, b, batch):
    m = model(b)
    V, E, F, C = m['verts'], m['E'], m['F'], m['C']
    L = lambda cls, det, exp: f'{name}|{cls}|{det}|-|{exp}'
    A = lambda cls, det, exp, data, tc=1: batch.add(L(cls, det, exp), kind, data, tc)
    A('identity', '-', 'V', b)
    A('reenc', 'canonical', 'V', assemble(b, m))
    nV, nE, nF, nC = len(V), len(E), len(F), len(C)
    # ------------------------------------------------ VERT spans
    if nV >= 2:
        k = nV // 2
        a, c2 = V[:k], V[k:]
        vc = lambda f, p, enc=2: ovmb.vert_chunk(f, p, enc)
        A('reenc', 'VERT split 2 spans', 'V', assemble(b, m, vert_chunks=[vc(0, a), vc(k, c2)]))
        A('reenc', 'VERT split, 2nd span after edges? (interleaved order VERT,VERT)', 'V', assemble(b, m, vert_chunks=[vc(0, a), vc(k, c2)]))
        A('reenc', 'VERT mixed float/double spans', 'V?', assemble(b, m, vert_chunks=[vc(0, a, 1), vc(k, c2, 2)]))
        A('reenc', 'VERT float', 'V?', assemble(b, m, vert_chunks=[vc(0, V, 1)]))
        A('span', 'VERT spans swapped order', 'I', assemble(b, m, vert_chunks=[vc(k, c2), vc(0, a)]))
        A('span', 'VERT spans overlap by 1 (second starts one early, same total)', 'I', assemble(b, m, vert_chunks=[vc(0, a), vc(k - 1, V[k - 1:])]))
        A('span', 'VERT spans overlap (first too long)', 'I', assemble(b, m, vert_chunks=[vc(0, V[:k + 1]), vc(k, c2)]))
        A('span', 'VERT spans gap (second starts one late)', 'I', assemble(b, m, vert_chunks=[vc(0, a), vc(k + 1, V[k + 1:])]))
        A('span', 'VERT second span missing', 'I', assemble(b, m, vert_chunks=[vc(0, a)]))
        A('span', 'VERT first span missing', 'I', assemble(b, m, vert_chunks=[vc(k, c2)]))
        A('span', 'VERT same span twice', 'I', assemble(b, m, vert_chunks=[vc(0, V), vc(0, V)]))
        A('span', 'VERT 2 chunks cover same span (0..k twice) then rest', 'I', assemble(b, m, vert_chunks=[vc(0, a), vc(0, a), vc(k, c2)]))
        A('span', 'VERT extra empty span at end (first=nV,count=0)', 'V?', assemble(b, m, vert_chunks=[vc(0, V), vc(nV, [])]))
        A('span', 'VERT extra empty span out of range (first=nV+5,count=0)', 'I', assemble(b, m, vert_chunks=[vc(0, V), vc(nV + 5, [])]))
        A('span', 'VERT empty span first=0 before data', 'V?', assemble(b, m, vert_chunks=[vc(0, []), vc(0, V)]))
        A('enc', 'VERT encoding None, no coordinate data, count=nV', 'I?', assemble(b, m, vert_chunks=[ovmb.chunk_bytes(b'VERT', struct.pack('<QIB3x', 0, nV, 0))]))
        A('enc', 'VERT encoding None count=0 appended', 'I?', assemble(b, m, vert_chunks=[vc(0, V), ovmb.chunk_bytes(b'VERT', struct.pack('<QIB3x', nV, 0, 0))]))
        A('enc', 'VERT encoding 3 count=0 appended', 'I', assemble(b, m, vert_chunks=[vc(0, V), ovmb.chunk_bytes(b'VERT', struct.pack('<QIB3x', nV, 0, 3))]))
        A('span', 'VERT after TOPO for verts not referenced? (all VERT after edges)', 'I', assemble(b, m, vert_chunks=[], props=[ovmb.vert_chunk(0, V)] + [p.raw(b) for p in m['props']]))
    # ------------------------------------------------ TOPO spans / encodings
    for ent, key, lists, maxh in ((1, 'E', E, nV), (2, 'F', F, 2 * nE), (3, 'C', C, 2 * nF)):
        if not lists:
            continue
        kw = {1: 'e_chunks', 2: 'f_chunks', 3: 'c_chunks'}[ent]
        he = henc(maxh)
        fx = len(set(map(len, lists))) == 1
        tc = lambda f, l, h=he, fixed=None, venc=1, off=0: ovmb.topo_chunk(f, ent, l, h, fixed=(len(set(map(len, l))) == 1) if fixed is None else fixed, venc=venc, offset=off)
        n = len(lists)
        for h2 in (1, 2, 4):
            if h2 > he:
                A('reenc', f'TOPO-{key} handle encoding widened to {h2}', 'V', assemble(b, m, **{kw: [tc(0, lists, h2)]}))
        if ent != 1:
            for ve in (1, 2, 4):
                A('reenc', f'TOPO-{key} variable valence list enc {ve}', 'V', assemble(b, m, **{kw: [tc(0, lists, he, fixed=False, venc=ve)]}))
        mn = min(h for l in lists for h in l)
        if mn > 0:
            A('reenc', f'TOPO-{key} handle_offset={mn}', 'V', assemble(b, m, **{kw: [tc(0, lists, he, off=mn)]}))
        # wrap-around offsets: stored handle + offset exceeds 2^64
        if mn > 0:
            pass
        if n >= 2:
            k = n // 2
            A('reenc', f'TOPO-{key} split 2 spans', 'V', assemble(b, m, **{kw: [tc(0, lists[:k]), tc(k, lists[k:])]}))
            A('span', f'TOPO-{key} spans swapped', 'I', assemble(b, m, **{kw: [tc(k, lists[k:]), tc(0, lists[:k])]}))
            A('span', f'TOPO-{key} overlap (2nd starts one early)', 'I', assemble(b, m, **{kw: [tc(0, lists[:k]), tc(k - 1, lists[k - 1:])]}))
            A('span', f'TOPO-{key} overlap same total (2nd starts one early, one fewer)', 'I', assemble(b, m, **{kw: [tc(0, lists[:k]), tc(k - 1, lists[k:])]}))
            A('span', f'TOPO-{key} gap (2nd starts one late)', 'I', assemble(b, m, **{kw: [tc(0, lists[:k]), tc(k + 1, lists[k + 1:])]}))
            A('span', f'TOPO-{key} gap but same total (2nd base+1)', 'I', assemble(b, m, **{kw: [tc(0, lists[:k]), tc(k + 1, lists[k:])]}))
            A('span', f'TOPO-{key} 2nd span missing', 'I', assemble(b, m, **{kw: [tc(0, lists[:k])]}))
            A('span', f'TOPO-{key} same span twice', 'I', assemble(b, m, **{kw: [tc(0, lists), tc(0, lists)]}))
            A('span', f'TOPO-{key} first half twice then rest', 'I', assemble(b, m, **{kw: [tc(0, lists[:k]), tc(0, lists[:k]), tc(k, lists[k:])]}))
        A('span', f'TOPO-{key} empty span appended', 'I?', assemble(b, m, **{kw: [tc(0, lists), ovmb.chunk_bytes(b'TOPO', struct.pack('<QIBBBBQ', n, 0, ent, len(lists[0]), 0, he, 0))]}))
        # handle_offset wrap: every stored handle is (h+1), offset = 2^64-1  -> sums exceed 2^64
        if max(h for l in lists for h in l) + 1 < (1 << (8 * he)):
            flat = [h + 1 for l in lists for h in l]
            if fx:
                pl = struct.pack('<QIBBBBQ', 0, n, ent, len(lists[0]), 0, he, (1 << 64) - 1)
            else:
                pl = struct.pack('<QIBBBBQ', 0, n, ent, 0, 1, he, (1 << 64) - 1) + bytes(len(l) for l in lists)
            pl += struct.pack('<%d%s' % (len(flat), ovmb.INT_ENC[he]), *flat)
            A('handle', f'TOPO-{key} handle_offset=2^64-1 with stored handles+1 (sum overflows 64 bit)', 'I', assemble(b, m, **{kw: [ovmb.chunk_bytes(b'TOPO', pl)]}))
        # valence encoding given although fixed valence; valence encoding None for variable valence
        if ent != 1 and fx:
            pl = struct.pack('<QIBBBBQ', 0, n, ent, len(lists[0]), 1, he, 0) + struct.pack('<%d%s' % (sum(map(len, lists)), ovmb.INT_ENC[he]), *[h for l in lists for h in l])
            A('enc', f'TOPO-{key} fixed valence but valence_encoding=U8', 'I', assemble(b, m, **{kw: [ovmb.chunk_bytes(b'TOPO', pl)]}))
    # ------------------------------------------------ DIRP / PROP
    if m['dirp'] is not None:
        d = m['dirp']
        draw = d.raw(b)
        empty_dirp = ovmb.chunk_bytes(b'DIRP', b'')
        A('dirp', 'DIRP twice', 'I', assemble(b, m, dirp=[draw, draw]))
        A('dirp', 'empty DIRP followed by the real DIRP', 'I', assemble(b, m, dirp=[empty_dirp, draw]))
        A('dirp', 'real DIRP followed by empty DIRP', 'I', assemble(b, m, dirp=[draw, empty_dirp]))
        A('dirp', 'two empty DIRP then the real DIRP', 'I', assemble(b, m, dirp=[empty_dirp, empty_dirp, draw]))
        A('dirp', 'DIRP moved behind all TOPO (before PROP)', 'V', assemble(b, m, dirp=[], props=[draw] + [p.raw(b) for p in m['props']]))
        A('dirp', 'DIRP after PROP chunks', 'I', assemble(b, m, dirp=[], props=[p.raw(b) for p in m['props']] + [draw]))
        ents = d.entries

        def dirp_from(entries):
            pl = b''
            for e in entries:
                pl += bytes([e['entity']]) + struct.pack('<I', len(e['name'])) + e['name'] + struct.pack('<I', len(e['type'])) + e['type'] + struct.pack('<I', len(e['default'])) + e['default']
            return ovmb.chunk_bytes(b'DIRP', pl)
        A('reenc', 'DIRP re-serialised', 'V', assemble(b, m, dirp=[dirp_from(ents)]))
        for i, e in enumerate(ents):
            t = e['type'].decode()
            e2 = dict(e); e2['default'] = e['default'] + b'\0'
            A('dirp-default', f'entry{i} {t} default with 1 trailing zero byte', 'I', assemble(b, m, dirp=[dirp_from(ents[:i] + [e2] + ents[i + 1:])]))
            e2 = dict(e); e2['default'] = e['default'] + b'\xab\xcd'
            A('dirp-default', f'entry{i} {t} default with 2 trailing garbage bytes', 'I', assemble(b, m, dirp=[dirp_from(ents[:i] + [e2] + ents[i + 1:])]))
            if e['default']:
                e2 = dict(e); e2['default'] = e['default'][:-1]
                A('dirp-default', f'entry{i} {t} default 1 byte short', 'I', assemble(b, m, dirp=[dirp_from(ents[:i] + [e2] + ents[i + 1:])]))
            e2 = dict(e); e2['default'] = b''
            A('dirp-default', f'entry{i} {t} default empty', 'I' if e['default'] else 'V', assemble(b, m, dirp=[dirp_from(ents[:i] + [e2] + ents[i + 1:])]))
            if t == 'b':
                for v in (2, 0xff):
                    e2 = dict(e); e2['default'] = bytes([v])
                    A('dirp-default', f'entry{i} bool default byte {v}', 'I', assemble(b, m, dirp=[dirp_from(ents[:i] + [e2] + ents[i + 1:])]))
            e2 = dict(e); e2['name'] = b''
            A('dirp-name', f'entry{i} {t} empty property name', 'I?', assemble(b, m, dirp=[dirp_from(ents[:i] + [e2] + ents[i + 1:])]))
            # duplicate directory entry (same entity, name, type) appended: two indices for one property
            A('dirp-dup', f'entry{i} {t} duplicated at the end of the directory', 'I?', assemble(b, m, dirp=[dirp_from(ents + [e])]))
        # a duplicate entry AND a second PROP chunk for it with other data (which one wins?)
        # PROP chunk level
        praw = [p.raw(b) for p in m['props']]
        for i, p in enumerate(m['props']):
            e = ents[p.sub['prop_idx']]
            t = e['type'].decode()
            cnt = p.sub['span.count']
            data = b[p.data_off:p.payload_end]
            mk = lambda base, c, dat, idx=p.sub['prop_idx']: ovmb.chunk_bytes(b'PROP', struct.pack('<QII', base, c, idx) + dat)
            fixed_sz = {'d': 8, 'f': 4, 'i32': 4, 'u8': 1, 'u64': 8, 'vh': 4, '3d': 24, '3f': 12}.get(t)
            rest = lambda repl: praw[:i] + repl + praw[i + 1:]
            if t == 'b' and cnt % 8 != 0 and cnt > 0:
                # unused bits of the last byte set
                last = data[-1] | (0xff << (cnt % 8)) & 0xff
                A('prop-bool', f'PROP{i} bool unused high bits of last byte set (count={cnt})', 'I?', assemble(b, m, props=rest([mk(0, cnt, data[:-1] + bytes([last]))])))
                A('prop-bool', f'PROP{i} bool count-1 same bytes (count={cnt})', 'I', assemble(b, m, props=rest([mk(0, cnt - 1, data)])))
            if fixed_sz and cnt >= 2:
                k = cnt // 2
                d1, d2 = data[:k * fixed_sz], data[k * fixed_sz:]
                A('reenc', f'PROP{i} {t} split in 2 spans', 'V', assemble(b, m, props=rest([mk(0, k, d1), mk(k, cnt - k, d2)])))
                A('reenc', f'PROP{i} {t} split, spans in reverse order', 'V', assemble(b, m, props=rest([mk(k, cnt - k, d2), mk(0, k, d1)])))
                A('prop-span', f'PROP{i} {t} only first half present', 'I', assemble(b, m, props=rest([mk(0, k, d1)])))
                A('prop-span', f'PROP{i} {t} only second half present', 'I', assemble(b, m, props=rest([mk(k, cnt - k, d2)])))
                A('prop-span', f'PROP{i} {t} overlapping spans with conflicting data', 'I', assemble(b, m, props=rest([mk(0, cnt, data), mk(0, k, d2[:k * fixed_sz] if len(d2) >= k * fixed_sz else d1)])))
                if cnt - k - 1 > 0:
                    A('prop-span', f'PROP{i} {t} gap: halves with one element missing in the middle', 'I', assemble(b, m, props=rest([mk(0, k, d1), mk(k + 1, cnt - k - 1, d2[fixed_sz:])])))
                A('prop-span', f'PROP{i} {t} span shifted by +1 with count-1 (data misaligned)', 'I', assemble(b, m, props=rest([mk(1, cnt - 1, data[:(cnt - 1) * fixed_sz])])))
            A('prop-span', f'PROP{i} {t} chunk dropped', 'I', assemble(b, m, props=rest([])))
            A('prop-span', f'PROP{i} {t} empty span with base 2^63', 'I', assemble(b, m, props=rest([praw[i], mk(1 << 63, 0, b'')])))
            A('prop-span', f'PROP{i} {t} empty span with base=count (one past end)', 'V?', assemble(b, m, props=rest([praw[i], mk(cnt, 0, b'')])))
            if t in ('vh',) and cnt > 0:
                for hv in (nV, 1000000, 0x7fffffff, 0xfffffffe, 0x80000000):
                    A('prop-handle', f'PROP{i} vh value[0]={hv:#x} (mesh has {nV} vertices)', 'I', assemble(b, m, props=rest([mk(0, cnt, struct.pack('<I', hv) + data[4:])])))
                A('prop-handle', f'PROP{i} vh value[0]=-1 (invalid handle)', 'V', assemble(b, m, props=rest([mk(0, cnt, struct.pack('<I', 0xffffffff) + data[4:])])))
            if t == 'vh':
                e2 = dict(e); e2['default'] = struct.pack('<I', 12345678)
                j = p.sub['prop_idx']
                A('prop-handle', f'DIRP entry{j} vh default=12345678', 'I', assemble(b, m, dirp=[dirp_from(ents[:j] + [e2] + ents[j + 1:])]))
    # ------------------------------------------------ misc chunk header combos
    if m['chunks']:
        for i, c in enumerate(m['chunks']):
            t = c.type.decode().strip()
            raw = c.raw(b)
            pre, post = b[:c.off], b[c.end:]
            opt_v1 = raw[:4] + bytes([1, raw[5], raw[6], 0]) + raw[8:]
            A('skip', f'{i}:{t} version=1 flags=0 (optional, unknown version: skipped)', 'I' if t in ('VERT', 'TOPO', 'EOF', 'DIRP') else 'V?', pre + opt_v1 + post)
            opt_c1 = raw[:4] + bytes([raw[4], raw[5], 1, 0]) + raw[8:]
            A('skip', f'{i}:{t} compression=1 flags=0 (optional, skipped)', 'I' if t in ('VERT', 'TOPO', 'EOF', 'DIRP') else 'V?', pre + opt_c1 + post)


def main():
    vdir, out = sys.argv[1], sys.argv[2]
    only = sys.argv[3:]
    batch = Batch(out)
    for line in open(os.path.join(vdir, 'index.txt')):
        name, kind, size = line.split()[:3]
        if only and name not in only:
            continue
        if int(size) > 200000:
            continue
        b = open(os.path.join(vdir, name + '.ovmb'), 'rb').read()
        before = batch.n
        batch.base, batch.base_name = None, ''
        gen(name, kind, b, batch)
        print(name, batch.n - before, file=sys.stderr)


if __name__ == '__main__':
    main()
