#!/usr/bin/env python3
# usage: analyze.py results.tsv  -> summary of accepted mutants grouped by class / chunk type / field
import sys, collections, re
rows = [l.rstrip('\n').split('\t') for l in open(sys.argv[1])]
ident = {}
for r in rows:
    f, cls, ch, field, mut = r[0].split('|')
    if cls == 'identity':
        ident[f] = r[2]
        assert r[1] == 'Ok', r
tot = collections.Counter(); acc_same = collections.Counter(); acc_diff = collections.Counter(); bad = []
groups = collections.defaultdict(list)
for r in rows:
    f, cls, ch, field, mut = r[0].split('|')
    if cls == 'identity': continue
    tot[cls] += 1
    if len(r) > 3 and r[3] != 'hok': bad.append(r)
    if r[1] == 'Ok':
        same = r[2] == ident[f]
        (acc_same if same else acc_diff)[cls] += 1
        cht = re.sub(r'^\d+:', '', ch)
        fld = re.sub(r'\[\d+\]', '[*]', field)
        fld = re.sub(r'byte\+?\d+', 'byte*', fld) if cls.endswith('-byte') and '-v' not in sys.argv else fld
        groups[(cls, cht, fld, 'same' if same else 'DIFF')].append((f, ch, field, mut))
print('%-28s %8s %9s %10s %10s' % ('class', 'total', 'rejected', 'acc-same', 'acc-DIFF'))
for c in sorted(tot):
    print('%-28s %8d %9d %10d %10d' % (c, tot[c], tot[c] - acc_same[c] - acc_diff[c], acc_same[c], acc_diff[c]))
print('%-28s %8d %9d %10d %10d' % ('ALL', sum(tot.values()), sum(tot.values()) - sum(acc_same.values()) - sum(acc_diff.values()), sum(acc_same.values()), sum(acc_diff.values())))
print('HANDLES_BAD rows:', len(bad))
for b in bad[:20]: print('   ', b)
print()
for k in sorted(groups):
    v = groups[k]
    muts = collections.Counter(m[3] for m in v)
    print(k, len(v), 'files:', sorted(set(m[0] for m in v))[:6], 'muts:', list(muts.items())[:12])
