// F4 (C07 "every stored handle designates an existing entity", C18 "handle values"): values (and the default) of
// handle-typed properties (vh, eh, heh, fh, hfh, ch) are copied into the mesh without any range check.
#include "repro_common.hh"
int main() {
    PolyM m; auto a = m.add_vertex(Vec3d(0,0,0)), b0 = m.add_vertex(Vec3d(1,0,0)), c0 = m.add_vertex(Vec3d(0,1,0));
    m.add_edge(a, b0); m.add_edge(b0, c0);
    auto p = *m.create_persistent_edge_property<VertexHandle>("ref", VertexHandle(-1));
    p[EdgeHandle(0)] = a; p[EdgeHandle(1)] = c0;
    std::string b = write_ovmb(m);
    auto pc = find_chunk(b, "PROP");
    size_t value0 = pc.payload + 16;                       // PropChunkHeader: span(12) idx(4), then the values (i32 each)
    int rc = 0;
    for (uint32_t v : {3u, 1000000u, 0x7fffffffu, 0x80000000u /* = INT_MIN */, 0xfffffffeu /* = -2 */}) {
        std::string nb = b; wr(nb, value0, 4, v);
        PolyM r; auto res = read_ovmb(nb, r);
        std::cout << "vh value " << int32_t(v) << " in a mesh with 3 vertices: " << IO::to_string(res);
        if (res == IO::ReadResult::Ok) {
            auto q = r.get_property<VertexHandle, Entity::Edge>("ref");
            std::cout << "  -> stored handle " << (*q)[EdgeHandle(0)].idx() << ", n_vertices " << r.n_vertices();
            rc = 1;
        }
        std::cout << "\n";
    }
    if (rc) std::cout << "DEFECT: out-of-range handle values accepted\n";
    return rc;
}
