// F7 (debug builds only; C06/C07): assertions reachable from ordinary input.
//  (a) ovmb_write of a mesh that has a persistent property on an entity kind with zero entities (e.g. a cell property in a
//      mesh without cells) trips assert(idx_begin < prop->size()) in PropertyEncoderT::serialize (PropertyCodecsT_impl.hh:39);
//      release builds write an (unnecessary) empty PROP chunk instead.
//  (b) ovmb_read of a file with a VERT chunk whose vertex_encoding is None (0, a documented enumerator) and count 0 or
//      no coordinate data trips assert(false) in call_with_decoder (ovmb_format.hh:214); release builds accept the file.
// build against the Debug library: see run commands in README.txt;  usage: find7 a|b
#include "repro_common.hh"
int main(int argc, char **argv) {
    char which = argc > 1 ? argv[1][0] : 'a';
    if (which == 'a') {
        PolyM m; m.add_vertex(Vec3d(0,0,0));
        auto p = *m.create_persistent_cell_property<int>("c", 7);
        std::ostringstream os(std::ios::binary);
        auto r = IO::ovmb_write(os, m);                     // aborts in a debug build
        std::cout << "(a) write: " << IO::to_string(r) << "\n";
    } else {
        PolyM m; m.add_vertex(Vec3d(1,2,3));
        std::string b = write_ovmb(m);
        auto v = find_chunk(b, "VERT");
        std::string pl(16, '\0'); wr(pl, 0, 8, 0); wr(pl, 8, 4, 1); pl[12] = 0;   // span (0,1), encoding None, no coordinates
        std::string nb = b.substr(0, v.off) + make_chunk("VERT", pl) + b.substr(v.end);
        PolyM r; auto res = read_ovmb(nb, r);               // aborts in a debug build
        std::cout << "(b) read: " << IO::to_string(res) << "\n";
    }
    return 0;
}
