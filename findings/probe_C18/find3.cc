// F3 (C18 "lengths ... inconsistent with the rest of the file"): the length of the serialized default value in a DIRP
// entry is not checked against the value type: trailing bytes after the decoded default are ignored.
// Mutation: default_len of the only entry 8 -> 10, two garbage bytes inserted, DIRP chunk length/padding fixed up.
#include "repro_common.hh"
int main() {
    PolyM m; m.add_vertex(Vec3d(0,0,0));
    auto p = *m.create_persistent_vertex_property<double>("w", 0.5);
    std::string b = write_ovmb(m);
    auto d = find_chunk(b, "DIRP");
    // entry: entity(1) name_len(4) "w" type_len(4) "d" default_len(4) default(8)
    size_t q = d.payload; q += 1; q += 4 + rd(b, q, 4); q += 4 + rd(b, q, 4);
    size_t default_len = q; uint32_t len = rd(b, default_len, 4);
    size_t pad = uint8_t(b[d.off + 5]);
    std::string payload = b.substr(d.payload, d.end - pad - d.payload);
    wr(payload, default_len - d.payload, 4, len + 2);
    payload.insert(default_len - d.payload + 4 + len, "\xAB\xCD", 2);
    std::string nb = b.substr(0, d.off) + make_chunk("DIRP", payload) + b.substr(d.end);
    PolyM r; auto res = read_ovmb(nb, r);
    std::cout << "type 'd' (8 byte) with a 10 byte default: " << IO::to_string(res) << "\n";
    if (res == IO::ReadResult::Ok) { std::cout << "DEFECT: default value length inconsistent with the property type accepted\n"; return 1; }
    return 0;
}
