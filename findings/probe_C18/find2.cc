// F2 (C18 "every chunk duplicated where the format forbids it"): the description says a DIRP chunk "may occur zero or
// one time"; the reader detects a second DIRP only by props_.size() != 0, so an EMPTY directory followed by another
// directory (or any number of empty directories) is accepted.
#include "repro_common.hh"
int main() {
    PolyM m; build_one_tet(m, 0);
    auto p = *m.create_persistent_vertex_property<double>("w", 0.5); p[VertexHandle(2)] = 3.0;
    std::string b = write_ovmb(m);
    auto d = find_chunk(b, "DIRP");
    std::string empty_dirp = make_chunk("DIRP", "");
    std::string two = b.substr(0, d.off) + empty_dirp + empty_dirp + b.substr(d.off);   // DIRP, DIRP, DIRP(real)
    PolyM r; auto res = read_ovmb(two, r);
    std::cout << "three DIRP chunks (two empty + the real one): " << IO::to_string(res) << "\n";
    // control: the real directory twice is rejected
    std::string dup = b.substr(0, d.end) + b.substr(d.off, d.end - d.off) + b.substr(d.end);
    PolyM r2; std::cout << "control, real DIRP twice: " << IO::to_string(read_ovmb(dup, r2)) << "\n";
    if (res == IO::ReadResult::Ok) { std::cout << "DEFECT: several property directories accepted\n"; return 1; }
    return 0;
}
