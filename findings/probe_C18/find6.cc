// F6 (C06 "every other encoding of it which that description permits ... reads to that same mesh"):
// a TOPO chunk may "either specify a fixed valence, or start with a list of valence values" - but for files whose header
// says tetrahedral (hexahedral) the reader insists on the fixed-valence form: a valence list 3,3,3,3 is rejected.
#include "repro_common.hh"
int main() {
    TetM m; auto a = m.add_vertex(Vec3d(0,0,0)), b0 = m.add_vertex(Vec3d(1,0,0)), c0 = m.add_vertex(Vec3d(0,1,0)), d0 = m.add_vertex(Vec3d(0,0,1));
    m.add_cell(a, b0, c0, d0, true);
    std::string b = write_ovmb(m);
    auto f = find_chunk(b, "TOPO", 0, 2);                  // face chunk: fixed valence 3, U8 handles, 4 faces
    uint32_t count = rd(b, f.payload + 8, 4); uint8_t val = b[f.payload + 13];
    size_t pad = uint8_t(b[f.off + 5]);
    std::string pl = b.substr(f.payload, f.end - pad - f.payload);
    pl[13] = 0;            // valence = 0: variable
    pl[14] = 1;            // valence_encoding = U8
    pl.insert(24, std::string(count, char(val)));          // the valence list 3,3,3,3 in front of the handles
    std::string nb = b.substr(0, f.off) + make_chunk("TOPO", pl) + b.substr(f.end);
    TetM r; auto res = read_ovmb(nb, r);
    PolyM rp; auto resp = read_ovmb(nb, rp);
    std::cout << "tet file, faces stored with a valence list: TetM " << IO::to_string(res) << ", PolyM " << IO::to_string(resp) << "\n";
    // control: same bytes with topo_type = Polyhedral in the file header are fine
    std::string nc = nb; nc[11] = 0; PolyM rc; std::cout << "control, header topo_type=polyhedral: " << IO::to_string(read_ovmb(nc, rc)) << "\n";
    if (res != IO::ReadResult::Ok) { std::cout << "DEFECT: permitted encoding rejected\n"; return 1; }
    return 0;
}
