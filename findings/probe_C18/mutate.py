#!/usr/bin/env python3
"""Systematic mutant generator for OVMB files.
usage: mutate.py VALID_DIR BATCH_OUT [--big]
Writes a batch file for `ovmtool run` : [u32 label_len][label][u8 kind][u8 topo_check][u32 len][bytes]
label = file|class|chunk#:type|field|mutation
"""
import sys, os, struct
import ovmb

BIG_LIMIT = 200000   # files above this size get field-level mutations only


class Batch:
    def __init__(self, path):
        self.f = open(path, 'wb')
        self.n = 0
        self.seen = set()
        self.base = None
        self.base_name = ''

    def add(self, label, kind, data, tc=1):
        key = (kind, tc, bytes(data))
        # same bytes produced by a different mutation of the same class are kept once
        h = hash(key)
        if (label.split('|')[1], h) in self.seen:
            return
        self.seen.add((label.split('|')[1], h))
        lb = label.encode()
        base = self.base
        if base is not None and len(data) > 100000:
            # splice record: common prefix / suffix with the base file are not stored
            B = 65536
            p = 0
            n = min(len(base), len(data))
            while p + B <= n and base[p:p + B] == data[p:p + B]:
                p += B
            while p < n and base[p] == data[p]:
                p += 1
            s = 0
            while s + B <= n - p and base[len(base) - s - B:len(base) - s] == data[len(data) - s - B:len(data) - s]:
                s += B
            while s < n - p and base[len(base) - 1 - s] == data[len(data) - 1 - s]:
                s += 1
            ins = data[p:len(data) - s]
            bn = self.base_name.encode()
            self.f.write(struct.pack('<I', len(lb)) + lb + kind.encode() + bytes([tc | 0x80]) + struct.pack('<I', len(bn)) + bn
                         + struct.pack('<QQI', p, len(base) - s - p, len(ins)) + ins)
        else:
            self.f.write(struct.pack('<I', len(lb)) + lb + kind.encode() + bytes([tc]) + struct.pack('<I', len(data)) + data)
        self.n += 1


def boundary_values(size, val):
    mx = (1 << (8 * size)) - 1
    vs = {0, 1, 2, 3, 4, 5, 6, 7, 8, 0x7f, 0x80, 0xff, mx, mx - 1, val + 1, val - 1, val + 8, val - 8, val * 2, val ^ 1}
    if size >= 2:
        vs |= {0xffff, 0x100, 0xfffe, 0x8000, 0x7fff}
    if size >= 4:
        vs |= {0x7fffffff, 0x80000000, 0xffffffff, 0x10000, 0x7ffffffe}
    if size >= 8:
        vs |= {0xffffffffffffffff, 0x100000000, 0x7fffffffffffffff, 0x8000000000000000, (1 << 64) - val if val else 0}
    return sorted(v for v in vs if 0 <= v <= mx and v != val)


def byte_values(v):
    s = {0, 1, 2, 4, 0x7f, 0x80, 0xff, 0xfe, (v + 1) & 0xff, (v - 1) & 0xff}
    for bit in range(8):
        s.add(v ^ (1 << bit))
    s.discard(v)
    return sorted(s)


def put(b, off, size, val):
    return b[:off] + val.to_bytes(size, 'little') + b[off + size:]


def cname(i, c):
    t = c.type.decode('latin1').strip()
    if c.type == b'TOPO':
        t += '-' + {1: 'E', 2: 'F', 3: 'C'}.get(c.sub.get('entity'), '?')
    return f'{i}:{t}'


def gen_for_file(name, kind, b, batch, big):
    hf, chunks = ovmb.parse(b)
    L = lambda cls, ch, field, mut: f'{name}|{cls}|{ch}|{field}|{mut}'
    # ---- identity
    batch.add(L('identity', '-', '-', '-'), kind, b)
    # ---- file header: multi byte field values
    for f in hf:
        for v in boundary_values(f.size, f.value):
            batch.add(L('hdr-field', 'FILEHDR', f.name, hex(v)), kind, put(b, f.off, f.size, v))
    # ---- file header: every single byte
    for off in range(48):
        for v in byte_values(b[off]):
            batch.add(L('hdr-byte', 'FILEHDR', f'byte{off}', hex(v)), kind, put(b, off, 1, v))
    # ---- chunks
    for i, c in enumerate(chunks):
        cn = cname(i, c)
        for f in c.fields:
            if f.kind == 'padding':
                for v in (1, 0x80, 0xff):
                    batch.add(L('padding-nonzero', cn, f.name, hex(v)), kind, put(b, f.off, 1, v))
                continue
            cls = 'chunkhdr-field' if f.off < c.payload_off else 'subhdr-field'
            if f.kind == 'reserved':
                cls = 'reserved-nonzero'
            if f.name.startswith('entry['):
                cls = 'dirp-field'
            for v in boundary_values(f.size, f.value):
                batch.add(L(cls, cn, f.name, hex(v)), kind, put(b, f.off, f.size, v))
            if f.kind == 'flags':
                for bit in range(8):
                    batch.add(L('flag-bit', cn, f.name, f'flip{bit}'), kind, put(b, f.off, 1, f.value ^ (1 << bit)))
        if not big:
            # every single byte of the chunk header and sub-header
            hdr_end = c.data_off if c.type != b'DIRP' else c.payload_off
            for off in list(range(c.off, c.payload_off)) + list(range(c.payload_off, min(hdr_end, c.payload_end))):
                for v in byte_values(b[off]):
                    cls = 'chunkhdr-byte' if off < c.payload_off else 'subhdr-byte'
                    batch.add(L(cls, cn, f'byte+{off - c.off}', hex(v)), kind, put(b, off, 1, v))
            if c.type == b'DIRP':
                # every byte of the directory (it is all "header": entity kinds, lengths, names, type names, defaults)
                for off in range(c.payload_off, c.payload_end):
                    for v in (0, 1, 0xff, b[off] ^ 1, b[off] ^ 0x80, (b[off] + 1) & 0xff):
                        if v != b[off]:
                            batch.add(L('dirp-byte', cn, f'byte+{off - c.off}', hex(v)), kind, put(b, off, 1, v))
        # ---- padding count / length mutations (with and without matching bytes)
        pad, flen = c.hdr['padding_bytes'], c.hdr['file_length']
        for d in (1, 7, 8, 16, 248):
            if pad + d <= 255:
                nb = put(put(b, c.off + 5, 1, pad + d), c.off + 8, 8, flen + d)
                nb = nb[:c.end] + b'\0' * d + nb[c.end:]
                batch.add(L('padding-grow-consistent', cn, 'padding_bytes+file_length+zero bytes', f'+{d}'), kind, nb)
                nb2 = nb[:c.end] + b'\1' * d + nb[c.end + d:]
                batch.add(L('padding-grow-nonzero', cn, 'padding_bytes+file_length+nonzero bytes', f'+{d}'), kind, nb2)
        for d in (1, 2, 8):
            # move payload bytes into padding (payload shrinks)
            if pad + d <= 255 and c.payload_end - d >= c.payload_off:
                batch.add(L('padding-steal-payload', cn, 'padding_bytes', f'+{d}'), kind, put(b, c.off + 5, 1, pad + d))
            if pad - d >= 0:
                batch.add(L('padding-to-payload', cn, 'padding_bytes', f'-{d}'), kind, put(b, c.off + 5, 1, pad - d))
        for d in (1, 8, 16):
            # extra payload bytes (length grows, garbage/zero appended to payload)
            for fill in (b'\0', b'\xab'):
                nb = put(b, c.off + 8, 8, flen + d)
                nb = nb[:c.payload_end] + fill * d + nb[c.payload_end:]
                batch.add(L('payload-extra-bytes', cn, 'file_length+inserted', f'+{d}x{fill.hex()}'), kind, nb)
            # bytes removed from payload end, length reduced
            if c.payload_end - d >= c.payload_off:
                nb = put(b, c.off + 8, 8, flen - d)
                nb = nb[:c.payload_end - d] + nb[c.payload_end:]
                batch.add(L('payload-cut-bytes', cn, 'file_length+removed', f'-{d}'), kind, nb)
        # ---- encodings swapped without re-encoding handled by field mutations above.
    # ---- chunk level: drop / duplicate / reorder
    raws = [c.raw(b) for c in chunks]
    head = b[:48]
    names = [cname(i, c) for i, c in enumerate(chunks)]

    def build(order):
        return head + b''.join(raws[k] for k in order)
    n = len(chunks)
    idx = list(range(n))
    for i in range(n):
        batch.add(L('chunk-drop', names[i], '-', 'drop'), kind, build(idx[:i] + idx[i + 1:]))
        batch.add(L('chunk-dup-adjacent', names[i], '-', 'dup'), kind, build(idx[:i + 1] + [i] + idx[i + 1:]))
        if i != n - 1:
            batch.add(L('chunk-dup-before-eof', names[i], '-', 'dup@end'), kind, build(idx[:n - 1] + [i] + [n - 1]))
        batch.add(L('chunk-dup-after-eof', names[i], '-', 'dup@afterEOF'), kind, build(idx + [i]))
        if not big:
            for j in range(n + 1):
                if j in (i, i + 1):
                    continue
                rest = idx[:i] + idx[i + 1:]
                jj = j if j < i else j - 1
                batch.add(L('chunk-move', names[i], '-', f'to{j}'), kind, build(rest[:jj] + [i] + rest[jj:]))
    # missing EOF, two EOF, EOF first
    if chunks and chunks[-1].type == b'EOF ':
        batch.add(L('eof-variants', 'EOF', '-', 'missing'), kind, build(idx[:-1]))
        batch.add(L('eof-variants', 'EOF', '-', 'double'), kind, build(idx + [n - 1]))
        batch.add(L('eof-variants', 'EOF', '-', 'first'), kind, build([n - 1] + idx[:-1]))
        batch.add(L('eof-variants', 'EOF', '-', 'first+last'), kind, build([n - 1] + idx))
        batch.add(L('eof-variants', 'EOF', '-', 'optional-flag0'), kind, build(idx[:-1]) + ovmb.chunk_bytes(b'EOF ', b'', flags=0))
        batch.add(L('eof-variants', 'EOF', '-', 'version1-optional'), kind, build(idx[:-1]) + ovmb.chunk_bytes(b'EOF ', b'', flags=0, version=1))
        batch.add(L('eof-variants', 'EOF', '-', 'padded8'), kind, build(idx[:-1]) + ovmb.chunk_bytes(b'EOF ', b'', extra_pad=8))
        batch.add(L('eof-variants', 'EOF', '-', 'payload8'), kind, build(idx[:-1]) + ovmb.chunk_bytes(b'EOF ', b'\0' * 8))
        batch.add(L('eof-variants', 'EOF', '-', 'trailing-byte'), kind, b + b'\0')
        batch.add(L('eof-variants', 'EOF', '-', 'trailing-16-zero'), kind, b + b'\0' * 16)
    # unknown optional chunk inserted everywhere (valid per description: skippable)
    for j in range(n):
        unk = ovmb.chunk_bytes(b'XTRA', b'hello world', flags=0)
        batch.add(L('valid-optional-chunk', f'pos{j}', '-', 'XTRA flags=0'), kind, head + b''.join(raws[:j]) + unk + b''.join(raws[j:]))
        unk1 = ovmb.chunk_bytes(b'XTRA', b'hello world', flags=1)
        batch.add(L('unknown-mandatory-chunk', f'pos{j}', '-', 'XTRA flags=1'), kind, head + b''.join(raws[:j]) + unk1 + b''.join(raws[j:]))
    return hf, chunks


def main():
    vdir, out = sys.argv[1], sys.argv[2]
    only = sys.argv[3:] if len(sys.argv) > 3 else None
    batch = Batch(out)
    for line in open(os.path.join(vdir, 'index.txt')):
        name, kind, size = line.split()[:3]
        if only and name not in only:
            continue
        b = open(os.path.join(vdir, name + '.ovmb'), 'rb').read()
        big = len(b) > BIG_LIMIT
        before = batch.n
        batch.base, batch.base_name = b, os.path.join(vdir, name + '.ovmb')
        gen_for_file(name, kind, b, batch, big)
        # the same file read into a PolyhedralMesh (any file may be read into the general mesh type)
        print(name, kind, len(b), 'mutants', batch.n - before, file=sys.stderr)
    print('total', batch.n, file=sys.stderr)


if __name__ == '__main__':
    main()
