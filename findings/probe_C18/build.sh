#!/bin/sh
# Release build of library:
#   cmake -S /tmp/probe2/C18 -B /tmp/probe2/C18/_build -G Ninja -DCMAKE_BUILD_TYPE=Release -DOVM_ENABLE_UNITTESTS=OFF -DOVM_ENABLE_EXAMPLES=OFF -DOVM_ENABLE_APPLICATIONS=OFF && cmake --build /tmp/probe2/C18/_build -j4
# ASan/UBSan build of library:
#   cmake -S /tmp/probe2/C18 -B /tmp/probe2/C18/_build_asan -G Ninja -DCMAKE_BUILD_TYPE=RelWithDebInfo -DCMAKE_CXX_COMPILER=clang++ -DCMAKE_CXX_FLAGS="-fsanitize=address,undefined -D_GLIBCXX_ASSERTIONS -g -O1" -DOVM_ENABLE_UNITTESTS=OFF -DOVM_ENABLE_EXAMPLES=OFF -DOVM_ENABLE_APPLICATIONS=OFF && cmake --build /tmp/probe2/C18/_build_asan -j4
set -e
R=/tmp/probe2/C18
src=${1:-ovmtool.cc}
out=${src%.cc}
g++ -std=c++17 -O2 -DNDEBUG -I$R/src -I$R/_build/src $R/_out/$src $R/_build/Build/lib/libOpenVolumeMesh.a -o $R/_out/$out
if [ -f $R/_build_asan/Build/lib/libOpenVolumeMesh.a ]; then
clang++ -std=c++17 -fsanitize=address,undefined -fno-sanitize=vptr -D_GLIBCXX_ASSERTIONS -g -O1 -I$R/src -I$R/_build_asan/src $R/_out/$src $R/_build_asan/Build/lib/libOpenVolumeMesh.a -o $R/_out/${out}_asan
fi
