// find6 (C06, OVMB): a persistent property with an empty name is written without complaint (WriteResult::Ok)
// but the resulting file cannot be read back at all (ReadResult::OtherError).
// build: g++ -std=c++17 -I/tmp/probe/R/src -I/tmp/probe/R/_build/src find6.cc /tmp/probe/R/_build/Build/lib/libOpenVolumeMesh.a -o find6
#include <OpenVolumeMesh/Mesh/PolyhedralMesh.hh>
#include <OpenVolumeMesh/IO/ovmb_read.hh>
#include <OpenVolumeMesh/IO/ovmb_write.hh>
#include <sstream>
#include <iostream>
using namespace OpenVolumeMesh;
int main() {
    GeometricPolyhedralMeshV3d m, r; m.add_vertex(Vec3d(1, 2, 3));
    auto p = m.create_persistent_property<int, Entity::Vertex>("", 0);
    if (!p) { std::cout << "mesh refused the property (fine)\n"; return 0; }
    (*p)[VertexHandle(0)] = 7;
    std::cout << "property persistent=" << p->persistent() << " shared=" << p->shared() << " anonymous=" << p->anonymous() << "\n";
    std::stringstream ss(std::ios::in | std::ios::out | std::ios::binary);
    auto wr = IO::ovmb_write(ss, m);
    std::cout << "ovmb_write: " << IO::to_string(wr) << " (" << ss.str().size() << " bytes)\n";
    auto reader = IO::make_ovmb_reader(ss, IO::ReadOptions(), IO::g_default_property_codecs);
    auto rr = reader->read_file(r);
    std::cout << "ovmb_read:  " << IO::to_string(rr) << " (" << reader->get_error_msg() << ")\n";
    if (wr == IO::WriteResult::Ok && rr != IO::ReadResult::Ok) { std::cout << "WRONG: the writer's own output is rejected by the reader\n"; return 1; }
    return 0;
}
