// find3 (C06, OVM ASCII): char / unsigned char properties ("char"/"uchar" of the typeName list) holding a
// white-space value (' ', '\t', '\n', ...) do not round-trip; following values are shifted and later properties are lost.
// build: g++ -std=c++17 -I/tmp/probe/R/src -I/tmp/probe/R/_build/src find3.cc /tmp/probe/R/_build/Build/lib/libOpenVolumeMesh.a -o find3
#include <OpenVolumeMesh/Mesh/PolyhedralMesh.hh>
#include <OpenVolumeMesh/FileManager/FileManager.hh>
#include <sstream>
#include <iostream>
using namespace OpenVolumeMesh;
int main() {
    GeometricPolyhedralMeshV3d m, r;
    for (int i = 0; i < 3; ++i) m.add_vertex(Vec3d(i, 0, 0));
    auto c = *m.create_persistent_property<unsigned char, Entity::Vertex>("uc", 0);
    c[VertexHandle(0)] = 'a'; c[VertexHandle(1)] = 32 /* ' ' */; c[VertexHandle(2)] = 'c';
    auto k = *m.create_persistent_property<int, Entity::Mesh>("after", 0); k[MeshHandle(0)] = 42;
    IO::FileManager fm; fm.setVerbosityLevel(0);
    std::stringstream ss; fm.writeStream(ss, m);
    bool ok = fm.readStream(ss, r, true, true);
    std::cout << "readStream returned " << ok << "\n";
    bool bad = false;
    auto rc = r.get_property<unsigned char, Entity::Vertex>("uc");
    if (!rc) { std::cout << "WRONG: property uc missing\n"; return 1; }
    for (int i = 0; i < 3; ++i) { int w = c[VertexHandle(i)], g = (*rc)[VertexHandle(i)]; std::cout << "uc[" << i << "] written " << w << " read " << g << "\n"; if (w != g) bad = true; }
    auto rk = r.get_property<int, Entity::Mesh>("after");
    if (!rk || (*rk)[MeshHandle(0)] != 42) { std::cout << "WRONG: following mesh property 'after' " << (rk ? "has a wrong value" : "is missing") << "\n"; bad = true; }
    if (bad) std::cout << "WRONG: uchar property with value 32 does not survive an ASCII round trip\n";
    return bad ? 1 : 0;
}
