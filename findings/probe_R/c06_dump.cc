// Writes random meshes as OVMB plus a plain-text description for the independent decoder ksy_decode.py.
// build: g++ -std=c++17 -O1 -I/tmp/probe/R/src -I/tmp/probe/R/_build/src c06_dump.cc /tmp/probe/R/_build/Build/lib/libOpenVolumeMesh.a -o c06_dump
// run:   ./c06_dump dump 200 && python3 ksy_decode.py dump
#include "common.hh"
#include <fstream>
template<class M> void dump(const M &m, const std::string &base, const char *kind) {
    std::ofstream f(base + ".ovmb", std::ios::binary); auto wr = IO::ovmb_write(f, m); f.close();
    std::ofstream t(base + ".txt");
    t << (wr == IO::WriteResult::Ok ? "ok " : "fail ") << kind << "\n" << m.n_vertices() << " " << m.n_edges() << " " << m.n_faces() << " " << m.n_cells() << "\n";
    for (size_t i = 0; i < m.n_vertices(); ++i) { auto p = m.vertex(VH(int(i))); for (int k = 0; k < 3; ++k) { double d = p[k]; uint64_t u; memcpy(&u, &d, 8); t << u << " "; } t << "\n"; }
    for (size_t i = 0; i < m.n_edges(); ++i) t << m.edge(EH(int(i))).from_vertex().idx() << " " << m.edge(EH(int(i))).to_vertex().idx() << "\n";
    for (size_t i = 0; i < m.n_faces(); ++i) { for (auto h : m.face(FH(int(i))).halfedges()) t << h.idx() << " "; t << "\n"; }
    for (size_t i = 0; i < m.n_cells(); ++i) { for (auto h : m.cell(CH(int(i))).halffaces()) t << h.idx() << " "; t << "\n"; }
    // properties: entity name ovmb-less description (entity, name length, name hex, size)
    Diff d; auto props = collect_props(m, d); t << props.size() << "\n";
    for (auto &[k, p] : props) { t << int(IO::detail::as_prop_entity(p->entity_type())) << " " << p->size() << " "; for (unsigned char c : p->name()) { char b[4]; snprintf(b, 4, "%02x", c); t << b; } t << "-\n"; }
}
int main(int argc, char **argv) {
    std::string dir = argv[1]; int n = atoi(argv[2]);
    for (int it = 0; it < n; ++it) {
        Rng r(555 + it); GenCfg any; std::string base = dir + "/m" + std::to_string(it);
        switch (it % 6) {
        case 0: { PolyMesh m; gen_valid_poly(m, r, rnd(r, 40), rnd(r, 30), rnd(r, 20), rnd(r, 6), r() % 3 == 0); add_random_props<OvmbTypes>(m, r, any, rnd(r, 8), false); dump(m, base, "poly"); break; }
        case 1: { PolyMesh m; gen_garbage_poly(m, r, rnd(r, 20), rnd(r, 30), rnd(r, 20), rnd(r, 10)); add_random_props<OvmbTypes>(m, r, any, rnd(r, 8), false); dump(m, base, "poly"); break; }
        case 2: { TetMesh m; gen_tets(m, r, rnd(r, 30), rnd(r, 15)); add_random_props<OvmbTypes>(m, r, any, rnd(r, 4), false); dump(m, base, "tet"); break; }
        case 3: { HexMesh m; gen_hex_grid(m, r, 1 + rnd(r, 3), 1 + rnd(r, 3), 1 + rnd(r, 2)); dump(m, base, "hex"); break; }
        case 4: { PolyMesh m; size_t nv = 300 + rnd(r, 70000); for (size_t i = 0; i < nv; ++i) m.add_vertex(rnd_pos(r, false));
                  std::vector<VH> vs; size_t val = 250 + rnd(r, 10); for (size_t i = 0; i < val; ++i) vs.push_back(VH(int(nv - 1 - i))); m.add_face(vs); m.add_face(std::vector<VH>{VH(0), VH(1), VH(int(nv - 1))}); dump(m, base, "poly"); break; }
        case 5: { PolyMeshF m; gen_valid_poly(m, r, rnd(r, 30), rnd(r, 20), rnd(r, 10), rnd(r, 4), false); dump(m, base, "poly"); break; }
        }
    }
}
