#!/usr/bin/env python3
"""Re-encode writer-produced OVMB files using other encodings the format description permits:
spans, wider ints, non-zero handle offsets, float vertex encoding (when exact), optional unknown chunks.
usage: reencode.py dir   (reads dir/*.ovmb not ending in .alt.ovmb, writes dir/X.alt.ovmb)"""
import struct, sys, os, glob, random
sys.argv.append('--lib'); import importlib.util
spec = importlib.util.spec_from_file_location("kd", os.path.join(os.path.dirname(__file__), "ksy_decode.py"))
src = open(os.path.join(os.path.dirname(__file__), "ksy_decode.py")).read().replace("sys.exit(main(sys.argv[1]))", "")
kd = {}; exec(src, kd)
def chunk(typ, payload, flags=1, version=0):
    pad = (-len(payload)) % 8
    return typ.encode() + bytes([version, pad, 0, flags]) + struct.pack('<Q', len(payload) + pad) + payload + bytes(pad)
def enc_ints(vals, enc): return b''.join(struct.pack({1:'<B',2:'<H',4:'<I'}[enc], v) for v in vals)
def spans(n, rnd):
    out = []; p = 0
    while p < n:
        c = rnd.randint(1, max(1, n - p)); out.append((p, c)); p += c
    return out
ELEM = {'u8':1,'i8':1,'u16':2,'i16':2,'u32':4,'i32':4,'u64':8,'i64':8,'f':4,'d':8,'vh':4,'eh':4,'heh':4,'fh':4,'hfh':4,'ch':4,
        '2d':16,'3d':24,'4d':32,'2f':8,'3f':12,'4f':16,'2u32':8,'3u32':12,'4u32':16,'2i32':8,'3i32':12,'4i32':16}
def reencode(b, rnd):
    m = kd['decode'](b); nv, ne, nf, nc = m['n']; dim = m['dim']
    out = bytes([0x4f,0x56,0x4d,0x42,0x0a,0x0d,0x0a,0xff]) + bytes([1, 1, dim, m['topo']]) + bytes(4) + struct.pack('<4Q', nv, ne, nf, nc)
    junk = lambda: chunk(rnd.choice(['JUNK', 'XTRA']), bytes(rnd.randrange(256) for _ in range(rnd.randint(0, 20))), flags=0) if rnd.random() < 0.5 else b''
    out += junk()
    if m['propdir']:
        body = b''.join(bytes([e]) + struct.pack('<I', len(n)) + n + struct.pack('<I', len(t)) + t.encode() + struct.pack('<I', len(d)) + d for e, n, t, d in m['propdir'])
        out += chunk('DIRP', body)
    # vertices: float if exactly representable
    coords = [struct.unpack('<d', struct.pack('<Q', m['verts'][i]))[0] for i in range(nv * dim)]
    def f32ok(x):
        try: return struct.pack('<d', struct.unpack('<f', struct.pack('<f', x))[0]) == struct.pack('<d', x)
        except OverflowError: return False
    use_f = rnd.random() < 0.5 and all(f32ok(x) for x in coords)
    for base, cnt in spans(nv, rnd):
        data = b''.join(struct.pack('<f' if use_f else '<d', x) for x in coords[base*dim:(base+cnt)*dim])
        out += chunk('VERT', struct.pack('<QI', base, cnt) + bytes([1 if use_f else 2, 0, 0, 0]) + data); out += junk()
    fixedval = {1: 2, 2: {1: 3, 2: 4}.get(m['topo']), 3: {1: 4, 2: 6}.get(m['topo'])}
    for ent, n in ((1, ne), (2, nf), (3, nc)):
        for base, cnt in spans(n, rnd):
            lists = [m['ents'][ent][base + i] for i in range(cnt)]
            allh = [h for l in lists for h in l]; lo = min(allh)
            off = rnd.randint(0, lo) if rnd.random() < 0.7 else 0
            need = max(allh) - off; henc = rnd.choice([e for e in (1, 2, 4) if need < 256 ** e])
            vals = [len(l) for l in lists]
            fixed = ent == 1 or fixedval[ent] is not None or (len(set(vals)) == 1 and vals[0] < 256 and rnd.random() < 0.5)
            if fixed:
                hdr = struct.pack('<QI', base, cnt) + bytes([ent, vals[0], 0, henc]) + struct.pack('<Q', off); body = b''
            else:
                venc = rnd.choice([e for e in (1, 2, 4) if max(vals) < 256 ** e])
                hdr = struct.pack('<QI', base, cnt) + bytes([ent, 0, venc, henc]) + struct.pack('<Q', off); body = enc_ints(vals, venc)
            out += chunk('TOPO', hdr + body + enc_ints([h - off for h in allh], henc)); out += junk()
    sizes = {0: nv, 1: ne, 2: nf, 3: nc, 4: 2*ne, 5: 2*nf, 6: 1}
    order = list(range(len(m['propdir']))); rnd.shuffle(order)
    for idx in order:
        ent, name, tname, default = m['propdir'][idx]
        (pi, base, cnt, data), = [c for c in m['props'] if c[0] == idx]
        n = sizes[ent]; assert base == 0 and cnt == n
        if n == 0: out += chunk('PROP', struct.pack('<QII', 0, 0, idx)); continue
        # split into elements
        if tname == 'b': elems = [(data[i // 8] >> (i % 8)) & 1 for i in range(n)]
        elif tname == 's32':
            elems = []; p = 0
            for i in range(n): l = struct.unpack_from('<I', data, p)[0]; elems.append(data[p:p+4+l]); p += 4 + l
        else: sz = ELEM[tname]; elems = [data[i*sz:(i+1)*sz] for i in range(n)]
        for b0, c in spans(n, rnd):
            part = elems[b0:b0+c]
            if tname == 'b': pd = bytes(sum(bit << k for k, bit in enumerate(part[i:i+8])) for i in range(0, c, 8))
            else: pd = b''.join(part)
            out += chunk('PROP', struct.pack('<QII', b0, c, idx) + pd)
        out += junk()
    out += chunk('EOF ', b'')
    return out
if __name__ == '__main__':
    d = sys.argv[1]; k = 0
    for f in sorted(glob.glob(os.path.join(d, '*.ovmb'))):
        if f.endswith('.alt.ovmb'): continue
        if open(f[:-5] + '.txt').read().startswith('fail'): continue
        rnd = random.Random(hash(os.path.basename(f)) & 0xffff)
        open(f[:-5] + '.alt.ovmb', 'wb').write(reencode(open(f, 'rb').read(), rnd)); k += 1
    print("re-encoded", k)
