#include "common.hh"
template<class M> void t(const char *tag) {
    using P = typename M::PointT; M m; Rng r(9);
    for (int i = 0; i < 300; ++i) { P p; for (int k = 0; k < P::dim(); ++k) p[k] = typename P::value_type((double(r() % 2001) - 1000) / 7.0); m.add_vertex(p); }
    m.add_face(std::vector<VH>{VH(0), VH(299), VH(5)});
    std::stringstream ss(std::ios::in|std::ios::out|std::ios::binary); auto wr = IO::ovmb_write(ss, m); M m2; auto rr = IO::ovmb_read(ss, m2);
    int bad = 0; if (rr == IO::ReadResult::Ok) for (int i = 0; i < 300; ++i) for (int k = 0; k < P::dim(); ++k) if (!biteq(m.vertex(VH(i))[k], m2.vertex(VH(i))[k])) ++bad;
    std::cout << tag << ": " << IO::to_string(wr) << " " << IO::to_string(rr) << " nv " << m2.n_vertices() << " nf " << m2.n_faces() << " bad coords " << bad << "\n";
    // wrong-dimension target
    std::stringstream s2(ss.str()); PolyMesh m3; std::cout << "   into V3d: " << IO::to_string(IO::ovmb_read(s2, m3)) << "\n";
}
int main() { t<GeometricPolyhedralMeshV2d>("V2d"); t<GeometricPolyhedralMeshV4f>("V4f"); t<GeometricPolyhedralMeshV4d>("V4d"); t<GeometricPolyhedralMeshV2f>("V2f"); }
