// C06 round-trip harness (OVMB + OVM ASCII).
// build: g++ -std=c++17 -O1 -I/tmp/probe/R/src -I/tmp/probe/R/_build/src c06_rt.cc /tmp/probe/R/_build/Build/lib/libOpenVolumeMesh.a -o c06_rt
// run:   ./c06_rt [iterations] [seed]
#include "common.hh"

static int g_fail = 0;
static std::map<std::string, int> g_kinds;
static void report(const std::string &what, const Diff &d, uint64_t seed, int iter) {
    if (d.ok()) return;
    std::string kind = what + ": " + d.msgs[0].substr(0, 60);
    // collapse by leading words
    if (g_kinds[what]++ < 3) {
        std::cout << "FAIL [" << what << "] seed=" << seed << " iter=" << iter << "\n";
        for (auto &m : d.msgs) std::cout << "    " << m << "\n";
    }
    ++g_fail;
}

template<class Src, class Dst>
void ovmb_rt(const Src &src, const char *tag, uint64_t seed, int iter, bool expect_compatible = true,
             IO::WriteOptions wo = IO::WriteOptions()) {
    std::stringstream ss(std::ios::in | std::ios::out | std::ios::binary);
    auto wr = IO::ovmb_write(ss, src, wo);
    Diff d;
    if (wr != IO::WriteResult::Ok) { d.add(std::string("write failed: ") + IO::to_string(wr)); report(std::string("ovmb-write ") + tag, d, seed, iter); return; }
    std::string bytes = ss.str();
    if (expect_compatible && !passes_topology_check(src)) expect_compatible = false;
    for (int tc = 0; tc < 2; ++tc) for (int bu = 0; bu < 2; ++bu) {
        if (tc == 1 && !expect_compatible) continue;
        std::stringstream in(bytes, std::ios::in | std::ios::binary);
        Dst dst;
        IO::ReadOptions ro; ro.topology_check = tc; ro.bottom_up_incidences = bu;
        auto reader = IO::make_ovmb_reader(in, ro, IO::g_default_property_codecs);
        auto rr = reader->read_file(dst);
        Diff dd;
        std::string t = std::string("ovmb ") + tag + " tc=" + std::to_string(tc);
        if (rr != IO::ReadResult::Ok) { dd.add(std::string("read failed: ") + IO::to_string(rr) + " (" + reader->get_error_msg() + ")"); report(t, dd, seed, iter); continue; }
        cmp_topology(src, dst, dd, true);
        cmp_props(src, dst, dd, 0);
        if (bu && !dst.has_full_bottom_up_incidences()) dd.add("bottom-up incidences not enabled");
        report(t, dd, seed, iter);
    }
}

template<class Src, class Dst>
void ascii_rt(const Src &src, const char *tag, uint64_t seed, int iter, bool topo_ok) {
    IO::FileManager fm; fm.setVerbosityLevel(0);
    std::stringstream f1; fm.writeStream(f1, src);
    Diff d;
    if (!f1.good()) { d.add("write failed"); report(std::string("ascii-write ") + tag, d, seed, iter); return; }
    if (topo_ok && !passes_topology_check(src)) topo_ok = false;
    for (int tc = 0; tc < 2; ++tc) {
        if (tc && !topo_ok) continue;
        std::stringstream in(f1.str());
        Dst m2;
        bool ok = fm.readStream(in, m2, tc, true);
        Diff dd; std::string t = std::string("ascii ") + tag + " tc=" + std::to_string(tc);
        if (!ok) { dd.add("read failed"); report(t, dd, seed, iter); continue; }
        cmp_topology(src, m2, dd, false);
        cmp_props(src, m2, dd, 1, /*skip anonymous*/ true);
        report(t, dd, seed, iter);
        // second round trip
        std::stringstream f2; fm.writeStream(f2, m2);
        std::stringstream in2(f2.str());
        Dst m3; ok = fm.readStream(in2, m3, tc, true);
        Diff d3; if (!ok) d3.add("second read failed");
        else { cmp_topology(m2, m3, d3, false); cmp_props(m2, m3, d3, 1, true); }
        // topology/geometry part of the file must be byte-identical
        auto cut = [](const std::string &s) { auto p = s.find("Prop "); return p == std::string::npos ? s : s.substr(0, s.rfind('\n', p)); };
        if (cut(f1.str()) != cut(f2.str())) d3.add("second file differs from first in topology/geometry section");
        if (f1.str().size() != f2.str().size()) d3.add("second file has different size: " + std::to_string(f1.str().size()) + " vs " + std::to_string(f2.str().size()));
        report(std::string("ascii-2nd ") + tag, d3, seed, iter);
    }
}

int main(int argc, char **argv) {
    int iters = argc > 1 ? atoi(argv[1]) : 300;
    uint64_t seed0 = argc > 2 ? strtoull(argv[2], 0, 10) : 1;
    for (int it = 0; it < iters; ++it) {
        uint64_t seed = seed0 * 1000003 + it;
        Rng r(seed);
        int mode = it % 10;
        GenCfg any, safe; safe.ascii_safe = true;
        switch (mode) {
        case 0: { // valid polyhedral mesh, OVMB props of all types
            PolyMesh m; gen_valid_poly(m, r, rnd(r, 40), rnd(r, 30), rnd(r, 20), rnd(r, 6), r() % 3 == 0);
            add_random_props<OvmbTypes>(m, r, any, rnd(r, 12), false);
            ovmb_rt<PolyMesh, PolyMesh>(m, "poly->poly", seed, it);
            break; }
        case 1: { // garbage polyhedral (only topology_check off)
            PolyMesh m; gen_garbage_poly(m, r, rnd(r, 20), rnd(r, 30), rnd(r, 20), rnd(r, 10));
            add_random_props<OvmbTypes>(m, r, any, rnd(r, 8), false);
            ovmb_rt<PolyMesh, PolyMesh>(m, "garbage->poly", seed, it, false);
            PolyMesh m2; gen_garbage_poly(m2, r, rnd(r, 20), rnd(r, 30), rnd(r, 20), rnd(r, 10), false);
            add_random_props<AsciiTypes>(m2, r, safe, rnd(r, 8), true, false);
            ascii_rt<PolyMesh, PolyMesh>(m2, "garbage->poly", seed, it, false);
            break; }
        case 2: { // tet mesh
            TetMesh m; gen_tets(m, r, rnd(r, 30), rnd(r, 15));
            add_random_props<OvmbTypes>(m, r, any, rnd(r, 8), false);
            ovmb_rt<TetMesh, TetMesh>(m, "tet->tet", seed, it);
            ovmb_rt<TetMesh, PolyMesh>(m, "tet->poly", seed, it);
            break; }
        case 3: { // hex mesh
            HexMesh m; gen_hex_grid(m, r, 1 + rnd(r, 3), 1 + rnd(r, 3), 1 + rnd(r, 2));
            add_random_props<OvmbTypes>(m, r, any, rnd(r, 8), false);
            ovmb_rt<HexMesh, HexMesh>(m, "hex->hex", seed, it);
            ovmb_rt<HexMesh, PolyMesh>(m, "hex->poly", seed, it);
            break; }
        case 4: { // poly mesh holding only tets (auto detection -> Tet), read into tet & poly
            TetMesh t; gen_tets(t, r, 4 + rnd(r, 30), 1 + rnd(r, 15));
            PolyMesh m; m = t;  // assignment across kernels
            add_random_props<OvmbTypes>(m, r, any, rnd(r, 6), false);
            if (t.n_cells() > 0) ovmb_rt<PolyMesh, TetMesh>(m, "poly(tets)->tet", seed, it);
            ovmb_rt<PolyMesh, PolyMesh>(m, "poly(tets)->poly", seed, it);
            break; }
        case 5: { // poly mesh holding only hexes
            HexMesh h; gen_hex_grid(h, r, 1 + rnd(r, 3), 1 + rnd(r, 2), 1 + rnd(r, 2));
            PolyMesh m; m = h;
            add_random_props<OvmbTypes>(m, r, any, rnd(r, 6), false);
            ovmb_rt<PolyMesh, HexMesh>(m, "poly(hexes)->hex", seed, it);
            ovmb_rt<PolyMesh, PolyMesh>(m, "poly(hexes)->poly", seed, it);
            break; }
        case 6: { // ASCII, valid poly mesh, all ASCII types
            PolyMesh m; gen_valid_poly(m, r, rnd(r, 40), rnd(r, 30), rnd(r, 20), rnd(r, 6), false);
            add_random_props<AsciiTypes>(m, r, safe, rnd(r, 12), true, false);
            ascii_rt<PolyMesh, PolyMesh>(m, "poly->poly", seed, it, true);
            break; }
        case 7: { // ASCII tet / hex
            TetMesh m; gen_tets(m, r, rnd(r, 30), rnd(r, 15));
            add_random_props<AsciiTypes>(m, r, safe, rnd(r, 6), true, false);
            ascii_rt<TetMesh, TetMesh>(m, "tet->tet", seed, it, true);
            ascii_rt<TetMesh, PolyMesh>(m, "tet->poly", seed, it, true);
            HexMesh h; gen_hex_grid(h, r, 1 + rnd(r, 3), 1 + rnd(r, 2), 1 + rnd(r, 2));
            add_random_props<AsciiTypes>(h, r, safe, rnd(r, 6), true, false);
            ascii_rt<HexMesh, HexMesh>(h, "hex->hex", seed, it, true);
            ascii_rt<HexMesh, PolyMesh>(h, "hex->poly", seed, it, true);
            break; }
        case 8: { // float mesh both formats
            PolyMeshF m; gen_valid_poly(m, r, rnd(r, 30), rnd(r, 20), rnd(r, 10), rnd(r, 4), false);
            add_random_props<OvmbTypes>(m, r, any, rnd(r, 6), false);
            ovmb_rt<PolyMeshF, PolyMeshF>(m, "polyF->polyF", seed, it);
            ovmb_rt<PolyMeshF, PolyMesh>(m, "polyF->polyD", seed, it);
            PolyMeshF m2; gen_valid_poly(m2, r, rnd(r, 30), rnd(r, 20), rnd(r, 10), rnd(r, 4), false);
            ascii_rt<PolyMeshF, PolyMeshF>(m2, "polyF->polyF", seed, it, true);
            break; }
        case 9: { // explicit WriteOptions topology type on poly mesh
            PolyMesh m; gen_valid_poly(m, r, rnd(r, 30), rnd(r, 20), rnd(r, 10), rnd(r, 4), false);
            IO::WriteOptions wo; wo.topology_type = IO::WriteOptions::TopologyType::Polyhedral;
            add_random_props<OvmbTypes>(m, r, any, rnd(r, 6), false);
            ovmb_rt<PolyMesh, PolyMesh>(m, "poly(explicit)->poly", seed, it, true, wo);
            break; }
        }
    }
    std::cout << "total failing checks: " << g_fail << "\n";
    for (auto &[k, n] : g_kinds) std::cout << "  " << n << " x " << k << "\n";
    return g_fail ? 1 : 0;
}
