#include "common.hh"
#include <fstream>
int main() {
    IO::FileManager fm; fm.setVerbosityLevel(0);
    { // NaN position
        PolyMesh m; m.add_vertex(Vec3d(1,2,3)); m.add_vertex(Vec3d(std::nan(""),5,6)); m.add_vertex(Vec3d(7,8,9));
        auto p = m.create_persistent_property<int, Entity::Vertex>("i", 0); (*p)[VH(0)] = 11; (*p)[VH(1)] = 22; (*p)[VH(2)] = 33;
        std::stringstream s; fm.writeStream(s, m); std::cout << s.str();
        PolyMesh m2; bool ok = fm.readStream(s, m2, true, true); std::cout << "read ok=" << ok << " nv=" << m2.n_vertices() << "\n";
        for (auto v : m2.vertices()) std::cout << m2.vertex(v) << "\n";
        Diff d; cmp_props(m, m2, d, 1); for (auto &x : d.msgs) std::cout << x << "\n";
    }
    { // inf prop
        PolyMesh m; m.add_vertex(Vec3d(1,2,3)); m.add_vertex(Vec3d(4,5,6));
        auto p = m.create_persistent_property<double, Entity::Vertex>("d", 0); (*p)[VH(0)] = INFINITY; (*p)[VH(1)] = 2.5;
        auto q = m.create_persistent_property<int, Entity::Vertex>("i", 0); (*q)[VH(0)] = 11; (*q)[VH(1)] = 22;
        std::stringstream s; fm.writeStream(s, m); std::cout << s.str();
        PolyMesh m2; bool ok = fm.readStream(s, m2, true, true); std::cout << "read ok=" << ok << "\n";
        Diff d; cmp_props(m, m2, d, 1); for (auto &x : d.msgs) std::cout << x << "\n";
    }
    { // bipyramid detection
        PolyMesh m; for (int i = 0; i < 5; ++i) m.add_vertex(Vec3d(i, i*i, i%2));
        auto f = [&](int a, int b, int c) { return m.halfface_handle(m.add_face(std::vector<VH>{VH(a), VH(b), VH(c)}), 0); };
        std::vector<HFH> hfs = {f(0,1,3), f(1,2,3), f(2,0,3), f(1,0,4), f(2,1,4), f(0,2,4)};
        auto c = m.add_cell(hfs, true); std::cout << "bipyramid cell valid " << c.is_valid() << "\n";
        fm.writeFile("bipyr.ovm", m);
        std::cout << "isHexahedralMesh=" << fm.isHexahedralMesh("bipyr.ovm") << " isTet=" << fm.isTetrahedralMesh("bipyr.ovm") << "\n";
        HexMesh h; std::cout << "read as hex: " << fm.readFile("bipyr.ovm", h) << "\n";
        std::stringstream ss(std::ios::in|std::ios::out|std::ios::binary); IO::ovmb_write(ss, m); std::cout << "ovmb topo byte " << int(ss.str()[11]) << "\n";
    }
    { // tet + dangling quad
        PolyMesh m; for (int i = 0; i < 6; ++i) m.add_vertex(Vec3d(i, i*i, i%2));
        auto f = [&](int a, int b, int c) { return m.halfface_handle(m.add_face(std::vector<VH>{VH(a), VH(b), VH(c)}), 0); };
        std::vector<HFH> hfs = {f(0,1,2), f(0,2,3), f(0,3,1), f(1,3,2)}; m.add_cell(hfs, true);
        m.add_face(std::vector<VH>{VH(2), VH(3), VH(4), VH(5)});
        fm.writeFile("tetquad.ovm", m);
        std::cout << "tet+quad: isTet=" << fm.isTetrahedralMesh("tetquad.ovm") << "\n";
        TetMesh t; std::cout << "read as tet: " << fm.readFile("tetquad.ovm", t) << "\n";
        std::stringstream ss(std::ios::in|std::ios::out|std::ios::binary); IO::ovmb_write(ss, m); std::cout << "ovmb topo byte " << int(ss.str()[11]) << "\n";
    }
    { // two pillows as a 4-triangle cell
        PolyMesh m; for (int i = 0; i < 6; ++i) m.add_vertex(Vec3d(i, i*i, i%2));
        auto f0 = m.add_face(std::vector<VH>{VH(0), VH(1), VH(2)}); auto f1 = m.add_face(std::vector<HEH>{HEH(5), HEH(3), HEH(1)}, true);
        std::cout << "f1 valid " << f1.is_valid() << "\n";
        auto g0 = m.add_face(std::vector<VH>{VH(3), VH(4), VH(5)}); auto e = m.n_edges(); auto g1 = m.add_face(std::vector<HEH>{HEH(2*(e-1)+1), HEH(2*(e-2)+1), HEH(2*(e-3)+1)}, true);
        std::cout << "g1 valid " << g1.is_valid() << " nf " << m.n_faces() << "\n";
        auto c = m.add_cell(std::vector<HFH>{m.halfface_handle(f0,0), m.halfface_handle(f1,0), m.halfface_handle(g0,0), m.halfface_handle(g1,0)}, true);
        std::cout << "pillow cell valid (poly, topology check) " << c.is_valid() << "\n";
        std::stringstream ss(std::ios::in|std::ios::out|std::ios::binary); IO::ovmb_write(ss, m); std::cout << "ovmb topo byte " << int(ss.str()[11]) << "\n";
        std::string b = ss.str();
        { std::stringstream in(b); TetMesh t; std::cout << "ovmb read as tet tc=1: " << IO::to_string(IO::ovmb_read(in, t)) << "\n"; }
        { std::stringstream in(b); PolyMesh t; std::cout << "ovmb read as poly tc=1: " << IO::to_string(IO::ovmb_read(in, t)) << "\n"; }
    }
    { // shuffled hex in a poly mesh
        HexMesh h; Rng r(1); gen_hex_grid(h, r, 1, 1, 1); PolyMesh m; 
        for (auto v : h.vertices()) m.add_vertex(h.vertex(v)); for (auto e : h.edges()) m.add_edge(h.edge(e).from_vertex(), h.edge(e).to_vertex());
        for (auto f : h.faces()) m.add_face(h.face(f).halfedges());
        auto hfs = h.cell(CH(0)).halffaces(); std::swap(hfs[1], hfs[2]); m.add_cell(hfs, true);
        std::stringstream ss(std::ios::in|std::ios::out|std::ios::binary); IO::ovmb_write(ss, m); std::cout << "shuffled hex: ovmb topo byte " << int(ss.str()[11]) << "\n";
        std::string b = ss.str();
        for (int tc = 0; tc < 2; ++tc) { std::stringstream in(b); HexMesh t; IO::ReadOptions ro; ro.topology_check = tc; auto rr = IO::ovmb_read(in, t, ro); std::cout << "read as hex tc=" << tc << ": " << IO::to_string(rr);
            if (rr == IO::ReadResult::Ok) { std::cout << " cell:"; for (auto x : t.cell(CH(0)).halffaces()) std::cout << " " << x.idx(); std::cout << "  orig:"; for (auto x : hfs) std::cout << " " << x.idx(); } std::cout << "\n"; }
        fm.writeFile("shuf.ovm", m); HexMesh t; bool ok = fm.readFile("shuf.ovm", t, true, true); std::cout << "ascii isHex=" << fm.isHexahedralMesh("shuf.ovm") << " read ok=" << ok << " cell:"; if (ok) for (auto x : t.cell(CH(0)).halffaces()) std::cout << " " << x.idx(); std::cout << "\n";
    }
    { // names
        for (std::string name : {"endquote\"", "new\nline", "\"", "a\"b", " sp ", "", "x\"\""}) {
            PolyMesh m; m.add_vertex(Vec3d(1,2,3)); auto p = m.create_persistent_property<int, Entity::Vertex>(name, 0); (*p)[VH(0)] = 5;
            std::stringstream s; fm.writeStream(s, m); PolyMesh m2; bool ok = fm.readStream(s, m2, true, true);
            Diff d; cmp_props(m, m2, d, 1); std::cout << "name '" << esc(name) << "' ascii ok=" << ok << " diffs=" << d.msgs.size() << (d.msgs.size() ? " " + d.msgs[0] : "") << "\n";
            std::stringstream ss(std::ios::in|std::ios::out|std::ios::binary); IO::ovmb_write(ss, m); PolyMesh m3; auto rr = IO::ovmb_read(ss, m3); Diff d2; cmp_props(m, m3, d2, 0);
            std::cout << "      ovmb " << IO::to_string(rr) << " diffs=" << d2.msgs.size() << (d2.msgs.size() ? " " + d2.msgs[0] : "") << "\n";
        }
    }
}
