// find4 (C06, OVM ASCII): a non-finite coordinate or floating-point property value is written as "nan"/"inf",
// which operator>> cannot parse: readStream() still returns true, the vertex silently gets coordinates of the
// previous vertex / zero, resp. the rest of the property section is silently dropped.
// build: g++ -std=c++17 -I/tmp/probe/R/src -I/tmp/probe/R/_build/src find4.cc /tmp/probe/R/_build/Build/lib/libOpenVolumeMesh.a -o find4
#include <OpenVolumeMesh/Mesh/PolyhedralMesh.hh>
#include <OpenVolumeMesh/FileManager/FileManager.hh>
#include <sstream>
#include <iostream>
#include <cmath>
using namespace OpenVolumeMesh;
int main() {
    bool bad = false;
    IO::FileManager fm; fm.setVerbosityLevel(0);
    {   GeometricPolyhedralMeshV3d m, r;
        m.add_vertex(Vec3d(1, 2, 3)); m.add_vertex(Vec3d(INFINITY, 5, 6));
        std::stringstream ss; fm.writeStream(ss, m);
        bool ok = fm.readStream(ss, r, true, true);
        std::cout << "positions: readStream returned " << ok << ", vertex 1 written (" << m.vertex(VertexHandle(1)) << ") read (" << r.vertex(VertexHandle(1)) << ")\n";
        if (ok && !(r.vertex(VertexHandle(1)) == m.vertex(VertexHandle(1)))) { std::cout << "WRONG: read reports success but vertex 1 differs\n"; bad = true; }
    }
    {   GeometricPolyhedralMeshV3d m, r;
        m.add_vertex(Vec3d(1, 2, 3)); m.add_vertex(Vec3d(4, 5, 6));
        auto d = *m.create_persistent_property<double, Entity::Vertex>("d", 0.0); d[VertexHandle(0)] = std::nan(""); d[VertexHandle(1)] = 2.5;
        auto k = *m.create_persistent_property<int, Entity::Mesh>("after", 0); k[MeshHandle(0)] = 42;
        std::stringstream ss; fm.writeStream(ss, m);
        bool ok = fm.readStream(ss, r, true, true);
        auto rd = r.get_property<double, Entity::Vertex>("d"); auto rk = r.get_property<int, Entity::Mesh>("after");
        std::cout << "properties: readStream returned " << ok << ", d[1] read " << (rd ? (*rd)[VertexHandle(1)] : -1) << " (written 2.5), property 'after' " << (rk ? "present" : "missing") << "\n";
        if (ok && (!rd || (*rd)[VertexHandle(1)] != 2.5 || !rk)) { std::cout << "WRONG: read reports success but values after the NaN are lost\n"; bad = true; }
    }
    return bad ? 1 : 0;
}
