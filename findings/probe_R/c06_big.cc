// C06: integer-encoding thresholds (255/256/65535/65536), > 2^16 entities, bool bit packing sizes.
// build: g++ -std=c++17 -O1 -I/tmp/probe/R/src -I/tmp/probe/R/_build/src c06_big.cc /tmp/probe/R/_build/Build/lib/libOpenVolumeMesh.a -o c06_big
#include "common.hh"
static int g_fail = 0;
template<class Src, class Dst>
void rt(const Src &src, const std::string &tag, bool tc_ok, bool ascii = true) {
    std::stringstream ss(std::ios::in | std::ios::out | std::ios::binary);
    auto wr = IO::ovmb_write(ss, src);
    if (wr != IO::WriteResult::Ok) { std::cout << "FAIL " << tag << " write " << IO::to_string(wr) << "\n"; ++g_fail; return; }
    std::string bytes = ss.str();
    for (int tc = 0; tc < (tc_ok ? 2 : 1); ++tc) {
        std::stringstream in(bytes, std::ios::in | std::ios::binary);
        Dst dst; IO::ReadOptions ro; ro.topology_check = tc; ro.bottom_up_incidences = tc;
        auto reader = IO::make_ovmb_reader(in, ro, IO::g_default_property_codecs);
        auto rr = reader->read_file(dst);
        Diff d;
        if (rr != IO::ReadResult::Ok) d.add(std::string("read failed: ") + IO::to_string(rr) + " " + reader->get_error_msg());
        else { cmp_topology(src, dst, d, true); cmp_props(src, dst, d, 0); }
        if (!d.ok()) { ++g_fail; std::cout << "FAIL ovmb " << tag << " tc=" << tc << "\n"; for (auto &m : d.msgs) std::cout << "   " << m << "\n"; }
    }
    if (!ascii) return;
    IO::FileManager fm; fm.setVerbosityLevel(0);
    std::stringstream f1; fm.writeStream(f1, src);
    std::stringstream in(f1.str()); Dst m2; bool ok = fm.readStream(in, m2, tc_ok, true);
    Diff d; if (!ok) d.add("ascii read failed"); else { cmp_topology(src, m2, d, false); cmp_props(src, m2, d, 1, true); }
    std::stringstream f2; fm.writeStream(f2, m2);
    if (ok && f1.str() != f2.str()) d.add("ascii second write differs");
    if (!d.ok()) { ++g_fail; std::cout << "FAIL ascii " << tag << "\n"; for (auto &m : d.msgs) std::cout << "   " << m << "\n"; }
}

static void ring_face(PolyMesh &m, size_t n, size_t first_vertex = 0) {
    std::vector<VH> vs; for (size_t i = 0; i < n; ++i) vs.push_back(VH(int(first_vertex + i)));
    m.add_face(vs);
}

int main() {
    Rng r(7);
    // face valence thresholds
    for (size_t n : {255u, 256u, 257u, 65535u, 65536u, 65537u}) {
        for (int extra = 0; extra < 3; ++extra) {
            PolyMesh m; for (size_t i = 0; i < n; ++i) m.add_vertex(Vec3d(i, 0, 1));
            ring_face(m, n);
            if (extra == 1) ring_face(m, 3);      // mixed valence
            if (extra == 2) { m.add_vertex(Vec3d(1, 2, 3)); std::vector<VH> vs; for (size_t i = 1; i < n; ++i) vs.push_back(VH(int(i))); vs.push_back(VH(int(n))); m.add_face(vs); } // two faces of same big valence
            auto p = m.create_persistent_property<bool, Entity::HalfEdge>("b", true);
            for (size_t i = 0; i < m.n_halfedges(); i += 3) (*p)[HEH(int(i))] = false;
            rt<PolyMesh, PolyMesh>(m, "face valence " + std::to_string(n) + " extra " + std::to_string(extra), true, n < 1000 || extra == 0);
        }
    }
    // cell valence thresholds (no topology check possible: open fan of triangles)
    for (size_t n : {255u, 256u, 257u, 65535u, 65536u}) {
        PolyMesh m; m.add_vertex(Vec3d(0, 0, 0));
        for (size_t i = 0; i <= n; ++i) m.add_vertex(Vec3d(i, 1, 0));
        std::vector<HFH> hfs;
        for (size_t i = 0; i < n; ++i) hfs.push_back(m.halfface_handle(m.add_face(std::vector<VH>{VH(0), VH(int(1 + i)), VH(int(2 + i))}), i & 1));
        m.add_cell(hfs, false);
        if (n % 2) m.add_cell(std::vector<HFH>{hfs[0], hfs[1], hfs[2]}, false);
        rt<PolyMesh, PolyMesh>(m, "cell valence " + std::to_string(n), false, n < 1000);
    }
    // entity count thresholds: vertices / halfedges / halffaces around 2^8 and 2^16
    for (size_t nv : {255u, 256u, 257u, 65535u, 65536u, 65537u}) {
        PolyMesh m; for (size_t i = 0; i < nv; ++i) m.add_vertex(Vec3d(i, i * .5, -double(i)));
        m.add_edge(VH(int(nv - 1)), VH(int(nv - 2))); m.add_edge(VH(0), VH(int(nv - 1)));
        m.add_face(std::vector<VH>{VH(int(nv - 1)), VH(int(nv - 2)), VH(int(nv - 3))});
        rt<PolyMesh, PolyMesh>(m, "n_vertices " + std::to_string(nv), true, nv < 1000);
    }
    for (size_t ne : {127u, 128u, 129u, 32767u, 32768u, 32769u}) {
        // exactly ne edges: a path; faces use the last halfedges
        PolyMesh m; for (size_t i = 0; i <= ne; ++i) m.add_vertex(Vec3d(i, 0, 0));
        for (size_t i = 0; i + 1 < ne; ++i) m.add_edge(VH(int(i)), VH(int(i + 1)));
        m.add_edge(VH(int(ne - 1)), VH(int(ne - 3))); // closes triangle (ne-3, ne-2, ne-1)
        assert(m.n_edges() == ne);
        m.add_face(std::vector<HEH>{HEH(int(2 * (ne - 3))), HEH(int(2 * (ne - 2))), HEH(int(2 * (ne - 1)))}, true);
        m.add_face(std::vector<HEH>{HEH(int(2 * (ne - 1) + 1)), HEH(int(2 * (ne - 2) + 1)), HEH(int(2 * (ne - 3) + 1))}, true);
        rt<PolyMesh, PolyMesh>(m, "n_edges " + std::to_string(ne), true, ne < 1000);
    }
    for (size_t nf : {127u, 128u, 129u, 32767u, 32768u, 32769u}) {
        PolyMesh m; m.add_vertex(Vec3d(0, 0, 0));
        for (size_t i = 0; i <= nf; ++i) m.add_vertex(Vec3d(i, 1, 0));
        for (size_t i = 0; i < nf; ++i) m.add_face(std::vector<VH>{VH(0), VH(int(1 + i)), VH(int(2 + i))});
        m.add_cell(std::vector<HFH>{HFH(int(2 * nf - 1)), HFH(int(2 * nf - 2)), HFH(0)}, false);
        rt<PolyMesh, PolyMesh>(m, "n_faces " + std::to_string(nf), false, nf < 1000);
    }
    // > 2^16 of everything: tet strip
    {
        TetMesh m; size_t n = 70000;
        for (size_t i = 0; i < n + 3; ++i) m.add_vertex(Vec3d(i * 0.1, (i % 7) * 0.3, (i % 3)));
        for (size_t i = 0; i < n; ++i) m.add_cell(std::vector<VH>{VH(int(i)), VH(int(i + 1)), VH(int(i + 2)), VH(int(i + 3))}, false);
        GenCfg c;
        add_prop<bool, Entity::Cell>(m, "cb", r, c); add_prop<double, Entity::HalfFace>(m, "hfd", r, c);
        add_prop<std::string, Entity::Vertex>(m, "vs", r, c); add_prop<HEH, Entity::HalfEdge>(m, "heh", r, c);
        std::cout << "big tet mesh: " << m.n_vertices() << " " << m.n_edges() << " " << m.n_faces() << " " << m.n_cells() << "\n";
        rt<TetMesh, TetMesh>(m, "70000 tets", true, false);
        rt<TetMesh, PolyMesh>(m, "70000 tets->poly", true, false);
        PolyMesh pm; pm = m; rt<PolyMesh, TetMesh>(pm, "70000 tets poly->tet", true, false);
    }
    // bool packing sizes 0..17 on vertices, every default
    for (size_t n = 0; n <= 17; ++n) for (int def = 0; def < 2; ++def) {
        PolyMesh m; for (size_t i = 0; i < n; ++i) m.add_vertex(Vec3d(i, 0, 0));
        auto p = m.create_persistent_property<bool, Entity::Vertex>("vb", def);
        for (size_t i = 0; i < n; ++i) (*p)[VH(int(i))] = r() & 1;
        auto q = m.create_persistent_property<bool, Entity::Mesh>("mb", !def); (*q)[MH(0)] = def;
        rt<PolyMesh, PolyMesh>(m, "bools " + std::to_string(n), true);
    }
    std::cout << "failures: " << g_fail << "\n";
    return g_fail != 0;
}
