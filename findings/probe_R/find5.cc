// find5 (C06, OVM ASCII): a persistent property whose name ends with a double quote (or contains a line break)
// comes back under a different name.
// build: g++ -std=c++17 -I/tmp/probe/R/src -I/tmp/probe/R/_build/src find5.cc /tmp/probe/R/_build/Build/lib/libOpenVolumeMesh.a -o find5
#include <OpenVolumeMesh/Mesh/PolyhedralMesh.hh>
#include <OpenVolumeMesh/FileManager/FileManager.hh>
#include <sstream>
#include <iostream>
using namespace OpenVolumeMesh;
int main() {
    bool bad = false;
    IO::FileManager fm; fm.setVerbosityLevel(0);
    for (std::string name : {std::string("5\""), std::string("two\nlines")}) {
        GeometricPolyhedralMeshV3d m, r; m.add_vertex(Vec3d(1, 2, 3));
        auto p = *m.create_persistent_property<int, Entity::Vertex>(name, 0); p[VertexHandle(0)] = 7;
        std::stringstream ss; fm.writeStream(ss, m);
        bool ok = fm.readStream(ss, r, true, true);
        auto q = r.get_property<int, Entity::Vertex>(name);
        std::cout << "name [" << name << "]: readStream " << ok << ", property " << (q ? "found" : "NOT found") << "; names read:";
        for (auto it = r.persistent_props_begin<Entity::Vertex>(); it != r.persistent_props_end<Entity::Vertex>(); ++it) std::cout << " [" << (*it)->name() << "]";
        std::cout << "\n";
        if (!q || (*q)[VertexHandle(0)] != 7) bad = true;
    }
    if (bad) std::cout << "WRONG: property name changed by an ASCII round trip\n";
    return bad ? 1 : 0;
}
