// Shared helpers for the C06 harnesses: random meshes, random persistent
// properties of every registered value type, and mesh/property comparison.
#pragma once
#include <OpenVolumeMesh/Mesh/PolyhedralMesh.hh>
#include <OpenVolumeMesh/Mesh/TetrahedralMesh.hh>
#include <OpenVolumeMesh/Mesh/HexahedralMesh.hh>
#include <OpenVolumeMesh/FileManager/FileManager.hh>
#include <OpenVolumeMesh/IO/ovmb_read.hh>
#include <OpenVolumeMesh/IO/ovmb_write.hh>
#include <random>
#include <sstream>
#include <cstring>
#include <iostream>
#include <map>
#include <set>
#include <limits>
#include <cmath>

namespace OVM = OpenVolumeMesh;
using namespace OpenVolumeMesh;
using PolyMesh = GeometricPolyhedralMeshV3d;
using PolyMeshF = GeometricPolyhedralMeshV3f;
using TetMesh = GeometricTetrahedralMeshV3d;
using HexMesh = GeometricHexahedralMeshV3d;
using Rng = std::mt19937_64;

inline size_t rnd(Rng &r, size_t n) { return n ? r() % n : 0; }

// ---------- bit-exact equality ----------
inline bool biteq(bool a, bool b) { return a == b; }
template<class T> std::enable_if_t<std::is_integral_v<T>, bool> biteq(T a, T b) { return a == b; }
inline bool biteq(float a, float b) { return !std::memcmp(&a, &b, sizeof a); }
inline bool biteq(double a, double b) { return !std::memcmp(&a, &b, sizeof a); }
inline bool biteq(const std::string &a, const std::string &b) { return a == b; }
template<class H> std::enable_if_t<is_handle_v<H>, bool> biteq(H a, H b) { return a.idx() == b.idx(); }
template<class S, int N> bool biteq(const VectorT<S, N> &a, const VectorT<S, N> &b) {
    for (int i = 0; i < N; ++i) if (!biteq(a[i], b[i])) return false; return true; }
template<class T> bool biteq(const std::vector<T> &a, const std::vector<T> &b) {
    if (a.size() != b.size()) return false;
    for (size_t i = 0; i < a.size(); ++i) if (!biteq(a[i], b[i])) return false; return true; }
template<class K, class V> bool biteq(const std::map<K, V> &a, const std::map<K, V> &b) { return a == b; }

// ---------- random values ----------
struct GenCfg { bool ascii_safe = false; }; // ascii_safe: no NaN/Inf, no chars that are documented-unsupported
template<class T, class = void> struct Gen;
template<> struct Gen<bool> { static bool g(Rng &r, GenCfg) { return r() & 1; } };
template<class T> struct Gen<T, std::enable_if_t<std::is_integral_v<T> && !std::is_same_v<T, bool>>> {
    static T g1(Rng &r) {
        switch (r() % 6) {
        case 0: return std::numeric_limits<T>::min();
        case 1: return std::numeric_limits<T>::max();
        case 2: return T(0);
        case 3: return T(r() % 200);
        default: return T(r());
        } }
    static T g(Rng &r, GenCfg c) {
        for (;;) { T v = g1(r);
            // ascii_safe: operator>> skips whitespace for char types (reported separately as a finding)
            if (c.ascii_safe && sizeof(T) == 1 && (v == T(' ') || (v >= T(9) && v <= T(13)))) continue;
            return v; } } };
template<class T> struct Gen<T, std::enable_if_t<std::is_floating_point_v<T>>> {
    static T g(Rng &r, GenCfg c) {
        using L = std::numeric_limits<T>;
        for (;;) {
            T v;
            switch (r() % 12) {
            case 0: v = T(0); break;
            case 1: v = -T(0); break;
            case 2: v = L::denorm_min(); break;
            case 3: v = -L::min(); break;
            case 4: v = L::max(); break;
            case 5: v = L::lowest(); break;
            case 6: v = L::infinity(); break;
            case 7: v = L::quiet_NaN(); break;
            case 8: { std::conditional_t<sizeof(T) == 4, uint32_t, uint64_t> bits = r(); std::memcpy(&v, &bits, sizeof v); break; }
            case 9: v = T(1) / T(3); break;
            default: v = T((double(r() % 2000001) - 1e6) / 997.0); break;
            }
            if (c.ascii_safe && !std::isfinite(v)) continue;
            return v;
        } } };
template<> struct Gen<std::string> { static std::string g(Rng &r, GenCfg) {
        static const char *pool[] = {"", " ", "a", "hello world", " lead", "trail ", "line1\nline2", "tab\there",
            "q\"uote\"", "\"", "#hash", "5:abc", "\xc3\xa4\xe2\x82\xac unicode", "\n", "a\r\nb", "  "};
        size_t k = r() % 20;
        if (k < 16) return pool[k];
        if (k == 16) return std::string(5000, 'x');
        std::string s; size_t n = r() % 40; for (size_t i = 0; i < n; ++i) s += char(r() % 256); // incl. NUL
        return s; } };
template<class H> struct Gen<H, std::enable_if_t<is_handle_v<H>>> { static H g(Rng &r, GenCfg) {
        switch (r() % 4) { case 0: return H(-1); case 1: return H(0); case 2: return H(std::numeric_limits<int>::max()); default: return H(int(r() % 100000)); } } };
template<class S, int N> struct Gen<VectorT<S, N>> { static VectorT<S, N> g(Rng &r, GenCfg c) {
        VectorT<S, N> v; for (int i = 0; i < N; ++i) v[i] = Gen<S>::g(r, c); return v; } };
template<class T> struct Gen<std::vector<T>> { static std::vector<T> g(Rng &r, GenCfg c) {
        std::vector<T> v(r() % 4); for (auto &e : v) e = Gen<T>::g(r, c); return v; } };
template<class K, class V> struct Gen<std::map<K, V>> { static std::map<K, V> g(Rng &r, GenCfg c) {
        std::map<K, V> m; size_t n = r() % 4; for (size_t i = 0; i < n; ++i) m[Gen<K>::g(r, c)] = Gen<V>::g(r, c); return m; } };

// ---------- type lists ----------
template<class... Ts> struct TL {};
using OvmbTypes = TL<bool, uint8_t, uint16_t, uint32_t, uint64_t, int8_t, int16_t, int32_t, int64_t, float, double,
      std::string, VH, EH, HEH, FH, HFH, CH,
      Vec2d, Vec3d, Vec4d, Vec2f, Vec3f, Vec4f, Vec2ui, Vec3ui, Vec4ui, Vec2i, Vec3i, Vec4i>;
using AsciiTypes = TL<int, unsigned int, short, long, unsigned long, char, unsigned char, bool, float, double, std::string,
      std::map<HalfEdgeHandle, int>, std::vector<double>, std::vector<VertexHandle>, std::vector<HalfFaceHandle>,
      std::vector<std::vector<HalfFaceHandle>>,
      Vec2f, Vec2d, Vec2i, Vec2ui, Vec3f, Vec3d, Vec3i, Vec3ui, Vec4f, Vec4d, Vec4i, Vec4ui>;
using AllTypes = TL<bool, uint8_t, uint16_t, uint32_t, uint64_t, int8_t, int16_t, int32_t, int64_t, float, double,
      std::string, VH, EH, HEH, FH, HFH, CH,
      Vec2d, Vec3d, Vec4d, Vec2f, Vec3f, Vec4f, Vec2ui, Vec3ui, Vec4ui, Vec2i, Vec3i, Vec4i,
      char, std::map<HalfEdgeHandle, int>, std::vector<double>, std::vector<VertexHandle>, std::vector<HalfFaceHandle>,
      std::vector<std::vector<HalfFaceHandle>>>;

template<class F, class... Ts> void for_types(TL<Ts...>, F f) { (f(static_cast<Ts *>(nullptr)), ...); }
template<class... Ts> constexpr size_t tl_size(TL<Ts...>) { return sizeof...(Ts); }

using EntityTags = TL<Entity::Vertex, Entity::Edge, Entity::Face, Entity::Cell, Entity::HalfEdge, Entity::HalfFace, Entity::Mesh>;

inline const char *ent_name(EntityType t) {
    switch (t) { case EntityType::Vertex: return "V"; case EntityType::Edge: return "E"; case EntityType::Face: return "F";
    case EntityType::Cell: return "C"; case EntityType::HalfEdge: return "HE"; case EntityType::HalfFace: return "HF"; case EntityType::Mesh: return "M"; }
    return "?"; }

// add one persistent property of type T on entity Tag with random default + values
template<class T, class Tag, class Mesh>
void add_prop(Mesh &m, const std::string &name, Rng &r, GenCfg c, bool random_default = true) {
    T def = Gen<T>::g(r, c); (void)random_default; // note: VectorT() leaves components uninitialised
    auto p = m.template create_persistent_property<T, Tag>(name, def);
    if (!p) return;
    size_t k = 0;
    for (auto it = p->begin(); it != p->end(); ++it, ++k) {
        if (r() % 4 == 0) continue; // leave default
        *it = Gen<T>::g(r, c);
    }
}

inline std::string rnd_name(Rng &r, bool ascii_safe) {
    static const char *pool[] = {"p", "my prop", " lead", "trail ", "\xc3\xa4\xc3\xb6\xe2\x82\xac", "a#b", "x:y", "UPPER", "semi;colon", "in\"ner",
                                 "\"startquote", "endquote\"", "new\nline", "\"", "tab\t"};
    size_t n = ascii_safe ? 10 : 15;
    return std::string(pool[r() % n]) + "_" + std::to_string(r() % 1000);
}

template<class TypeList, class Mesh>
void add_random_props(Mesh &m, Rng &r, GenCfg c, size_t count, bool ascii_safe_names, bool random_default = true) {
    for (size_t i = 0; i < count; ++i) {
        size_t ti = r() % tl_size(TypeList{}), ei = r() % 7;
        std::string name = rnd_name(r, ascii_safe_names);
        size_t tcur = 0;
        for_types(TypeList{}, [&](auto *tp) {
            using T = std::remove_pointer_t<decltype(tp)>;
            if (tcur++ != ti) return;
            size_t ecur = 0;
            for_types(EntityTags{}, [&](auto *ep) {
                using Tag = std::remove_pointer_t<decltype(ep)>;
                if (ecur++ != ei) return;
                add_prop<T, Tag>(m, name, r, c, random_default);
            });
        });
    }
}

// ---------- comparison ----------
struct Diff {
    std::vector<std::string> msgs;
    void add(const std::string &s) { if (msgs.size() < 8) msgs.push_back(s); }
    bool ok() const { return msgs.empty(); }
};

template<class T> std::string ser(const T &v) { std::ostringstream o; o.precision(17); OVM::serialize(o, v); return o.str(); }
inline std::string esc(const std::string &s) { std::string o; for (unsigned char c : s) { if (c < 32 || c > 126) { char b[8]; snprintf(b, 8, "\\x%02x", c); o += b; } else o += c; } return o; }

template<class MA, class MB>
void cmp_topology(const MA &a, const MB &b, Diff &d, bool bitexact_pos) {
    if (a.n_vertices() != b.n_vertices()) d.add("n_vertices " + std::to_string(a.n_vertices()) + " vs " + std::to_string(b.n_vertices()));
    if (a.n_edges() != b.n_edges()) d.add("n_edges " + std::to_string(a.n_edges()) + " vs " + std::to_string(b.n_edges()));
    if (a.n_faces() != b.n_faces()) d.add("n_faces " + std::to_string(a.n_faces()) + " vs " + std::to_string(b.n_faces()));
    if (a.n_cells() != b.n_cells()) d.add("n_cells " + std::to_string(a.n_cells()) + " vs " + std::to_string(b.n_cells()));
    if (!d.ok()) return;
    for (size_t i = 0; i < a.n_vertices(); ++i) {
        auto pa = a.vertex(VH(int(i))); auto pb = b.vertex(VH(int(i)));
        for (int k = 0; k < 3; ++k) {
            bool same;
            if (bitexact_pos) same = biteq(double(pa[k]), double(pb[k]));
            else { std::ostringstream x, y; x << pa[k]; y << pb[k]; same = x.str() == y.str(); }
            if (!same) { std::ostringstream o; o.precision(17); o << "pos v" << i << "[" << k << "] " << pa[k] << " vs " << pb[k]; d.add(o.str()); }
        }
    }
    for (size_t i = 0; i < a.n_edges(); ++i) {
        EH e{int(i)};
        if (a.edge(e).from_vertex() != b.edge(e).from_vertex() || a.edge(e).to_vertex() != b.edge(e).to_vertex())
            d.add("edge " + std::to_string(i) + " differs");
    }
    for (size_t i = 0; i < a.n_faces(); ++i) {
        FH f{int(i)};
        if (a.face(f).halfedges() != b.face(f).halfedges()) d.add("face " + std::to_string(i) + " differs");
    }
    for (size_t i = 0; i < a.n_cells(); ++i) {
        CH c{int(i)};
        if (a.cell(c).halffaces() != b.cell(c).halffaces()) d.add("cell " + std::to_string(i) + " differs");
    }
}

using PropKey = std::tuple<int, std::string, std::string>; // entity, name, internal type
template<class Mesh>
std::map<PropKey, PropertyStorageBase *> collect_props(const Mesh &m, Diff &d) {
    std::map<PropKey, PropertyStorageBase *> out;
    for_types(EntityTags{}, [&](auto *ep) {
        using Tag = std::remove_pointer_t<decltype(ep)>;
        for (auto it = m.template persistent_props_begin<Tag>(); it != m.template persistent_props_end<Tag>(); ++it) {
            PropertyStorageBase *p = *it;
            PropKey k{int(p->entity_type()), p->name(), p->internal_type_name()};
            if (out.count(k)) d.add("duplicate prop " + esc(p->name()));
            out[k] = p;
        }
    });
    return out;
}

// mode: 0 = bit exact values + default (OVMB), 1 = textual (ASCII; default not compared)
template<class MA, class MB>
void cmp_props(const MA &a, const MB &b, Diff &d, int mode, bool skip_anonymous = false) {
    auto pa = collect_props(a, d), pb = collect_props(b, d);
    if (skip_anonymous) { for (auto it = pa.begin(); it != pa.end();) if (std::get<1>(it->first).empty()) it = pa.erase(it); else ++it; }
    for (auto &kv : pa) {
        const PropKey &k = kv.first; PropertyStorageBase *p = kv.second; // (no structured binding: clang 14 cannot capture it)
        auto it = pb.find(k);
        std::string id = std::string(ent_name(p->entity_type())) + "prop '" + esc(p->name()) + "' type " + p->internal_type_name();
        if (it == pb.end()) { d.add("missing after read: " + id); continue; }
        PropertyStorageBase *q = it->second;
        if (p->size() != q->size()) { d.add(id + " size " + std::to_string(p->size()) + " vs " + std::to_string(q->size())); continue; }
        bool handled = false;
        for_types(AllTypes{}, [&](auto *tp) {
            using T = std::remove_pointer_t<decltype(tp)>;
            if (handled || OVM::detail::internal_type_name<T>() != p->internal_type_name()) return;
            handled = true;
            auto *sp = p->template cast_to_StorageT<T>(); auto *sq = q->template cast_to_StorageT<T>();
            if (mode == 0 && !biteq(T(sp->def()), T(sq->def()))) d.add(id + " default differs: " + esc(ser(T(sp->def()))) + " vs " + esc(ser(T(sq->def()))));
            for (size_t i = 0; i < sp->size(); ++i) {
                T x = sp->data_vector()[i], y = sq->data_vector()[i];
                bool same;
                if (mode == 0) same = biteq(x, y);
                else { std::ostringstream s1, s2; OVM::serialize(s1, x); OVM::serialize(s2, y); same = s1.str() == s2.str(); }
                if (!same) { d.add(id + " value[" + std::to_string(i) + "] " + esc(ser(x)) + " vs " + esc(ser(y))); break; }
            }
        });
        if (!handled) d.add("harness: unhandled type " + id);
    }
    for (auto &[k, q] : pb) if (!pa.count(k))
        d.add(std::string("extra after read: ") + ent_name(q->entity_type()) + "prop '" + esc(q->name()) + "' type " + q->internal_type_name());
}

// ---------- mesh generators ----------
inline Vec3d rnd_pos(Rng &r, bool special) {
    GenCfg c; c.ascii_safe = !special;
    if (special) return Gen<Vec3d>::g(r, c);
    return Vec3d((double(r() % 20001) - 10000) / 7.0, (double(r() % 20001) - 10000) / 13.0, (double(r() % 20001) - 10000) / 3.0);
}

// valid (passes topology check) polyhedral soup: vertices, edges, polygon faces, optional tets/pyramids/prisms/hexes
template<class Mesh>
void gen_valid_poly(Mesh &m, Rng &r, size_t nv, size_t n_extra_edges, size_t n_faces, size_t n_cells, bool special_pos) {
    for (size_t i = 0; i < nv; ++i) m.add_vertex(typename Mesh::PointT(rnd_pos(r, special_pos)));
    if (nv < 2) return;
    for (size_t i = 0; i < n_extra_edges; ++i) {
        size_t a = rnd(r, nv), b = rnd(r, nv); if (a == b) continue;
        m.add_edge(VH(int(a)), VH(int(b)), r() % 4 == 0); // sometimes duplicate edges
    }
    if (nv < 3) return;
    for (size_t i = 0; i < n_faces; ++i) {
        size_t val = 3 + rnd(r, 5);
        if (val > nv) val = nv;
        std::vector<VH> vs; std::set<size_t> used;
        while (vs.size() < val) { size_t v = rnd(r, nv); if (used.insert(v).second) vs.push_back(VH(int(v))); }
        m.add_face(vs);
    }
    // cells: tets, pyramids, prisms, hexes on fresh or shared vertices
    for (size_t i = 0; i < n_cells && nv >= 8; ++i) {
        std::vector<VH> v; std::set<size_t> used;
        while (v.size() < 8) { size_t x = rnd(r, nv); if (used.insert(x).second) v.push_back(VH(int(x))); }
        auto hf = [&](std::vector<VH> vs) {
            auto h = m.find_halfface_extensive(vs);
            if (h.is_valid()) return h;
            return m.halfface_handle(m.add_face(vs), 0);
        };
        std::vector<HFH> hfs;
        switch (r() % 4) {
        case 0: hfs = {hf({v[0], v[1], v[2]}), hf({v[0], v[2], v[3]}), hf({v[0], v[3], v[1]}), hf({v[1], v[3], v[2]})}; break;
        case 1: hfs = {hf({v[0], v[1], v[2], v[3]}), hf({v[0], v[4], v[1]}), hf({v[1], v[4], v[2]}), hf({v[2], v[4], v[3]}), hf({v[3], v[4], v[0]})}; break;
        case 2: hfs = {hf({v[0], v[1], v[2]}), hf({v[3], v[5], v[4]}), hf({v[0], v[3], v[4], v[1]}), hf({v[1], v[4], v[5], v[2]}), hf({v[2], v[5], v[3], v[0]})}; break;
        default: hfs = {hf({v[3], v[2], v[1], v[0]}), hf({v[4], v[5], v[6], v[7]}), hf({v[0], v[1], v[5], v[4]}), hf({v[1], v[2], v[6], v[5]}), hf({v[2], v[3], v[7], v[6]}), hf({v[3], v[0], v[4], v[7]})}; break;
        }
        if (r() % 2) std::shuffle(hfs.begin(), hfs.end(), r);
        // a halfface may already bound another cell; skip in that case to stay manifold-ish
        bool free = true; for (auto h : hfs) if (m.incident_cell(h).is_valid()) free = false;
        if (free) m.add_cell(hfs, false);
    }
}

// does every face/cell of m pass add_face/add_cell with topology check (in file order)?
template<class Mesh> bool passes_topology_check(const Mesh &m) {
    TopologyKernel k; k.add_n_vertices(m.n_vertices());
    for (size_t i = 0; i < m.n_edges(); ++i) k.add_edge(m.edge(EH(int(i))).from_vertex(), m.edge(EH(int(i))).to_vertex(), true);
    for (size_t i = 0; i < m.n_faces(); ++i) if (!k.add_face(m.face(FH(int(i))).halfedges(), true).is_valid()) return false;
    for (size_t i = 0; i < m.n_cells(); ++i) if (!k.add_cell(m.cell(CH(int(i))).halffaces(), true).is_valid()) return false;
    return true;
}

// arbitrary garbage (no topology check): faces from random halfedges, cells from random halffaces
inline void gen_garbage_poly(PolyMesh &m, Rng &r, size_t nv, size_t ne, size_t nf, size_t nc, bool special = true) {
    for (size_t i = 0; i < nv; ++i) m.add_vertex(rnd_pos(r, special && r() % 8 == 0));
    if (nv == 0) return;
    for (size_t i = 0; i < ne; ++i) m.add_edge(VH(int(rnd(r, nv))), VH(int(rnd(r, nv))), true); // incl. loops/duplicates
    if (m.n_edges() == 0) return;
    for (size_t i = 0; i < nf; ++i) {
        std::vector<HEH> hes(1 + rnd(r, 6)); for (auto &h : hes) h = HEH(int(rnd(r, 2 * m.n_edges())));
        m.add_face(hes, false);
    }
    if (m.n_faces() == 0) return;
    for (size_t i = 0; i < nc; ++i) {
        std::vector<HFH> hfs(1 + rnd(r, 7)); for (auto &h : hfs) h = HFH(int(rnd(r, 2 * m.n_faces())));
        m.add_cell(hfs, false);
    }
}

inline void gen_tets(TetMesh &m, Rng &r, size_t nv, size_t nc) {
    for (size_t i = 0; i < nv; ++i) m.add_vertex(rnd_pos(r, false));
    for (size_t i = 0; i < nc && nv >= 4; ++i) {
        std::vector<VH> v; std::set<size_t> used;
        while (v.size() < 4) { size_t x = rnd(r, nv); if (used.insert(x).second) v.push_back(VH(int(x))); }
        m.add_cell(v, false);
    }
}

inline void gen_hex_grid(HexMesh &m, Rng &r, int nx, int ny, int nz) {
    auto id = [&](int x, int y, int z) { return VH((z * (ny + 1) + y) * (nx + 1) + x); };
    for (int z = 0; z <= nz; ++z) for (int y = 0; y <= ny; ++y) for (int x = 0; x <= nx; ++x)
        m.add_vertex(Vec3d(x + (r() % 100) / 400.0, y + (r() % 100) / 400.0, z + (r() % 100) / 400.0));
    for (int z = 0; z < nz; ++z) for (int y = 0; y < ny; ++y) for (int x = 0; x < nx; ++x) {
        std::vector<VH> v = {id(x, y, z), id(x + 1, y, z), id(x + 1, y + 1, z), id(x, y + 1, z),
                             id(x, y, z + 1), id(x, y + 1, z + 1), id(x + 1, y + 1, z + 1), id(x + 1, y, z + 1)};
        m.add_cell(v, false);
    }
}
