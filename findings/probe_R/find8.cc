// find8 (C06, OVMB writer): WriteBuffer::write(s, 0) evaluates data_[pos_] with pos_ == data_.size()
// (out-of-range std::vector::operator[], undefined behaviour). It is reached whenever an EMPTY std::string is
// serialised at the end of the buffer - e.g. the default value "" of any string property. With a libstdc++ that has
// assertions enabled (-D_GLIBCXX_ASSERTIONS, the default of several distributions' hardened flags) ovmb_write aborts.
//
// The defect is UB inside the library's WriteBuffer.cc, so to make it observable this reproducer compiles the
// UNMODIFIED library source file with assertions enabled and links it in front of the Release library:
// build: g++ -std=c++17 -D_GLIBCXX_ASSERTIONS -I/tmp/probe/R/src -I/tmp/probe/R/_build/src find8.cc \
//            /tmp/probe/R/src/OpenVolumeMesh/IO/detail/WriteBuffer.cc /tmp/probe/R/_build/Build/lib/libOpenVolumeMesh.a -o find8
#include <OpenVolumeMesh/Mesh/PolyhedralMesh.hh>
#include <OpenVolumeMesh/IO/ovmb_write.hh>
#include <sstream>
#include <iostream>
#include <csignal>
#include <unistd.h>
using namespace OpenVolumeMesh;
static void on_abort(int) {
    const char msg[] = "WRONG: ovmb_write aborted: std::vector::operator[] out of range in WriteBuffer::write (empty string)\n";
    (void)!write(1, msg, sizeof msg - 1); _exit(1);
}
int main() {
    std::signal(SIGABRT, on_abort);
    GeometricPolyhedralMeshV3d m; m.add_vertex(Vec3d(1, 2, 3));
    auto p = *m.create_persistent_property<std::string, Entity::Vertex>("label", ""); // default value: empty string
    p[VertexHandle(0)] = "v0";
    std::stringstream ss(std::ios::in | std::ios::out | std::ios::binary);
    auto wr = IO::ovmb_write(ss, m);
    std::cout << "ovmb_write returned " << IO::to_string(wr) << " (no abort: build without -D_GLIBCXX_ASSERTIONS?)\n";
    return 0;
}
