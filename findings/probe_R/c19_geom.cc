// C19: GeometryKernel vector/length/barycenter/normal + NormalAttrib vs reference formulas.
// build: g++ -std=c++17 -O1 -I/tmp/probe/R/src -I/tmp/probe/R/_build/src c19_geom.cc /tmp/probe/R/_build/Build/lib/libOpenVolumeMesh.a -o c19_geom
#include "common.hh"
#include <OpenVolumeMesh/Attribs/NormalAttrib.hh>
static std::map<std::string, int> g_fail;
#define FAIL(what, detail) do { if (g_fail[what]++ < 3) std::cout << "FAIL " << what << ": " << detail << "\n"; } while (0)
template<class V> std::string str(const V &v) { std::ostringstream o; o.precision(17); o << v; return o.str(); }
template<class P> bool vclose(const P &a, const P &b, double tol) {
    for (int i = 0; i < 3; ++i) { if (std::isnan(a[i]) != std::isnan(b[i])) return false; if (std::isnan(a[i])) continue;
        if (std::abs(double(a[i]) - double(b[i])) > tol * (1 + std::abs(double(a[i])) + std::abs(double(b[i])))) return false; } return true; }

template<class Mesh> void check_mesh(Mesh &m, const std::string &tag, double eps) {
    using P = typename Mesh::PointT; using S = typename P::value_type;
    for (auto eh : m.edges()) {
        auto e = m.edge(eh); P ref = m.vertex(e.to_vertex()) - m.vertex(e.from_vertex());
        if (!vclose(m.vector(eh), ref, 0)) FAIL(tag + " vector(edge)", eh.idx());
        for (int k = 0; k < 2; ++k) { auto heh = m.halfedge_handle(eh, k); P hr = m.vertex(m.to_vertex_handle(heh)) - m.vertex(m.from_vertex_handle(heh));
            if (!vclose(m.vector(heh), hr, 0)) FAIL(tag + " vector(halfedge)", heh.idx());
            if (std::abs(double(m.length(heh)) - std::sqrt(double(hr[0]) * hr[0] + double(hr[1]) * hr[1] + double(hr[2]) * hr[2])) > eps * (1 + std::abs(double(m.length(heh))))) FAIL(tag + " length(halfedge)", heh.idx()); }
        if (!vclose(m.vector(m.halfedge_handle(eh, 1)), P(-ref), 0)) FAIL(tag + " vector(opposite halfedge) != -vector", eh.idx());
        if (std::abs(double(m.length(eh)) - double(ref.norm())) > eps * (1 + std::abs(double(ref.norm())))) FAIL(tag + " length(edge)", eh.idx());
        P bc = (m.vertex(e.from_vertex()) + m.vertex(e.to_vertex())) / S(2);
        if (!vclose(m.barycenter(eh), bc, eps)) FAIL(tag + " barycenter(edge)", str(m.barycenter(eh)) + " vs " + str(bc));
    }
    for (auto fh : m.faces()) {
        const auto &hes = m.face(fh).halfedges();
        P sum(S(0)); for (auto h : hes) sum += m.vertex(m.from_vertex_handle(h)); sum /= S(hes.size());
        if (!vclose(m.barycenter(fh), sum, eps)) FAIL(tag + " barycenter(face)", str(m.barycenter(fh)) + " vs " + str(sum) + " valence " + std::to_string(hes.size()));
        auto hf0 = m.halfface_handle(fh, 0), hf1 = m.halfface_handle(fh, 1);
        if (hes.size() >= 3) {
            P p1 = m.vertex(m.from_vertex_handle(hes[0])), p2 = m.vertex(m.to_vertex_handle(hes[0])), p3 = m.vertex(m.to_vertex_handle(hes[1]));
            P n = ((p2 - p1) % (p3 - p2)); n = n / n.norm();
            P n0 = m.normal(hf0), n1 = m.normal(hf1);
            if (!vclose(n0, n, eps)) FAIL(tag + " normal(hf0) vs first-two-edges formula", str(n0) + " vs " + str(n));
            bool nan = false; for (int i = 0; i < 3; ++i) if (std::isnan(n0[i]) || std::isnan(n1[i])) nan = true;
            if (!nan && !vclose(n1, P(-n0), 1e-6)) {
                std::ostringstream o; o << "face " << fh.idx() << " valence " << hes.size() << " n(hf0)=(" << str(n0) << ") n(hf1)=(" << str(n1) << ")";
                FAIL(tag + " normals of the two sides not opposite (valence " + (hes.size() == 3 ? "3" : ">3") + ")", o.str());
            }
        }
    }
    for (auto ch : m.cells()) {
        std::set<VH> vs; for (auto hfh : m.cell(ch).halffaces()) for (auto heh : m.halfface(hfh).halfedges()) vs.insert(m.from_vertex_handle(heh));
        P sum(S(0)); for (auto v : vs) sum += m.vertex(v); sum /= S(vs.size());
        if (!vclose(m.barycenter(ch), sum, eps * 4)) FAIL(tag + " barycenter(cell)", str(m.barycenter(ch)) + " vs " + str(sum) + " nverts " + std::to_string(vs.size()));
    }
}

int main(int argc, char **argv) {
    int iters = argc > 1 ? atoi(argv[1]) : 300;
    for (int it = 0; it < iters; ++it) {
        Rng r(1234 + it);
        { PolyMesh m; gen_valid_poly(m, r, 8 + rnd(r, 30), rnd(r, 10), rnd(r, 20), rnd(r, 8), false); check_mesh(m, "polyD", 1e-12);
          // NormalAttrib
          NormalAttrib<PolyMesh> na(m); na.update_face_normals();
          for (auto fh : m.faces()) { auto n = na[fh]; auto ref = m.normal(m.halfface_handle(fh, 0));
              if (!vclose(n, ref, 1e-9)) FAIL("NormalAttrib face normal != normal(halfface 0)", str(n) + " vs " + str(ref));
              if (!vclose(na[m.halfface_handle(fh, 1)], Vec3d(-n), 1e-12) || !vclose(na[m.halfface_handle(fh, 0)], n, 0)) FAIL("NormalAttrib halfface normals", fh.idx()); } }
        { PolyMeshF m; gen_valid_poly(m, r, 8 + rnd(r, 30), rnd(r, 10), rnd(r, 20), rnd(r, 8), false); check_mesh(m, "polyF", 2e-5); }
        { TetMesh m; gen_tets(m, r, 4 + rnd(r, 20), 1 + rnd(r, 10)); check_mesh(m, "tet", 1e-12); }
        { HexMesh m; gen_hex_grid(m, r, 1 + rnd(r, 2), 1 + rnd(r, 2), 1 + rnd(r, 2)); check_mesh(m, "hex(non-planar quads)", 1e-12); }
        { // planar, convex polygons only: regular n-gons in a random plane
          PolyMesh m; size_t n = 3 + rnd(r, 6); for (size_t i = 0; i < n; ++i) m.add_vertex(Vec3d(std::cos(6.283185307179586 * i / n), std::sin(6.283185307179586 * i / n), 0.25));
          std::vector<VH> vs; for (size_t i = 0; i < n; ++i) vs.push_back(VH(int(i))); m.add_face(vs); check_mesh(m, "planar convex n-gon", 1e-12); }
        { // planar NON-convex quad ("arrow head"), reflex corner at a random position
          PolyMesh m; std::vector<Vec3d> p = {{0, 0, 0}, {2, 0, 0}, {0.5, 0.5, 0}, {0, 2, 0}}; size_t rot = rnd(r, 4);
          std::vector<VH> vs; for (size_t i = 0; i < 4; ++i) vs.push_back(m.add_vertex(p[(i + rot) % 4])); m.add_face(vs);
          check_mesh(m, "planar non-convex quad", 1e-12); }
        { // faces with repeated vertices (bow tie: 0 1 2 0 3 4)
          PolyMesh m; for (int i = 0; i < 5; ++i) m.add_vertex(rnd_pos(r, false));
          m.add_face(std::vector<VH>{VH(0), VH(1), VH(2), VH(0), VH(3), VH(4)}); check_mesh(m, "bow-tie face", 1e-12); }
    }
    for (auto &[k, n] : g_fail) std::cout << "  " << n << " x " << k << "\n";
    return g_fail.empty() ? 0 : 1;
}
