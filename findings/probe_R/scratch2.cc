#include "common.hh"
int main() {
    IO::FileManager fm; fm.setVerbosityLevel(0);
    { // same name, different types / entities
        PolyMesh m; Rng r(3); gen_valid_poly(m, r, 10, 5, 5, 1, false); GenCfg c; c.ascii_safe = true;
        add_prop<int, Entity::Vertex>(m, "x", r, c); add_prop<double, Entity::Vertex>(m, "x", r, c); add_prop<int, Entity::Edge>(m, "x", r, c); add_prop<std::string, Entity::Mesh>(m, "x", r, c);
        add_prop<Vec3d, Entity::HalfFace>(m, "x", r, c);
        std::stringstream ss(std::ios::in|std::ios::out|std::ios::binary); IO::ovmb_write(ss, m); PolyMesh m2; auto rr = IO::ovmb_read(ss, m2); Diff d; cmp_topology(m, m2, d, true); cmp_props(m, m2, d, 0);
        std::cout << "same-name ovmb: " << IO::to_string(rr) << " diffs " << d.msgs.size() << "\n"; for (auto &x : d.msgs) std::cout << "  " << x << "\n";
        std::stringstream s; fm.writeStream(s, m); PolyMesh m3; bool ok = fm.readStream(s, m3, true, true); Diff d2; cmp_props(m, m3, d2, 1);
        std::cout << "same-name ascii: " << ok << " diffs " << d2.msgs.size() << "\n"; for (auto &x : d2.msgs) std::cout << "  " << x << "\n";
    }
    { // pending deletions
        PolyMesh m; Rng r(4); gen_valid_poly(m, r, 10, 5, 5, 1, false); m.enable_deferred_deletion(true); m.delete_vertex(VH(0));
        std::cout << "needs gc: " << m.needs_garbage_collection() << "\n";
        std::stringstream ss(std::ios::in|std::ios::out|std::ios::binary); auto wr = IO::ovmb_write(ss, m); std::cout << "ovmb write with pending deletions: " << IO::to_string(wr) << " bytes " << ss.str().size() << "\n";
        std::stringstream s; fm.writeStream(s, m); std::cout << "ascii write: good=" << s.good() << " bytes " << s.str().size() << "\n";
        std::cout << "writeFile: " << fm.writeFile("del.ovm", m) << "\n";
        m.collect_garbage(); std::stringstream s2(std::ios::in|std::ios::out|std::ios::binary); wr = IO::ovmb_write(s2, m); PolyMesh m2; auto rr = IO::ovmb_read(s2, m2); Diff d; cmp_topology(m, m2, d, true); std::cout << "after gc: " << IO::to_string(wr) << " " << IO::to_string(rr) << " diffs " << d.msgs.size() << "\n";
    }
    { // long long prop -> silently dropped?
        PolyMesh m; m.add_vertex(Vec3d(0,0,0)); auto p = *m.create_persistent_property<long long, Entity::Vertex>("ll", 5);
        std::stringstream ss(std::ios::in|std::ios::out|std::ios::binary); auto wr = IO::ovmb_write(ss, m); PolyMesh m2; auto rr = IO::ovmb_read(ss, m2); Diff d; cmp_props(m, m2, d, 0);
        std::cout << "long long: " << IO::to_string(wr) << " " << IO::to_string(rr) << " diffs " << d.msgs.size() << "\n";
    }
    { // property that holds values but entity count 0; mesh prop string w/ 5000 chars; ASCII string prop containing "\nVProp int \"x\"\n"
        PolyMesh m; m.add_vertex(Vec3d(0,0,0)); auto p = *m.create_persistent_property<std::string, Entity::Vertex>("s", "def"); p[VH(0)] = "a\nVProp int \"x\"\n7\n";
        std::stringstream s; fm.writeStream(s, m); PolyMesh m3; bool ok = fm.readStream(s, m3, true, true); Diff d2; cmp_props(m, m3, d2, 1);
        std::cout << "tricky string ascii: " << ok << " diffs " << d2.msgs.size() << "\n"; for (auto &x : d2.msgs) std::cout << "  " << x << "\n";
    }
    { // ASCII: empty string followed by others; string default non-empty and value empty
        PolyMesh m; for (int i = 0; i < 3; ++i) m.add_vertex(Vec3d(i,0,0)); auto p = *m.create_persistent_property<std::string, Entity::Vertex>("s", "def"); p[VH(0)] = "x"; p[VH(1)] = ""; p[VH(2)] = "z";
        std::stringstream s; fm.writeStream(s, m); PolyMesh m3; bool ok = fm.readStream(s, m3, true, true); Diff d2; cmp_props(m, m3, d2, 1);
        std::cout << "empty string ascii: " << ok << " diffs " << d2.msgs.size() << "\n"; for (auto &x : d2.msgs) std::cout << "  " << x << "\n";
        // read into a mesh which already has that property with non-empty values
    }
    { // vector<string>-like nested: vector_vector_hfh with empty inner vectors
        PolyMesh m; for (int i = 0; i < 2; ++i) m.add_vertex(Vec3d(i,0,0)); auto p = *m.create_persistent_property<std::vector<std::vector<HFH>>, Entity::Vertex>("vv", {});
        p[VH(0)] = {{}, {HFH(1)}, {}}; p[VH(1)] = {};
        std::stringstream s; fm.writeStream(s, m); PolyMesh m3; bool ok = fm.readStream(s, m3, true, true); Diff d2; cmp_props(m, m3, d2, 1);
        std::cout << "nested vec ascii: " << ok << " diffs " << d2.msgs.size() << "\n"; for (auto &x : d2.msgs) std::cout << "  " << x << "\n";
    }
}
