// find1 (C19): GeometryKernel::normal(HalfFaceHandle) of the two sides of one face are not opposite
// for a planar non-convex face (and for any non-planar face).
// build: g++ -std=c++17 -I/tmp/probe/R/src -I/tmp/probe/R/_build/src find1.cc /tmp/probe/R/_build/Build/lib/libOpenVolumeMesh.a -o find1
#include <OpenVolumeMesh/Mesh/PolyhedralMesh.hh>
#include <iostream>
using namespace OpenVolumeMesh;
int main() {
    GeometricPolyhedralMeshV3d m;
    // planar "arrow head" quad in the z=0 plane, counter-clockwise seen from +z; the corner at v1 is reflex
    std::vector<VertexHandle> vs = { m.add_vertex(Vec3d(2, 0, 0)), m.add_vertex(Vec3d(0.5, 0.5, 0)), m.add_vertex(Vec3d(0, 2, 0)), m.add_vertex(Vec3d(0, 0, 0)) };
    FaceHandle fh = m.add_face(vs);
    Vec3d n0 = m.normal(m.halfface_handle(fh, 0)), n1 = m.normal(m.halfface_handle(fh, 1));
    std::cout << "normal(hf0) = " << n0 << "\nnormal(hf1) = " << n1 << "\n";
    bool bad = false;
    if ((n0 + n1).norm() > 1e-12) { std::cout << "WRONG: planar face, normal(hf0) != -normal(hf1)\n"; bad = true; }
    // non-planar quad
    GeometricPolyhedralMeshV3d q;
    std::vector<VertexHandle> ws = { q.add_vertex(Vec3d(0, 0, 0)), q.add_vertex(Vec3d(1, 0, 0)), q.add_vertex(Vec3d(1, 1, 0.5)), q.add_vertex(Vec3d(0, 1, 0)) };
    FaceHandle f2 = q.add_face(ws);
    Vec3d a = q.normal(q.halfface_handle(f2, 0)), b = q.normal(q.halfface_handle(f2, 1));
    std::cout << "non-planar quad: normal(hf0) = " << a << "  normal(hf1) = " << b << "\n";
    if ((a + b).norm() > 1e-12) { std::cout << "WRONG: non-planar face, normal(hf0) != -normal(hf1), |sum| = " << (a + b).norm() << "\n"; bad = true; }
    return bad ? 1 : 0;
}
