// copy of src/OpenVolumeMesh/IO/detail/WriteBuffer.cc with the fix suggested for find8 (only used to let the sanitizer run continue)
#include <OpenVolumeMesh/IO/detail/WriteBuffer.hh>
#include <cassert>
#include <iostream>

namespace OpenVolumeMesh::IO::detail {

void WriteBuffer::need(size_t n)
{
    size_t remaining = data_.size() - pos_;
    if (n > remaining) {
        data_.resize(pos_ + n);
        assert(n == data_.size() - pos_);
    }
}
void WriteBuffer::write_to_stream(std::ostream &s)
{
    s.write(reinterpret_cast<const char*>(data_.data()), pos_);
    reset();
}

void WriteBuffer::reset()
{
    pos_ = 0;
}

std::vector<uint8_t> WriteBuffer::vec() const {
    return {data_.begin(), data_.begin() + pos_};
}

void WriteBuffer::write(const uint8_t *s, size_t n)
{
    if (n == 0) return; // suggested fix for find8
    need(n);
    std::copy(s, s + n, &data_[pos_]);
    pos_ += n;
}

uint8_t* WriteBuffer::bytes_to_write(size_t n) {
    need(n);
    uint8_t* ret = data_.data() + pos_; // suggested fix for find8
    pos_ += n;
    return ret;
}

} // namespace OpenVolumeMesh::IO::detail
