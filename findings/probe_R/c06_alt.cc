// Reads dir/mN.ovmb and dir/mN.alt.ovmb (re-encoded by reencode.py) and requires identical meshes.
// build: g++ -std=c++17 -O1 -I/tmp/probe/R/src -I/tmp/probe/R/_build/src c06_alt.cc /tmp/probe/R/_build/Build/lib/libOpenVolumeMesh.a -o c06_alt
#include "common.hh"
#include <fstream>
#include <filesystem>
template<class M> int cmp(const std::string &a, const std::string &b) {
    int bad = 0;
    for (int tc = 0; tc < 2; ++tc) {
        M x, y; IO::ReadOptions ro; ro.topology_check = false; ro.bottom_up_incidences = tc;
        std::ifstream fa(a, std::ios::binary), fb(b, std::ios::binary);
        auto ra = IO::make_ovmb_reader(fa, ro, IO::g_default_property_codecs); auto rb = IO::make_ovmb_reader(fb, ro, IO::g_default_property_codecs);
        auto r1 = ra->read_file(x); auto r2 = rb->read_file(y);
        Diff d;
        if (r1 != IO::ReadResult::Ok) d.add("original unreadable: " + ra->get_error_msg());
        else if (r2 != IO::ReadResult::Ok) d.add(std::string("re-encoded file rejected: ") + IO::to_string(r2) + " " + rb->get_error_msg());
        else { cmp_topology(x, y, d, true); cmp_props(x, y, d, 0); }
        if (!d.ok()) { ++bad; std::cout << "FAIL " << b << "\n"; for (auto &m : d.msgs) std::cout << "    " << m << "\n"; }
    }
    return bad;
}
int main(int argc, char **argv) {
    int bad = 0, n = 0;
    for (auto &e : std::filesystem::directory_iterator(argv[1])) {
        std::string p = e.path().string(); if (p.size() < 9 || p.substr(p.size() - 9) != ".alt.ovmb") continue;
        std::string orig = p.substr(0, p.size() - 9) + ".ovmb"; std::ifstream t(p.substr(0, p.size() - 9) + ".txt"); std::string st, kind; t >> st >> kind;
        ++n;
        if (kind == "tet") bad += cmp<TetMesh>(orig, p); else if (kind == "hex") bad += cmp<HexMesh>(orig, p);
        bad += cmp<PolyMesh>(orig, p);
    }
    std::cout << "files " << n << " failures " << bad << "\n"; return bad != 0;
}
