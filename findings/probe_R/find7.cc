// find7 (C06, automatic mesh-type detection):
//  (a) OVM ASCII: FileManager::isHexahedralMesh()/isTetrahedralMesh() only look at the number of halffaces per cell.
//      A polyhedral mesh of triangular bipyramids (6 triangles per cell) is reported as hexahedral, a tet plus a
//      dangling quad face as tetrahedral - but reading the file into that mesh type fails.
//  (b) OVMB: detect_topology_type() declares a polyhedral mesh "tetrahedral" as soon as all faces are triangles and all
//      cells have 4 halffaces. The file then cannot be read (topology check on) into the mesh type its header names.
// build: g++ -std=c++17 -I/tmp/probe/R/src -I/tmp/probe/R/_build/src find7.cc /tmp/probe/R/_build/Build/lib/libOpenVolumeMesh.a -o find7
#include <OpenVolumeMesh/Mesh/PolyhedralMesh.hh>
#include <OpenVolumeMesh/Mesh/TetrahedralMesh.hh>
#include <OpenVolumeMesh/Mesh/HexahedralMesh.hh>
#include <OpenVolumeMesh/FileManager/FileManager.hh>
#include <OpenVolumeMesh/IO/ovmb_read.hh>
#include <OpenVolumeMesh/IO/ovmb_write.hh>
#include <sstream>
#include <iostream>
using namespace OpenVolumeMesh;
using Poly = GeometricPolyhedralMeshV3d;
int main() {
    bool bad = false;
    IO::FileManager fm; fm.setVerbosityLevel(0);
    {   // (a1) triangular bipyramid
        Poly m; for (int i = 0; i < 5; ++i) m.add_vertex(Vec3d(i, i * i, i % 2));
        auto f = [&](int a, int b, int c) { return m.halfface_handle(m.add_face(std::vector<VertexHandle>{VertexHandle(a), VertexHandle(b), VertexHandle(c)}), 0); };
        CellHandle c = m.add_cell({f(0, 1, 3), f(1, 2, 3), f(2, 0, 3), f(1, 0, 4), f(2, 1, 4), f(0, 2, 4)}, true);
        fm.writeFile("find7_bipyramid.ovm", m);
        bool isHex = fm.isHexahedralMesh("find7_bipyramid.ovm");
        GeometricHexahedralMeshV3d h; bool readHex = fm.readFile("find7_bipyramid.ovm", h, true, true);
        std::cout << "bipyramid (cell valid: " << c.is_valid() << "): isHexahedralMesh=" << isHex << ", readFile into HexahedralMesh=" << readHex << "\n";
        if (isHex) { std::cout << "WRONG: a cell bounded by 6 triangles is detected as hexahedral mesh\n"; bad = true; }
    }
    {   // (a2) one tet + one dangling quad
        Poly m; for (int i = 0; i < 6; ++i) m.add_vertex(Vec3d(i, i * i, i % 2));
        auto f = [&](int a, int b, int c) { return m.halfface_handle(m.add_face(std::vector<VertexHandle>{VertexHandle(a), VertexHandle(b), VertexHandle(c)}), 0); };
        m.add_cell({f(0, 1, 2), f(0, 2, 3), f(0, 3, 1), f(1, 3, 2)}, true);
        m.add_face(std::vector<VertexHandle>{VertexHandle(2), VertexHandle(3), VertexHandle(4), VertexHandle(5)});
        fm.writeFile("find7_tetquad.ovm", m);
        bool isTet = fm.isTetrahedralMesh("find7_tetquad.ovm");
        GeometricTetrahedralMeshV3d t; bool readTet = fm.readFile("find7_tetquad.ovm", t, true, true);
        std::cout << "tet + quad face: isTetrahedralMesh=" << isTet << ", readFile into TetrahedralMesh=" << readTet << "\n";
        if (isTet) { std::cout << "WRONG: a mesh containing a quad face is detected as tetrahedral mesh\n"; bad = true; }
    }
    {   // (b) a "cell" of two triangle pillows: passes TopologyKernel's topology check, is no tetrahedron
        Poly m; for (int i = 0; i < 6; ++i) m.add_vertex(Vec3d(i, i * i, i % 2));
        FaceHandle f0 = m.add_face(std::vector<VertexHandle>{VertexHandle(0), VertexHandle(1), VertexHandle(2)});
        FaceHandle f1 = m.add_face(std::vector<HalfEdgeHandle>{HalfEdgeHandle(5), HalfEdgeHandle(3), HalfEdgeHandle(1)}, true);
        FaceHandle g0 = m.add_face(std::vector<VertexHandle>{VertexHandle(3), VertexHandle(4), VertexHandle(5)});
        FaceHandle g1 = m.add_face(std::vector<HalfEdgeHandle>{HalfEdgeHandle(11), HalfEdgeHandle(9), HalfEdgeHandle(7)}, true);
        CellHandle c = m.add_cell({m.halfface_handle(f0, 0), m.halfface_handle(f1, 0), m.halfface_handle(g0, 0), m.halfface_handle(g1, 0)}, true);
        std::stringstream ss(std::ios::in | std::ios::out | std::ios::binary);
        auto wr = IO::ovmb_write(ss, m); std::string bytes = ss.str();
        std::cout << "two-pillow cell (valid with topology check: " << c.is_valid() << "): ovmb_write " << IO::to_string(wr) << ", header topo_type=" << int(bytes[11]) << " (1 = tetrahedral)\n";
        std::stringstream i1(bytes), i2(bytes);
        GeometricTetrahedralMeshV3d t; Poly p;
        auto r1 = IO::make_ovmb_reader(i1, IO::ReadOptions(), IO::g_default_property_codecs)->read_file(t);
        auto r2 = IO::make_ovmb_reader(i2, IO::ReadOptions(), IO::g_default_property_codecs)->read_file(p);
        std::cout << "   read into TetrahedralMesh: " << IO::to_string(r1) << ", into PolyhedralMesh: " << IO::to_string(r2) << "\n";
        if (bytes[11] == 1 && r1 != IO::ReadResult::Ok) { std::cout << "WRONG: file is typed tetrahedral but cannot be read into a TetrahedralMesh\n"; bad = true; }
    }
    return bad ? 1 : 0;
}
