// C19: VectorT members/free functions vs. straightforward reference formulas.
// build: g++ -std=c++17 -O1 -I/tmp/probe/R/src -I/tmp/probe/R/_build/src c19_vec.cc -o c19_vec
#include <OpenVolumeMesh/Geometry/VectorT.hh>
#include <random>
#include <iostream>
#include <sstream>
#include <cstring>
#include <cmath>
#include <limits>
#include <map>
#include <algorithm>
#include <functional>
using namespace OpenVolumeMesh;
using Rng = std::mt19937_64;
static std::map<std::string, int> g_fail;
static long g_checks = 0;
template<class V> std::string str(const V &v) { std::ostringstream o; o.precision(17); o << v; return o.str(); }
#define FAIL(what, detail) do { if (g_fail[what]++ < 2) std::cout << "FAIL " << what << ": " << detail << "\n"; } while (0)

template<class S> constexpr bool is_fp = std::is_floating_point_v<S>;
template<class S> bool same(S a, S b) {
    if constexpr (is_fp<S>) { if (std::isnan(a) && std::isnan(b)) return true; return a == b && std::signbit(a) == std::signbit(b); }
    else return a == b;
}
template<class S> bool close(S a, S b, double rel = 8) {
    if constexpr (is_fp<S>) {
        if (std::isnan(a) || std::isnan(b)) return std::isnan(a) && std::isnan(b);
        if (std::isinf(a) || std::isinf(b)) return a == b;
        S tol = std::numeric_limits<S>::epsilon() * S(rel) * std::max(std::abs(a), std::abs(b));
        return std::abs(a - b) <= tol || std::abs(a - b) <= std::numeric_limits<S>::denorm_min() * 4;
    } else return a == b;
}

template<class S> S gen_scalar(Rng &r, bool special) {
    if constexpr (is_fp<S>) {
        if (special) switch (r() % 10) {
            case 0: return S(0); case 1: return -S(0); case 2: return std::numeric_limits<S>::infinity(); case 3: return -std::numeric_limits<S>::infinity();
            case 4: return std::numeric_limits<S>::quiet_NaN(); case 5: return std::numeric_limits<S>::denorm_min(); case 6: return std::numeric_limits<S>::max();
            case 7: return std::numeric_limits<S>::lowest(); case 8: return std::numeric_limits<S>::min(); default: break; }
        return S((double(r() % 2000001) - 1e6) / 512.0);
    } else if constexpr (std::is_signed_v<S>) {
        // small enough that no product/sum overflows (exactness on integers is required only where no UB arises)
        if (special && r() % 4 == 0) return S(r() % 2 ? 0 : (r() % 2 ? 1 : -1));
        return S(int(r() % 2001) - 1000);
    } else {
        if (special) switch (r() % 6) { case 0: return S(0); case 1: return std::numeric_limits<S>::max(); case 2: return S(std::numeric_limits<S>::max() - 1); default: break; }
        return S(r()); // unsigned arithmetic wraps, well defined
    }
}

template<class S, int N> struct T {
    using V = VectorT<S, N>;
    static std::string nm() { return std::string(typeid(S).name()) + std::to_string(N); }
    static V gen(Rng &r, bool special) { V v; for (int i = 0; i < N; ++i) v[i] = gen_scalar<S>(r, special); return v; }
    static bool veq(const V &a, const V &b) { for (int i = 0; i < N; ++i) if (!same(a[i], b[i])) return false; return true; }
    static bool vclose(const V &a, const V &b) { for (int i = 0; i < N; ++i) if (!close(a[i], b[i])) return false; return true; }

    static void check(const V &a, const V &b, S s) {
        ++g_checks;
        std::string n = nm();
        auto ctx = [&] { return "a=(" + str(a) + ") b=(" + str(b) + ") s=" + str(VectorT<S, 1>(s)); };
        // --- component-wise arithmetic
        { V e, e2 = a, e3 = a, e4 = a; V add, sub, mul; for (int i = 0; i < N; ++i) { add[i] = a[i] + b[i]; sub[i] = a[i] - b[i]; mul[i] = a[i] * b[i]; }
          if (!veq(a + b, add)) FAIL(n + " operator+", ctx()); if (!veq(a - b, sub)) FAIL(n + " operator-", ctx()); if (!veq(a * b, mul)) FAIL(n + " operator*(vec)", ctx());
          e2 += b; e3 -= b; e4 *= b; if (!veq(e2, add)) FAIL(n + " +=", ctx()); if (!veq(e3, sub)) FAIL(n + " -=", ctx()); if (!veq(e4, mul)) FAIL(n + " *=(vec)", ctx());
          bool divok = true; if constexpr (!is_fp<S>) for (int i = 0; i < N; ++i) if (b[i] == 0 || (std::is_signed_v<S> && b[i] == S(-1) && a[i] == std::numeric_limits<S>::min())) divok = false;
          if (divok) { V dv; for (int i = 0; i < N; ++i) dv[i] = a[i] / b[i]; V e5 = a; e5 /= b; if (!veq(a / b, dv)) FAIL(n + " operator/(vec)", ctx()); if (!veq(e5, dv)) FAIL(n + " /=(vec)", ctx()); }
          (void)e; }
        // --- scalar arithmetic
        { V ms, e = a; for (int i = 0; i < N; ++i) ms[i] = a[i] * s; if (!veq(a * s, ms)) FAIL(n + " operator*(scalar)", ctx()); if (!veq(s * a, ms)) FAIL(n + " scalar*vec", ctx()); e *= s; if (!veq(e, ms)) FAIL(n + " *=(scalar)", ctx());
          if (is_fp<S> || s != 0) { V ds, e2 = a; for (int i = 0; i < N; ++i) ds[i] = a[i] / s; if (!veq(a / s, ds)) FAIL(n + " operator/(scalar)", ctx()); e2 /= s; if (!veq(e2, ds)) FAIL(n + " /=(scalar)", ctx()); } }
        // --- negation
        { V ng; for (int i = 0; i < N; ++i) ng[i] = S(-a[i]); if (!veq(-a, ng)) FAIL(n + " unary-", ctx()); }
        // --- comparison
        { bool eq = true; for (int i = 0; i < N; ++i) if (!(a[i] == b[i])) eq = false;
          if ((a == b) != eq) FAIL(n + " operator==", ctx()); if ((a != b) != !eq) FAIL(n + " operator!=", ctx());
          bool lt = false, done = false; for (int i = 0; i < N && !done; ++i) { if (a[i] < b[i]) { lt = true; done = true; } else if (b[i] < a[i]) { lt = false; done = true; } }
          if ((a < b) != lt) FAIL(n + " operator<", ctx());
          if (!(a == a) && !std::any_of(a.begin(), a.end(), [](S x) { return x != x; })) FAIL(n + " a==a", ctx()); }
        // --- dot, sqrnorm, norm
        { auto d = a[0] * b[0]; for (int i = 1; i < N; ++i) d += a[i] * b[i];
          if (!close<decltype(d)>(a | b, d)) FAIL(n + " operator|", ctx()); if (!close<decltype(d)>(a.dot(b), d)) FAIL(n + " dot()", ctx()); if (!close<S>(dot(a, b), S(d))) FAIL(n + " free dot", ctx());
          auto q = a[0] * a[0]; for (int i = 1; i < N; ++i) q += a[i] * a[i];
          if (!close<decltype(q)>(a.sqrnorm(), q)) FAIL(n + " sqrnorm", ctx());
          auto nr = std::sqrt(q); if (!close<decltype(nr)>(a.norm(), nr)) FAIL(n + " norm", ctx()); if (!close<decltype(nr)>(a.length(), nr)) FAIL(n + " length", ctx()); }
        // --- cross
        if constexpr (N == 3) {
            V c(a[1] * b[2] - a[2] * b[1], a[2] * b[0] - a[0] * b[2], a[0] * b[1] - a[1] * b[0]);
            if (!veq(a % b, c)) FAIL(n + " operator%", ctx()); if (!veq(a.cross(b), c)) FAIL(n + " cross()", ctx()); if (!veq(cross(a, b), c)) FAIL(n + " free cross", ctx()); }
        // --- reductions
        { S mx = a[0], mn = a[0]; bool has_nan = false; for (int i = 0; i < N; ++i) { if (a[i] != a[i]) has_nan = true; }
          if (!has_nan) { for (int i = 1; i < N; ++i) { if (a[i] > mx) mx = a[i]; if (a[i] < mn) mn = a[i]; }
            if (!(a.max() == mx)) FAIL(n + " max()", ctx()); if (!(a.min() == mn)) FAIL(n + " min()", ctx());
            S sum = a[0]; for (int i = 1; i < N; ++i) sum += a[i]; if (!close<S>(a.mean(), S(sum / N))) FAIL(n + " mean", ctx() + " got " + str(VectorT<S,1>(a.mean())));
            if constexpr (std::is_signed_v<S> || is_fp<S>) {
                auto ab = [](S x) { return x < 0 ? S(-x) : (x == 0 ? S(0) : x); };
                S mxa = ab(a[0]), mna = ab(a[0]), l1 = ab(a[0]); for (int i = 1; i < N; ++i) { mxa = std::max(mxa, ab(a[i])); mna = std::min(mna, ab(a[i])); l1 += ab(a[i]); }
                if (!(a.max_abs() == mxa)) FAIL(n + " max_abs", ctx()); if (!(a.min_abs() == mna)) FAIL(n + " min_abs", ctx());
                if (!close<S>(a.l1_norm(), l1)) FAIL(n + " l1_norm", ctx()); if (!(a.l8_norm() == mxa)) FAIL(n + " l8_norm", ctx());
                if (!close<S>(a.mean_abs(), S(l1 / N))) FAIL(n + " mean_abs", ctx());
            } } }
        // --- minimize / maximize
        { bool has_nan = false; for (int i = 0; i < N; ++i) if (a[i] != a[i] || b[i] != b[i]) has_nan = true;
          if (!has_nan) { V mn, mx; bool chmin = false, chmax = false; for (int i = 0; i < N; ++i) { mn[i] = b[i] < a[i] ? b[i] : a[i]; mx[i] = a[i] < b[i] ? b[i] : a[i]; if (b[i] < a[i]) chmin = true; if (b[i] > a[i]) chmax = true; }
            V e = a; e.minimize(b); if (!veq(e, mn) && !(e == mn)) FAIL(n + " minimize", ctx()); e = a; e.maximize(b); if (!(e == mx)) FAIL(n + " maximize", ctx());
            if (!(a.min(b) == mn)) FAIL(n + " min(v)", ctx()); if (!(a.max(b) == mx)) FAIL(n + " max(v)", ctx());
            e = a; bool f1 = e.minimized(b); if (!(e == mn)) FAIL(n + " minimized value", ctx()); if (f1 != chmin) FAIL(n + " minimized flag", ctx() + " returned " + (f1 ? "true" : "false") + " but no/any component changed=" + (chmin ? "true" : "false"));
            e = a; bool f2 = e.maximized(b); if (!(e == mx)) FAIL(n + " maximized value", ctx()); if (f2 != chmax) FAIL(n + " maximized flag", ctx() + " returned " + (f2 ? "true" : "false") + " expected " + (chmax ? "true" : "false")); } }
        // --- normalisation
        if constexpr (is_fp<S>) {
            S nr = std::sqrt([&] { S q = a[0] * a[0]; for (int i = 1; i < N; ++i) q += a[i] * a[i]; return q; }());
            V nn; for (int i = 0; i < N; ++i) nn[i] = a[i] / nr;
            if (!vclose(a.normalized(), nn)) FAIL(n + " normalized", ctx()); V e = a; e.normalize(); if (!vclose(e, nn)) FAIL(n + " normalize", ctx());
            e = a; e.normalize_cond(); if (nr == 0 ? !veq(e, a) : !vclose(e, nn)) FAIL(n + " normalize_cond", ctx());
        }
        if constexpr (N == 4) { if (is_fp<S> || a[3] != 0) { V h(a[0] / a[3], a[1] / a[3], a[2] / a[3], S(1)); if (!veq(V(a.homogenized()), h)) FAIL(n + " homogenized", ctx()); } }
        // --- vectorize / apply / swap / data / size
        { V e = a; e.vectorize(s); for (int i = 0; i < N; ++i) if (!same(e[i], s)) FAIL(n + " vectorize", ctx()); V e2(s); if (!veq(e, e2)) FAIL(n + " ctor(scalar)", ctx()); if (!veq(V::vectorized(s), e2)) FAIL(n + " vectorized", ctx());
          V ap = a.apply([&](S x) { return S(x + s); }); for (int i = 0; i < N; ++i) if (!same(ap[i], S(a[i] + s))) FAIL(n + " apply", ctx());
          V x = a, y = b; x.swap(y); if (!veq(x, b) || !veq(y, a)) FAIL(n + " swap", ctx()); swap(x, y); if (!veq(x, a) || !veq(y, b)) FAIL(n + " free swap", ctx());
          if (a.data() != &a[0] || V::size() != size_t(N) || V::dim() != N) FAIL(n + " data/size", ctx());
          V it(a.data()); if (!veq(it, a)) FAIL(n + " iterator ctor", ctx()); }
        // --- stream round trip
        { bool finite = true; if constexpr (is_fp<S>) for (int i = 0; i < N; ++i) if (!std::isfinite(a[i])) finite = false;
          if (finite) { std::stringstream ss; ss.precision(std::numeric_limits<S>::max_digits10); ss << a; std::string txt = ss.str();
            std::ostringstream ref; ref.precision(std::numeric_limits<S>::max_digits10); for (int i = 0; i < N; ++i) { if (i) ref << " "; ref << a[i]; }
            if (txt != ref.str()) FAIL(n + " operator<< format", ctx());
            V e; ss >> e; if (!ss || !(e == a)) FAIL(n + " << >> round trip", ctx() + " text '" + txt + "' got (" + str(e) + ")"); } }
        // --- conversions
        { VectorT<double, N> cd(a); VectorT<float, N> cf(a); VectorT<int, N> ci; VectorT<unsigned, N> cu;
          for (int i = 0; i < N; ++i) { if (!same(cd[i], double(a[i]))) FAIL(n + " ->double", ctx()); if (!same(cf[i], float(a[i]))) FAIL(n + " ->float", ctx()); }
          bool inrange = true; if constexpr (is_fp<S>) for (int i = 0; i < N; ++i) if (!(std::abs(a[i]) < 1e9)) inrange = false;
          if (inrange) { ci = a; for (int i = 0; i < N; ++i) if (ci[i] != int(a[i])) FAIL(n + " ->int", ctx());
            bool nonneg = true; for (int i = 0; i < N; ++i) if (is_fp<S> && a[i] < 0) nonneg = false;
            if (nonneg) { cu = a; for (int i = 0; i < N; ++i) if (cu[i] != unsigned(a[i])) FAIL(n + " ->unsigned", ctx()); } } }
    }

    static void run(Rng &r, int iters) {
        for (int it = 0; it < iters; ++it) {
            bool sp = it % 3 == 0;
            V a = gen(r, sp), b = gen(r, sp);
            if (it % 7 == 0) b = a; if (it % 11 == 0) { int k = r() % N; b = a; b[k] = gen_scalar<S>(r, sp); }
            check(a, b, gen_scalar<S>(r, sp));
        }
        if constexpr (!is_fp<S> && N <= 3) { // exhaustive small lattice
            int lo = std::is_signed_v<S> ? -2 : 0, hi = std::is_signed_v<S> ? 2 : 4; int w = hi - lo + 1; long tot = 1; for (int i = 0; i < 2 * N; ++i) tot *= w;
            for (long c = 0; c < tot; ++c) { long x = c; V a, b; for (int i = 0; i < N; ++i) { a[i] = S(lo + x % w); x /= w; } for (int i = 0; i < N; ++i) { b[i] = S(lo + x % w); x /= w; } check(a, b, S(lo + c % w)); }
        }
    }
};

int main(int argc, char **argv) {
    int iters = argc > 1 ? atoi(argv[1]) : 20000; Rng r(argc > 2 ? atoi(argv[2]) : 1);
    T<int, 1>::run(r, iters); T<int, 2>::run(r, iters); T<int, 3>::run(r, iters); T<int, 4>::run(r, iters); T<int, 5>::run(r, iters); T<int, 6>::run(r, iters);
    T<unsigned, 2>::run(r, iters); T<unsigned, 3>::run(r, iters); T<unsigned, 4>::run(r, iters);
    T<long long, 2>::run(r, iters); T<long long, 3>::run(r, iters); T<long long, 4>::run(r, iters);
    T<float, 1>::run(r, iters); T<float, 2>::run(r, iters); T<float, 3>::run(r, iters); T<float, 4>::run(r, iters); T<float, 6>::run(r, iters);
    T<double, 1>::run(r, iters); T<double, 2>::run(r, iters); T<double, 3>::run(r, iters); T<double, 4>::run(r, iters); T<double, 5>::run(r, iters); T<double, 6>::run(r, iters);
    std::cout << "checks: " << g_checks << "\n";
    for (auto &[k, n] : g_fail) std::cout << "  " << n << " x " << k << "\n";
    return g_fail.empty() ? 0 : 1;
}
