#!/usr/bin/env python3
"""Independent decoder of OVMB files written strictly after extra/ovmb-kaitai/ovmb.ksy.
Deviations from the literal .ksy that were needed are counted and printed (they are defects of the description)."""
import struct, sys, os, glob
notes = {}
def note(s): notes[s] = notes.get(s, 0) + 1
class R:
    def __init__(s, b): s.b = b; s.p = 0
    def take(s, n):
        if s.p + n > len(s.b): raise ValueError("read beyond end")
        v = s.b[s.p:s.p+n]; s.p += n; return v
    def u1(s): return s.take(1)[0]
    def u2(s): return struct.unpack('<H', s.take(2))[0]
    def u4(s): return struct.unpack('<I', s.take(4))[0]
    def u8(s): return struct.unpack('<Q', s.take(8))[0]
    def eos(s): return s.p == len(s.b)
def ints(r, enc, n):
    f = {1: r.u1, 2: r.u2, 4: r.u4}[enc]
    return [f() for _ in range(n)]
def decode(b):
    r = R(b)
    assert r.take(8) == bytes([0x4f,0x56,0x4d,0x42,0x0a,0x0d,0x0a,0xff]), "magic"
    file_version, header_version, vertex_dim, topo_type = r.u1(), r.u1(), r.u1(), r.u1()
    assert r.take(4) == b'\0\0\0\0', "reserved"
    nv, ne, nf, nc = r.u8(), r.u8(), r.u8(), r.u8()
    assert topo_type in (0,1,2)
    verts = {}; ents = {1: {}, 2: {}, 3: {}}; propdir = []; props = []
    types = []
    while not r.eos():
        typ = r.take(4).decode('ascii'); version, padding, compression, flags = r.u1(), r.u1(), r.u1(), r.u1(); flen = r.u8()
        body = R(r.take(flen - padding)); pad = r.take(padding)
        assert pad == bytes(padding), "padding not zero"
        types.append(typ)
        if (r.p % 8) != 0: note("chunk end not 8-byte aligned")
        if typ == 'VERT':
            base, count = body.u8(), body.u4(); enc = body.u1(); assert body.take(3) == b'\0\0\0'
            assert enc in (1, 2)
            for i in range(count * vertex_dim):
                v = body.take(4 if enc == 1 else 8)
                if enc == 1: v = struct.pack('<d', struct.unpack('<f', v)[0])
                verts[(base * vertex_dim) + i] = struct.unpack('<Q', v)[0]
            assert body.eos(), "VERT trailing bytes"
        elif typ == 'TOPO':
            base, count = body.u8(), body.u4(); entity, valence, venc, henc = body.u1(), body.u1(), body.u1(), body.u1(); off = body.u8()
            assert entity in (1,2,3) and henc in (1,2,4)
            if valence != 0:
                hs = ints(body, henc, count * valence)
                for i in range(count): ents[entity][base + i] = [h + off for h in hs[i*valence:(i+1)*valence]]
            else:
                assert venc in (1,2,4)
                vals = ints(body, venc, count)
                # literal ksy: 'handles' has no repeat -> a single handle. Needed: sum(valences) handles.
                note("ksy topo_data_variable.handles lacks 'repeat' (decoded sum(valences) handles instead)")
                hs = ints(body, henc, sum(vals)); p = 0
                for i, v in enumerate(vals): ents[entity][base + i] = [h + off for h in hs[p:p+v]]; p += v
            assert body.eos(), "TOPO trailing bytes"
        elif typ == 'DIRP':
            while not body.eos():
                ent = body.u1(); assert ent <= 6
                name = body.take(body.u4()); tname = body.take(body.u4()).decode('utf-8'); default = body.take(body.u4())
                try: name.decode('utf-8')
                except UnicodeDecodeError: note("property name is not valid UTF-8 (ksy string4 says UTF-8)")
                propdir.append((ent, name, tname, default))
        elif typ == 'PROP':
            base, count = body.u8(), body.u4(); idx = body.u4(); data = body.take(len(body.b) - body.p)
            props.append((idx, base, count, data))
        elif typ == 'EOF ':
            assert flen == 0
        else:
            raise AssertionError("unknown chunk " + typ)
    assert types and types[-1] == 'EOF ' and types.count('EOF ') == 1, "EOF chunk"
    return dict(dim=vertex_dim, topo=topo_type, n=(nv, ne, nf, nc), verts=verts, ents=ents, propdir=propdir, props=props)

def main(d):
    bad = 0; n = 0
    for txt in sorted(glob.glob(os.path.join(d, '*.txt'))):
        n += 1
        L = open(txt).read().split('\n'); status, kind = L[0].split()
        if status != 'ok': print(txt, "writer reported failure"); bad += 1; continue
        nv, ne, nf, nc = map(int, L[1].split()); p = 2
        pos = [list(map(int, L[p+i].split())) for i in range(nv)]; p += nv
        edges = [list(map(int, L[p+i].split())) for i in range(ne)]; p += ne
        faces = [list(map(int, L[p+i].split())) for i in range(nf)]; p += nf
        cells = [list(map(int, L[p+i].split())) for i in range(nc)]; p += nc
        nprops = int(L[p]); p += 1
        exp_props = sorted((int(x.split()[0]), int(x.split()[1]), x.split()[2][:-1]) for x in L[p:p+nprops])
        try:
            m = decode(open(txt[:-4] + '.ovmb', 'rb').read())
            errs = []
            if m['n'] != (nv, ne, nf, nc): errs.append("counts %s vs %s" % (m['n'], (nv, ne, nf, nc)))
            if m['dim'] != 3: errs.append("dim")
            if m['topo'] != {'poly': None, 'tet': 1, 'hex': 2}[kind] and kind != 'poly': errs.append("topo type %d for %s" % (m['topo'], kind))
            flat = [c for v in pos for c in v]
            if [m['verts'].get(i) for i in range(3*nv)] != flat: errs.append("positions differ")
            for e, exp in ((1, edges), (2, faces), (3, cells)):
                got = [m['ents'][e].get(i) for i in range(len(exp))]
                if got != exp or len(m['ents'][e]) != len(exp): errs.append("entity kind %d differs" % e)
            got_props = []
            sizes = {0: nv, 1: ne, 2: nf, 3: nc, 4: 2*ne, 5: 2*nf, 6: 1}
            for i, (ent, name, tname, default) in enumerate(m['propdir']):
                chunks = [c for c in m['props'] if c[0] == i]
                cnt = sum(c[2] for c in chunks)
                got_props.append((ent, cnt, name.hex()))
                if cnt != sizes[ent]: errs.append("prop %d covers %d of %d elements" % (i, cnt, sizes[ent]))
            if sorted(got_props) != exp_props: errs.append("property directory differs: %s vs %s" % (sorted(got_props), exp_props))
            for c in m['props']:
                if c[0] >= len(m['propdir']): errs.append("prop idx out of range")
            if errs: bad += 1; print(txt, errs[:3])
        except (AssertionError, ValueError, KeyError) as ex:
            bad += 1; print(txt, "decode error:", repr(ex))
    print("files:", n, "bad:", bad)
    for k, v in notes.items(): print("note (%d x): %s" % (v, k))
    return 1 if bad else 0
sys.exit(main(sys.argv[1]))
