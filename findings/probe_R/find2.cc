// find2 (C19): VectorT::minimized()/maximized() report "a coordinate was minimized/maximized" although nothing changed.
// build: g++ -std=c++17 -I/tmp/probe/R/src -I/tmp/probe/R/_build/src find2.cc -o find2
#include <OpenVolumeMesh/Geometry/VectorT.hh>
#include <iostream>
using namespace OpenVolumeMesh;
int main() {
    bool bad = false;
    Vec3i a(1, 2, 3), same(1, 2, 3);
    bool f = a.minimized(same);   // nothing can be minimized
    std::cout << "Vec3i(1,2,3).minimized(Vec3i(1,2,3)) -> " << f << ", vector now " << a << "\n";
    if (f) { std::cout << "WRONG: minimized() returned true but no coordinate was lowered\n"; bad = true; }
    Vec3i b(1, 2, 3);
    bool g = b.maximized(Vec3i(1, 0, 3));   // rhs is nowhere larger
    std::cout << "Vec3i(1,2,3).maximized(Vec3i(1,0,3)) -> " << g << ", vector now " << b << "\n";
    if (g) { std::cout << "WRONG: maximized() returned true but no coordinate was raised\n"; bad = true; }
    Vec2d c(0.5, 7.0);
    if (c.minimized(Vec2d(0.5, 9.0))) { std::cout << "WRONG: Vec2d(0.5,7).minimized(Vec2d(0.5,9)) returned true\n"; bad = true; }
    return bad ? 1 : 0;
}
