#include <OpenVolumeMesh/Mesh/PolyhedralMesh.hh>
#include <iostream>
using namespace OpenVolumeMesh;
static void run(bool bu){
  GeometricPolyhedralMeshV3d m;
  m.enable_deferred_deletion(true);
  std::vector<VertexHandle> v; for(int i=0;i<5;++i) v.push_back(m.add_vertex(Vec3d(i,0,0)));
  auto f0=m.add_face({v[0],v[1],v[2]}), f1=m.add_face({v[0],v[2],v[3]}), f2=m.add_face({v[0],v[3],v[1]}), f3=m.add_face({v[1],v[3],v[2]});
  auto f4=m.add_face({v[1],v[2],v[4]}); // unrelated face
  CellHandle c = m.add_cell({m.halfface_handle(f0,0),m.halfface_handle(f1,0),m.halfface_handle(f2,0),m.halfface_handle(f3,0)}, true);
  if(!bu) m.enable_bottom_up_incidences(false);
  m.delete_cell(c);
  m.swap_face_indices(f0, f4);
  std::cout << (bu? "bottom-up on : ":"bottom-up off: ") << "deleted cell's halffaces after swap_face_indices(f0,f4):";
  for (auto h: m.cell(c).halffaces()) std::cout << " " << h.idx(); std::cout << "  (face " << f4.idx() << " is now the triangle 0,1,2)\n";
  (void)f1;(void)f2;(void)f3;
}
int main(){ run(true); run(false);
  GeometricPolyhedralMeshV3d m; std::vector<VertexHandle> v; for(int i=0;i<3;++i) v.push_back(m.add_vertex(Vec3d(i,0,0)));
  auto f=m.add_face({v[0],v[1],v[2]}); auto c=m.add_cell({m.halfface_handle(f,0),m.halfface_handle(f,1)}, true);
  std::cout << "cell {hf0,hf1} valid=" << c.is_valid() << " cell_faces:"; for (auto it=m.cf_iter(c); it.valid(); ++it) std::cout << " " << it->idx(); std::cout << "\n";
}
