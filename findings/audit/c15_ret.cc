#include <OpenVolumeMesh/Mesh/TetrahedralMesh.hh>
#include <iostream>
using namespace OpenVolumeMesh;
int main(){
  for (int fast=0; fast<2; ++fast) for (int def=0; def<2; ++def) {
  GeometricTetrahedralMeshV3d m;
  m.enable_deferred_deletion(def); m.enable_fast_deletion(fast);
  VertexHandle a=m.add_vertex(Vec3d(0,0,0)), b=m.add_vertex(Vec3d(1,0,0)), c=m.add_vertex(Vec3d(0,1,0)), d=m.add_vertex(Vec3d(0,0,1)), e=m.add_vertex(Vec3d(-1,0,0));
  m.add_cell(a,b,c,d,true); m.add_cell(a,d,c,e,true);
  VertexHandle nb = m.collapse_edge(m.find_halfedge(a,b));
  std::cout << "deferred=" << def << " fast=" << fast << " n_vertices=" << m.n_vertices() << " logical=" << m.n_logical_vertices() << " returned " << nb.idx() << " deleted? " << m.is_deleted(nb) << " pos " << m.vertex(nb) << " (b is at 1 0 0)\n";
  }
}
