#include <OpenVolumeMesh/Mesh/PolyhedralMesh.hh>
#include <iostream>
using namespace OpenVolumeMesh;
int main(){
  GeometricPolyhedralMeshV3d m;
  std::vector<VertexHandle> v; for(int i=0;i<6;++i) v.push_back(m.add_vertex(Vec3d(i,0,0)));
  FaceHandle f = m.add_face({v[0],v[1],v[2]});
  auto r = m.get_halfface_vertices(m.halfface_handle(f,0), v[5]);
  std::cout << "get_halfface_vertices(hf(0,1,2), v5 not on hf) -> " << r.size() << " vertices:"; for (auto x: r) std::cout << " " << x.idx(); std::cout << "\n";
  // duplicates in vertex->vertex
  auto e1 = m.add_edge(v[3],v[4]); auto e2 = m.add_edge(v[3],v[4],true); (void)e1;(void)e2;
  std::cout << "vv_iter(v3) with duplicate edge 3-4:"; for (auto it = m.vv_iter(v[3]); it.valid(); ++it) std::cout << " " << it->idx(); std::cout << "\n";
}
