#include <OpenVolumeMesh/Mesh/TetrahedralMesh.hh>
#include <iostream>
using namespace OpenVolumeMesh;
int main(){
  for (int mode=0; mode<2; ++mode) {
  GeometricTetrahedralMeshV3d m;
  m.enable_deferred_deletion(mode==1);
  VertexHandle a=m.add_vertex(Vec3d(0,0,0)), b=m.add_vertex(Vec3d(1,0,0)), c=m.add_vertex(Vec3d(0,1,0)), d=m.add_vertex(Vec3d(0,0,1)), e=m.add_vertex(Vec3d(-1,0,0));
  CellHandle t1 = m.add_cell(a,b,c,d,true);
  CellHandle t2 = m.add_cell(a,d,c,e,true);
  std::cout << "cells " << t1.idx() << " " << t2.idx() << "\n";
  auto ep  = m.request_edge_property<int>("ep", 0);
  auto fp  = m.request_face_property<int>("fp", 0);
  auto hep = m.request_halfedge_property<int>("hep", 0);
  auto hfp = m.request_halfface_property<int>("hfp", 0);
  // edge a-e and face (a,c,e)
  HalfEdgeHandle ae = m.find_halfedge(a,e);
  ep[m.edge_handle(ae)] = 55; hep[ae] = 11; hep[m.opposite_halfedge_handle(ae)] = 12;
  HalfFaceHandle ace;
  for (auto hf: m.cell(t2).halffaces()) { auto vs = m.get_halfface_vertices(hf); bool hb=false; for (auto v:vs) if (v==d) hb=true; bool ha=false; for(auto v:vs) if(v==a) ha=true; if(!hb && ha) ace=hf; }
  auto vs = m.get_halfface_vertices(ace);
  std::cout << "inner halfface of face on a,c,e: " << ace.idx() << " verts " << vs[0].idx()<<vs[1].idx()<<vs[2].idx() << "\n";
  fp[m.face_handle(ace)] = 77; hfp[ace] = 21; hfp[m.opposite_halfface_handle(ace)] = 22;
  VertexHandle nb = m.collapse_edge(m.find_halfedge(a,b));
  if (mode==1) { /* stay deferred */ }
  std::cout << "mode " << (mode? "deferred":"immediate") << ": b is now " << nb.idx() << ", cells " << m.n_logical_cells() << "\n";
  // find e: position (-1,0,0)
  VertexHandle ne; for (auto v: m.vertices()) if (m.vertex(v)[0] == -1) ne = v;
  HalfEdgeHandle be = m.find_halfedge(nb, ne);
  std::cout << " edge b-e: ep=" << ep[m.edge_handle(be)] << " (was 55 on a-e)  hep(b->e)=" << hep[be] << " (11) hep(e->b)=" << hep[m.opposite_halfedge_handle(be)] << " (12)\n";
  for (auto c2: m.cells()) for (auto hf: m.cell(c2).halffaces()) { auto w = m.get_halfface_vertices(hf); bool hasb=false, hase=false, hasd=false; for(auto v:w){ if(v==nb)hasb=true; if(v==ne)hase=true; if (m.vertex(v)[2]==1) hasd=true;} if(hasb&&hase&&!hasd) {
     std::cout << " face b,c,e: fp=" << fp[m.face_handle(hf)] << " (was 77)  hfp(inner)=" << hfp[hf] << " (21) hfp(outer/boundary)=" << hfp[m.opposite_halfface_handle(hf)] << " (22)\n"; } }
  }
}
