#include <OpenVolumeMesh/Mesh/PolyhedralMesh.hh>
#include <iostream>
using namespace OpenVolumeMesh;
int main(){
  GeometryKernel<Vec3i, TopologyKernel> m;
  auto a = m.add_vertex(Vec3i(1,1,1)), b = m.add_vertex(Vec3i(3,1,5)), c = m.add_vertex(Vec3i(1,3,3));
  auto e = m.add_edge(a,b);
  std::cout << "barycenter(edge (1,1,1)-(3,1,5)) = " << m.barycenter(e) << "  expected (from+to)/2 = " << (m.vertex(a)+m.vertex(b))/2 << "\n";
  auto f = m.add_face({a,b,c});
  std::cout << "barycenter(face) = " << m.barycenter(f) << " expected " << (m.vertex(a)+m.vertex(b)+m.vertex(c))/3 << "\n";
}
