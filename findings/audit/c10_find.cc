#include <OpenVolumeMesh/Mesh/PolyhedralMesh.hh>
#include <iostream>
using namespace OpenVolumeMesh;
int main(){
  { // (1) extra vertices ignored
    GeometricPolyhedralMeshV3d m;
    std::vector<VertexHandle> v; for(int i=0;i<10;++i) v.push_back(m.add_vertex(Vec3d(i,0,0)));
    FaceHandle f = m.add_face({v[0],v[1],v[2],v[3]});
    auto h = m.find_halfface({v[0],v[1],v[2],v[9]});
    std::cout << "quad 0123, find_halfface({0,1,2,9}) = " << h.idx() << " (brute force: none; extensive: " << m.find_halfface_extensive({v[0],v[1],v[2],v[9]}).idx() << ")\n";
    auto h2 = m.find_halfface({v[0],v[1],v[2]});
    std::cout << "quad 0123, find_halfface({0,1,2}) = " << h2.idx() << " (no triangle 012 stored)\n";
  }
  { // (2) duplicate edges: incompleteness
    GeometricPolyhedralMeshV3d m;
    std::vector<VertexHandle> v; for(int i=0;i<4;++i) v.push_back(m.add_vertex(Vec3d(i,0,0)));
    EdgeHandle e1 = m.add_edge(v[0],v[1]);           // first copy, no face
    EdgeHandle e2 = m.add_edge(v[0],v[1], true);     // duplicate
    EdgeHandle e3 = m.add_edge(v[1],v[2]);
    EdgeHandle e4 = m.add_edge(v[2],v[0]);
    FaceHandle f = m.add_face({m.halfedge_handle(e2,0), m.halfedge_handle(e3,0), m.halfedge_handle(e4,0)}, true);
    std::cout << "face " << f.idx() << " on duplicate edge e2: find_halfface({0,1,2}) = " << m.find_halfface({v[0],v[1],v[2]}).idx()
      << ", extensive = " << m.find_halfface_extensive({v[0],v[1],v[2]}).idx()
      << ", rotated {1,2,0} = " << m.find_halfface({v[1],v[2],v[0]}).idx() << "\n";
    (void)e1;
  }
}
