// Model-based random tester for OpenVolumeMesh TopologyKernel (C01,C02,C03,C04,C12,C17)
// Build (Release lib):
//   g++ -std=c++17 -O1 -g -I/tmp/probe/K/src -I/tmp/probe/K/_build/src harness.cc \
//       /tmp/probe/K/_build/Build/lib/libOpenVolumeMesh.a -o harness
// Build (ASan/UBSan lib):
//   clang++ -std=c++17 -O1 -g -fsanitize=address,undefined -D_GLIBCXX_ASSERTIONS -I/tmp/probe/K/src \
//       -I/tmp/probe/K/_build_san/src harness.cc /tmp/probe/K/_build_san/Build/lib/libOpenVolumeMesh.a -o harness_san
// Run: ./harness <kernel:poly|tet|hex> <seed0> <nseeds> <maxops> [skip=cat1,cat2,...] [verbose]
#include <OpenVolumeMesh/Core/TopologyKernel.hh>
#include <OpenVolumeMesh/Mesh/TetrahedralMeshTopologyKernel.hh>
#include <OpenVolumeMesh/Mesh/HexahedralMeshTopologyKernel.hh>
#include <OpenVolumeMesh/Attribs/StatusAttrib.hh>
#include <algorithm>
#include <iostream>
#include <map>
#include <optional>
#include <random>
#include <set>
#include <sstream>
#include <string>
#include <vector>

using namespace OpenVolumeMesh;
using std::vector; using std::string; using std::pair; using std::set; using std::map;

struct Fail { string cat; string msg; };
static set<string> g_skip;       // generator features to avoid (known findings)
static bool g_verbose = false;
static map<string,long> g_stats;
static bool skip(const string& s) { return g_skip.count(s) > 0; }

static int valI(int key) { return key * 7 + 3; }
static bool valB(int key) { return ((unsigned(key) * 2654435761u) >> 7) & 1u; }
static string valS(int key) { return "s" + std::to_string(key); }
static const int DEF_I = -1; static const bool DEF_B = true; static const char* DEF_S = "def";

template <class Tag> struct PropSet {
    std::optional<PropertyPtr<int, Tag>> pi;
    std::optional<PropertyPtr<bool, Tag>> pb;
    std::optional<PropertyPtr<string, Tag>> ps;
    void reset() { pi.reset(); pb.reset(); ps.reset(); }
};

typedef vector<pair<int,int>> LDef; // (label, side)
struct Model {
    set<int> V; map<int, pair<int,int>> E; map<int, LDef> F; map<int, LDef> C;
    size_t pV = 0, pE = 0, pF = 0, pC = 0; // pending (deferred-deleted) slot counts
    int next = 1;
    void clear() { V.clear(); E.clear(); F.clear(); C.clear(); pV = pE = pF = pC = 0; }
};

template <class Mesh> struct Side {   // one mesh + its label/props
    Mesh m;
    std::optional<VertexPropertyT<int>> lv; std::optional<EdgePropertyT<int>> le;
    std::optional<FacePropertyT<int>> lf; std::optional<CellPropertyT<int>> lc;
    PropSet<Entity::Vertex> pv; PropSet<Entity::Edge> pe; PropSet<Entity::HalfEdge> phe;
    PropSet<Entity::Face> pf; PropSet<Entity::HalfFace> phf; PropSet<Entity::Cell> pc;
    std::optional<MeshPropertyT<int>> mi; std::optional<MeshPropertyT<bool>> mb; std::optional<MeshPropertyT<string>> ms;
    void make_labels() {
        lv = m.template request_vertex_property<int>("lab", 0);
        le = m.template request_edge_property<int>("lab", 0);
        lf = m.template request_face_property<int>("lab", 0);
        lc = m.template request_cell_property<int>("lab", 0);
    }
    int L(VertexHandle h) const { return (*lv)[h]; }
    int L(EdgeHandle h) const { return (*le)[h]; }
    int L(FaceHandle h) const { return (*lf)[h]; }
    int L(CellHandle h) const { return (*lc)[h]; }
    int K(HalfEdgeHandle h) const { return 2 * L(h.edge_handle()) + h.subidx(); }
    int K(HalfFaceHandle h) const { return 2 * L(h.face_handle()) + h.subidx(); }
    int K(VertexHandle h) const { return L(h); }
    int K(EdgeHandle h) const { return L(h); }
    int K(FaceHandle h) const { return L(h); }
    int K(CellHandle h) const { return L(h); }
};

enum Kind { POLY, TET, HEX };
template <class M> struct KindOf { static const Kind k = POLY; };
template <> struct KindOf<TetrahedralMeshTopologyKernel> { static const Kind k = TET; };
template <> struct KindOf<HexahedralMeshTopologyKernel> { static const Kind k = HEX; };

template <class Mesh> struct Runner {
    Side<Mesh> A;   // primary (bottom-up kinds toggled)
    Side<Mesh> B;   // twin: all bottom-up incidences always enabled (C12 reference)
    Model mod;
    std::mt19937 rng;
    vector<string> log;
    static const Kind kind = KindOf<Mesh>::k;
    unsigned maxV = 12;

    explicit Runner(unsigned seed) : rng(seed) { A.make_labels(); B.make_labels(); }
    int rnd(int n) { return n <= 0 ? 0 : int(rng() % unsigned(n)); }
    bool coin(int pct = 50) { return rnd(100) < pct; }
    void L(const string& s) { log.push_back(s); { string k = s.substr(0, s.find_first_of("( ")); if (k == "delete_vertex" || k == "delete_edge" || k == "delete_face" || k == "delete_cell" || k == "collect_garbage") k += string(A.m.deferred_deletion_enabled() ? "/deferred" : "/immediate") + (A.m.fast_deletion_enabled() ? "/fast" : "/slow") + (A.m.has_full_bottom_up_incidences() ? "/fullBU" : "/partBU") + (A.m.n_logical_cells() ? "/cells" : "/nocells"); g_stats[k]++; } if (g_verbose) std::cerr << "  " << s << std::endl; }
    [[noreturn]] void fail(const string& cat, const string& msg) { throw Fail{cat, msg}; }

    // ---------- helpers on primary mesh -----------
    template <class H> vector<H> live() const;
    vector<VertexHandle> liveV() const { vector<VertexHandle> r; for (int i = 0; i < (int)A.m.n_vertices(); ++i) if (!A.m.is_deleted(VertexHandle(i))) r.push_back(VertexHandle(i)); return r; }
    vector<EdgeHandle> liveE() const { vector<EdgeHandle> r; for (int i = 0; i < (int)A.m.n_edges(); ++i) if (!A.m.is_deleted(EdgeHandle(i))) r.push_back(EdgeHandle(i)); return r; }
    vector<FaceHandle> liveF() const { vector<FaceHandle> r; for (int i = 0; i < (int)A.m.n_faces(); ++i) if (!A.m.is_deleted(FaceHandle(i))) r.push_back(FaceHandle(i)); return r; }
    vector<CellHandle> liveC() const { vector<CellHandle> r; for (int i = 0; i < (int)A.m.n_cells(); ++i) if (!A.m.is_deleted(CellHandle(i))) r.push_back(CellHandle(i)); return r; }

    vector<EdgeHandle> edgesBetween(VertexHandle a, VertexHandle b) const {
        vector<EdgeHandle> r;
        for (auto e : liveE()) { auto& ed = A.m.edge(e);
            if ((ed.from_vertex() == a && ed.to_vertex() == b) || (ed.from_vertex() == b && ed.to_vertex() == a)) r.push_back(e); }
        return r;
    }
    HalfEdgeHandle heFromTo(EdgeHandle e, VertexHandle a) const { return e.halfedge_handle(A.m.edge(e).from_vertex() == a ? 0 : 1); }

    // ---------- property values -----------
    template <class Tag, class H> void setVals(Side<Mesh>& S, PropSet<Tag>& P, H h) {
        int k = S.K(h);
        if (P.pi) (*P.pi)[h] = valI(k);
        if (P.pb) (*P.pb)[h] = valB(k);
        if (P.ps) (*P.ps)[h] = valS(k);
    }
    template <class Tag, class H> void chkDefault(Side<Mesh>& S, PropSet<Tag>& P, H h, const char* what) {
        if (P.pi && (*P.pi)[h] != DEF_I) fail("C03.default", string(what) + " int prop of new entity " + std::to_string(h.idx()) + " = " + std::to_string((*P.pi)[h]));
        if (P.pb && (*P.pb)[h] != DEF_B) fail("C03.default", string(what) + " bool prop of new entity " + std::to_string(h.idx()) + " not default");
        if (P.ps && (*P.ps)[h] != DEF_S) fail("C03.default", string(what) + " string prop of new entity " + std::to_string(h.idx()) + " = " + (*P.ps)[h]);
        (void)S;
    }
    template <class Tag, class H> void chkVals(const Side<Mesh>& S, const PropSet<Tag>& P, H h, const char* what) {
        int k = S.K(h);
        if (P.pi && (*P.pi)[h] != valI(k)) fail(string("C03.value.") + what, string(what) + " int prop at handle " + std::to_string(h.idx()) + " key " + std::to_string(k) + " has " + std::to_string((*P.pi)[h]) + " expected " + std::to_string(valI(k)));
        if (P.pb && (*P.pb)[h] != valB(k)) fail(string("C03.value.") + what, string(what) + " bool prop at handle " + std::to_string(h.idx()) + " key " + std::to_string(k) + " wrong");
        if (P.ps && (*P.ps)[h] != valS(k)) fail(string("C03.value.") + what, string(what) + " string prop at handle " + std::to_string(h.idx()) + " key " + std::to_string(k) + " has " + (*P.ps)[h]);
    }
    template <class Tag> void chkSize(const PropSet<Tag>& P, size_t n, const char* what) {
        if (P.pi && P.pi->size() != n) fail("C03.size", string(what) + " int prop size " + std::to_string(P.pi->size()) + " != " + std::to_string(n));
        if (P.pb && P.pb->size() != n) fail("C03.size", string(what) + " bool prop size " + std::to_string(P.pb->size()) + " != " + std::to_string(n));
        if (P.ps && P.ps->size() != n) fail("C03.size", string(what) + " string prop size " + std::to_string(P.ps->size()) + " != " + std::to_string(n));
    }

    // label a fresh entity on both meshes (handle must be identical on both)
    void labelV(VertexHandle h) { for (Side<Mesh>* S : {&A, &B}) { if (S->L(h) != 0) fail("C03.default", "new vertex label not default"); chkDefault(*S, S->pv, h, "V"); (*S->lv)[h] = mod.next; setVals(*S, S->pv, h); } mod.V.insert(mod.next++); }
    int labelE(EdgeHandle h, int lfrom, int lto) {
        for (Side<Mesh>* S : {&A, &B}) { if (S->L(h) != 0) fail("C03.default", "new edge label not default"); chkDefault(*S, S->pe, h, "E");
            chkDefault(*S, S->phe, h.halfedge_handle(0), "HE"); chkDefault(*S, S->phe, h.halfedge_handle(1), "HE");
            (*S->le)[h] = mod.next; setVals(*S, S->pe, h); setVals(*S, S->phe, h.halfedge_handle(0)); setVals(*S, S->phe, h.halfedge_handle(1)); }
        mod.E[mod.next] = {lfrom, lto}; return mod.next++;
    }
    int labelF(FaceHandle h, const LDef& d) {
        for (Side<Mesh>* S : {&A, &B}) { if (S->L(h) != 0) fail("C03.default", "new face label not default"); chkDefault(*S, S->pf, h, "F");
            chkDefault(*S, S->phf, h.halfface_handle(0), "HF"); chkDefault(*S, S->phf, h.halfface_handle(1), "HF");
            (*S->lf)[h] = mod.next; setVals(*S, S->pf, h); setVals(*S, S->phf, h.halfface_handle(0)); setVals(*S, S->phf, h.halfface_handle(1)); }
        mod.F[mod.next] = d; return mod.next++;
    }
    int labelC(CellHandle h, const LDef& d) {
        for (Side<Mesh>* S : {&A, &B}) { if (S->L(h) != 0) fail("C03.default", "new cell label not default"); chkDefault(*S, S->pc, h, "C"); (*S->lc)[h] = mod.next; setVals(*S, S->pc, h); }
        mod.C[mod.next] = d; return mod.next++;
    }

#include "harness_ops.inc"
#include "harness_check.inc"
};

template <class Mesh> int run_kernel(const char* kname, unsigned seed0, unsigned nseeds, int maxops) {
    map<string, int> cats; map<string, pair<size_t, string>> shortest;
    for (unsigned s = seed0; s < seed0 + nseeds; ++s) {
        Runner<Mesh> R(s);
        try { R.run(maxops); }
        catch (Fail& f) {
            cats[f.cat]++;
            std::ostringstream os; os << "kernel=" << kname << " seed=" << s << " ops=" << R.log.size() << "\n";
            for (auto& l : R.log) os << "    " << l << "\n";
            os << "  => [" << f.cat << "] " << f.msg << "\n";
            if (!shortest.count(f.cat) || shortest[f.cat].first > R.log.size()) shortest[f.cat] = {R.log.size(), os.str()};
        }
    }
    std::cout << "== kernel " << kname << " seeds " << seed0 << ".." << seed0 + nseeds - 1 << " maxops " << maxops << "\n";
    for (auto& c : cats) std::cout << "  " << c.first << ": " << c.second << " failing histories\n";
    for (auto& c : shortest) std::cout << "--- shortest for " << c.first << ":\n" << c.second.second;
    if (getenv("STATS")) for (auto& c : g_stats) std::cout << "  stat " << c.first << " " << c.second << "\n";
    return cats.empty() ? 0 : 1;
}

int main(int argc, char** argv) {
    if (argc < 5) { std::cerr << "usage: harness poly|tet|hex seed0 nseeds maxops [skip=a,b] [verbose]\n"; return 2; }
    string k = argv[1]; unsigned s0 = std::stoul(argv[2]), ns = std::stoul(argv[3]); int mo = std::stoi(argv[4]);
    for (int i = 5; i < argc; ++i) { string a = argv[i];
        if (a.rfind("skip=", 0) == 0) { std::stringstream ss(a.substr(5)); string t; while (std::getline(ss, t, ',')) g_skip.insert(t); }
        if (a == "verbose") g_verbose = true; }
    if (k == "poly") return run_kernel<TopologyKernel>("poly", s0, ns, mo);
    if (k == "tet") return run_kernel<TetrahedralMeshTopologyKernel>("tet", s0, ns, mo);
    if (k == "hex") return run_kernel<HexahedralMeshTopologyKernel>("hex", s0, ns, mo);
    return 2;
}
