#include <OpenVolumeMesh/Mesh/TetrahedralMeshTopologyKernel.hh>
#include <iostream>
#include <map>
using namespace OpenVolumeMesh;
int main(int argc, char** argv) {
    int bad = 0;
    for (int mode = 0; mode < 4; ++mode) {
        TetrahedralMeshTopologyKernel m; m.enable_deferred_deletion(mode & 1); m.enable_fast_deletion(mode & 2);
        VertexHandle a = m.add_vertex(), b = m.add_vertex(), c = m.add_vertex(), d = m.add_vertex(), e = m.add_vertex();
        auto vl = m.request_vertex_property<int>("vl", -1); auto el = m.request_edge_property<int>("el", -1); auto hel = m.request_halfedge_property<int>("hel", -1);
        auto fl = m.request_face_property<int>("fl", -1); auto hfl = m.request_halfface_property<int>("hfl", -1); auto cl = m.request_cell_property<int>("cl", -1);
        CellHandle t1 = m.add_cell(a, b, c, d), t2 = m.add_cell(a, d, c, e);
        if (!t1.is_valid() || !t2.is_valid()) { std::cout << "setup failed\n"; return 2; }
        for (auto v : m.vertices()) vl[v] = 100 + v.idx();
        // key every entity by its vertex set so that it can be found again
        auto ekey = [&](EdgeHandle h) { auto x = m.edge(h); int p = vl[x.from_vertex()], q = vl[x.to_vertex()]; return std::min(p, q) * 1000 + std::max(p, q); };
        std::map<int, int> E; std::map<std::pair<int,int>, int> HE;
        for (auto h : m.edges()) { el[h] = ekey(h); }
        for (auto h : m.halfedges()) { hel[h] = vl[m.from_vertex_handle(h)] * 1000 + vl[m.to_vertex_handle(h)]; }
        auto fkey = [&](HalfFaceHandle h) { long k = 0; auto vs = m.get_halfface_vertices(h); int mn = 0; for (int i = 1; i < 3; ++i) if (vl[vs[i]] < vl[vs[mn]]) mn = i; for (int i = 0; i < 3; ++i) k = k * 1000 + vl[vs[(mn + i) % 3]]; return (int)(k % 1000000007); };
        for (auto h : m.halffaces()) hfl[h] = fkey(h);
        for (auto h : m.faces()) fl[h] = std::min(fkey(h.halfface_handle(0)), fkey(h.halfface_handle(1)));
        cl[t1] = 1; cl[t2] = 2;
        HalfEdgeHandle ab = m.find_halfedge(a, b);
        VertexHandle s = m.collapse_edge(ab);     // a is merged into b
        std::cout << "mode deferred=" << (mode & 1) << " fast=" << ((mode & 2) >> 1) << ": surviving vertex " << s.idx() << " label " << vl[s] << " n_cells(log)=" << m.n_logical_cells() << "\n";
        if (vl[s] != 101) { std::cout << "  WRONG: returned vertex is not b\n"; bad = 1; }
        for (auto v : m.vertices()) if (vl[v] != 100 + 1 && vl[v] != 102 && vl[v] != 103 && vl[v] != 104) { std::cout << "  WRONG vertex label " << vl[v] << "\n"; bad = 1; }
        for (auto h : m.edges()) if (el[h] != ekey(h)) { std::cout << "  edge (" << ekey(h) << ") has edge-prop " << el[h] << (ekey(h) / 1000 == 101 && (el[h] / 1000 == 100) ? " (was on the removed edge; new edge)" : "  WRONG") << "\n"; }
        for (auto h : m.halfedges()) { int k = vl[m.from_vertex_handle(h)] * 1000 + vl[m.to_vertex_handle(h)]; if (hel[h] != k) { std::cout << "  halfedge " << k << " now carries halfedge-prop " << hel[h] << "  <-- surviving halfedge lost its value\n"; bad = 1; } }
        for (auto h : m.halffaces()) if (hfl[h] != fkey(h)) { std::cout << "  halfface " << fkey(h) << " now carries halfface-prop " << hfl[h] << "  <-- surviving halfface lost its value\n"; bad = 1; }
        for (auto h : m.faces()) { int k = std::min(fkey(h.halfface_handle(0)), fkey(h.halfface_handle(1))); if (fl[h] != k) std::cout << "  face " << k << " has face-prop " << fl[h] << "\n"; }
        for (auto h : m.cells()) std::cout << "  cell " << h.idx() << " prop " << cl[h] << "\n";
    }
    return bad;
}
