// find1: add_edge()/add_face(vertices) without vertex bottom-up incidences hand out a DEFERRED-DELETED edge (C12)
// g++ -std=c++17 -I/tmp/probe/K/src -I/tmp/probe/K/_build/src find1.cc /tmp/probe/K/_build/Build/lib/libOpenVolumeMesh.a -o find1
// ANALYSIS: TopologyKernel::add_edge, src/OpenVolumeMesh/Core/TopologyKernel.cc:134-142 (branch taken when
//   !has_vertex_bottom_up_incidences()): the linear scan over edges_ does not skip deferred-deleted edges, so a pending-deleted
//   edge between the two vertices is returned as "already existing".  With vertex bottom-up incidences the lookup goes through
//   outgoing_hes_per_vertex_, from which delete_edge_core has already removed the edge, and a new edge is created.
//   add_face(const std::vector<VertexHandle>&) (line 255/263) inherits the defect: the new live face is defined on a deleted edge
//   and collect_garbage() then leaves it with dangling/out-of-range halfedge handles.
// FIX: in the scan add `if (is_deleted(EdgeHandle(i))) continue;` (or iterate `for (auto eh: edges())`, the iterator skips deleted).
#include <OpenVolumeMesh/Core/TopologyKernel.hh>
#include <iostream>
using namespace OpenVolumeMesh;
int main() {
    int bad = 0;
    for (int vbu = 1; vbu >= 0; --vbu) {
        TopologyKernel m;                       // deferred deletion is on by default
        m.enable_vertex_bottom_up_incidences(vbu);
        VertexHandle a = m.add_vertex(), b = m.add_vertex(), c = m.add_vertex();
        EdgeHandle e = m.add_edge(a, b);
        m.delete_edge(e);                       // pending deletion
        EdgeHandle e2 = m.add_edge(a, b);       // must be a new live edge
        std::cout << "vertex bottom-up " << (vbu ? "on " : "off") << ": add_edge returned " << e2.idx()
                  << " is_deleted=" << m.is_deleted(e2) << " n_edges=" << m.n_edges() << " n_logical_edges=" << m.n_logical_edges() << "\n";
        if (m.is_deleted(e2) || m.n_logical_edges() != 1) { std::cout << "  WRONG: add_edge handed out a deleted edge; no live edge a-b exists\n"; bad = 1; }
        FaceHandle f = m.add_face(std::vector<VertexHandle>{a, b, c});
        for (auto he : m.face(f).halfedges()) if (m.is_deleted(he)) { std::cout << "  WRONG: live face " << f.idx() << " is defined on deleted halfedge " << he.idx() << "\n"; bad = 1; }
        m.collect_garbage();
        std::cout << "  after collect_garbage: n_faces=" << m.n_faces() << " n_edges=" << m.n_edges() << "\n";
        for (auto fh : m.faces()) for (auto he : m.face(fh).halfedges()) if (!m.is_valid(he)) { std::cout << "  WRONG: face refers to out-of-range halfedge " << he.idx() << "\n"; bad = 1; }
    }
    return bad;
}
