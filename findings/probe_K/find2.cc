// find2: swap_cell_indices(live, deferred-deleted) corrupts halfface->cell incidences when the live cell
// was re-added on the halffaces of the deleted one (C17, also C01)
// g++ -std=c++17 -I/tmp/probe/K/src -I/tmp/probe/K/_build/src find2.cc /tmp/probe/K/_build/Build/lib/libOpenVolumeMesh.a -o find2
// ANALYSIS: TopologyKernel::swap_cell_indices, src/OpenVolumeMesh/Core/TopologyKernel.cc:1456-1465: the two fix-up loops run one
//   after the other on the same incident_cell_per_hf_ entries.  If cells_[_h1] (live) and cells_[_h2] (deferred-deleted) list the
//   same halfface, loop 1 rewrites the entry _h1 -> _h2 and loop 2 immediately rewrites it back _h2 -> _h1; after the swap the
//   live cell sits at index _h2 but its halffaces point to _h1, the deleted slot.  (The call order (deleted, live), which is what
//   collect_garbage uses, happens to work.)
// FIX: decide per halfface before writing, e.g. collect the halffaces whose entry == _h1 and those whose entry == _h2 first and
//   then assign, or do a single pass over the union: `auto &c = incident_cell_per_hf_[hfh]; if (c==_h1) c=_h2; else if (c==_h2) c=_h1;`
//   with each halfface visited once.
#include <OpenVolumeMesh/Core/TopologyKernel.hh>
#include <iostream>
using namespace OpenVolumeMesh;
int main() {
    TopologyKernel m;                          // deferred deletion on, all bottom-up incidences on
    VertexHandle v[4]; for (auto& x : v) x = m.add_vertex();
    std::vector<HalfFaceHandle> hfs = {
        m.add_face(std::vector<VertexHandle>{v[0], v[1], v[2]}).halfface_handle(0), m.add_face(std::vector<VertexHandle>{v[0], v[2], v[3]}).halfface_handle(0),
        m.add_face(std::vector<VertexHandle>{v[0], v[3], v[1]}).halfface_handle(0), m.add_face(std::vector<VertexHandle>{v[1], v[3], v[2]}).halfface_handle(0)};
    CellHandle c0 = m.add_cell(hfs, true);
    m.delete_cell(c0);                         // pending
    CellHandle c1 = m.add_cell(hfs, true);     // re-add on the same halffaces: legal, no halfface used by two live cells
    int bad = 0;
    for (auto h : hfs) if (m.incident_cell(h) != c1) bad = 2;
    if (bad) { std::cout << "unexpected state before swap\n"; return bad; }
    m.swap_cell_indices(c1, c0);               // live cell now has index 0, deleted slot is index 1
    std::cout << "after swap_cell_indices(1,0): is_deleted(0)=" << m.is_deleted(CellHandle(0)) << " is_deleted(1)=" << m.is_deleted(CellHandle(1)) << "\n";
    for (auto h : hfs) {
        CellHandle ic = m.incident_cell(h);
        std::cout << "  incident_cell(HF " << h.idx() << ") = " << ic.idx() << (ic == CellHandle(0) ? "" : "   WRONG: expected 0 (the live cell); got the deleted slot") << "\n";
        if (ic != CellHandle(0)) bad = 1;
    }
    m.swap_cell_indices(c1, c0);               // second identical swap (checked too; in this instance it happens to restore the entries)
    for (auto h : hfs) if (m.incident_cell(h) != c1) { std::cout << "  WRONG: swapping twice does not restore incident_cell(HF " << h.idx() << "): " << m.incident_cell(h).idx() << "\n"; bad = 1; }
    return bad;
}
