// find3: TetrahedralMeshTopologyKernel::collapse_edge overwrites halfedge/halfface property values of
// pre-existing, surviving entities (C03, "tetrahedral edge collapse")
// g++ -std=c++17 -I/tmp/probe/K/src -I/tmp/probe/K/_build/src find3.cc /tmp/probe/K/_build/Build/lib/libOpenVolumeMesh.a -o find3
// ANALYSIS: TetrahedralMeshTopologyKernel::collapse_edge, src/OpenVolumeMesh/Mesh/TetrahedralMeshTopologyKernel.cc:379 and :384:
//   `swap_property_elements(hf.halfedges()[j], heh)` / `swap_property_elements(c.halffaces()[hf_idx], hfh)` are executed also when
//   add_halfedge()/add_halfface() returned an entity that already existed (e.g. edge b-c, face (b,c,d) of the collapsing cell).
//   The surviving entity's halfedge/halfface value is replaced by the value of the entity that is about to be deleted (and swapped
//   back again if an even number of re-created cells touch it); edge/face properties of the very same entities are left alone.
// FIX: only transfer values onto entities created by this call (handle index >= n_halfedges()/n_halffaces() before the add), and
//   use copy_property_elements(old,new) instead of swap; never touch pre-existing targets.
#include <OpenVolumeMesh/Mesh/TetrahedralMeshTopologyKernel.hh>
#include <iostream>
using namespace OpenVolumeMesh;
int main() {
    TetrahedralMeshTopologyKernel m;
    VertexHandle a = m.add_vertex(), b = m.add_vertex(), c = m.add_vertex(), d = m.add_vertex(), e = m.add_vertex();
    m.add_cell(a, b, c, d);                    // collapses (contains a and b)
    m.add_cell(a, d, c, e);                    // survives as (b,d,c,e)
    auto vid = m.request_vertex_property<int>("id", -1);
    for (auto v : m.vertices()) vid[v] = v.idx();
    auto hep = m.request_halfedge_property<int>("hep", -1);
    auto hfp = m.request_halfface_property<int>("hfp", -1);
    auto ep = m.request_edge_property<int>("ep", -1);
    // the edge b-c and the face (b,c,d) exist before the collapse and are not incident to the removed vertex a
    HalfEdgeHandle bc = m.find_halfedge(b, c); HalfFaceHandle bdc = m.find_halfface(std::vector<VertexHandle>{b, d, c});
    if (!bc.is_valid() || !bdc.is_valid()) { std::cout << "setup failed\n"; return 2; }
    hep[bc] = 777; hep[bc.opposite_handle()] = 778; ep[bc.edge_handle()] = 779; hfp[bdc] = 888; hfp[bdc.opposite_handle()] = 889;
    HalfEdgeHandle ac = m.find_halfedge(a, c); hep[ac] = 1; hep[ac.opposite_handle()] = 2;   // values on the edge that disappears
    HalfFaceHandle adc = m.find_halfface(std::vector<VertexHandle>{a, d, c}); hfp[adc] = 3;
    VertexHandle s = m.collapse_edge(m.find_halfedge(a, b));   // merge a into b
    // locate b, c, d again by id
    VertexHandle B, C, D; for (auto v : m.vertices()) { if (vid[v] == 1) B = v; if (vid[v] == 2) C = v; if (vid[v] == 3) D = v; }
    int bad = 0; if (s != B) { std::cout << "returned vertex is not b\n"; bad = 1; }
    HalfEdgeHandle bc2 = m.find_halfedge(B, C); HalfFaceHandle bdc2 = m.find_halfface(std::vector<VertexHandle>{B, D, C});
    std::cout << "edge prop     (b,c): " << ep[bc2.edge_handle()] << " (779 before)\n";
    std::cout << "halfedge prop b->c : " << hep[bc2] << " (777 before)" << (hep[bc2] != 777 ? "   WRONG: overwritten with the value of removed halfedge a->c" : "") << "\n";
    std::cout << "halfedge prop c->b : " << hep[bc2.opposite_handle()] << " (778 before)" << (hep[bc2.opposite_handle()] != 778 ? "   WRONG" : "") << "\n";
    std::cout << "halfface prop (b,d,c): " << hfp[bdc2] << " (888 before)" << (hfp[bdc2] != 888 ? "   WRONG: overwritten with the value of removed halfface (a,d,c)" : "") << "\n";
    if (ep[bc2.edge_handle()] != 779 || hep[bc2] != 777 || hep[bc2.opposite_handle()] != 778 || hfp[bdc2] != 888 || hfp[bdc2.opposite_handle()] != 889) bad = 1;
    return bad;
}
