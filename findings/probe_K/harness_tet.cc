// Tet-kernel local operations (collapse_edge / split_edge / split_face) under the four deletion modes.
// g++ -std=c++17 -O1 -g -I/tmp/probe/K/src -I/tmp/probe/K/_build/src harness_tet.cc /tmp/probe/K/_build/Build/lib/libOpenVolumeMesh.a -o harness_tet
// ./harness_tet seed0 nseeds
#define main harness_main
#include "harness.cc"
#undef main
struct TM : TetrahedralMeshTopologyKernel { using TetrahedralMeshTopologyKernel::split_edge; using TetrahedralMeshTopologyKernel::split_face; };
typedef std::multiset<vector<int>> CellSet;
static CellSet cellset(const TM& m, const VertexPropertyT<int>& id) {
    CellSet r; for (auto c : m.cells()) { std::set<int> s; for (auto hf : m.cell(c).halffaces()) for (auto he : m.halfface(hf).halfedges()) s.insert(id[m.from_vertex_handle(he)]); r.insert(vector<int>(s.begin(), s.end())); } return r;
}
static bool sharedHF(const TM& m) { std::set<int> u; for (auto c : m.cells()) for (auto hf : m.cell(c).halffaces()) if (!u.insert(hf.idx()).second) return true; return false; }
int main(int argc, char** argv) {
    unsigned s0 = argc > 1 ? std::stoul(argv[1]) : 1, ns = argc > 2 ? std::stoul(argv[2]) : 100; map<string,int> cats; map<string,string> first; long nops = 0, ninvalid = 0;
    for (unsigned seed = s0; seed < s0 + ns; ++seed) {
        Runner<TM> R(seed); TM& m = R.A.m; std::ostringstream logss; std::ostream& log = getenv("VERBOSE") ? (std::ostream&)std::cerr : (std::ostream&)logss; if (getenv("VERBOSE")) std::cerr << "--- seed " << seed << "\n";
        try {
            bool def = R.coin(), fast = R.coin(); m.enable_deferred_deletion(def); m.enable_fast_deletion(fast); log << "deferred=" << def << " fast=" << fast << "\n";
            auto id = m.request_vertex_property<int>("id", -1); auto cp = m.request_cell_property<int>("cp", -1); int nextid = 0, nextc = 1000;
            int nv = 5 + R.rnd(4); for (int i = 0; i < nv; ++i) id[m.add_vertex()] = nextid++;
            // random tet complex: try random 4-subsets, keep if all 4 halffaces are free
            for (int t = 0; t < 12; ++t) {
                vector<VertexHandle> vs; for (auto v : m.vertices()) vs.push_back(v); std::shuffle(vs.begin(), vs.end(), R.rng); vs.resize(4);
                // orientation: try both
                for (int o = 0; o < 2; ++o) { vector<VertexHandle> q = vs; if (o) std::swap(q[0], q[1]);
                    bool ok = true; int tri[4][3] = {{0,1,2},{0,2,3},{0,3,1},{1,3,2}};
                    for (auto& f : tri) { auto hf = m.find_halfface(vector<VertexHandle>{q[f[0]], q[f[1]], q[f[2]]}); if (hf.is_valid() && m.incident_cell(hf).is_valid()) ok = false; }
                    // also no existing cell with the same vertex set
                    std::set<int> key; for (auto v : q) key.insert(id[v]); for (auto& c : cellset(m, id)) if (c == vector<int>(key.begin(), key.end())) ok = false;
                    if (!ok) continue;
                    CellHandle c = m.add_cell(q[0], q[1], q[2], q[3], true); if (c.is_valid()) { cp[c] = nextc++; log << "add_cell(" << q[0].idx() << "," << q[1].idx() << "," << q[2].idx() << "," << q[3].idx() << ")\n"; } break; }
            }
            R.check_incidences(R.A, "built");
            for (int step = 0; step < 4; ++step) {
                vector<EdgeHandle> es; for (auto e : m.edges()) es.push_back(e); vector<FaceHandle> fs; for (auto f : m.faces()) fs.push_back(f); if (es.empty()) break;
                CellSet before = cellset(m, id); map<vector<int>,int> cpBefore; for (auto c : m.cells()) { std::set<int> s; for (auto hf : m.cell(c).halffaces()) for (auto he : m.halfface(hf).halfedges()) s.insert(id[m.from_vertex_handle(he)]); cpBefore[vector<int>(s.begin(), s.end())] = cp[c]; }
                int w = R.rnd(3); ++nops;
                if (w == 0) {
                    HalfEdgeHandle he = es[R.rnd(es.size())].halfedge_handle(R.rnd(2)); int a = id[m.from_vertex_handle(he)], b = id[m.to_vertex_handle(he)];
                    { // pre-check (link condition): after substituting a->b no oriented triangle may be used by two surviving cells and no cell may degenerate
                      std::set<vector<int>> tris; bool invalid = false;
                      for (auto c : m.cells()) { std::set<int> cv; vector<vector<int>> ts; for (auto hf : m.cell(c).halffaces()) { vector<int> t; for (auto h2 : m.halfface(hf).halfedges()) { int x = id[m.from_vertex_handle(h2)]; cv.insert(x); t.push_back(x == a ? b : x); } std::rotate(t.begin(), std::min_element(t.begin(), t.end()), t.end()); ts.push_back(t); }
                          if (cv.count(a) && cv.count(b)) continue; for (auto& t : ts) if (!tris.insert(t).second) invalid = true; }
                      if (invalid) { ++ninvalid; continue; } }
                    log << "collapse_edge(HE " << he.idx() << ": v" << a << "->v" << b << ")\n";
                    VertexHandle s = m.collapse_edge(he);
                    if (sharedHF(m)) { ++ninvalid; break; }   // collapse violated the link condition: caller's fault
                    if (!m.is_valid(s) || m.is_deleted(s) || id[s] != b) throw Fail{"TET.collapse.return", "collapse_edge returned a handle that is not the surviving vertex (id " + std::to_string(m.is_valid(s) ? id[s] : -99) + ", expected " + std::to_string(b) + ")"};
                    CellSet exp; map<vector<int>,int> cpExp; for (auto& c : before) { bool ha = std::count(c.begin(), c.end(), a), hb = std::count(c.begin(), c.end(), b); if (ha && hb) continue; auto d = c; for (auto& x : d) if (x == a) x = b; std::sort(d.begin(), d.end()); exp.insert(d); cpExp[d] = cpBefore[c]; }
                    bool dupl = false; for (auto& c : exp) if (exp.count(c) > 1) dupl = true; if (dupl) { ++ninvalid; break; }
                    if (cellset(m, id) != exp) throw Fail{"TET.collapse.cells", "cells after collapse are not the substituted survivors"};
                    for (auto c : m.cells()) { std::set<int> s2; for (auto hf : m.cell(c).halffaces()) for (auto he2 : m.halfface(hf).halfedges()) s2.insert(id[m.from_vertex_handle(he2)]); if (cp[c] != cpExp[vector<int>(s2.begin(), s2.end())]) throw Fail{"TET.collapse.cellprop", "cell property did not follow its cell through collapse_edge"}; }
                    for (auto v : m.vertices()) if (id[v] == a) throw Fail{"TET.collapse.vertex", "collapsed vertex still live"};
                } else if (w == 1) {
                    HalfEdgeHandle he = es[R.rnd(es.size())].halfedge_handle(R.rnd(2)); VertexHandle nv2 = m.add_vertex(); id[nv2] = nextid++;
                    log << "split_edge(HE " << he.idx() << ", new v" << id[nv2] << ")\n"; int a = id[m.from_vertex_handle(he)], b = id[m.to_vertex_handle(he)], n = id[nv2];
                    m.split_edge(he, nv2);
                    CellSet exp; for (auto& c : before) { bool ha = std::count(c.begin(), c.end(), a), hb = std::count(c.begin(), c.end(), b); if (!(ha && hb)) { exp.insert(c); continue; } auto d1 = c, d2 = c; for (auto& x : d1) if (x == a) x = n; for (auto& x : d2) if (x == b) x = n; std::sort(d1.begin(), d1.end()); std::sort(d2.begin(), d2.end()); exp.insert(d1); exp.insert(d2); }
                    if (cellset(m, id) != exp) throw Fail{"TET.split_edge.cells", "cells after split_edge wrong"};
                } else {
                    if (fs.empty()) continue; FaceHandle f = fs[R.rnd(fs.size())]; VertexHandle nv2 = m.add_vertex(); id[nv2] = nextid++; int n = id[nv2];
                    std::set<int> fv; for (auto he : m.face(f).halfedges()) fv.insert(id[m.from_vertex_handle(he)]);
                    log << "split_face(F " << f.idx() << ", new v" << n << ")\n";
                    m.split_face(f, nv2);
                    CellSet exp; for (auto& c : before) { bool all = true; for (int x : fv) if (!std::count(c.begin(), c.end(), x)) all = false; if (!all) { exp.insert(c); continue; } for (int x : fv) { auto d = c; for (auto& y : d) if (y == x) y = n; std::sort(d.begin(), d.end()); exp.insert(d); } }
                    if (cellset(m, id) != exp) throw Fail{"TET.split_face.cells", "cells after split_face wrong"};
                }
                if (m.deferred_deletion_enabled() != def) throw Fail{"TET.mode", "deferred mode not restored"};
                if (!def && m.needs_garbage_collection()) throw Fail{"TET.mode", "pending deletions left in immediate mode"};
                // ids unique among live vertices
                { std::set<int> s; for (auto v : m.vertices()) if (!s.insert(id[v]).second) throw Fail{"TET.vprop", "vertex id property duplicated"}; }
                R.check_incidences(R.A, "after-op");
                if (R.coin(30)) { m.collect_garbage(); log << "collect_garbage()\n"; R.check_incidences(R.A, "after-gc"); }
            }
        } catch (Fail& f) { cats[f.cat]++; if (!first.count(f.cat)) first[f.cat] = "seed " + std::to_string(seed) + "\n" + logss.str() + " => " + f.msg + "\n"; }
    }
    std::cout << "tet local ops: " << ns << " histories, " << nops << " ops, " << ninvalid << " discarded (link condition)\n";
    for (auto& c : cats) std::cout << "  " << c.first << ": " << c.second << "\n"; for (auto& c : first) std::cout << "--- " << c.first << ": " << c.second;
    return cats.empty() ? 0 : 1;
}
