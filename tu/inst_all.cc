// Instantiation unit: contains no logic of its own.  It forces clang to
// instantiate the header-only templates of OpenVolumeMesh for the common mesh
// types so that the extractor sees the repository's own bodies.
#include <OpenVolumeMesh/Mesh/PolyhedralMesh.hh>
#include <OpenVolumeMesh/Mesh/TetrahedralMesh.hh>
#include <OpenVolumeMesh/Mesh/HexahedralMesh.hh>
#include <OpenVolumeMesh/Mesh/TetrahedralGeometryKernel.hh>
#include <OpenVolumeMesh/FileManager/FileManager.hh>
#include <OpenVolumeMesh/IO/ovmb_read.hh>
#include <OpenVolumeMesh/IO/ovmb_write.hh>
#include <OpenVolumeMesh/IO/PropertyCodecs.hh>
#include <OpenVolumeMesh/IO/PropertyCodecsT_impl.hh>
#include <OpenVolumeMesh/Attribs/StatusAttrib.hh>
#include <OpenVolumeMesh/Attribs/NormalAttrib.hh>
#include <OpenVolumeMesh/Attribs/ColorAttrib.hh>
#include <OpenVolumeMesh/Attribs/TexCoordAttrib.hh>
#include <OpenVolumeMesh/Attribs/InterfaceAttrib.hh>
#include <OpenVolumeMesh/Util/SmartTagger.hh>
#include <OpenVolumeMesh/Unstable/Topology/TetTopology.hh>
#include <OpenVolumeMesh/Unstable/Topology/TriangleTopology.hh>
#include <OpenVolumeMesh/Core/detail/swap_bool.hh>

#include <istream>
#include <ostream>
#include <set>
#include <string>
#include <vector>

namespace OVM = OpenVolumeMesh;
using OVM::Geometry::Vec3d;
using OVM::Geometry::Vec3f;

// --- geometry kernels: all members of the class template
template class OVM::GeometryKernel<Vec3d, OVM::TopologyKernel>;
template class OVM::GeometryKernel<Vec3d, OVM::TetrahedralMeshTopologyKernel>;
template class OVM::GeometryKernel<Vec3d, OVM::HexahedralMeshTopologyKernel>;
template class OVM::TetrahedralGeometryKernel<Vec3d, OVM::TetrahedralMeshTopologyKernel>;

// --- vectors
template class OVM::Geometry::VectorT<double, 3>;
template class OVM::Geometry::VectorT<int, 3>;
template class OVM::Geometry::VectorT<float, 2>;
template class OVM::Geometry::VectorT<double, 4>;

namespace verif_inst {

template <class MeshT>
void use_io(MeshT &m, const MeshT &cm, std::istream &is, std::ostream &os) {
  OVM::IO::FileManager fm;
  (void)fm.readStream(is, m, true, true);
  (void)fm.readFile(std::string(), m, true, true);
  fm.writeStream(os, cm);
  (void)fm.writeFile(std::string(), cm);
  (void)OVM::IO::ovmb_read(is, m);
  (void)OVM::IO::ovmb_write(os, cm);
}
template void use_io(OVM::GeometricPolyhedralMeshV3d &, const OVM::GeometricPolyhedralMeshV3d &, std::istream &, std::ostream &);
template void use_io(OVM::GeometricTetrahedralMeshV3d &, const OVM::GeometricTetrahedralMeshV3d &, std::istream &, std::ostream &);
template void use_io(OVM::GeometricHexahedralMeshV3d &, const OVM::GeometricHexahedralMeshV3d &, std::istream &, std::ostream &);
template void use_io(OVM::GeometricPolyhedralMeshV3f &, const OVM::GeometricPolyhedralMeshV3f &, std::istream &, std::ostream &);

template <class T, class E>
void use_props(OVM::TopologyKernel &m, const OVM::TopologyKernel &cm) {
  auto p = m.template request_property<T, E>("n", T());
  auto s = m.template create_shared_property<T, E>("n", T());
  auto q = m.template create_persistent_property<T, E>("n", T());
  auto r = cm.template create_private_property<T, E>("n", T());
  auto g = m.template get_property<T, E>("n");
  auto gc = cm.template get_property<T, E>("n");
  (void)cm.template property_exists<T, E>("n");
  m.template set_persistent(p, true);
  m.template set_shared(p, true);
  m.template clear_props<E>();
  (void)m.template n_props<E>();
  (void)m.template n_persistent_props<E>();
  OVM::PropertyPtr<T, E> copy(p);
  copy = r;
  typename OVM::PropertyPtr<T, E>::EntityHandleT h(0);
  (void)p[h];
  (void)p.at(h);
  const auto &cp = p;
  (void)cp[h];
  (void)cp.at(h);
  p.fill(T());
  p.set_name("x");
  (void)p.name();
  (void)p.size();
  (void)p.persistent();
  (void)p.shared();
  (void)p.anonymous();
  (void)static_cast<bool>(p);
  (void)p.def();
  (void)s; (void)q; (void)g; (void)gc;
  for (auto it = m.template persistent_props_begin<E>(); it != m.template persistent_props_end<E>(); ++it) {
    auto c = (*it)->clone();
    (*it)->resize(3);
    (*it)->swap(0, 1);
    (*it)->delete_element(0);
    (*it)->clear();
    (*it)->reserve(4);
    (void)c;
  }
}
#define VERIF_PROPS_FOR(T)                                  \
  template void use_props<T, OVM::Entity::Vertex>(OVM::TopologyKernel &, const OVM::TopologyKernel &);   \
  template void use_props<T, OVM::Entity::Edge>(OVM::TopologyKernel &, const OVM::TopologyKernel &);     \
  template void use_props<T, OVM::Entity::HalfEdge>(OVM::TopologyKernel &, const OVM::TopologyKernel &); \
  template void use_props<T, OVM::Entity::Face>(OVM::TopologyKernel &, const OVM::TopologyKernel &);     \
  template void use_props<T, OVM::Entity::HalfFace>(OVM::TopologyKernel &, const OVM::TopologyKernel &); \
  template void use_props<T, OVM::Entity::Cell>(OVM::TopologyKernel &, const OVM::TopologyKernel &);     \
  template void use_props<T, OVM::Entity::Mesh>(OVM::TopologyKernel &, const OVM::TopologyKernel &);
VERIF_PROPS_FOR(int)
VERIF_PROPS_FOR(bool)
VERIF_PROPS_FOR(double)
VERIF_PROPS_FOR(std::string)
VERIF_PROPS_FOR(Vec3d)

template <class MeshT>
void use_status(MeshT &m) {
  OVM::StatusAttrib st(m);
  st.garbage_collection(true);
  std::vector<OVM::VertexHandle *> vs;
  std::vector<OVM::HalfEdgeHandle *> hes;
  std::vector<OVM::HalfFaceHandle *> hfs;
  std::vector<OVM::CellHandle *> cs;
  st.garbage_collection(vs, hes, hfs, cs, true);
  OVM::NormalAttrib<MeshT> na(m);
  na.update_vertex_normals();
  na.update_face_normals();
  OVM::ColorAttrib<Vec3d> ca(m);
  ca.clear_vertex_colors();
  OVM::TexCoordAttrib<Vec3d> ta(m);
  OVM::InterfaceAttrib ia(m);
}
template void use_status(OVM::GeometricPolyhedralMeshV3d &);
template void use_status(OVM::GeometricTetrahedralMeshV3d &);
template void use_status(OVM::GeometricHexahedralMeshV3d &);

void use_ranges(const OVM::TopologyKernel &m, const OVM::TetrahedralMeshTopologyKernel &t, const OVM::HexahedralMeshTopologyKernel &h) {
  OVM::VertexHandle v(0);
  OVM::HalfEdgeHandle he(0);
  OVM::EdgeHandle e(0);
  OVM::HalfFaceHandle hf(0);
  OVM::FaceHandle f(0);
  OVM::CellHandle c(0);
  for (auto x : m.vertices()) (void)x;
  for (auto x : m.edges()) (void)x;
  for (auto x : m.halfedges()) (void)x;
  for (auto x : m.faces()) (void)x;
  for (auto x : m.halffaces()) (void)x;
  for (auto x : m.cells()) (void)x;
  for (auto x : m.outgoing_halfedges(v)) (void)x;
  for (auto x : m.incoming_halfedges(v)) (void)x;
  for (auto x : m.vertex_edges(v)) (void)x;
  for (auto x : m.vertex_halffaces(v)) (void)x;
  for (auto x : m.vertex_faces(v)) (void)x;
  for (auto x : m.vertex_cells(v)) (void)x;
  for (auto x : m.vertex_vertices(v)) (void)x;
  for (auto x : m.halfedge_halffaces(he)) (void)x;
  for (auto x : m.halfedge_faces(he)) (void)x;
  for (auto x : m.halfedge_cells(he)) (void)x;
  for (auto x : m.edge_halffaces(e)) (void)x;
  for (auto x : m.edge_faces(e)) (void)x;
  for (auto x : m.edge_cells(e)) (void)x;
  for (auto x : m.halfface_halfedges(hf)) (void)x;
  for (auto x : m.halfface_edges(hf)) (void)x;
  for (auto x : m.halfface_vertices(hf)) (void)x;
  for (auto x : m.face_halfedges(f)) (void)x;
  for (auto x : m.face_edges(f)) (void)x;
  for (auto x : m.face_vertices(f)) (void)x;
  for (auto x : m.face_cells(f)) (void)x;
  for (auto x : m.cell_vertices(c)) (void)x;
  for (auto x : m.cell_halfedges(c)) (void)x;
  for (auto x : m.cell_edges(c)) (void)x;
  for (auto x : m.cell_halffaces(c)) (void)x;
  for (auto x : m.cell_faces(c)) (void)x;
  for (auto x : m.cell_cells(c)) (void)x;
  for (auto it = m.bv_iter(); it.valid(); ++it) (void)*it;
  for (auto it = m.bhe_iter(); it.valid(); ++it) (void)*it;
  for (auto it = m.be_iter(); it.valid(); ++it) (void)*it;
  for (auto it = m.bhf_iter(); it.valid(); ++it) (void)*it;
  for (auto it = m.bf_iter(); it.valid(); ++it) (void)*it;
  for (auto it = m.bc_iter(); it.valid(); --it) (void)*it;
  for (auto x : m.boundary_halfface_halffaces(hf)) (void)x;
  for (auto x : t.tet_vertices(c)) (void)x;
  for (auto x : h.hex_vertices(c)) (void)x;
  for (auto x : h.cell_sheet_cells(c, 0)) (void)x;
  for (auto x : h.halfface_sheet_halffaces(hf)) (void)x;
}

template <class V>
void use_vec(V a, V b, typename V::value_type s) {
  a += b; a -= b; a *= b; a /= b; a *= s; a /= s;
  (void)(a + b); (void)(a - b); (void)(a * b); (void)(a / b); (void)(a * s); (void)(a / s); (void)(-a);
  (void)(a | b); (void)a.dot(b); (void)a.sqrnorm(); (void)a.l1_norm(); (void)a.l8_norm();
  (void)a.max(); (void)a.min(); (void)a.max_abs(); (void)a.min_abs(); (void)a.mean(); (void)a.mean_abs(); (void)a.apply([](typename std::decay<decltype(a[0])>::type x_) { return x_; });
  a.minimize(b); a.maximize(b); (void)a.minimized(b); (void)a.maximized(b); (void)a.min(b); (void)a.max(b);
  (void)(a == b); (void)(a != b); (void)(a < b);
  if constexpr (std::is_floating_point_v<typename V::value_type>) { (void)a.norm(); (void)a.length(); a.normalize(); (void)a.normalized(); a.normalize_cond(); }
  if constexpr (V::dim() == 3) { (void)(a % b); (void)a.cross(b); }
  if constexpr (V::dim() == 4 && std::is_floating_point_v<typename V::value_type>) { (void)a.homogenized(); }
}
template void use_vec(OVM::Geometry::Vec3d, OVM::Geometry::Vec3d, double);
template void use_vec(OVM::Geometry::Vec3i, OVM::Geometry::Vec3i, int);
template void use_vec(OVM::Geometry::Vec2f, OVM::Geometry::Vec2f, float);
template void use_vec(OVM::Geometry::Vec4d, OVM::Geometry::Vec4d, double);
template void use_vec(OVM::Geometry::Vec4i, OVM::Geometry::Vec4i, int);

void use_tagger(OVM::TopologyKernel &m) {
  OVM::SmartTaggerBool<OVM::Entity::Vertex> tb(m);
  tb.reset();
  tb.set(OVM::VertexHandle(0), true);
  (void)tb.get(OVM::VertexHandle(0));
  (void)tb[OVM::VertexHandle(0)];
}

}  // namespace verif_inst

// the entity-named convenience wrappers of ResourceManager (rule C14.tag)
#define OVM_VERIF_NAMED(K)                                                         \
  (void)m.template request_##K##_property<T>("n", T());                            \
  (void)m.template create_shared_##K##_property<T>("n", T());                      \
  (void)m.template create_persistent_##K##_property<T>("n", T());                  \
  (void)cm.template create_private_##K##_property<T>("n", T());                    \
  (void)m.template get_##K##_property<T>("n");                                     \
  (void)cm.template get_##K##_property<T>("n");                                    \
  (void)cm.template K##_property_exists<T>("n");                                   \
  (void)cm.n_##K##_props();                                                        \
  (void)cm.K##_props_begin();                                                      \
  (void)cm.K##_props_end();                                                        \
  m.clear_##K##_props();
template <class T>
void use_named_props(OVM::TopologyKernel &m, const OVM::TopologyKernel &cm) {
  OVM_VERIF_NAMED(vertex)
  OVM_VERIF_NAMED(edge)
  OVM_VERIF_NAMED(halfedge)
  OVM_VERIF_NAMED(face)
  OVM_VERIF_NAMED(halfface)
  OVM_VERIF_NAMED(cell)
  (void)m.template request_mesh_property<T>("n", T());
  m.clear_mesh_props();
}
template void use_named_props<int>(OVM::TopologyKernel &, const OVM::TopologyKernel &);

// all members of the generic circulator wrapper, incl. the arithmetic operators nothing in the library calls (rule C05.arith)
template class OpenVolumeMesh::GenericCirculator<OpenVolumeMesh::detail::VertexEdgeIterImpl>;

// a geometry kernel with integer positions: the result types of the metric queries must not be the scalar type (rule C19.geom, F69)
namespace verif_inst {
using IntGeom = OpenVolumeMesh::GeometryKernel<OpenVolumeMesh::Geometry::Vec3i, OpenVolumeMesh::TopologyKernel>;
inline auto int_edge_length(const IntGeom &m, OpenVolumeMesh::EdgeHandle e, OpenVolumeMesh::HalfEdgeHandle h) { return m.length(e) + m.length(h); }
inline auto int_edge_barycenter(const IntGeom &m, OpenVolumeMesh::EdgeHandle e) { return m.barycenter(e); }
auto (*int_edge_length_ptr)(const IntGeom &, OpenVolumeMesh::EdgeHandle, OpenVolumeMesh::HalfEdgeHandle) = &int_edge_length;
auto (*int_edge_barycenter_ptr)(const IntGeom &, OpenVolumeMesh::EdgeHandle) = &int_edge_barycenter;
}  // namespace verif_inst
