"""Rule family G - guarded access to the optional bottom-up incidence caches (C12).

Everything is derived from the program: the three (cache, flag, has-fn, enable-fn,
compute-fn) tuples come from the shape of enable_*_bottom_up_incidences, predicate
summaries come from the return expressions of bool functions, contracts from the
propagation of unmet requirements along the resolved call graph."""
from collections import defaultdict

from .extract import AnalysisBroken
from .facts import estr, unwrap, walk

TK = "OpenVolumeMesh::TopologyKernel"
WHOLE_OPS = {"clear", "size", "empty", "reserve", "resize", "capacity", "shrink_to_fit"}


def iter_sites(fn):
    """DFS over the resolved top-level trees: yields (node, parents(list, outermost first), pos)"""
    for b, i, top in fn.tops():
        stack = [(top, [], (b, i))]
        while stack:
            n, parents, pos = stack.pop()
            if isinstance(n, dict):
                if "_at" in n:
                    pos = n["_at"]
                yield n, parents, pos
                np = parents + [n]
                for k, v in n.items():
                    if k == "_at":
                        continue
                    if isinstance(v, (dict, list)):
                        stack.append((v, np, pos))
            elif isinstance(n, list):
                for x in n:
                    stack.append((x, parents, pos))


def parent_skipping(parents, kinds=("upcast",)):
    for p in reversed(parents):
        if p.get("k") in kinds or "k" not in p:
            continue
        return p
    return None


class CacheModel:
    """the three optional caches, derived from enable_*/has_* in TopologyKernel"""

    def __init__(self, fb):
        self.fb = fb
        rec = fb.records.get(TK)
        if not rec:
            raise AnalysisBroken("record %s not found" % TK)
        fields = {f["n"]: f for f in rec["fields"]}
        self.flag_of_has = {}  # has-fn id -> flag field
        for f in fb.by_cls.get(TK, []):
            if f.d.get("const") and f.d.get("ret") == "bool" and not f.d["params"] and f.has_cfg:
                rets = [n for _, _, n in f.tops() if n.get("k") == "ret"]
                if len(rets) == 1:
                    x = unwrap(rets[0]["x"])
                    if isinstance(x, dict) and x.get("k") == "mem" and x.get("o") == TK and x.get("t") == "bool":
                        self.flag_of_has[f.id] = x["f"]
        self.kinds = {}  # kind key (cache field name) -> dict
        for f in fb.by_cls.get(TK, []):
            ps = f.d["params"]
            if len(ps) != 1 or ps[0]["t"] != "bool" or not f.has_cfg or f.d.get("const"):
                continue
            flag = None
            cleared = []
            for b, i, n in f.tops():
                if n.get("k") == "asg" and n["op"] == "=":
                    l, r = unwrap(n["l"]), unwrap(n["r"])
                    if l.get("k") == "mem" and l.get("o") == TK and l.get("t") == "bool" and r.get("k") == "var" and r.get("s") == "param":
                        flag = l["f"]
            for b, i, n in f.nodes(("call",)):
                if n.get("pn", "").endswith("::clear"):
                    r = unwrap(f.resolve(n.get("r")))
                    if isinstance(r, dict) and r.get("k") == "mem" and r.get("o") == TK and "HandleIndexing" in r.get("t", ""):
                        cleared.append(r["f"])
            if flag and len(cleared) == 1 and flag in self.flag_of_has.values():
                cache = cleared[0]
                has = [h for h, fl in self.flag_of_has.items() if fl == flag]
                # compute-fn: TopologyKernel method called here that clears and resizes the cache
                comp = None
                for b, i, n, tgt in fb.callees(f, virtual_fanout=False):
                    if tgt is None or tgt.cls != TK or not tgt.has_cfg or tgt.d["params"]:
                        continue
                    ops = set()
                    for _, _, c in tgt.nodes(("call",)):
                        r = unwrap(tgt.resolve(c.get("r"))) if c.get("r") else None
                        if isinstance(r, dict) and r.get("k") == "mem" and r.get("f") == cache:
                            ops.add(c.get("pn", "").split("::")[-1])
                    if {"clear", "resize"} <= ops:
                        comp = tgt.id
                ent = fields[cache]["t"].split("Entity::")[1].split(",")[0] if "Entity::" in fields[cache]["t"] else "?"
                self.kinds[cache] = {"cache": cache, "flag": flag, "has": has, "enable": f.id, "compute": comp, "entity": ent, "enable_name": f.name}
        if len(self.kinds) != 3:
            raise AnalysisBroken("expected 3 optional caches derived from enable_*_bottom_up_incidences, found %d: %s" % (len(self.kinds), sorted(self.kinds)))
        for k in self.kinds.values():
            if not k["compute"] or not k["has"]:
                raise AnalysisBroken("cache %s: compute/has function not identified" % k["cache"])
        self.all = frozenset(self.kinds)
        self.kind_of_flag = {k["flag"]: c for c, k in self.kinds.items()}
        self.kind_of_has = {h: c for c, k in self.kinds.items() for h in k["has"]}
        self.kind_of_enable = {k["enable"]: c for c, k in self.kinds.items()}
        self.kind_of_compute = {k["compute"]: c for c, k in self.kinds.items()}
        # enable-all: a bool-param function that calls all three enable functions with its parameter
        self.enable_all = set()
        for f in fb.by_cls.get(TK, []):
            ps = f.d["params"]
            if len(ps) == 1 and ps[0]["t"] == "bool" and f.has_cfg:
                called = set()
                for b, i, n in f.nodes(("call",)):
                    if n.get("u") in self.kind_of_enable and len(n.get("a", [])) == 1:
                        a = unwrap(f.resolve(n["a"][0]))
                        if a.get("k") == "var" and a.get("s") == "param":
                            called.add(self.kind_of_enable[n["u"]])
                if called == set(self.all):
                    self.enable_all.add(f.id)
        self._pred = {}
        self._pred_busy = set()

    # ---- predicate summaries: kinds guaranteed available when the expression is true
    def kinds_true(self, fn, e, depth=0):
        e = unwrap(e)
        if not isinstance(e, dict) or depth > 8:
            return frozenset()
        k = e.get("k")
        if k == "lit":
            return self.all if e.get("v") is False else frozenset()
        if k == "mem" and e.get("o") == TK and e.get("f") in self.kind_of_flag:
            return frozenset([self.kind_of_flag[e["f"]]])
        if k == "bin" and e.get("op") == "&&":
            return self.kinds_true(fn, e["l"], depth + 1) | self.kinds_true(fn, e["r"], depth + 1)
        if k == "bin" and e.get("op") == "||":
            return self.kinds_true(fn, e["l"], depth + 1) & self.kinds_true(fn, e["r"], depth + 1)
        if k == "call":
            u = e.get("u")
            if u in self.kind_of_has:
                return frozenset([self.kind_of_has[u]])
            return self.pred_summary(u)
        if k == "var" and e.get("t") in ("bool", "const bool") and e.get("s") == "local" and fn is not None:
            init = single_assignment_init(fn, e["id"])
            if init is not None:
                return self.kinds_true(fn, init, depth + 1)
            return self.flag_var_kinds(fn, e["id"])
        return frozenset()

    def flag_var_kinds(self, fn, var_id):
        """local `bool v = false; ... v = true;` idiom: v true implies whatever is established
        at every place where v is set to true (the variable must only ever be assigned literals)"""
        av = getattr(self, "availability", None)
        if av is None:
            return frozenset()
        res = None
        for n, parents, pos in iter_sites(fn):
            k = n.get("k")
            if k == "decl":
                for v in n["vars"]:
                    if v["id"] == var_id:
                        init = unwrap(v.get("init"))
                        if not (isinstance(init, dict) and init.get("k") == "lit" and init.get("v") is False):
                            return frozenset()
            elif k == "asg":
                l = unwrap(n["l"])
                if isinstance(l, dict) and l.get("k") == "var" and l.get("id") == var_id:
                    r = unwrap(n["r"])
                    if n["op"] != "=" or not (isinstance(r, dict) and r.get("k") == "lit" and isinstance(r.get("v"), bool)):
                        return frozenset()
                    if r["v"] is True:
                        have = set()
                        for epos, ks in av.establishers(fn):
                            if fn.dominates(epos, pos):
                                have |= ks
                        res = frozenset(have) if res is None else (res & have)
            elif k == "un" and n["op"] == "&":
                l = unwrap(n["x"])
                if isinstance(l, dict) and l.get("k") == "var" and l.get("id") == var_id:
                    return frozenset()
        return res or frozenset()

    def pred_summary(self, fid):
        """kinds implied by a bool function returning true (intersection over its returns)"""
        if fid in self._pred:
            return self._pred[fid]
        f = self.fb.fns.get(fid)
        if f is None or not f.has_cfg or f.d.get("ret") != "bool" or fid in self._pred_busy:
            return frozenset()
        self._pred_busy.add(fid)
        res = None
        for b, i, n in f.tops():
            if n.get("k") == "ret" and b in f.reach():
                s = self.kinds_true(f, n.get("x"))
                res = s if res is None else (res & s)
        self._pred_busy.discard(fid)
        self._pred[fid] = res if res is not None else frozenset()
        return self._pred[fid]


def single_assignment_init(fn, var_id):
    """initialiser of a local that is declared once and never assigned afterwards"""
    init = None
    for b, i, n in fn.tops():
        for x in walk(n):
            if x.get("k") == "decl":
                for v in x["vars"]:
                    if v["id"] == var_id:
                        if init is not None:
                            return None
                        init = v.get("init")
            elif x.get("k") in ("asg",):
                l = unwrap(x["l"])
                if isinstance(l, dict) and l.get("k") == "var" and l.get("id") == var_id:
                    return None
            elif x.get("k") == "un" and x["op"] in ("pre++", "pre--", "post++", "post--", "&"):
                l = unwrap(x["x"])
                if isinstance(l, dict) and l.get("k") == "var" and l.get("id") == var_id:
                    return None
    return init


def index_root(e):
    """identity of an index expression: strips casts, copies, .idx()/.uidx(), unary *"""
    while True:
        e = unwrap(e)
        if not isinstance(e, dict):
            return None
        k = e.get("k")
        if k == "cast":
            e = e["x"]
        elif k == "call" and e.get("pn", "").split("::")[-1] in ("idx", "uidx") and e.get("r") is not None:
            e = e["r"]
        elif k == "ctor" and len(e.get("a", [])) == 1:
            e = e["a"][0]
        else:
            break
    return estr(e)


class Availability:
    """decides whether a set of cache kinds is available at a position of a function"""

    def __init__(self, fb, cm):
        self.fb, self.cm = fb, cm
        self._est = {}
        cm.availability = self

    def establishers(self, fn):
        """positions of calls that make kinds available afterwards: [(pos, kinds)]"""
        if fn.id in self._est:
            return self._est[fn.id]
        out = []
        cm = self.cm
        for b, i, n in fn.nodes(("call",)):
            u = n.get("u")
            if u in cm.kind_of_compute:
                out.append(((b, i), frozenset([cm.kind_of_compute[u]])))
            elif u in cm.kind_of_enable or u in cm.enable_all:
                a = n.get("a", [])
                v = unwrap(fn.resolve(a[0])) if a else None
                if isinstance(v, dict) and v.get("k") == "lit" and v.get("v") is True:
                    out.append(((b, i), cm.all if u in cm.enable_all else frozenset([cm.kind_of_enable[u]])))
            elif n.get("pn", "").split("::")[-1] == "resize" and n.get("r") is not None:
                r = unwrap(fn.resolve(n["r"]))
                if isinstance(r, dict) and r.get("k") == "mem" and r.get("f") in cm.kinds and r.get("o") == TK:
                    out.append(((b, i), frozenset([r["f"]])))
        self._est[fn.id] = out
        return out

    def available(self, fn, pos, index=None, cache=None, _depth=0):
        """(kinds available at pos, list of reasons)"""
        cm = self.cm
        have = set()
        why = []
        b = pos[0]
        for cond, pol, edge in fn.facts(b):
            if pol is True:
                ks = cm.kinds_true(fn, cond)
                if ks:
                    have |= ks
                    why.append("guard %s" % estr(cond))
            # bounds check of the very index against cache.size()
            if index is not None and cache is not None and isinstance(pol, bool):
                if bounds_guard(cond, pol, index, cache):
                    have.add(cache)
                    why.append("bounds check %s is %s" % (estr(cond), pol))
        for epos, ks in self.establishers(fn):
            if fn.dominates(epos, pos):
                have |= ks
                why.append("dominated by %s" % estr(fn.relem(*epos)))
        if fn.kind == "lambda" and _depth < 6:
            d = self.fb.lambda_def(fn)
            if d is not None:
                pf, pb, pi = d
                h2, w2 = self.available(pf, (pb, pi), None, None, _depth + 1)
                have |= h2
                why += ["(at lambda definition) " + w for w in w2]
        return have, why


def bounds_guard(cond, pol, index, cache):
    c = unwrap(cond)
    if not isinstance(c, dict) or c.get("k") != "bin" or c.get("op") not in ("<", ">=", ">", "<="):
        return False
    op, l, r = c["op"], c["l"], c["r"]

    def is_size(e):
        e = unwrap(e)
        while isinstance(e, dict) and e.get("k") == "cast":
            e = unwrap(e["x"])
        if isinstance(e, dict) and e.get("k") == "call" and e.get("pn", "").split("::")[-1] == "size":
            rr = unwrap(e.get("r"))
            return isinstance(rr, dict) and rr.get("k") == "mem" and rr.get("f") == cache
        return False

    # normalise to  X < size  holding
    if is_size(r):
        x, lt = l, (op == "<" and pol) or (op == ">=" and not pol)
    elif is_size(l):
        x, lt = r, (op == ">" and pol) or (op == "<=" and not pol)
    else:
        return False
    return bool(lt) and index_root(x) == index


def classify_cache_use(node, parents):
    """'whole' | 'element' | 'unknown' for a mem node of a cache"""
    p = parent_skipping(parents)
    if p is None:
        return "unknown", None
    k = p.get("k")
    if k == "idx" and unwrap(p["b"]) is node:
        return "element", p
    if k == "call" and p.get("r") is not None and unwrap(p["r"]) is node:
        name = p.get("pn", "").split("::")[-1]
        if name in WHOLE_OPS or name == "operator=":
            return "whole", p
        return "element", p
    if k == "ctor" and (p.get("copy") or p.get("move")) and len(p.get("a", [])) == 1 and unwrap(p["a"][0]) is node:
        return "whole", p  # whole-container copy (defaulted copy constructor)
    if k == "call" and (p.get("op") == "=" or p.get("pn", "").endswith("::operator=")):
        if any(unwrap(a) is node for a in p.get("a", [])) or (p.get("r") is not None and unwrap(p["r"]) is node):
            return "whole", p  # whole-container assignment
    if k == "decl":
        for v in p["vars"]:
            if v["n"].startswith("__range") and unwrap(v.get("init")) is node:
                return "whole", p
    return "unknown", p
