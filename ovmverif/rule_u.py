"""U.sorted - algorithms that need equal elements to be neighbours run on a sorted range.

std::unique and std::adjacent_find only see *adjacent* duplicates.  Everywhere the repository uses one of them to make a
collection duplicate free (circulator targets, the halfedge matching of add_cell, processed-entity lists of the index swaps),
the call must be dominated by a std::sort over the same container (begin() .. end()), with no growth of that container in
between.  A std::unique on an unsorted range compiles, passes the tests whose inputs happen to be grouped, and leaves
duplicates for every other history."""
from .canon import Canon
from .facts import unwrap

NEED_SORTED = ("std::unique", "std::adjacent_find", "std::binary_search", "std::lower_bound", "std::upper_bound", "std::set_difference", "std::set_intersection", "std::set_union", "std::includes")
GROW = ("push_back", "emplace_back", "insert", "emplace", "assign", "resize")


def _range_root(f, cn, a):
    """canonical container string when the argument is <container>.begin()/.end() (possibly wrapped), else None"""
    ar = unwrap(f.resolve(a))
    while isinstance(ar, dict) and ar.get("k") == "ctor" and len(ar.get("a", [])) == 1:
        ar = unwrap(ar["a"][0])
    if isinstance(ar, dict) and ar.get("k") == "call" and ar.get("r") is not None and ar.get("pn", ar.get("n", "")).split("::")[-1] in ("begin", "end", "cbegin", "cend"):
        return cn.s(ar["r"]), ar.get("pn", ar.get("n", "")).split("::")[-1]
    return None


def sorted_rule(ck, fb, scope, rule="U.sorted", floor=None, label=""):
    ck.rule(rule, "every std::unique / std::adjacent_find (and the other algorithms that presuppose a sorted range) runs on container.begin()..end() after a dominating std::sort of that same container, with no growth of the container in between")
    n = 0
    seen = set()
    for f in fb.repo_fns():
        if not scope(f) or f.where in seen:
            continue
        calls = [(b, i, x) for b, i, x in f.nodes(("call",)) if x.get("pn", "") in NEED_SORTED and b in f.reach()]
        if not calls:
            continue
        seen.add(f.where)
        cn = Canon(f)
        sorts = []
        for b, i, x in f.nodes(("call",)):
            if x.get("pn", "") in ("std::sort", "std::stable_sort") and len(x.get("a", [])) >= 2:
                r0, r1 = _range_root(f, cn, x["a"][0]), _range_root(f, cn, x["a"][1])
                if r0 and r1 and r0[0] == r1[0] and r0[1].endswith("begin") and r1[1].endswith("end"):
                    sorts.append((b, i, r0[0]))
        grows = []
        for b, i, x in f.nodes(("call",)):
            if x.get("r") is not None and x.get("pn", "").split("::")[-1] in GROW:
                grows.append((b, i, cn.s(x["r"])))
        for b, i, x in calls:
            n += 1
            r0 = _range_root(f, cn, x["a"][0]) if x.get("a") else None
            r1 = _range_root(f, cn, x["a"][1]) if len(x.get("a", [])) > 1 else None
            if not (r0 and r1 and r0[0] == r1[0] and r0[1].endswith("begin") and r1[1].endswith("end")):
                ck.cannot_judge("%s %s: %s: %s runs on a range that is not <container>.begin()..end() (%s) - whether it is sorted is not judged" % (rule, f.loc(x), f.name, x["pn"], cn.s(x)[:80]))
                continue
            V = r0[0]
            dom = [sp for sp in sorts if sp[2] == V and f.dominates((sp[0], sp[1]), (b, i))]
            between = [g for g in grows if g[2] == V and any(f.dominates((sp[0], sp[1]), (g[0], g[1])) for sp in dom) and f.dominates((g[0], g[1]), (b, i))]
            ok = bool(dom) and not between
            why = "sorted at %s" % ", ".join("B%d" % sp[0] for sp in dom) if dom else "no dominating std::sort(%s.begin(), %s.end())" % (V, V)
            if between:
                why += "; but %s grows again before the call" % V
            (ck.ok if ok else lambda r_, w_, t_: ck.violate(r_, w_, t_, "%s:%s:%s" % (rule, f.pq, x["pn"])))(rule, f.loc(x), "%s: %s over %s runs on a sorted range (%s)" % (f.name, x["pn"].replace("std::", ""), V, why))
    if floor is not None:
        ck.floor("sorted_range_calls" + label, n, floor)
    return n


def optional_rule(ck, fb, rule="U.optional", floor=3):
    """no dereference of an empty std::optional: the registry's create_*/get_* functions answer "refused" / "not found" with
    an empty optional, and an assert does not survive NDEBUG"""
    ck.rule(rule, "every `*opt` / `opt->` on a std::optional in the library lies where a test of that very optional (operator bool / has_value()) holds; an assert is no test (NDEBUG).  create_shared_property answers a duplicate with an empty optional: GeometryKernel::make_prop dereferenced it unconditionally and crashed when the position property had been cloned as a persistent property (F41)")
    n = dead = 0
    seen = set()
    for f in fb.repo_fns():
        if not f.has_cfg or f.where in seen:
            continue
        sites = [(b, i, x) for b, i, x in f.nodes(("call",)) if b in f.reach() and (x.get("pn", "").startswith("std::optional::operator*") or x.get("pn", "").startswith("std::optional::operator->")) and x.get("r") is not None]
        if not sites:
            continue
        seen.add(f.where)
        cn = Canon(f)
        called = bool(fb.callers(f.id)) or f.d.get("access") == "public" or not f.cls
        for b, i, x in sites:
            O = cn.s(x["r"])
            ok = any(p_ is True and s_ in (O + ".operator bool()", O + ".has_value()", O) for s_, p_, c_ in cn.facts(b)) or any(p_ is False and s_ in ("!" + O, "!" + O + ".has_value()", "!" + O + ".operator bool()", O + ".operator!()") for s_, p_, c_ in cn.facts(b))
            if not ok and not called:
                dead += 1
                ck.note("%s: unguarded dereference of %s in %s, which nothing calls (dead private helper)" % (f.loc(x), O[:50], f.pq.split("OpenVolumeMesh::")[-1]))
                continue
            n += 1
            (ck.ok if ok else lambda r_, w_, t_: ck.violate(r_, w_, t_, "%s:%s" % (rule, f.pq)))(rule, f.loc(x), "%s: the optional %s is dereferenced only where it is known to hold a value" % (f.pq.split("OpenVolumeMesh::")[-1][:60], O[:60]))
    ck.analysed["optional_dereferences"] = {"judged": n, "in_uncalled_private_helpers": dead}
    ck.floor("optional_dereference_sites", n, floor)
