"""C11 - construction validates: structural clauses of add_edge / add_face / add_cell and their tet/hex overrides"""
import re
from .canon import ceq, eq_match
from .extract import AnalysisBroken
from .facts import as_assign, estr, need_names, unwrap, walk
from .lockstep import Ctx, elem_effects
from .readers import cmp_parts, strip_casts
from .rule_l import effects

TK = "OpenVolumeMesh::TopologyKernel"
TET = "OpenVolumeMesh::TetrahedralMeshTopologyKernel"
HEX = "OpenVolumeMesh::HexahedralMeshTopologyKernel"
VALENCE = {TET: {"add_face": 3, "add_cell": 4, "cell_face": 3}, HEX: {"add_face": 4, "add_cell": 6, "cell_face": 4}}


class RawInline:
    """resolves an expression and follows locals (iterators, references, copies) to their initialisers, so that an
    algorithm call on an iterator can be traced to the mesh data member it ranges over"""

    def __init__(self, f):
        from .canon import Canon
        self.f = f
        self.cn = Canon(f)

    def sub_raw(self, node, depth=0):
        n = self.f.resolve(node)
        out = [n]
        if depth > 6:
            return out
        for y in walk(n):
            if isinstance(y, dict) and y.get("k") == "var" and y.get("id") in self.cn.decl:
                init = self.cn.decl[y["id"]][0].get("init")
                if init is not None:
                    out += self.sub_raw(init, depth + 1)
        return out


def handle_fns(fb, cls, name):
    """the handle-based overloads (vector<HEH>/vector<HFH>/two VH + bool)"""
    out = []
    for f in fb.by_cls.get(cls, []):
        if f.name != name or not f.has_cfg:
            continue
        ps = [p["t"] for p in f.d["params"]]
        if name == "add_edge" and len(ps) == 3:
            out.append(f)
        if name == "add_face" and ps and "HEH" in ps[0] and len(ps) == 2:
            out.append(f)
        if name == "add_cell" and ps and "HFH" in ps[0] and len(ps) == 2:
            out.append(f)
    return out


def atoms(f, b):
    return {(estr(c), pol) for c, pol, e in f.facts(b) if isinstance(pol, bool)}


def run(ck, fb, fbd):
    c = Ctx(ck, fb)
    km = c.km
    ck.rule("N.reject", "in add_edge/add_face/add_cell (and the tet/hex overrides taking handles) no state effect - array growth, cache update, property resize, call of a mutating kernel member - lies on any path to a return that rejects or deduplicates")
    ck.rule("C11.accept", "the accepting path appends exactly one definition built from the (moved) argument and returns the handle size()-1")
    ck.rule("C11.valence", "tetrahedral/hexahedral add_face/add_cell reach the base implementation only with 3/4 (4/6) entries and, for cells, only after rejecting any face whose valence differs from 3 (4)")
    ck.rule("C11.topology", "add_face's topology check compares to_vertex(h[i]) with from_vertex(h[i+1]) for every consecutive pair and last-to-first; add_cell's runs sort, adjacent_find and unique (edge-wise) over the same vector and rejects duplicates and n != 2*unique")
    ck.rule("C11.dedup", "add_edge without duplicates inspects the to-vertex of halfedges leaving the from-vertex (cache branch) and both orientations of every edge (linear branch)")
    from .rule_u import sorted_rule
    sorted_rule(ck, fb, lambda g: g.pq.startswith(TK + "::"), floor=2)
    # an accepted call appends exactly the given definition: the hexahedral re-ordering hands on a complete list (shared with C16)
    from .c15_c16 import reorder_total_rule
    reorder_total_rule(ck, fb)
    vertex_list_nonempty_rule(ck, fb)
    elem = elem_effects(c)
    # kernel / resource-manager members that change state: direct shape or cache-element effects, closed under calls
    mutating = {fid for fid in c.eff} | {fid for fid, v in elem.items() if v}
    for g in fb.by_cls.get("OpenVolumeMesh::ResourceManager", []):
        if g.has_cfg and not g.d.get("const") and any(x.get("pn", "").split("::")[-1] in ("resize", "delete_element", "swap", "clear", "push_back", "set_persistent", "set_shared", "insert", "erase") for b, i, x in g.nodes(("call",))):
            mutating.add(g.id)
    changed = True
    while changed:
        changed = False
        for g in list(fb.by_cls.get(TK, [])) + list(fb.by_cls.get("OpenVolumeMesh::ResourceManager", [])):
            if g.id in mutating or not g.has_cfg:
                continue
            if any(x.get("u") in mutating for b, i, x in g.nodes(("call",))):
                mutating.add(g.id)
                changed = True
    ck.analysed["state_changing_kernel_members"] = len(mutating)
    n_fn = 0
    for name, kind in (("add_edge", "Edge"), ("add_face", "Face"), ("add_cell", "Cell")):
        fs = handle_fns(fb, TK, name)
        if len(fs) != 1:
            raise AnalysisBroken("C11: TopologyKernel::%s (handle overload) not unique: %d" % (name, len(fs)))
        f = fs[0]
        n_fn += 1
        effs = c.eff.get(f.id, [])
        grows = [e for e in effs if e["cls"] == "grow" and e["role"] == "def" and e["kind"] == kind]
        if len(grows) != 1:
            ck.violate("C11.accept", f.where, "%s grows the %s definition %d times (expected exactly once)" % (name, kind, len(grows)), "C11.accept:%s:count" % name)
            continue
        g = grows[0]
        ck.ok("C11.accept", f.loc(g["node"]), "%s appends exactly one %s definition" % (name, kind))
        params = {p["n"] for p in f.d["params"]}
        argtxt = estr(g["args"])
        ok = all(p in argtxt for p in list(params)[:0]) and any(p in argtxt for p in params)
        if name != "add_edge":
            ok = ok and "move(" in argtxt
        else:
            pn_ = [p["n"] for p in f.d["params"][:2]]
            ok = pn_[0] in argtxt and pn_[1] in argtxt and argtxt.index(pn_[0]) < argtxt.index(pn_[1])
        (ck.ok if ok else lambda r, w, t: ck.violate(r, w, t, "C11.accept:%s:arg" % name))("C11.accept", f.loc(g["node"]), "%s stores the given definition (%s)" % (name, argtxt[:60]))
        # returns
        rets = [(b, i, x) for b, i, x in f.tops() if x.get("k") == "ret" and b in f.reach()]
        accept = [(b, i, x) for b, i, x in rets if f.dominates(g["pos"], (b, i))]
        reject = [(b, i, x) for b, i, x in rets if not f.dominates(g["pos"], (b, i))]
        if len(accept) != 1:
            raise AnalysisBroken("C11: %s: %d accepting returns" % (name, len(accept)))
        rv = unwrap(accept[0][2]["x"])
        ok = False
        if isinstance(rv, dict) and rv.get("k") == "var":
            for b, i, d in f.nodes(("decl",)):
                for v in d["vars"]:
                    if v["id"] == rv["id"]:
                        s = estr(f.resolve(v.get("init")))
                        ok = "%s.size()" % g["member"] in s and "- 1" in s
        (ck.ok if ok else lambda r, w, t: ck.violate(r, w, t, "C11.accept:%s:handle" % name))("C11.accept", f.loc(accept[0][2]), "%s returns the handle %s.size()-1 of the appended entity" % (name, g["member"]))
        # N: effect blocks
        eff_pos = [e["pos"] for e in effs] + [e["pos"] for e in elem.get(f.id, [])]
        cnx = RawInline(f)
        for b, i, x in f.nodes(("call",)):
            if x.get("u") in mutating and b in f.reach():
                eff_pos.append((b, i))
            # algorithms that permute / overwrite a range or element of a mesh data member (move-to-front, swap, sort ...)
            if x.get("pn", "") in ("std::iter_swap", "std::swap", "std::rotate", "std::reverse", "std::sort", "std::swap_ranges", "std::fill", "std::copy", "std::remove", "std::unique") and b in f.reach():
                if any(isinstance(y, dict) and y.get("k") == "mem" and y.get("o") == TK for a_ in x.get("a", []) for y in walk(cnx.sub_raw(a_))):
                    eff_pos.append((b, i))
        for b, i, x in reject:
            bad = [p for p in eff_pos if p[0] == b and p[1] < i or (p[0] != b and b in f.reachable_from(p[0]))]
            (ck.ok if not bad else lambda r, w, t: ck.violate(r, w, t, "N.reject:%s" % f.pq))("N.reject", f.loc(x), "%s: 'return %s' is not preceded by any state effect" % (name, estr(x.get("x"))[:40]))
        ck.count("reject_returns", len(reject))
        if name in ("add_face", "add_cell"):
            nonempty_rule(ck, f, reject)
        if name == "add_face":
            topology_face(ck, f, reject)
        if name == "add_cell":
            topology_cell(ck, f, reject)
        if name == "add_edge":
            dedup(ck, c, f, reject)
    # overrides
    for cls, vals in VALENCE.items():
        for name in ("add_face", "add_cell"):
            fs = handle_fns(fb, cls, name)
            if len(fs) != 1:
                raise AnalysisBroken("C11: %s::%s override not found" % (cls, name))
            f = fs[0]
            n_fn += 1
            p0 = f.d["params"][0]["n"]
            base_calls = [(b, i, x) for b, i, x in f.nodes(("call",)) if x.get("pn") == TK + "::" + name and b in f.reach()]
            if not base_calls:
                raise AnalysisBroken("C11: %s::%s does not call the base implementation" % (cls, name))
            # the override hands its topology-check request on to the base implementation
            bools = [p_["n"] for p_ in f.d["params"] if p_["t"] == "bool"]
            for b, i, x in base_calls:
                a_ = f.resolve(x.get("a", []))
                chk = unwrap(a_[1]) if len(a_) > 1 else None
                while isinstance(chk, dict) and chk.get("k") in ("defarg", "definit"):
                    chk = unwrap(chk.get("x"))
                explicit = len(x.get("a", [])) > 1 and unwrap(x["a"][1]).get("k") != "defarg"
                okc = explicit and isinstance(chk, dict) and chk.get("k") == "var" and chk.get("n") in bools
                (ck.ok if okc else lambda r, w, t: ck.violate(r, w, t, "C11.valence:%s:%s:forward" % (cls.split("::")[-1], name)))("C11.valence", f.loc(x), "%s::%s passes its _topologyCheck argument on to the base class (found %s)" % (cls.split("::")[-1], name, estr(a_[1])[:30] if len(a_) > 1 else "nothing"))
            want = "(%s.size() != %d)" % (p0, vals[name])
            for b, i, x in base_calls:
                ok = (want, False) in atoms(f, b)
                (ck.ok if ok else lambda r, w, t: ck.violate(r, w, t, "C11.valence:%s:%s" % (cls.split("::")[-1], name)))("C11.valence", f.loc(x), "%s::%s reaches the base class only when !%s" % (cls.split("::")[-1], name, want))
            # N: every reject return precedes the base call
            rets = [(b, i, x) for b, i, x in f.tops() if x.get("k") == "ret" and b in f.reach()]
            for b, i, x in rets:
                is_base = any(isinstance(y, dict) and y.get("k") == "call" and y.get("pn") == TK + "::" + name for y in walk(x))
                if is_base:
                    continue
                bad = [bc for bc in base_calls if b in f.reachable_from(bc[0]) and bc[0] != b]
                (ck.ok if not bad else lambda r, w, t: ck.violate(r, w, t, "N.reject:%s" % f.pq))("N.reject", f.loc(x), "%s::%s: 'return %s' cannot follow the base-class call" % (cls.split("::")[-1], name, estr(x.get("x"))[:40]))
            if name == "add_cell":
                # loop rejecting faces of wrong valence, dominating the base call
                okv = False
                from .rule_g import single_assignment_init
                for b, i, x in rets:
                    for cn, pol, e in f.facts(b):
                        cnd = estr(cn)
                        if pol is True and ("!= %d" % vals["cell_face"]) in cnd:
                            if "valence(" in cnd:
                                okv = True
                            p = cmp_parts(cn)
                            v = strip_casts(p[1]) if p else None
                            if isinstance(v, dict) and v.get("k") == "var":
                                init = single_assignment_init(f, v["id"])
                                if init is not None and "valence(" in estr(f.resolve(init)):
                                    okv = True
                # the loop ranges over the parameter
                loops = f.loops()
                over = False
                for hdr, body, backs in loops:
                    t = f.term(hdr)
                    s = estr(f.resolve(t.get("range"))) if t and t.get("range") is not None else estr(f.resolve(t.get("cond"))) if t and t.get("cond") else ""
                    if p0 in s:
                        over = True
                ok = okv and over
                (ck.ok if ok else lambda r, w, t: ck.violate(r, w, t, "C11.valence:%s:cellfaces" % cls.split("::")[-1]))("C11.valence", f.where, "%s::add_cell rejects any face of %s whose valence != %d before delegating" % (cls.split("::")[-1], p0, vals["cell_face"]))
    ck.analysed["construction_functions"] = n_fn
    ck.floor("construction_functions", n_fn, 7)


def nonempty_rule(ck, f, reject):
    """an entity with an empty definition must never come into existence: the downward circulators read element 0"""
    from .canon import Canon
    ck.rule("C11.nonempty", "add_face / add_cell reject an empty halfedge / halfface list unconditionally (not only under the topology check): FaceHalfEdgeIter, CellHalfFaceIter and the circulators built on them read the first element of the stored list without a guard, and the file readers call add_face/add_cell without topology check by default")
    cn = Canon(f)
    ok = False
    for b, i, x in reject:
        fs = {(s_, p_) for s_, p_, c_ in cn.facts(b)}
        if fs == {("P0.empty()", True)} or fs == {("(0 == P0.size())", True)} or fs == {("(0 != P0.size())", False)}:
            ok = True
    (ck.ok if ok else lambda r, w, t: ck.violate(r, w, t, "C11.nonempty:%s" % f.name))("C11.nonempty", f.where, "%s returns the invalid handle for an empty list, whatever the topology-check argument" % f.name)


def nonempty_entry(ck, fb):
    """entry for C07 (readers): the same rule on both kernel functions"""
    from .lockstep import Ctx
    c = Ctx(ck, fb)
    for name, kind in (("add_face", "Face"), ("add_cell", "Cell")):
        fs = handle_fns(fb, TK, name)
        if len(fs) != 1:
            raise AnalysisBroken("TopologyKernel::%s (handle overload) not unique: %d" % (name, len(fs)))
        f = fs[0]
        grows = [e for e in c.eff.get(f.id, []) if e["cls"] == "grow" and e["role"] == "def" and e["kind"] == kind]
        if len(grows) != 1:
            raise AnalysisBroken("%s: the append to the definition array is not unique (%d)" % (name, len(grows)))
        rets = [(b, i, x) for b, i, x in f.tops() if x.get("k") == "ret" and b in f.reach()]
        nonempty_rule(ck, f, [(b, i, x) for b, i, x in rets if not f.dominates(grows[0]["pos"], (b, i))])


def vertex_list_nonempty_rule(ck, fb):
    """add_face(vertex list): the pair walk looks one element ahead, so the empty list has to leave first (F74)"""
    from .canon import Canon
    ck.rule("Q.nonempty", "TopologyKernel::add_face(vertices) reaches its first add_edge / first element access only under the fact that the list is not empty: the loop over consecutive pairs starts with (it + 1) != end, which is past the end for an empty list")
    fs = [f for f in fb.by_cls.get(TK, []) if f.name == "add_face" and f.has_cfg and len(f.d["params"]) == 1 and "VH" in f.d["params"][0]["t"]]
    if len(fs) != 1:
        raise AnalysisBroken("anchor vanished: TopologyKernel::add_face(vertices) (%d)" % len(fs))
    f = fs[0]
    cn = Canon(f)
    sites = [(b, x) for b, i, x in f.nodes(("call",)) if x.get("pn", "").endswith("::add_edge") and b in f.reach()]
    if not sites:
        ck.cannot_judge("Q.nonempty %s: add_face(vertices) has no add_edge call - written in another form" % f.where)
        return
    for b, x in sites:
        ok = any((s_ == "P0.empty()" and p_ is False) or (re.fullmatch(r"\(P0\.size\(\) (<|==|<=) \d+\w*\)|\(\d+\w* (==|>|>=) P0\.size\(\)\)", s_) and p_ is False) or (re.fullmatch(r"\(P0\.size\(\) (>|>=|!=) \d+\w*\)", s_) and p_ is True) for s_, p_, c_ in cn.facts(b))
        (ck.ok if ok else lambda r_, w_, t_: ck.violate(r_, w_, t_, "Q.nonempty:add_face_vertices"))("Q.nonempty", f.loc(x), "add_face(vertices) builds edges only for a non-empty vertex list")


def dedup_rule(ck, fb):
    """entry for other properties (C08: add_face(vertices) builds its halfedges through add_edge's lookup)"""
    from .lockstep import Ctx
    ck.rule("C11.dedup", "add_edge without duplicates returns an existing edge only under atomic endpoint facts: to(h) == to-vertex for a halfedge leaving the from-vertex (cache branch), both endpoints in either orientation (linear branch)")
    c = Ctx(ck, fb)
    fs = handle_fns(fb, TK, "add_edge")
    if len(fs) != 1:
        raise AnalysisBroken("TopologyKernel::add_edge (handle overload) not unique: %d" % len(fs))
    f = fs[0]
    grows = [e for e in c.eff.get(f.id, []) if e["cls"] == "grow" and e["role"] == "def" and e["kind"] == "Edge"]
    if len(grows) != 1:
        raise AnalysisBroken("add_edge: the append to edges_ is not unique (%d)" % len(grows))
    rets = [(b, i, x) for b, i, x in f.tops() if x.get("k") == "ret" and b in f.reach()]
    reject = [(b, i, x) for b, i, x in rets if not f.dominates(grows[0]["pos"], (b, i))]
    dedup(ck, c, f, reject)


def face_chain_rule(ck, fb):
    """entry for other properties (C08: a face is a closed loop, so both of its sides are): C11.topology on add_face"""
    ck.rule("C11.topology", "add_face's topology check rejects unless every halfedge starts where its predecessor ends, and unless the last ends where the first begins")
    fs = handle_fns(fb, TK, "add_face")
    if len(fs) != 1:
        raise AnalysisBroken("TopologyKernel::add_face (handle overload) not unique: %d" % len(fs))
    f = fs[0]
    grows = [(b, i) for b, i, x in f.nodes(("call",)) if x.get("pn", "").split("::")[-1] in ("emplace_back", "push_back") and "faces_" in estr(f.resolve(x.get("r")))]
    if len(grows) != 1:
        raise AnalysisBroken("add_face: the append to faces_ is not unique (%d)" % len(grows))
    rets = [(b, i, x) for b, i, x in f.tops() if x.get("k") == "ret" and b in f.reach()]
    reject = [(b, i, x) for b, i, x in rets if not f.dominates(grows[0], (b, i))]
    topology_face(ck, f, reject)


def topology_face(ck, f, reject):
    """the halfedge chain test of add_face, on canonical forms: either the index form (pairs i, i+1 and last-to-first,
    or one modulo form) or the walk form (a running vertex compared with from(h), then set to to(h))"""
    import re
    from .c10 import L
    from .canon import eq_sides
    l = L(f)
    cn = l.cn
    consecutive = closing = False
    seen_endpoint = False
    for b, i, x in reject:
        fs = l.facts(b)
        strs = {(s_, pol) for s_, pol, c in fs}
        for s_, pol, c in fs:
            ne = eq_sides(c, not pol) if isinstance(pol, bool) else None
            if not ne:
                continue
            ea, eb = l.endpoint(ne[0]), l.endpoint(ne[1])
            sa, sb = cn.s(ne[0]), cn.s(ne[1])
            if ea or eb:
                seen_endpoint = True
            # index forms
            if ea and eb and {ea[0], eb[0]} == {"to", "from"}:
                to_h, from_h = (ea[1], eb[1]) if ea[0] == "to" else (eb[1], ea[1])
                m = re.fullmatch(r"P0\[(it\d+\(0\))\]", to_h)
                if m:
                    ix = m.group(1)
                    if from_h == "P0[(%s + 1)]" % ix and ("((%s + 1) < P0.size())" % ix, True) in strs:
                        consecutive = True
                    if from_h in ("P0[((%s + 1) %% P0.size())]" % ix,) and ("(%s < P0.size())" % ix, True) in strs:
                        consecutive = closing = True
                if to_h in ("P0.back()", "P0[(P0.size() - 1)]") and from_h in ("P0.front()", "P0[0]"):
                    closing = True
            # walk form: from(each(P0)) != running vertex
            run = None
            if ea and ea == ("from", "each(P0)") and re.fullmatch(r"v\d+", sb):
                run = ne[1]
            if eb and eb == ("from", "each(P0)") and re.fullmatch(r"v\d+", sa):
                run = ne[0]
            if run is not None:
                rv = [y for y in [run] if True][0]
                from .facts import unwrap as _u
                rvn = _u(f.resolve(rv))
                vid = rvn.get("id")
                init = l.endpoint(cn.decl[vid][0].get("init")) if vid in cn.decl and cn.decl[vid][0].get("init") is not None else None
                steps = [m_ for k_, bb, ii, m_ in cn.mods.get(vid, [])]
                ok_step = bool(steps) and all(m_.get("k") in ("asg", "call") and l.endpoint((m_.get("r") if m_.get("k") == "asg" else (m_.get("a") or [None])[0])) == ("to", "each(P0)") for m_ in steps)
                if ok_step and init in (("from", "P0.front()"), ("from", "P0[0]")):
                    consecutive = True
                if ok_step and init in (("to", "P0.back()"), ("to", "P0[(P0.size() - 1)]")):
                    consecutive = closing = True
            # walk form, closing test after the loop: running vertex != from(front)
            for e1, s2 in ((ea, sb), (eb, sa)):
                if e1 in (("from", "P0.front()"), ("from", "P0[0]")) and re.fullmatch(r"v\d+", s2) and not l.in_loop(b):
                    closing = True
    if not seen_endpoint:
        raise AnalysisBroken("%s: add_face: no rejecting return is guarded by a from/to-vertex comparison - the chain test is written in a form rule C11.topology does not know" % f.where)
    (ck.ok if consecutive else lambda r, w, t: ck.violate(r, w, t, "C11.topology:add_face:consecutive"))("C11.topology", f.where, "add_face rejects unless every halfedge starts where its predecessor ends (index pairs i,i+1 with i+1 < size, a modulo form, or a running-vertex walk)")
    (ck.ok if closing else lambda r, w, t: ck.violate(r, w, t, "C11.topology:add_face:closing"))("C11.topology", f.where, "add_face rejects when the last halfedge does not end where the first begins")


def topology_cell(ck, f, reject):
    """add_cell's closed-surface test on canonical forms: V = the collected halfedges (one mutable vector), sorted;
    reject when adjacent_find(V) finds a halfedge used twice; reject unless |V| == 2 * |unique(V, same edge)|"""
    import re
    from .canon import Canon
    cn = Canon(f)
    calls = [(b, i, x) for b, i, x in f.nodes(("call",)) if x.get("pn", "") in ("std::sort", "std::adjacent_find", "std::unique")]
    names = {x["pn"] for b, i, x in calls}
    roots = set()
    for b, i, x in calls:
        for a in x.get("a", [])[:1]:
            for y in walk(f.resolve(a)):
                if isinstance(y, dict) and y.get("k") == "var" and y.get("t", "").startswith("std::vector<"):
                    roots.add(y["id"])
    ok = names == {"std::sort", "std::adjacent_find", "std::unique"} and len(roots) == 1
    (ck.ok if ok else lambda r, w, t: ck.violate(r, w, t, "C11.topology:add_cell:pipeline"))("C11.topology", f.where, "add_cell runs sort, adjacent_find and unique over one halfedge vector (%s)" % sorted(names))
    # the sort precedes both searches
    srt = [(b, i) for b, i, x in calls if x["pn"] == "std::sort"]
    oth = [(b, i) for b, i, x in calls if x["pn"] != "std::sort"]
    ok = bool(srt) and all(f.dominates(srt[0], o) for o in oth)
    (ck.ok if ok else lambda r, w, t: ck.violate(r, w, t, "C11.topology:add_cell:sorted"))("C11.topology", f.where, "add_cell sorts the halfedge vector before adjacent_find and unique (both need equal elements adjacent)")
    V = None
    if len(roots) == 1:
        V = cn.var({"k": "var", "id": list(roots)[0], "n": "?"})
    dup = twice = False
    lam_ln = None
    for b, i, x in reject:
        for s_, pol, c in cn.facts(b):
            if V and s_ == ceq("adjacent_find(%s.begin(), %s.end())" % (V, V), "%s.end()" % V, "!=") and pol is True:
                dup = True
            m = eq_match(s_, "!=", r"%s\.size\(\)" % re.escape(V or "?"), r"\(2 \* distance\(%s\.begin\(\), unique\(%s\.begin\(\), %s\.end\(\), \[lambda@(\d+)\]\)\)\)" % ((re.escape(V or "?"),) * 3), pol=pol, want="!=")
            if m:
                twice = True
                lam_ln = int(m[1].group(1))
    # the unique predicate identifies the two halfedges of one edge: a.idx()/2 == b.idx()/2 (or edge_handle equality)
    pred = False
    for g in f.fb.fns.values():
        if g.kind == "lambda" and g.has_cfg and g.file == f.file and g.line == lam_ln:
            gc = Canon(g)
            rets = [x for b, i, x in g.tops() if x.get("k") == "ret"]
            ps = gc.s(rets[0].get("x")) if len(rets) == 1 else ""
            pred = ps in (ceq("(P0.idx() / 2)", "(P1.idx() / 2)"), ceq("P0.edge_handle()", "P1.edge_handle()"), ceq("(P0.idx() >> 1)", "(P1.idx() >> 1)"))
            pred_txt = ps
    (ck.ok if dup else lambda r, w, t: ck.violate(r, w, t, "C11.topology:add_cell:duplicate"))("C11.topology", f.where, "add_cell rejects a halfedge used twice (adjacent_find != end)")
    (ck.ok if (twice and pred) else lambda r, w, t: ck.violate(r, w, t, "C11.topology:add_cell:matched"))("C11.topology", f.where, "add_cell rejects unless every halfedge is matched by its opposite (|V| == 2 * |unique(V)| under an edge-wise predicate idx/2 == idx/2)")


def dedup(ck, c, f, reject):
    """add_edge without duplicates, on canonical forms: every returned existing edge is guarded by ATOMIC endpoint facts"""
    import re
    from .canon import Canon
    cn = Canon(f)
    h = c.has_name([k for k, (kk, hf) in c.km.caches.items() if kk == "Vertex"][0])
    vcache = [k for k, (kk, hf) in c.km.caches.items() if kk == "Vertex"][0]
    bu_ok = False
    fwd = bwd = False
    live = []
    shapes = []
    for b, i, x in reject:
        fs = {(s_, p_) for s_, p_, c_ in cn.facts(b)}
        if ("P2", False) not in fs:
            continue
        r = cn.s(x.get("x"))
        shapes.append((r[:60], sorted(s_ for s_, p_ in fs if p_ and "vertex()" in s_)))
        if (h, True) in fs:
            m = re.fullmatch(r"edge_handle\((.+)\)|(.+)\.edge_handle\(\)", r)
            X = (m.group(1) or m.group(2)) if m else None
            if X and ("%s[P0]" % vcache) in X and (ceq("halfedge(%s).to_vertex()" % X, "P1"), True) in fs:
                bu_ok = True
        elif (h, False) in fs:
            E = r
            # the scan runs over stored edges, deleted ones included (deferred deletion): the returned edge must be live -
            # the cache-guided sibling never sees a deleted edge, because deletion unlinks it from the vertex lists
            live.append(("is_deleted(%s)" % E, False) in fs or any(re.fullmatch(r"edge_deleted_\[.*\](\.operator bool\(\))?", s_) and p_ is False and E.strip("()") in s_ or (s_ == "%s.is_deleted()" % E and p_ is False) for s_, p_ in fs))
            if {(ceq("edge(%s).from_vertex()" % E, "P0"), True), (ceq("edge(%s).to_vertex()" % E, "P1"), True)} <= fs:
                fwd = True
            if {(ceq("edge(%s).from_vertex()" % E, "P1"), True), (ceq("edge(%s).to_vertex()" % E, "P0"), True)} <= fs:
                bwd = True
    (ck.ok if bu_ok else lambda r, w, t: ck.violate(r, w, t, "C11.dedup:cache"))("C11.dedup", f.where, "add_edge (vertex cache on) returns the edge of a halfedge h leaving the from-vertex only under the atomic fact to(h) == to-vertex (%s)" % shapes[-1:])
    (ck.ok if (live and all(live)) else lambda r, w, t: ck.violate(r, w, t, "C11.dedup:live"))("C11.dedup", f.where, "add_edge (linear scan) returns an existing edge only under the fact that it is not deleted (%d return site(s), %d guarded)" % (len(live), sum(live)))
    (ck.ok if (fwd and bwd) else lambda r, w, t: ck.violate(r, w, t, "C11.dedup:linear"))("C11.dedup", f.where, "add_edge (linear scan) returns an existing edge for (from,to) and for (to,from), each under both atomic endpoint facts (forward %s, backward %s)" % (fwd, bwd))
