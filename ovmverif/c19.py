"""C19 - vector algebra and geometric queries: index tables and reduction offsets (no numerics)"""
import re

from .canon import ceq, eq_match
from .extract import AnalysisBroken
from .facts import as_assign, estr, need_names, unwrap, walk
from .readers import strip_casts

VEC = "OpenVolumeMesh::Geometry::VectorT<"
GK = "OpenVolumeMesh::GeometryKernel<"


def vec_fns(fb, name=None, op=None):
    out = []
    for f in fb.fns.values():
        if f.has_cfg and f.cls and f.cls.startswith(VEC) and "/Geometry/Vector11T.hh" in f.file:
            if name is not None and f.name != name:
                continue
            if op is not None and f.d.get("op") != op:
                continue
            out.append(f)
    return out


def lit_index(e):
    e = unwrap(strip_casts(e))
    if isinstance(e, dict) and e.get("k") == "idx":
        i = unwrap(strip_casts(e["i"]))
        if isinstance(i, dict) and i.get("k") == "lit":
            return estr(e["b"]).replace("this.", ""), i["v"]
    return None


def run(ck, fb, fbd):
    ck.rule("C19.cross", "operator% expands to (a1*b2-a2*b1, a2*b0-a0*b2, a0*b1-a1*b0); homogenized divides components 0..2 by component 3 and sets the last to 1")
    ck.rule("C19.reduce", "every accumulate/inner_product over begin()+k starts from an initial value built from exactly the elements below k, with both ranges starting at the same offset (dot product, sqrnorm, l1_norm, mean_abs); mean divides by DIM")
    ck.rule("C19.compwise", "scalar compound operators apply `e op= s` to every component with the parameter itself as the operand; vector compound operators combine component i with component i for all i in [0,DIM); binary operators are the compound operator applied to a copy of *this; min/max/minimize/maximize use the named standard operation over the full extent")
    ck.rule("C19.geom", "GeometryKernel::vector is to-from; barycenter(edge) is 0.5*from+0.5*to; face/cell barycenters accumulate the positions of the halfface-vertex / cell-vertex circulator (each vertex once) and divide by the number of accumulated points; normal is (p2-p1) x (p3-p2), normalised")
    # ---------------- cross
    n = 0
    want = [((1, 2), (2, 1)), ((2, 0), (0, 2)), ((0, 1), (1, 0))]
    for f in vec_fns(fb, op="%"):
        n += 1
        rets = [x for b, i, x in f.tops() if x.get("k") == "ret"]
        comps = []
        for y in walk(rets[0]) if rets else []:
            if isinstance(y, dict) and y.get("k") in ("initlist", "ctor") and len(y.get("a", [])) == 3:
                for el in y["a"]:
                    el = unwrap(strip_casts(el))
                    if isinstance(el, dict) and el.get("k") == "bin" and el["op"] == "-":
                        t = []
                        for side in (el["l"], el["r"]):
                            side = unwrap(strip_casts(side))
                            if isinstance(side, dict) and side.get("k") == "bin" and side["op"] == "*":
                                a, b = lit_index(side["l"]), lit_index(side["r"])
                                if a and b and a[0] == "values_" and b[0] != "values_":
                                    t.append((a[1], b[1]))
                        comps.append(tuple(t))
                break
        ok = comps == want
        (ck.ok if ok else lambda r, w, t: ck.violate(r, w, t, "C19.cross:%s" % f.cls))("C19.cross", f.where, "%s::operator%% components (this,rhs index pairs) %s" % (f.cls.replace("OpenVolumeMesh::Geometry::", ""), comps))
    ck.floor("cross_product_instantiations", n, 2)
    for f in vec_fns(fb, name="homogenized"):
        rets = [x for b, i, x in f.tops() if x.get("k") == "ret"]
        args = None
        for y in walk(rets[0]) if rets else []:
            if isinstance(y, dict) and y.get("k") == "ctor" and len(y.get("a", [])) == 4:
                args = [estr(a).replace("this.", "") for a in y["a"]]
        w = None
        for b, i, d in f.nodes(("decl",)):
            for v in d["vars"]:
                if v["n"] == "w" or "values_[3]" in estr(f.resolve(v.get("init"))):
                    w = v["n"]
        ok = args is not None and w is not None and args[:3] == ["(values_[%d] / %s)" % (k, w) for k in range(3)] and args[3] == "1"
        (ck.ok if ok else lambda r, w_, t: ck.violate(r, w_, t, "C19.cross:homogenized"))("C19.cross", f.where, "homogenized() = (v0/w, v1/w, v2/w, 1) with w = v3 (%s)" % args)
    # ---------------- reductions
    nred = 0
    for f in vec_fns(fb):
        for b, i, x in f.nodes(("call",)):
            nm = x.get("pn", "")
            if nm not in ("std::accumulate", "std::inner_product") or b not in f.reach():
                continue
            nred += 1
            a = [estr(y).replace("this.", "") for y in f.resolve(x["a"])]
            first = a[0].replace(" ", "")
            ok = False
            desc = ""
            if nm == "std::accumulate":
                init = a[2]
                ok = "+1" in first and ("values_[0]" in init or "*data()" in init.replace(" ", "")) and "values_[1]" not in init
                ok = ok and ("cend()" in a[1] or "+DIM" in a[1].replace(" ", "") or "end()" in a[1])
                desc = "accumulate(%s, %s, init=%s)" % (a[0][:30], a[1][:25], init[:40])
            else:
                second = a[2].replace(" ", "")
                init = a[3].replace(" ", "")
                pn0 = f.d["params"][0]["n"] if f.d["params"] else "?"
                ok = "+1" in first and "+1" in second and "*data()" in init and (pn0 + ".data()") in init and pn0 in second
                desc = "inner_product(%s, %s, %s, init=%s)" % (a[0][:25], a[1][:25], a[2][:25], a[3][:40])
            (ck.ok if ok else lambda r, w, t: ck.violate(r, w, t, "C19.reduce:%s" % f.name))("C19.reduce", f.loc(x), "%s::%s: %s skips exactly the element(s) that form the initial value" % (f.cls.replace("OpenVolumeMesh::Geometry::", ""), f.name if not f.d.get("op") else "operator" + f.d["op"], desc))
    ck.floor("reduction_sites", nred, 8)
    # mean(): judged by C19.l1 (it used to be required to be l1_norm()/DIM - which is what made the signed "norm" necessary, F32)
    # ---------------- component-wise operators
    nsc = nvec = 0
    for f in vec_fns(fb):
        op = f.d.get("op")
        if op not in ("*=", "/=", "+=", "-=") or len(f.d["params"]) != 1:
            continue
        p = f.d["params"][0]
        scalar = not p["t"].replace("const ", "").startswith(VEC)
        body_ops = []
        for b, i, x in f.tops():
            a = as_assign(x)
            if a and a[2] in ("*=", "/=", "+=", "-="):
                body_ops.append((a[2], unwrap(strip_casts(a[0])), unwrap(strip_casts(a[1])), b))
        if scalar:
            nsc += 1
            # the operand of `e op= s` is the parameter's VALUE: the parameter itself when it is passed by value, otherwise a local
            # copy of it made before the loop - a reference parameter may alias a component of this vector (v /= v[0], F67)
            opnd = body_ops[0][2] if len(body_ops) == 1 and isinstance(body_ops[0][2], dict) else {}
            by_value = not p["t"].rstrip().endswith("&")
            copy_of_param = False
            if opnd.get("k") == "var" and opnd.get("id") != p["id"]:
                for bb, ii, d in f.nodes(("decl",)):
                    for v_ in d["vars"]:
                        if v_.get("id") == opnd.get("id") and v_.get("init") is not None and not v_.get("isref") and not v_.get("t", "").rstrip().endswith("&"):
                            iv = unwrap(strip_casts(f.resolve(v_["init"])))
                            while isinstance(iv, dict) and iv.get("k") == "ctor" and len(iv.get("a", [])) == 1:
                                iv = unwrap(strip_casts(iv["a"][0]))
                            if isinstance(iv, dict) and iv.get("k") == "var" and iv.get("id") == p["id"]:
                                copy_of_param = True
            direct = opnd.get("k") == "var" and opnd.get("id") == p["id"]
            ok = len(body_ops) == 1 and body_ops[0][0] == op and ((direct and by_value) or copy_of_param)
            if len(body_ops) == 1 and body_ops[0][0] == op and direct and not by_value:
                ck.violate("C19.compwise", f.where, "%s::operator%s(scalar) applies the VALUE of its operand to every component: the operand is a reference parameter used inside the loop, and it may refer to a component of this vector (v %s v[0] changes the operand after the first component)" % (f.cls.replace("OpenVolumeMesh::Geometry::", ""), op, op), "C19.compwise:scalar%s:alias" % op)
                continue
            loops = f.loops()
            rng = ""
            if loops:
                t = f.term(loops[0][0])
                rng = estr(f.resolve(t.get("range"))) if t and t.get("range") is not None else ""
            ok = ok and len(loops) == 1 and rng.strip("()") in ("*this", "this")
            (ck.ok if ok else lambda r, w, t: ck.violate(r, w, t, "C19.compwise:scalar%s" % op))("C19.compwise", f.where, "%s::operator%s(scalar): every component `e %s %s` (found %s over %s)" % (f.cls.replace("OpenVolumeMesh::Geometry::", ""), op, op, p["n"], [(o, estr(r)) for o, l, r, b in body_ops], rng))
        else:
            nvec += 1
            ok = len(body_ops) == 1 and body_ops[0][0] == op
            if ok:
                l, r = lit_or_var_index(body_ops[0][1]), lit_or_var_index(body_ops[0][2])
                ok = l is not None and r is not None and l[1] == r[1] and p["n"] in r[0] and p["n"] not in l[0]
                loops = f.loops()
                dim = f.cls.rstrip(">").split(",")[-1].strip()
                cond = estr(f.resolve(f.term(loops[0][0])["cond"])) if loops and f.term(loops[0][0]) and f.term(loops[0][0]).get("cond") else ""
                ok = ok and len(loops) == 1 and cond.replace(" ", "") in ("(i<%s)" % dim,)
            (ck.ok if ok else lambda r, w, t: ck.violate(r, w, t, "C19.compwise:vector%s" % op))("C19.compwise", f.where, "%s::operator%s(vector): component i %s component i of the operand for i in [0,DIM)" % (f.cls.replace("OpenVolumeMesh::Geometry::", ""), op, op))
    ck.floor("scalar_compound_operators", nsc, 8)
    ck.floor("vector_compound_operators", nvec, 16)
    nbin = 0
    for f in vec_fns(fb):
        op = f.d.get("op")
        if op in ("*", "/", "+", "-") and len(f.d["params"]) == 1:
            rets = [x for b, i, x in f.tops() if x.get("k") == "ret"]
            s = estr(rets[0]) if rets else ""
            nbin += 1
            ok = (" %s= " % op) in s and f.d["params"][0]["n"] in s and ("*this" in s or "this" in s)
            (ck.ok if ok else lambda r, w, t: ck.violate(r, w, t, "C19.compwise:binary%s" % op))("C19.compwise", f.where, "%s::operator%s = copy of *this %s= operand (%s)" % (f.cls.replace("OpenVolumeMesh::Geometry::", ""), op, op, s[:60]))
    ck.floor("binary_operators", nbin, 20)
    for name, std in (("minimize", "std::min"), ("maximize", "std::max"), ("min", "std::min_element"), ("max", "std::max_element")):
        for f in vec_fns(fb, name=name):
            if name in ("min", "max") and f.d["params"]:
                continue
            calls = [x.get("pn", "") for b, i, x in f.nodes(("call",))]
            lam = [g for g in fb.fns.values() if g.kind == "lambda" and g.d.get("lambda_parent") == f.id and g.has_cfg]
            lcalls = [x.get("pn", "") for g in lam for b, i, x in g.nodes(("call",))]
            ok = std in calls or std in lcalls
            full = any(x.get("pn", "") in ("std::transform", std) and "cbegin()" in estr(f.resolve(x["a"][0])) and "cend()" in estr(f.resolve(x["a"][1])) for b, i, x in f.nodes(("call",)))
            (ck.ok if (ok and full) else lambda r, w, t: ck.violate(r, w, t, "C19.compwise:%s" % name))("C19.compwise", f.where, "%s::%s uses %s over the full extent" % (f.cls.replace("OpenVolumeMesh::Geometry::", ""), name, std))
    abs_reductions(ck, fb)
    norm_and_apply(ck, fb)
    compare_rule(ck, fb)
    minmax_flag_rule(ck, fb)
    normal_attrib(ck, fb)
    # ---------------- geometry kernel
    ng = 0
    for f in fb.fns.values():
        if not (f.has_cfg and f.cls and f.cls.startswith(GK) and "/Core/GeometryKernel.hh" in f.file):
            continue
        if f.name == "vector":
            ng += 1
            from .canon import Canon
            cn = Canon(f)
            rets = [x for b, i, x in f.tops() if x.get("k") == "ret"]
            s = cn.s(rets[0].get("x")) if rets else ""
            acc = "halfedge" if "HEH" in f.d["params"][0]["t"] else "edge"
            ok = s == "(vertex(%s(P0).to_vertex()) - vertex(%s(P0).from_vertex()))" % (acc, acc)
            (ck.ok if ok else lambda r, w, t: ck.violate(r, w, t, "C19.geom:vector"))("C19.geom", f.where, "vector() = position(to) - position(from) of the given (half)edge (%s)" % s[:80])
        if f.name == "barycenter":
            ng += 1
            pt = f.d["params"][0]["t"]
            txt = " ".join(estr(x) for b, i, x in f.tops())
            if "EH" in pt:
                from .canon import Canon
                cb = Canon(f)
                rets_ = [cb.s(x.get("x")) for b, i, x in f.tops() if x.get("k") == "ret" and b in f.reach()]
                r0 = rets_[0] if len(rets_) == 1 else ""
                FROM, TO = r"vertex\(edge\(P0\)\.from_vertex\(\)\)", r"vertex\(edge\(P0\)\.to_vertex\(\)\)"
                SUM = r"\((%s \+ %s|%s \+ %s)\)" % (FROM, TO, TO, FROM)
                floating = not re.search(r"VectorT<(int|unsigned|short|long|char|signed)|Vec\d(i|ui|c|uc|s|us)\b", f.cls)
                per_term_f = bool(re.fullmatch(r"(\w+\()?\(?\(\(?0\.5 \* %s\)? \+ \(?0\.5 \* %s\)?\)\)?\)?" % (FROM, TO), r0)) or bool(re.fullmatch(r"(\w+\()?\(?\(\(?0\.5 \* %s\)? \+ \(?0\.5 \* %s\)?\)\)?\)?" % (TO, FROM), r0))
                comp = [cb.s(as_assign(x)[1]) for b, i, x in f.tops() if as_assign(x) and b in f.reach() and re.fullmatch(r".*\[it\d+\(0\)\]", cb.s(as_assign(x)[0]) or "")]
                if floating and per_term_f:
                    ck.ok("C19.geom", f.where, "barycenter(edge) on floating positions = 0.5*from + 0.5*to (halved before the sum, no overflow)")
                    continue
                if not floating:
                    A, B = FROM + r"\[it\d+\(0\)\]", TO + r"\[it\d+\(0\)\]"
                    body_txt = " ".join(cb.s(x) for b, i, x in f.tops() if b in f.reach())
                    halves = re.search(r"\(%s / 2\w*\)" % A, body_txt) and re.search(r"\(%s / 2\w*\)" % B, body_txt)
                    rems = re.search(r"\(%s %% 2\w*\)" % A, body_txt) and re.search(r"\(%s %% 2\w*\)" % B, body_txt)
                    plain = re.search(r"\(%s \+ %s\)|\(%s \+ %s\)" % (A, B, B, A), body_txt) or re.search(r"\(%s \+ %s\)|\(%s \+ %s\)" % (FROM, TO, TO, FROM), body_txt)
                    if halves and rems and not plain:
                        ck.ok("C19.geom", f.where, "barycenter(edge) on integer positions combines the halves a/2, b/2 and the remainders a%2, b%2 per component and never forms a + b (the arithmetic of the correction is numerics, not judged - F55/F75/F76 show how easily it goes wrong)")
                        continue
                halved_sum = re.fullmatch(r"(\w+\()?\(?%s / 2(\.0)?\w*\)?\)?" % SUM, r0) or re.fullmatch(r"(\w+\()?\(?(%s \* 0\.5|0\.5 \* %s)\)?\)?" % (SUM, SUM), r0)
                per_term = r0.count("0.5") == 2 and "from_vertex()" in r0 and "to_vertex()" in r0
                if halved_sum:
                    ck.violate("C19.geom", f.where, "barycenter(edge) avoids the plain sum of the end points: (from + to) / 2 overflows for large coordinates (inf for two coordinates of DBL_MAX, signed overflow for integers) (F75)", "C19.geom:barycenter_edge:overflow")
                elif per_term and not floating:
                    ck.violate("C19.geom", f.where, "barycenter(edge) halves the SUM of the end points: 0.5*from + 0.5*to truncates each term separately on integer position types ((1,1,1)-(3,1,5) gives (1,0,2))", "C19.geom:barycenter_edge")
                else:
                    ck.cannot_judge("C19.geom %s: barycenter(edge) is written in a form the rule does not know (%s) - not judged" % (f.where, r0[:90]))
            else:
                circ = "hfv_iter" if "FH" in pt else "cv_iter"
                it_ok = circ in txt
                # accumulation `p += vertex(*it)` and count increment in the same loop, division by the count afterwards
                loops = f.loops()
                allasg = [y for b, i, x in f.tops() for y in walk(x) if isinstance(y, dict) and as_assign(y)]
                acc = [x for x in allasg if as_assign(x)[2] == "+=" and "vertex(" in estr(as_assign(x)[1])]
                inc_cnt = [x for x in allasg if as_assign(x)[2] == "+=" and estr(as_assign(x)[1]) in ("1", "1.0")]
                div = [x for x in allasg if as_assign(x)[2] == "/="]
                ok = it_ok and len(loops) == 1 and len(acc) == 1 and len(inc_cnt) == 1 and len(div) == 1 and estr(as_assign(div[0])[1]) == estr(as_assign(inc_cnt[0])[0]) and "*" in estr(as_assign(acc[0])[1])
                (ck.ok if ok else lambda r, w, t: ck.violate(r, w, t, "C19.geom:barycenter_%s" % ("face" if "FH" in pt else "cell")))("C19.geom", f.where, "barycenter(%s) averages the positions delivered by %s (each vertex once) and divides by their number" % ("face" if "FH" in pt else "cell", circ))
        if f.name == "normal":
            ng += 1
            from .canon import Canon
            cn = Canon(f)
            rets = [(b, i, x) for b, i, x in f.tops() if x.get("k") == "ret" and b in f.reach()]
            # the non-degenerate return: ((p2 - p1) x (p3 - p2)).normalized() with p1 = from(h0), p2 = to(h0), p3 = to(h1), where h0 and h1
            # are read through ONE iterator over halfface(P0).halfedges() before resp. after its single increment
            main = [(b, i, x) for b, i, x in rets if "normalized()" in cn.s(x.get("x"))]
            ok = len(main) == 1
            why = "%d normalising return(s)" % len(main)
            if ok:
                s = cn.s(main[0][2].get("x"))
                m = re.fullmatch(r"\(vertex\(halfedge\(\*(it\d+)\((.*)\)\)\.to_vertex\(\)\) - vertex\(halfedge\(\*\1\(\2\)\)\.from_vertex\(\)\)\)\.cross\(\(vertex\(halfedge\(\*\1\(\2\)\)\.to_vertex\(\)\) - vertex\(halfedge\(\*\1\(\2\)\)\.to_vertex\(\)\)\)\)\.normalized\(\)", s)
                ok = bool(m) and m.group(2) == "halfface(P0).halfedges().begin()"
                why = s[:120]
                if ok:
                    # positions relative to the increment
                    itv = [vid for vid, nm in cn._name.items() if nm == m.group(1)][0]
                    steps = cn.mods.get(itv, [])
                    pts = []  # (decl position, endpoint) of the pure locals that read through the iterator, in source order
                    for vid, (v, bb, ii) in sorted(cn.decl.items(), key=lambda z: cn._pos(z[0])):
                        init = cn.s(v.get("init")) if v.get("init") is not None else ""
                        if cn.kind.get(vid) == "pure" and init.startswith("vertex(halfedge(*%s(" % m.group(1)):
                            pts.append(((bb, ii), "from" if init.endswith(".from_vertex())") else "to"))
                    ok = len(steps) == 1 and [e for p_, e in pts] == ["from", "to", "to"]
                    if ok:
                        sp = (steps[0][1], steps[0][2])
                        ok = f.dominates(pts[0][0], sp) and f.dominates(pts[1][0], sp) and f.dominates(sp, pts[2][0])
                    why = "points %s around %d increment(s)" % ([e for p_, e in pts], len(steps))
            # the two sides of a face are opposite: the cross-product formula is only evaluated for one side, the other is its
            # negation (evaluating it on the reversed halfedge list picks another corner of the face)
            from .canon import ceq
            NEG = r"(\(?-1(\.0)?\w*\)?|\(?-\(?1(\.0)?\w*\)?\)?)"
            NOPP = r"(this\.)?normal\((\w+::)?opposite_halfface_handle\(P0\)\)"
            odd = [(b_, x_) for b_, i_, x_ in rets if re.fullmatch(r"\(%s \* %s\)|\(%s \* %s\)" % (NOPP, NEG, NEG, NOPP), cn.s(x_.get("x"))) or re.fullmatch(r"-(this\.)?normal\((\w+::)?opposite_halfface_handle\(P0\)\)|\(-1(\.0)? \* normal\(opposite_halfface_handle\(P0\)\)\)|-normal\(P0\.opposite_handle\(\)\)", cn.s(x_.get("x")))]
            okodd = False
            for b_, x_ in odd:
                fs_ = {(s_, p_) for s_, p_, c_ in cn.facts(b_)}
                if (ceq("P0.subidx()", "1"), True) in fs_ or (ceq("(P0.idx() % 2)", "1"), True) in fs_ or (ceq("P0.subidx()", "0"), False) in fs_ or (ceq("(P0.idx() & 1)", "1"), True) in fs_ or ("(P0.idx() & 1)", True) in fs_:
                    okodd = True
            mainside = any((ceq("P0.subidx()", "1"), False) in {(s_, p_) for s_, p_, c_ in cn.facts(b_)} or (ceq("(P0.idx() % 2)", "1"), False) in {(s_, p_) for s_, p_, c_ in cn.facts(b_)} or (ceq("P0.subidx()", "0"), True) in {(s_, p_) for s_, p_, c_ in cn.facts(b_)} or ("(P0.idx() & 1)", False) in {(s_, p_) for s_, p_, c_ in cn.facts(b_)} for b_, i_, x_ in main)
            oddfacts = lambda fs_: (ceq("P0.subidx()", "1"), True) in fs_ or (ceq("(P0.idx() % 2)", "1"), True) in fs_ or (ceq("P0.subidx()", "0"), False) in fs_ or (ceq("(P0.idx() & 1)", "1"), True) in fs_ or ("(P0.idx() & 1)", True) in fs_
            other_odd = [cn.s(x_.get("x")) for b_, i_, x_ in rets if oddfacts({(s_, p_) for s_, p_, c_ in cn.facts(b_)}) and (b_, x_) not in odd]
            if not okodd and other_odd:
                ck.cannot_judge("C19.geom %s: normal(hf) treats the odd side separately, but not as the negated normal of the opposite halfface (%s) - not judged" % (f.where, other_odd[0][:80]))
            else:
              (ck.ok if (okodd and mainside) else lambda r, w, t: ck.violate(r, w, t, "C19.geom:normal:sides"))("C19.geom", f.where, "normal(hf): the formula is evaluated for one side of the face only and the other side returns the negated normal of its opposite (odd-side return %s, formula restricted to the even side %s)" % (okodd, mainside))
            (ck.ok if ok else lambda r, w, t: ck.violate(r, w, t, "C19.geom:normal"))("C19.geom", f.where, "normal(hf) = ((p2-p1) x (p3-p2)).normalized() with p1,p2 the ends of the first and p3 the end of the second halfedge of the halfface (%s)" % why)
    ck.floor("geometry_queries", ng, 12)
    # length(): the Euclidean length of an edge with integer end points is not an integer - on the integer instantiation
    # (tu/inst_all.cc) the result type must be a floating type (F69)
    lens = [f for f in fb.fns.values() if f.name == "length" and f.cls and f.cls.startswith("OpenVolumeMesh::GeometryKernel<") and "VectorT<int" in f.cls and f.has_cfg]
    if not lens:
        raise AnalysisBroken("C19.geom: no instantiation of GeometryKernel<Vec3i, ...>::length (tu/inst_all.cc)")
    for f in lens:
        rt = (f.d.get("ret") or "").replace("const ", "")
        ok = rt in ("double", "float", "long double")
        (ck.ok if ok else lambda r, w, t: ck.violate(r, w, t, "C19.geom:length:type"))("C19.geom", f.where, "length(%s) on integer positions returns a floating type (%s)" % (f.d["params"][0]["t"].split("::")[-1], rt))
    # compile witness: l1_norm()/mean_abs() are members of unsigned vectors as well
    import subprocess
    from .witness import SRC, GEN, VERIF
    import os
    wsrc = os.path.join(VERIF, "witness", "c19_unsigned.cc")
    pr = subprocess.run(["clang++", "-fsyntax-only", "-std=gnu++17", "-DNDEBUG", "-I" + SRC, "-I" + GEN, wsrc], stdout=subprocess.PIPE, stderr=subprocess.STDOUT, text=True)
    errs = [l_ for l_ in pr.stdout.splitlines() if " error: " in l_]
    if pr.returncode != 0 and not errs:
        raise AnalysisBroken("witness c19_unsigned.cc: clang++ failed without an error message")
    (ck.ok if pr.returncode == 0 else lambda r, w, t: ck.violate(r, w, t, "C19.l1:unsigned"))("C19.l1", "witness/c19_unsigned.cc", "l1_norm() and mean_abs() compile for unsigned vectors%s" % ("" if pr.returncode == 0 else " - " + errs[0].split(" error: ")[-1][:120]))
    # the absolute-value helper of the norms: |x| for signed and floating scalars, the identity for unsigned ones (F68)
    av = [f for f in vec_fns(fb, name="abs_value")]
    for f in av:
        from .canon import Canon
        r_ = [Canon(f).s(x.get("x")) for b, i, x in f.tops() if x.get("k") == "ret" and b in f.reach()]
        unsigned_ = "unsigned" in f.cls
        ok = r_ == (["P0"] if unsigned_ else ["abs(P0)"])
        (ck.ok if ok else lambda r, w, t: ck.violate(r, w, t, "C19.l1:abs_value"))("C19.l1", f.where, "%s::abs_value returns %s (found %s)" % (f.cls.replace("OpenVolumeMesh::Geometry::", ""), "its argument" if unsigned_ else "abs(x)", r_))


def norm_and_apply(ck, fb):
    """l1_norm / mean / mean_abs / apply: what is summed resp. transformed (found through the round-4 C19 probes, F32/F33)"""
    from .canon import Canon
    ck.rule("C19.l1", "l1_norm and mean_abs accumulate ABSOLUTE values (initial value abs(values_[0]), step l + abs(r)); mean accumulates the plain components (initial value values_[0], no custom step) and divides by DIM; mean_abs divides by DIM, l1_norm does not")
    ck.rule("C19.apply", "apply(f) transforms the vector's own components [values_.cbegin(), values_.cend()) into the result (never the result's uninitialised components)")
    n = 0
    for name in ("l1_norm", "mean", "mean_abs"):
        for f in vec_fns(fb, name=name):
            n += 1
            cn = Canon(f)
            rets = [x for b, i, x in f.tops() if x.get("k") == "ret"]
            s = cn.s(rets[0].get("x")) if len(rets) == 1 else ""
            lln = re.search(r"\[lambda@(\d+)\]", s)
            lam = [g for g in fb.fns.values() if g.kind == "lambda" and g.has_cfg and g.file == f.file and lln and g.line == int(lln.group(1))][:1]
            ls = ""
            if lam:
                lrets = [x for b, i, x in lam[0].tops() if x.get("k") == "ret"]
                ls = Canon(lam[0]).s(lrets[0].get("x")) if len(lrets) == 1 else ""
            absform = bool(re.fullmatch(r"\(?accumulate\(\(?values_\.cbegin\(\) \+ 1\)?, values_\.cend\(\), (?:abs|abs_value)\(values_\[0\]\), \[lambda@\d+\]\)( / (\([a-z ]+\))?\d+)?\)?", s)) and ls in ("(P0 + abs(P1))", "(abs(P1) + P0)", "(P0 + abs_value(P1))", "(abs_value(P1) + P0)")
            plain = bool(re.fullmatch(r"\(?accumulate\(\(?values_\.cbegin\(\) \+ 1\)?, values_\.cend\(\), values_\[0\]\)( / (\([a-z ]+\))?\d+)?\)?", s))
            divided = " / " in s
            if name == "l1_norm":
                ok = absform and not divided
            elif name == "mean_abs":
                ok = absform and divided
            else:
                ok = plain and divided
            if name == "mean" and re.search(r"\b(l1_norm|mean_abs)\(\)", s):
                ck.violate("C19.l1", f.where, "%s::mean sums the plain components (it is computed from %s, i.e. from absolute values)" % (f.cls.replace("OpenVolumeMesh::Geometry::", ""), s[:40]), "C19.l1:mean")
                continue
            if not (absform or plain):
                ck.cannot_judge("%s: %s is written in a form rule C19.l1 does not know (%s) - re-audit" % (f.where, name, s[:80]))
                continue
            (ck.ok if ok else lambda r, w, t: ck.violate(r, w, t, "C19.l1:%s" % name))("C19.l1", f.where, "%s::%s sums %s values%s (found %s%s)" % (f.cls.replace("OpenVolumeMesh::Geometry::", ""), name, "plain" if name == "mean" else "absolute", "" if name == "l1_norm" else " and divides by DIM", s[:70], (" with step " + ls) if ls else ""))
    for f in vec_fns(fb, name="apply"):
        n += 1
        tr = [x for b, i, x in f.nodes(("call",)) if x.get("pn", "") == "std::transform" and b in f.reach()]
        cn = Canon(f)
        ok = len(tr) == 1 and len(tr[0].get("a", [])) >= 3 and cn.s(tr[0]["a"][0]).replace("this.", "") in ("values_.cbegin()", "values_.begin()") and cn.s(tr[0]["a"][1]).replace("this.", "") in ("values_.cend()", "values_.end()") and re.fullmatch(r"(v\d+|VectorT\(\))\.values_\.begin\(\)", cn.s(tr[0]["a"][2]) or "") is not None
        (ck.ok if ok else lambda r, w, t: ck.violate(r, w, t, "C19.apply"))("C19.apply", f.where, "%s::apply transforms values_ into the result (found transform(%s))" % (f.cls.replace("OpenVolumeMesh::Geometry::", ""), ", ".join(cn.s(a)[:25] for a in (tr[0].get("a", []) if tr else []))))
    ck.floor("norm_and_apply_members", n, 3)


def minmax_flag_rule(ck, fb):
    """minimized / maximized: the returned flag says that a coordinate was changed"""
    from .canon import Canon
    ck.rule("C19.flag", "minimized()/maximized() set their result flag only under the strict fact that the other vector's component is smaller (greater) than this vector's, and store that component there; equal components leave the flag alone (F44)")
    n = 0
    for name, strict in (("minimized", ("(P1 < P0)", "(P0 > P1)")), ("maximized", ("(P1 > P0)", "(P0 < P1)"))):
        for f in vec_fns(fb, name=name):
            lams = [g for g in fb.fns.values() if g.kind == "lambda" and g.has_cfg and g.file == f.file and f.line <= g.line <= f.line + 16]
            if not lams:
                ck.cannot_judge("C19.flag %s: %s has no component lambda - written in another form" % (f.where, name))
                continue
            g = lams[0]
            cg = Canon(g)
            sets = [(b, x) for b, i, x in g.tops() if as_assign(x) and b in g.reach() and cg.s(as_assign(x)[1]) in ("true", "1")]
            if not sets:
                ck.cannot_judge("C19.flag %s: the flag of %s is not set by an assignment of true inside the component lambda" % (f.where, name))
                continue
            n += 1
            ok = True
            why = []
            for b, x in sets:
                fs_ = {(s_, p_) for s_, p_, c_ in cg.facts(b)}
                if not any((s_, True) in fs_ for s_ in strict):
                    ok = False
                    why.append("set under %s" % sorted(fs_))
                rets = [cg.s(y.get("x")) for bb, ii, y in g.tops() if bb == b and y.get("k") == "ret"]
                if rets and rets != ["P1"]:
                    ok = False
                    why.append("stores %s" % rets)
            (ck.ok if ok else lambda r_, w_, t_: ck.violate(r_, w_, t_, "C19.flag:%s" % name))("C19.flag", f.where, "%s::%s signals only a coordinate that changed (%s)" % (f.cls.replace("OpenVolumeMesh::Geometry::", ""), name, "strict comparison" if ok else "; ".join(why)[:120]))
    ck.floor("minmax_flag_members", n, 2)


def compare_rule(ck, fb):
    """operator== / != / <: value comparison of all components, never a comparison of the representation"""
    from .canon import Canon
    ck.rule("C19.compare", "operator== is std::equal over all components of both vectors (or the arrays' ==), operator!= its negation, operator< is std::lexicographical_compare(this, rhs) in that order; a byte comparison (memcmp) is a violation - equal values can differ in representation (-0.0 == 0.0) and unequal ones can share it (NaN)")
    R = r"(?:P0\.)?values_\.c?(?:begin|end)\(\)"
    n = 0

    def eq_form(s_):
        m = re.fullmatch(r"equal\((P0\.)?values_\.c?begin\(\), (P0\.)?values_\.c?end\(\), (P0\.)?values_\.c?begin\(\)\)", s_)
        if m:
            return bool(m.group(1)) == bool(m.group(2)) and bool(m.group(3)) != bool(m.group(1))
        return s_ in ("(P0.values_ == values_)", "(values_ == P0.values_)")
    for name in ("operator==", "operator!=", "operator<"):
        for f in vec_fns(fb, name=name):
            cn = Canon(f)
            rets = [cn.s(x.get("x")) for b, i, x in f.tops() if x.get("k") == "ret" and b in f.reach()]
            calls = {x.get("pn", "") for b, i, x in f.nodes(("call",)) if b in f.reach()}
            n += 1
            cls = f.cls.replace("OpenVolumeMesh::Geometry::", "")
            if calls & {"memcmp", "std::memcmp", "bcmp", "std::bcmp"} or any("memcmp" in r_ for r_ in rets):
                if re.match(r"VectorT<(float|double|long double)\b", cls):
                    ck.violate("C19.compare", f.where, "%s::%s compares component values, not bytes (found %s)" % (cls, name, rets[:1]), "C19.compare:%s:bytes" % name)
                else:
                    ck.cannot_judge("C19.compare %s: %s::%s compares bytes (%s): exact only for scalar types without padding or redundant representations - not judged" % (f.where, cls, name, rets[:1]))
                continue
            s_ = rets[0] if len(rets) == 1 else ""
            if name == "operator==":
                ok = eq_form(s_)
            elif name == "operator!=":
                ok = (s_.startswith("!") and eq_form(s_[1:])) or s_ in ("!(this == P0)", "!operator==(P0)", "!(*this == P0)", "!(P0 == this)", "!(P0 == *this)")
            else:
                ok = bool(re.fullmatch(r"lexicographical_compare\(values_\.c?begin\(\), values_\.c?end\(\), P0\.values_\.c?begin\(\), P0\.values_\.c?end\(\)\)", s_)) or s_ in ("(values_ < P0.values_)",)
                if not ok and re.fullmatch(r"lexicographical_compare\(P0\.values_\.c?begin\(\), P0\.values_\.c?end\(\), values_\.c?begin\(\), values_\.c?end\(\)\)", s_):
                    ck.violate("C19.compare", f.where, "%s::operator< compares *this with the argument, in that order (found %s)" % (cls, s_[:90]), "C19.compare:less:order")
                    continue
            if ok:
                ck.ok("C19.compare", f.where, "%s::%s = %s" % (cls, name, s_[:90]))
            else:
                ck.cannot_judge("C19.compare %s: %s::%s is written in a form the rule does not know (%s) - not judged" % (f.where, cls, name, rets[:2]))
    ck.floor("comparison_operators", n, 3)


def abs_reductions(ck, fb):
    """max_abs / min_abs: the element is selected by comparing absolute values over the full extent"""
    from .canon import Canon
    ck.rule("C19.abs", "max_abs/min_abs select with std::max_element/std::min_element over [cbegin, cend) under the comparator abs(a) < abs(b) and return abs of the selected component; any other formulation is not judged (exit 2)")
    n = 0
    for name, std in (("max_abs", "max_element"), ("min_abs", "min_element")):
        for f in vec_fns(fb, name=name):
            n += 1
            cn = Canon(f)
            rets = [x for b, i, x in f.tops() if x.get("k") == "ret"]
            s = cn.s(rets[0].get("x")) if len(rets) == 1 else ""
            lln = re.search(r"\[lambda@(\d+)\]", s)
            lam = [g for g in fb.fns.values() if g.kind == "lambda" and g.has_cfg and g.file == f.file and lln and g.line == int(lln.group(1))][:1]
            m = re.fullmatch(r"(?:abs|abs_value)\(\*(min_element|max_element)\(values_\.cbegin\(\), values_\.cend\(\), \[lambda@\d+\]\)\)", s)
            if not m or len(lam) != 1:
                raise AnalysisBroken("%s: %s is no longer abs(*std::%s(cbegin, cend, comparator)) (found '%s'): rule C19.abs cannot judge this formulation - re-audit" % (f.where, name, std, s[:90]))
            lc = Canon(lam[0])
            lrets = [x for b, i, x in lam[0].tops() if x.get("k") == "ret"]
            ls = lc.s(lrets[0].get("x")) if len(lrets) == 1 else ""
            ok = m.group(1) == std and ls in ("(abs(P0) < abs(P1))", "(abs_value(P0) < abs_value(P1))")
            (ck.ok if ok else lambda r, w, t: ck.violate(r, w, t, "C19.abs:%s" % name))("C19.abs", f.where, "%s::%s = abs(*std::%s(all components, abs(a) < abs(b))) (found %s with comparator %s)" % (f.cls.replace("OpenVolumeMesh::Geometry::", ""), name, std, m.group(1), ls))
    ck.floor("abs_reductions", n, 4)


def normal_attrib(ck, fb):
    """NormalAttrib: face normals for every face from halfface 0, odd halffaces negated, vertex normals sum over ALL
    boundary halffaces around the vertex"""
    from .canon import Canon, origin
    from .rule_l import atoms_at, fmt_atoms
    ck.rule("C19.normals", "NormalAttrib: update_face_normals stores normal(halfface 0) for every face; operator[](halfface) negates for the odd side; compute_vertex_normal visits every outgoing halfedge and every halfface around it without leaving a loop early, collects exactly the boundary halffaces in a std::set, sums operator[] over the whole set, normalises and stores at the vertex; update_vertex_normals does this for every vertex after the face normals")
    fs = [f for f in fb.fns.values() if f.has_cfg and f.cls and f.cls.startswith("OpenVolumeMesh::NormalAttrib<") and "/Attribs/NormalAttrib" in f.file]
    by = {}
    for f in fs:
        by.setdefault((f.name, f.where), f)
    names = {k[0] for k in by}
    for need in ("compute_vertex_normal", "update_vertex_normals", "update_face_normals", "operator[]"):
        if need not in names:
            raise AnalysisBroken("anchor vanished: NormalAttrib::%s" % need)
    n = 0
    for (name, where), f in sorted(by.items()):
        cn = Canon(f)
        if name == "compute_vertex_normal":
            n += 1
            early = []
            for hdr, body, backs in f.loops():
                for bb in body:
                    if bb != hdr and any(s_ is not None and s_ not in body for s_ in f.succ(bb)):
                        early.append(bb)
            (ck.ok if not early else lambda r, w, t: ck.violate(r, w, t, "C19.normals:early"))("C19.normals", f.where, "compute_vertex_normal leaves no loop early (%d loops%s)" % (len(f.loops()), "" if not early else "; break/return in block(s) %s" % sorted(set(early))))
            sets = [vid for vid, (v, b, i) in cn.decl.items() if v["t"].startswith("std::set<OpenVolumeMesh::HFH")]
            ins = [(bb, m) for vid in sets for k, bb, ii, m in cn.mods.get(vid, []) if m.get("pn", "").split("::")[-1] in ("insert", "emplace")]
            ok = len(ins) == 1
            why = "%d insert site(s)" % len(ins)
            if ok:
                bb, m = ins[0]
                x = cn.s(m["a"][0])
                at = {(cn.s(c), pol) for c, pol, e in f.facts(bb) if isinstance(pol, bool) and (f.term(e[0]) or {}).get("c") not in ("ForStmt", "WhileStmt", "CXXForRangeStmt", "DoStmt")}
                o1 = origin(cn, m["a"][0])
                o2 = origin(cn, o1[1]) if o1 else None
                ok = at == {("is_boundary(%s)" % x, True)} or at == {("kernel_->is_boundary(%s)" % x, True)} or (len(at) == 1 and list(at)[0][1] is True and list(at)[0][0].endswith("is_boundary(%s)" % x))
                ok = ok and bool(o1 and o1[0] == "halffaces_of_halfedge" and o2 and o2[0] == "outgoing_halfedges_of_vertex" and cn.s(o2[1]) == "P0")
                why = "insert of %s under %s" % (x[:50], sorted(at))
            (ck.ok if ok else lambda r, w, t: ck.violate(r, w, t, "C19.normals:collect"))("C19.normals", f.where, "compute_vertex_normal collects exactly the boundary halffaces around the outgoing halfedges of the vertex (%s)" % why)
            txt = " ".join(cn.s(x) for b, i, x in f.tops())
            acc = [y for b, i, x in f.tops() for y in [as_assign(x)] if y and y[2] == "+="]
            ok = len(acc) == 1 and bool(sets) and "normalize()" in txt and "v_normals_[P0]" in txt
            (ck.ok if ok else lambda r, w, t: ck.violate(r, w, t, "C19.normals:sum"))("C19.normals", f.where, "the sum over the collected set is normalised and stored at the vertex")
        elif name == "update_face_normals":
            n += 1
            asg = [(b, y) for b, i, x in f.tops() for y in [as_assign(x)] if y]
            ok = len(asg) == 1 and cn.s(asg[0][1][0]).endswith("f_normals_[each(kernel_.faces())]") and "normal(each(kernel_.faces()).halfface_handle(0))" in cn.s(asg[0][1][1])
            (ck.ok if ok else lambda r, w, t: ck.violate(r, w, t, "C19.normals:faces"))("C19.normals", f.where, "update_face_normals: f_normals_[f] = normal(halfface 0 of f) for every face (%s)" % [cn.s(a[1][0]) + " = " + cn.s(a[1][1]) for a in asg][:1])
        elif name == "update_vertex_normals":
            n += 1
            calls = [cn.s(x) for b, i, x in f.tops() if x.get("k") == "call"]
            ok = any(c.endswith("compute_vertex_normal(each(kernel_.vertices()))") for c in calls) and any("update_face_normals()" in c for c in calls)
            (ck.ok if ok else lambda r, w, t: ck.violate(r, w, t, "C19.normals:vertices"))("C19.normals", f.where, "update_vertex_normals recomputes the face normals and then every vertex")
        elif name == "operator[]" and "HFH" in f.d["params"][0]["t"]:
            n += 1
            txt = " ".join(cn.s(x) for b, i, x in f.tops())
            ok = "= -1" in txt and (ceq("(P0.idx() % 2)", "1") in txt or ceq("P0.subidx()", "1") in txt) and ("f_normals_[face_handle(P0)] * v0" in txt or "f_normals_[P0.face_handle()] * v0" in txt)
            (ck.ok if ok else lambda r, w, t: ck.violate(r, w, t, "C19.normals:side"))("C19.normals", f.where, "operator[](halfface) = face normal, negated for the odd side")
    ck.floor("normal_attrib_functions", n, 4)


def lit_or_var_index(e):
    e = unwrap(strip_casts(e))
    if isinstance(e, dict) and e.get("k") == "idx":
        return estr(e["b"]).replace("this.", ""), estr(e["i"])
    return None
