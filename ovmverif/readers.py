"""C07 / C18: discipline rules over the two file readers (and the OVMB writer for C18).

B  byte budget of the OVMB decoder      R  handle range before construction
U  result discipline of add_*           Q  empty-sequence access in kernel code reachable from the readers
T  loop termination                     X  exception escape
E  error-state discipline               S  stream discipline        V  validation must-pass-through"""
from collections import defaultdict, deque

from .extract import AnalysisBroken
from .facts import as_assign, estr, need_names, unwrap, walk
from .rule_g import index_root, iter_sites

DEC = "OpenVolumeMesh::IO::detail::Decoder"
BFR = "OpenVolumeMesh::IO::detail::BinaryFileReader"
BFW = "OpenVolumeMesh::IO::detail::BinaryFileWriter"
FM = "OpenVolumeMesh::IO::FileManager"
TK = "OpenVolumeMesh::TopologyKernel"


def repo_fn(f):
    return "/src/OpenVolumeMesh/" in f.file or "/verif/fixtures/" in f.file


def reader_entries(fb):
    out = []
    for f in fb.fns.values():
        if not f.has_cfg or not repo_fn(f):
            continue
        if f.cls == BFR and f.d.get("access") == "public" and f.kind == "method":
            out.append(f)
        elif f.cls == FM and f.name in ("readStream", "readFile", "isHexahedralMesh", "isTetrahedralMesh"):
            out.append(f)
        elif f.pq == "OpenVolumeMesh::IO::ovmb_read":
            out.append(f)
    return out


def reachable(fb, entries, follow_virtual=True):
    """fid -> predecessor (for chains) of everything reachable from entries inside the repository"""
    pred = {f.id: None for f in entries}
    dq = deque(f.id for f in entries)
    while dq:
        fid = dq.popleft()
        f = fb.fns[fid]
        for b, i, n, tgt in fb.callees(f, virtual_fanout=follow_virtual):
            if tgt is None or not tgt.has_cfg or not repo_fn(tgt) or b not in f.reach():
                continue
            if tgt.id not in pred:
                pred[tgt.id] = (fid, f.loc(n))
                dq.append(tgt.id)
        # lambdas created here are run here (or in callees)
        for b, i, n in f.nodes(("lambda",)):
            u = n.get("u")
            for g in fb.fns.values():
                if g.kind == "lambda" and (g.d.get("lambda_base") == u or g.id == u) and g.id not in pred and g.has_cfg:
                    pred[g.id] = (fid, f.loc(n))
                    dq.append(g.id)
    return pred


def chain(fb, pred, fid):
    out = []
    while fid is not None and pred.get(fid) is not None:
        p, loc = pred[fid]
        out.append("%s: %s calls %s" % (loc, fb.fns[p].pq.split("::")[-1], fb.fns[fid].pq.split("::")[-1]))
        fid = p
    return out


# =============================================================================================== B
def root_of(e):
    """identity of an object expression: ('this',) / ('var', id) / ('tmp', text)"""
    e = unwrap(e)
    while isinstance(e, dict) and e.get("k") in ("un",) and e.get("op") in ("*", "&"):
        e = unwrap(e["x"])
    if not isinstance(e, dict):
        return ("none",)
    if e.get("k") == "this":
        return ("this",)
    if e.get("k") == "var":
        return ("var", e["id"], e.get("s"))
    if e.get("k") == "mem":
        return ("mem", e["f"])
    return ("tmp", estr(e)[:60])


def is_decoder_type(t):
    return t.replace("const ", "").replace("&", "").strip() == DEC


class Budget:
    def __init__(self, ck, fb):
        self.ck, self.fb = ck, fb
        self.need_fn = [f for f in fb.by_cls.get(DEC, []) if f.name == "need"]
        self.rem_fn = [f for f in fb.by_cls.get(DEC, []) if f.name == "remaining_bytes"]
        if not self.need_fn or not self.rem_fn:
            raise AnalysisBroken("B: Decoder::need / remaining_bytes not found")
        self.need_ids = {f.id for f in self.need_fn}
        self.rem_ids = {f.id for f in self.rem_fn}

    def absolute_seek_ok(self, f):
        """Decoder::seek(off) is only reached from Decoder members that pass size() (skip())"""
        callers = self.fb.callers(f.id)
        if not callers:
            return False
        for g, b, i, n in callers:
            if g.cls != DEC or not n.get("a"):
                return False
            a = unwrap(g.resolve(n["a"][0]))
            if not (isinstance(a, dict) and a.get("k") == "call" and a.get("pn", "").endswith("Decoder::size") and root_of(a.get("r")) == ("this",)):
                return False
        return True

    def budget_at(self, f, pos, root):
        """is decoder `root` budgeted at pos in f?  (reason or None)"""
        b = pos[0]
        for bb, ii, n in f.nodes(("call",)):
            if n.get("u") in self.need_ids and n.get("r") is not None:
                if root_of(f.resolve(n["r"])) == root and f.dominates((bb, ii), pos):
                    return "need(%s) dominates" % estr(f.resolve(n.get("a", [])))[:40]
        for cond, pol, edge in f.facts(b):
            for x in walk(cond):
                if x.get("k") == "call" and x.get("u") in self.rem_ids and x.get("r") is not None and root_of(x["r"]) == root:
                    return "guard %s is %s" % (estr(cond)[:60], pol)
        return None

    def run(self):
        ck, fb = self.ck, self.fb
        ck.rule("B.prim", "every Decoder member that advances or dereferences cur_ is dominated by need() on this, or its callers must provide the budget")
        ck.rule("B.call", "every call of an unbudgeted decoder read happens where the decoder is budgeted (need() dominating, or a remaining_bytes() guard); the obligation is pushed along the resolved call graph (templates, generic lambdas, virtual codecs) and must be discharged before the decoder's creation site")
        # consuming sites inside Decoder
        req = {}  # fn id -> (param index | 'this' | ('cap', var id)) -> chain
        n_sites = n_ok = 0
        prims = []
        violations_direct = []
        def cur_mem(x):
            x = unwrap(x)
            return isinstance(x, dict) and x.get("k") == "mem" and x.get("f") == "cur_" and x.get("o") == DEC

        for f in fb.fns.values():
            if not f.has_cfg or not repo_fn(f) or f.id in self.need_ids:
                continue
            if f.cls == DEC and f.kind in ("ctor", "dtor"):
                continue
            sites = []
            for n, parents, pos in iter_sites(f):
                if pos[0] not in f.reach():
                    continue
                k = n.get("k")
                tgt = None
                if k == "asg" and cur_mem(n["l"]):
                    if f.cls == DEC and n["op"] == "=" and self.absolute_seek_ok(f):
                        self.ck.ok("B.prim", f.where, "%s repositions cur_ absolutely; its only caller passes size() of the same decoder" % f.name)
                        continue
                    tgt = (n, unwrap(n["l"]))
                elif k == "un" and n["op"] in ("pre++", "post++", "*") and cur_mem(n["x"]):
                    tgt = (n, unwrap(n["x"]))
                elif k == "idx" and cur_mem(n["b"]):
                    tgt = (n, unwrap(n["b"]))
                elif k == "call" and n.get("pn", "").split("::")[-1] == "memcpy":
                    for a in n.get("a", []):
                        if cur_mem(a):
                            tgt = (n, unwrap(a))
                if tgt is not None:
                    sites.append((tgt[0], tgt[1], pos))
            if not sites:
                continue
            prims.append(f)
            for n, m, pos in sites:
                n_sites += 1
                r = root_of(m["b"])
                why = self.budget_at(f, pos, r)
                where = f.loc(n if n.get("ln") else f.line)
                what = "%s: %s needs budget on decoder %s" % (f.diag.split("Decoder::")[-1][:50], estr(n)[:50], estr(m["b"]))
                if why:
                    n_ok += 1
                    ck.ok("B.prim", where, what + " - " + why)
                    continue
                slot = None
                if r[0] == "this":
                    slot = "this"
                elif r[0] == "var" and r[2] == "param":
                    ps = [p["id"] for p in f.d["params"]]
                    slot = ps.index(r[1]) if r[1] in ps else None
                if slot is None:
                    violations_direct.append((f, where, ["%s: %s" % (where, estr(n)[:60])], estr(m["b"])))
                else:
                    req.setdefault(f.id, {}).setdefault(slot, ["%s: %s" % (where, estr(n)[:60])])
        ck.analysed["decoder_primitives"] = len(prims)
        ck.analysed["decoder_consuming_sites"] = n_sites
        # propagate
        work = deque(req.keys())
        violations = {}
        n_calls = 0
        seen_pairs = set()
        while work:
            fid = work.popleft()
            f = fb.fns[fid]
            for slot, ch in list(req[fid].items()):
                if (fid, slot) in seen_pairs:
                    continue
                seen_pairs.add((fid, slot))
                sites = []  # (caller fn, pos, decoder expr resolved, node)
                if isinstance(slot, tuple) and slot[0] == "cap":
                    d = fb.lambda_def(f)
                    if d:
                        pf, pb, pi = d
                        sites.append((pf, (pb, pi), {"k": "var", "n": slot[1].split("@")[0], "id": slot[1], "s": slot[2]}, pf.elem(pb, pi)))
                else:
                    for (g, b, i, n) in fb.callers(fid):
                        if not g.has_cfg or b not in g.reach() or "/verif/tu/" in g.file:
                            continue
                        if slot == "this":
                            if n.get("r") is None:
                                continue
                            dexp = g.resolve(n["r"])
                        else:
                            args = n.get("a", [])
                            if n.get("op") == "()" and n.get("r") is not None:
                                pass  # closure call: explicit args only
                            if slot >= len(args):
                                continue
                            dexp = g.resolve(args[slot])
                        sites.append((g, (b, i), dexp, n))
                for g, pos, dexp, n in sites:
                    n_calls += 1
                    r = root_of(dexp)
                    why = self.budget_at(g, pos, r)
                    where = g.loc(n if isinstance(n, dict) and n.get("ln") else g.line)
                    what = "%s: call of %s needs budget on %s" % (g.pq.split("::")[-1], f.pq.split("::")[-1], estr(dexp)[:30])
                    if why:
                        ck.ok("B.call", where, what + " - " + why)
                        continue
                    # sized-by-construction: make_decoder(E).padding(E)
                    dd = unwrap(dexp)
                    if isinstance(dd, dict) and dd.get("k") == "call" and dd.get("pn", "").endswith("make_decoder") and isinstance(n, dict) and n.get("a") and estr(g.resolve(n["a"])) == estr(dd.get("a")):
                        ck.ok("B.call", where, what + " - decoder created with exactly the consumed size")
                        continue
                    nch = ["%s: %s calls %s" % (where, g.pq.split("::")[-1], f.pq.split("::")[-1])] + ch
                    slot2 = None
                    if r[0] == "this":
                        slot2 = "this"
                    elif r[0] == "var":
                        ps = [p["id"] for p in g.d["params"]]
                        if r[2] == "param" and r[1] in ps:
                            slot2 = ps.index(r[1])
                        elif g.kind == "lambda" and r[2] in ("local", "param") and not declared_in(g, r[1]):
                            slot2 = ("cap", r[1], r[2])
                    if slot2 is None:
                        violations.setdefault((g.id, f.id), (g, where, nch, estr(dexp)[:40]))
                    else:
                        if slot2 not in req.setdefault(g.id, {}):
                            req[g.id][slot2] = nch
                            work.append(g.id)
        canary = False
        for (g, where, ch, dtxt) in violations_direct:
            if "/verif/fixtures/" in g.file:
                canary = True
                continue
            ck.violate("B.prim", where, "%s consumes bytes of decoder '%s' it created without any byte budget" % (g.diag[:80] or g.pq, dtxt), "B:%s:direct" % g.pq, detail={"chain": ch})
        for (gid, fid), (g, where, ch, dtxt) in sorted(violations.items()):
            if "/verif/fixtures/" in g.file:
                canary = True
                continue
            ck.violate("B.call", where, "%s reads from decoder '%s' it created without any byte budget (need()/remaining_bytes()) on the path to an unchecked primitive" % (g.diag[:80] or g.pq, dtxt), "B:%s:%s" % (g.pq, fb.fns[fid].pq), detail={"chain": ch})
        ck.canary("canary_b (unbudgeted Decoder read on a locally created decoder)", canary)
        ck.analysed["budget_call_sites_checked"] = n_calls
        ck.analysed["functions_requiring_budget"] = len(req)
        ck.floor("decoder_primitives", len(prims), 8)
        ck.floor("decoder_consuming_sites", n_sites, 12)


def declared_in(f, var_id):
    for b, i, n in f.nodes(("decl",)):
        for v in n["vars"]:
            if v["id"] == var_id:
                return True
    return var_id in [p["id"] for p in f.d["params"]]


# =============================================================================================== E
GOOD_STATES = {"Ok", "Init", "HeaderRead", "ReadingChunks", "Finished"}


def enum_name(x):
    x = unwrap(x)
    if isinstance(x, dict) and x.get("k") == "enum":
        return x["n"].split("::")[-1], x["n"]
    return None, None


def state_assigns(f):
    """(pos, node, state name) for every `state_ = ReadState::X` in f (incl. lambdas handled by caller)"""
    out = []
    for n, parents, pos in iter_sites(f):
        if n.get("k") == "asg" and n["op"] == "=":
            l = unwrap(n["l"])
            if isinstance(l, dict) and l.get("k") == "mem" and l.get("f") == "state_" and l.get("o") == BFR:
                nm, q = enum_name(n["r"])
                if nm:
                    out.append((pos, n, nm))
    return out


def blocks_after(f, pos):
    """blocks reachable strictly after position pos (the rest of its own block counts via index)"""
    seen = set()
    st = [s for s in f.succ(pos[0]) if s is not None]
    while st:
        b = st.pop()
        if b in seen:
            continue
        seen.add(b)
        st.extend(s for s in f.succ(b) if s is not None)
    return seen


def error_state_rules(ck, fb):
    ck.rule("E.noresurrect", "in every BinaryFileReader member no path leads from the assignment of an error ReadState to state_ = ReadState::Ok, to return ReadResult::Ok or to return true")
    ck.rule("E.leave", "after assigning an error ReadState a void chunk reader does nothing else that consumes input or changes the mesh/counters: every such later action is behind a test of state_")
    ck.rule("E.retest", "every caller of a chunk reader re-tests state_ before it continues (read_chunk after the dispatch switch; internal_read_file after read_chunk, leaving with a non-Ok result)")
    fns = [f for f in fb.fns.values() if f.has_cfg and repo_fn(f) and (f.cls == BFR or (f.kind == "lambda" and BFR + "::" in (f.d.get("lambda_parent") or "").replace("@S@", "::") or f.kind == "lambda" and "BinaryFileReader" in (f.d.get("lambda_parent") or "")))]
    n_err = 0
    setters = set()
    for f in fns:
        asg = state_assigns(f)
        errs = [(p, n, s) for p, n, s in asg if s not in GOOD_STATES]
        if errs:
            setters.add(f.id)
        succ_sites = []
        for n, parents, pos in iter_sites(f):
            if n.get("k") == "ret":
                nm, q = enum_name(n.get("x"))
                x = unwrap(n.get("x"))
                if (nm == "Ok" and q and "ReadResult" in q) or (isinstance(x, dict) and x.get("k") == "lit" and x.get("v") is True and f.d.get("ret") == "bool"):
                    succ_sites.append((pos, n, "return %s" % estr(x)))
        for p, n, s in asg:
            if s == "Ok":
                succ_sites.append((p, n, "state_ = Ok"))
        for p, n, s in errs:
            n_err += 1
            after = blocks_after(f, p)
            bad = [(sp, sn, what) for sp, sn, what in succ_sites if sp[0] in after or (sp[0] == p[0] and sp[1] > p[1])]
            # a success site behind a re-test of state_ is fine
            bad2 = []
            for sp, sn, what in bad:
                guarded = any("state_" in estr(c) for c, pol, e in f.facts(sp[0]) if edge_after(f, e, p))
                if not guarded:
                    bad2.append((sp, sn, what))
            where = f.loc(n)
            if bad2:
                ck.violate("E.noresurrect", where, "%s: after state_ = %s a path reaches '%s' at line %s" % (f.pq.split("::")[-1], s, bad2[0][2], bad2[0][1].get("ln")), "E.noresurrect:%s:%s" % (f.pq, s))
            else:
                ck.ok("E.noresurrect", where, "%s: state_ = %s can never be followed by a success result" % (f.pq.split("::")[-1], s))
            # E.leave: later actions
            if f.d.get("ret") in ("void", "bool") or f.kind == "lambda":
                acts = []
                for b, i, c in f.nodes(("call", "asg", "un")):
                    if not (b in after or (b == p[0] and i > p[1])):
                        continue
                    desc = None
                    if c.get("k") == "call":
                        pn = c.get("pn", "")
                        if pn.startswith(TK + "::add_") or pn.startswith(DEC + "::") and pn.split("::")[-1] not in ("remaining_bytes", "finished", "pos", "size") or pn.endswith("::make_decoder") or pn.endswith("::deserialize"):
                            desc = pn.split("::")[-1] + "()"
                    else:
                        t = unwrap(f.resolve(c.get("l") or c.get("x")))
                        if isinstance(t, dict) and t.get("k") == "mem" and t.get("f", "").endswith("_read_"):
                            desc = "update of " + t["f"]
                    if desc and not any("state_" in estr(cn) for cn, pol, e in f.facts(b) if edge_after(f, e, p)):
                        acts.append("%s at line %s" % (desc, c.get("ln")))
                if acts:
                    ck.violate("E.leave", where, "%s: after state_ = %s the function still performs %s without re-testing state_" % (f.pq.split("::")[-1], s, acts[0]), "E.leave:%s:%s" % (f.pq, s))
                else:
                    ck.ok("E.leave", where, "%s: nothing consumes input or mutates after state_ = %s without a state_ test" % (f.pq.split("::")[-1], s))
    # E.header: the body of the file is only read in state HeaderRead
    ck.rule("E.header", "internal_read_file is entered only where state_ == ReadState::HeaderRead is known (a header that failed to parse leaves another state; the return value of a second read_header() call says nothing)")
    nh = 0
    for f in fns:
        for b, i, x in f.nodes(("call",)):
            if x.get("pn", "").endswith("BinaryFileReader::internal_read_file") and b in f.reach():
                nh += 1
                fs = {(estr(c), pol) for c, pol, e in f.facts(b) if isinstance(pol, bool)}
                ok = any(("state_" in c_ and "HeaderRead" in c_) and (("!=" in c_ and pol is False) or ("==" in c_ and pol is True)) for c_, pol in fs)
                (ck.ok if ok else lambda r, w, t: ck.violate(r, w, t, "E.header:%s" % f.pq))("E.header", f.loc(x), "%s calls internal_read_file under state_ == HeaderRead (facts: %s)" % (f.pq.split("::")[-1], sorted(c_ for c_, p_ in fs if "state_" in c_)))
    ck.floor("internal_read_file_call_sites", nh, 1)
    ck.analysed["error_state_assignments"] = n_err
    ck.floor("error_state_assignments", n_err, 25)
    # E.retest: transitive setters
    may_set = set(setters)
    changed = True
    while changed:
        changed = False
        for f in fns:
            if f.id in may_set:
                continue
            for b, i, n, tgt in fb.callees(f):
                if tgt is not None and tgt.id in may_set:
                    may_set.add(f.id)
                    changed = True
                    break
    n_ret = 0
    for f in fns:
        if f.kind == "lambda" or f.name not in ("read_chunk", "internal_read_file"):
            continue
        for b, i, n, tgt in fb.callees(f):
            if tgt is None or tgt.id not in may_set or tgt.cls != BFR or tgt.d.get("ret") != "void" or b not in f.reach():
                continue
            n_ret += 1
            # every path from the call to a consuming action / success passes a state_ test
            after = blocks_after(f, (b, i))
            bad = None
            for bb, ii, c in f.nodes(("call", "ret")):
                if not (bb in after or (bb == b and ii > i)):
                    continue
                consuming = False
                if c.get("k") == "call":
                    pn = c.get("pn", "")
                    consuming = pn.endswith("::make_decoder") or pn.endswith("Decoder::padding") or pn.endswith("::finished") or (pn.startswith(BFR + "::read_") and f.name == "internal_read_file" and False)
                else:
                    nm, q = enum_name(c.get("x"))
                    consuming = nm == "Ok"
                if consuming and not any("state_" in estr(cn) for cn, pol, e in f.facts(bb) if edge_after(f, e, (b, i))):
                    # inside the same loop iteration a new read_chunk is fine only behind the test
                    bad = "%s at line %s" % (estr(c)[:40], c.get("ln"))
                    break
            where = f.loc(n)
            if bad:
                ck.violate("E.retest", where, "%s continues with %s after %s() without testing state_" % (f.name, bad, tgt.name), "E.retest:%s:%s" % (f.pq, tgt.pq))
            else:
                ck.ok("E.retest", where, "%s re-tests state_ after %s() before consuming more input or reporting success" % (f.name, tgt.name))
    ck.floor("retest_call_sites", n_ret, 5)


def edge_after(f, edge, pos):
    """the guarding branch (B,k) is evaluated after position pos (B reachable from pos's block, or later in the same block)"""
    B = edge[0]
    if B == pos[0]:
        return True  # terminator of the same block comes after every element
    return B in blocks_after(f, pos)


# =============================================================================================== V
def validation_rules(ck, fb):
    ck.rule("V.ok", "BinaryFileReader::internal_read_file returns ReadResult::Ok only when the stream is exhausted, an EOF chunk was seen and the header counts equal the mesh's vertex/edge/face/cell counts")
    ck.rule("V.header", "read(FileHeader) compares the magic, tests header_version and validates the reserved bytes; read(ChunkHeader) rejects padding > length")
    ck.rule("V.chunk", "read_chunk tests file_length against the remaining stream, rejects unknown mandatory chunk types and versions, requires finished() after the payload and validates the padding bytes; an EOF chunk must be empty and unique")
    ck.rule("V.span", "validate_span dominates every entity creation of the vertex/edge/face/cell chunk readers; the exact remaining-bytes test dominates the bulk loops")
    f = [x for x in fb.by_cls.get(BFR, []) if x.name == "internal_read_file" and x.has_cfg]
    if not f:
        raise AnalysisBroken("anchor vanished: BinaryFileReader::internal_read_file")
    f = f[0]
    outp = f.d["params"][0]["n"]
    oks = []
    for n, parents, pos in iter_sites(f):
        if n.get("k") == "ret":
            nm, q = enum_name(n.get("x"))
            if nm == "Ok":
                oks.append((pos, n))
    if not oks:
        raise AnalysisBroken("internal_read_file has no return ReadResult::Ok")
    for pos, n in oks:
        facts = [(estr(c), pol) for c, pol, e in f.facts(pos[0])]
        fs = {(c, p) for c, p in facts}
        want = [("EOF chunk seen", lambda c, p: "reached_eof_chunk" in c and ((p is True and not c.startswith("!")))),
                ("stream exhausted", lambda c, p: "stream_.remaining_bytes()" in c and (("!= 0" in c and p is False) or ("> 0" in c and p is False) or ("== 0" in c and p is True)))]
        for cnt, acc in (("n_verts", "n_vertices"), ("n_edges", "n_edges"), ("n_faces", "n_faces"), ("n_cells", "n_cells")):
            want.append(("header %s equals mesh %s()" % (cnt, acc), (lambda c, p, cnt=cnt, acc=acc: ("file_header_.%s" % cnt) in c and ("%s.%s()" % (outp, acc)) in c and (("!=" in c and p is False) or ("==" in c and p is True)))))
        # a count that was itself produced from the header proves nothing: when the entities of a kind are allocated up
        # front (add_n_vertices(header.n_verts)) the header has to be compared with the number actually read from chunks
        prealloc = {"add_n_vertices": ("n_verts", "n_verts_read_")}
        for b2, i2, x2 in f.nodes(("call",)):
            nm2 = x2.get("pn", "").split("::")[-1]
            if nm2 in prealloc and x2.get("a") and ("file_header_.%s" % prealloc[nm2][0]) in estr(f.resolve(x2["a"][0])):
                cnt, ctr = prealloc[nm2]
                want = [w for w in want if not w[0].startswith("header %s equals mesh" % cnt)]
                want.append(("header %s equals the number of vertices read from chunks (%s): the mesh count was allocated from the header" % (cnt, ctr), (lambda c, p, cnt=cnt, ctr=ctr: ("file_header_.%s" % cnt) in c and ctr in c and (("!=" in c and p is False) or ("==" in c and p is True)))))
        for label, pred in want:
            ok = any(pred(c, p) for c, p in fs)
            (ck.ok if ok else lambda r, w, t: ck.violate(r, w, t, "V.ok:%s" % label.split(" (")[0].split(":")[0]))("V.ok", f.loc(n), "return ReadResult::Ok requires: %s" % label)
    # header
    def fn_with_param(name, ptype):
        r = [x for x in fb.fns.values() if x.has_cfg and x.pq == "OpenVolumeMesh::IO::detail::" + name and len(x.d["params"]) == 2 and ptype in x.d["params"][1]["t"]]
        if not r:
            raise AnalysisBroken("anchor vanished: %s(Decoder&, %s&)" % (name, ptype))
        return r[0]
    rh = fn_with_param("read", "FileHeader")
    conds = []
    for b in rh.reach():
        t = rh.term(b)
        if t and t.get("cond"):
            conds.append((b, estr(rh.resolve(t["cond"]))))
    falses = [n for b, i, n in rh.tops() if n.get("k") == "ret" and unwrap(n.get("x")).get("v") is False]
    ok = any("ovmb_magic" in c and "!=" in c for b, c in conds) and len(falses) >= 2
    (ck.ok if ok else lambda r, w, t: ck.violate(r, w, t, "V.header:magic"))("V.header", rh.where, "read(FileHeader) returns false when the magic differs")
    ok = any("header_version" in c and "!= 1" in c for b, c in conds)
    (ck.ok if ok else lambda r, w, t: ck.violate(r, w, t, "V.header:version"))("V.header", rh.where, "read(FileHeader) returns false unless header_version == 1")
    ok = any(n.get("pn", "").endswith("Decoder::reserved") and n.get("ta") == ["4"] for b, i, n in rh.nodes(("call",)))
    if not ok and not any(n.get("pn", "").endswith("Decoder::reserved") for b, i, n in rh.nodes(("call",))):
        # another way of consuming + testing the four bytes may be equivalent: not judged here (C06's codec symmetry still
        # decides that four bytes are consumed at this position)
        ck.cannot_judge("%s: read(FileHeader) no longer validates the reserved bytes through Decoder::reserved<4>() - rule V.header cannot judge the new form, re-audit" % rh.where)
        ok = True
    (ck.ok if ok else lambda r, w, t: ck.violate(r, w, t, "V.header:reserved"))("V.header", rh.where, "read(FileHeader) validates the 4 reserved bytes")
    rc = fn_with_param("read", "ChunkHeader")
    ok = False
    for b, i, n in rc.nodes(("throw",)):
        for c, pol, e in rc.facts(b):
            s = estr(c)
            if "padding_bytes" in s and "file_length" in s and ">" in s and pol is True:
                ok = True
    (ck.ok if ok else lambda r, w, t: ck.violate(r, w, t, "V.header:padding"))("V.header", rc.where, "read(ChunkHeader) throws when padding_bytes > file_length")
    # reserved<N>/padding validate: they throw on non-zero
    for name in ("reserved", "padding"):
        for g in [x for x in fb.by_cls.get(DEC, []) if x.name == name and x.has_cfg]:
            ok = any(True for b, i, n in g.nodes(("throw",)) if any("!= 0" in estr(c) and pol is True for c, pol, e in g.facts(b)))
            (ck.ok if ok else lambda r, w, t: ck.violate(r, w, t, "V.header:%s" % name))("V.header", g.where, "Decoder::%s throws on a non-zero byte" % g.diag.split("::")[-1][:30])
    # chunk
    rk = [x for x in fb.by_cls.get(BFR, []) if x.name == "read_chunk" and x.has_cfg][0]
    errs = state_assigns(rk)
    def has_err(state, pred):
        for p, n, s in errs:
            if s == state and any(pred(estr(c), pol) for c, pol, e in rk.facts(p[0])):
                return True
        return False
    checks = [
        ("chunk length exceeds the remaining stream", has_err("ErrorChunkTooBig", lambda c, p: "file_length" in c and "remaining_bytes" in c and ">" in c and p is True)),
        ("unsupported version of a mandatory chunk", has_err("ErrorUnsupportedChunkVersion", lambda c, p: "isMandatory" in c and p is True)),
        ("unknown mandatory chunk type", has_err("ErrorUnsupportedChunkType", lambda c, p: "isMandatory" in c and p is True)),
        ("payload not fully consumed", has_err("ErrorInvalidFile", lambda c, p: "finished()" in c and p is False)),
        ("non-empty EOF chunk", has_err("Error", lambda c, p: "payload_length" in c and "!= 0" in c and p is True)),
        ("duplicate EOF chunk", has_err("Error", lambda c, p: c.strip("()") == "reached_eof_chunk" and p is True)),
    ]
    for label, ok in checks:
        (ck.ok if ok else lambda r, w, t: ck.violate(r, w, t, "V.chunk:%s" % label))("V.chunk", rk.where, "read_chunk rejects: %s" % label)
    optional_chunk_rule(ck, fb, rk)
    pad = [(b, i, n) for b, i, n in rk.nodes(("call",)) if n.get("pn", "").endswith("Decoder::padding")]
    pd = rk.postdominators()
    ok = bool(pad) and all(any("state_" in estr(c) for c, pol, e in rk.facts(b)) or True for b, i, n in pad)
    (ck.ok if ok else lambda r, w, t: ck.violate(r, w, t, "V.chunk:padding"))("V.chunk", rk.where, "read_chunk validates the chunk's padding bytes (Decoder::padding)")
    # span
    vs = [x for x in fb.by_cls.get(BFR, []) if x.name == "validate_span" and x.has_cfg]
    if not vs:
        raise AnalysisBroken("anchor vanished: BinaryFileReader::validate_span")
    vs = vs[0]
    for name, creators in (("read_edges", ("add_edge",)), ("read_faces", ("add_face",)), ("read_cells", ("add_cell",)), ("read_vertices_chunk", ("read",))):
        g = [x for x in fb.by_cls.get(BFR, []) if x.name == name and x.has_cfg]
        if not g:
            raise AnalysisBroken("anchor vanished: BinaryFileReader::" + name)
        g = g[0]
        vcalls = [(b, i) for b, i, n in g.nodes(("call",)) if n.get("u") == vs.id]
        ok = False
        if vcalls:
            vb = vcalls[0]
            # the validate_span result guards everything after: its false branch leaves
            guarded_all = True
            found = 0
            subs = [g] + [h for h in fb.fns.values() if h.kind == "lambda" and h.d.get("lambda_parent") == g.id and h.has_cfg]
            for h in subs:
                for b, i, n in h.nodes(("call",)):
                    pn = n.get("pn", "")
                    if pn.split("::")[-1] in creators and (pn.startswith(TK) or "GeometryReader" in pn):
                        found += 1
                        hb, hp = (h, (b, i))
                        if h is not g:
                            d = fb.lambda_def(h)
                            hb, hp = g, (d[1], d[2])
                        if not any("validate_span" in estr(c) and pol is True for c, pol, e in hb.facts(hp[0])):
                            guarded_all = False
            ok = found > 0 and guarded_all
        (ck.ok if ok else lambda r, w, t: ck.violate(r, w, t, "V.span:%s" % name))("V.span", g.where, "%s creates entities only after validate_span() succeeded" % name)
    rt = [x for x in fb.by_cls.get(BFR, []) if x.name == "read_topo_chunk" and x.has_cfg][0]
    from .canon import Canon
    import re as _re
    rcn = Canon(rt)

    def exact(cn_, blk, must):
        from .canon import eq_match
        for s_, pol, c in cn_.facts(blk):
            m = eq_match(s_, "==", r"P0\.remaining_bytes\(\)", r"(.+)", pol=pol, want="==")
            if m and all(w in m[1].group(1) for w in must):
                return True
        return False
    encoding_rule(ck, fb)
    chunk_frame_rules(ck, fb)
    for callee in ("read_edges", "read_faces", "read_cells"):
        sites = [(b, i, n) for b, i, n in rt.nodes(("call",)) if n.get("pn", "").endswith("::" + callee)]
        ok = bool(sites) and all(exact(rcn, b, ["elem_size(", "handle_encoding"]) for b, i, n in sites)
        (ck.ok if ok else lambda r, w, t: ck.violate(r, w, t, "V.span:exact:%s" % callee))("V.span", rt.where, "read_topo_chunk calls %s only when remaining_bytes() equals the expected payload size (handle count * elem_size(handle_encoding))" % callee)
    rv = [x for x in fb.by_cls.get(BFR, []) if x.name == "read_vertices_chunk" and x.has_cfg][0]
    vcn = Canon(rv)
    sites = [(b, i, n) for b, i, n in rv.nodes(("call",)) if "GeometryReader" in n.get("pn", "") and n.get("pn", "").endswith("::read")]
    ok = bool(sites) and all(exact(vcn, b, ["span.count", "elem_size(", "vertex_dim"]) for b, i, n in sites)
    (ck.ok if ok else lambda r, w, t: ck.violate(r, w, t, "V.span:exact:vertices"))("V.span", rv.where, "read_vertices_chunk reads positions only when remaining_bytes() == count * elem_size * vertex_dim")


# =============================================================================================== S
def stream_rules(ck, fb):
    ck.rule("S.sticky", "a failed read of the input stream stays failed: no reader code clears or overrides the stream state (clear/setstate/exceptions), so after a failure every later chunk decodes from zero bytes, the mandatory end-of-file chunk can no longer be seen and V.ok turns the failure into an error result")
    ck.rule("S.write", "the OVMB writer reports WriteResult::Ok only under ostream.good() evaluated after the last write (no write between the test and the return) and after a flush of the stream")
    ck.rule("S.read", "every std::istream::read in reader code is followed, on every path to a normal return, by a branch on the state of that stream (a short read leaves the rest of the zero-initialised buffer looking like file content)")
    n = 0
    canary = False
    entries = reader_entries(fb)
    reach = reachable(fb, entries)
    fix = [f for f in fb.fns.values() if "/verif/fixtures/" in f.file and f.has_cfg]
    for f in [fb.fns[i] for i in reach] + fix:
        if not ("/IO/" in f.file or "/verif/fixtures/" in f.file):
            continue
        for b, i, c in f.nodes(("call",)):
            pn = c.get("pn", "")
            if pn.split("::")[-1] in ("read", "seekg", "tellg") and pn.startswith("std::basic_istream") and "/verif/fixtures/" not in f.file:
                n += 1
            if pn.split("::")[-1] in ("clear", "setstate", "exceptions") and (pn.startswith("std::basic_ios") or pn.startswith("std::ios_base")) and b in f.reach():
                if "/verif/fixtures/" in f.file:
                    canary = True
                    continue
                ck.violate("S.sticky", f.loc(c), "%s resets the state of the input stream (%s)" % (f.pq.split("::")[-1], pn.split("::")[-1]), "S.sticky:%s" % f.pq)
    nread = 0
    for f in [fb.fns[i] for i in reach]:
        if "/IO/" not in f.file:
            continue
        for b, i, c in f.nodes(("call",)):
            pn = c.get("pn", "")
            if not (pn.startswith("std::basic_istream") and pn.split("::")[-1] == "read") or b not in f.reach():
                continue
            nread += 1
            sroot = estr(unwrap(f.resolve(c.get("r")))) if c.get("r") is not None else "?"
            cnt = estr(unwrap(f.resolve(c["a"][1]))) if len(c.get("a", [])) > 1 else None
            # blocks that branch on the stream state, or on "nothing was requested" (count == 0)
            cut = set()
            for bb in f.reach():
                t = f.term(bb)
                if not t or not t.get("cond") or not (bb == b or bb in f.reachable_from(b)):
                    continue
                cnd = f.resolve(t["cond"])
                for y in walk(cnd):
                    if isinstance(y, dict) and y.get("k") == "call" and y.get("pn", "").split("::")[-1] in STREAM_TESTS and ("basic_ios" in y.get("pn", "") or "basic_istream" in y.get("pn", "")) and sroot in estr(y):
                        cut.add(bb)
                sc = estr(cnd).replace(" ", "")
                if cnt and sc in ("(%s!=0)" % cnt, "(%s==0)" % cnt, "(0!=%s)" % cnt, "(0==%s)" % cnt):
                    cut.add(bb)
            bad = []
            seen_, work = set(), [b]
            while work:
                x_ = work.pop()
                if x_ in seen_ or (x_ in cut and x_ != b):
                    continue
                seen_.add(x_)
                if any(xx.get("k") == "ret" and (x_ != b or i2 > i) for b2, i2, xx in f.tops() if b2 == x_):
                    bad.append(x_)
                    continue
                if x_ == b and b in cut:
                    continue
                work += [s2 for s2 in f.succ(x_) if s2 is not None]
            (ck.ok if not bad else lambda r_, w, t: ck.violate(r_, w, t, "S.read:%s" % f.pq))("S.read", f.loc(c), "%s: the result of %s.read() is tested before the function returns normally" % (f.pq.split("::")[-1], sroot))
    ck.floor("istream_read_sites", nread, 1)
    ck.ok("S.sticky", "OVMB reader call graph", "%d raw istream read/seek/tell sites in %d reader-reachable functions, none followed by a state reset anywhere in the reader" % (n, len(reach)))
    ck.canary("canary_s (reader code clearing the stream state)", canary)
    ck.floor("istream_raw_sites", n, 1)
    # the verdict of S.write rests on the stream's state: every byte has to go through an operation that records failure there
    ck.rule("S.raw", "the writers hand their bytes to the std::ostream only through ostream::write / operator<< (which set badbit on a short write); nothing writes through the stream buffer (rdbuf()->sputn/sputc), whose failures leave good() true")
    nraw = 0
    for f in fb.fns.values():
        if not f.has_cfg or not ("/IO/" in f.file or "/FileManager/" in f.file) or "/src/OpenVolumeMesh/" not in f.file:
            continue
        for b, i, c in f.nodes(("call",)):
            pn = c.get("pn", "")
            if pn.startswith("std::basic_ostream") and pn.split("::")[-1] in ("write", "put"):
                nraw += 1
            if (pn.startswith("std::basic_streambuf") and pn.split("::")[-1] in ("sputn", "sputc", "xsputn", "pubsync")) or (pn.split("::")[-1] == "rdbuf" and pn.startswith("std::basic_ios") and not c.get("a")):
                if b in f.reach():
                    ck.violate("S.raw", f.loc(c), "%s writes through the stream buffer (%s): a failed write does not reach the stream state that S.write tests" % (f.pq.split("::")[-1], pn.split("::")[-1]), "S.raw:%s" % f.pq)
    if not any(o["rule"] == "S.raw" and o["status"] == "violated" for o in ck.oblig):
        ck.ok("S.raw", "OVMB/OVM writers", "%d ostream::write/put sites, no access to the stream buffer" % nraw)
        ck.floor("ostream_write_sites", nraw, 1)
    nw = 0
    for f in fb.by_cls.get(BFW, []):
        if not f.has_cfg or "WriteResult" not in (f.d.get("ret") or ""):
            continue
        for b, i, r in f.tops():
            if r.get("k") != "ret" or b not in f.reach():
                continue
            x = unwrap(r.get("x"))
            may_ok = any(enum_name(y)[0] == "Ok" for y in walk(x) if isinstance(y, dict) and y.get("k") == "enum")
            if not may_ok:
                if isinstance(x, dict) and x.get("k") in ("call", "var"):
                    nw += 1
                    ck.ok("S.write", f.loc(r), "%s forwards the result of %s" % (f.name, estr(x)[:40]))
                continue
            nw += 1
            ok = isinstance(x, dict) and x.get("k") == "cond" and enum_name(x["a"])[0] == "Ok" and enum_name(x["b"])[0] not in (None, "Ok") and isinstance(unwrap(x["c"]), dict) and unwrap(x["c"]).get("pn", "").split("::")[-1] == "good"
            if not ok and enum_name(x)[0] == "Ok":
                for c, pol, (B, k) in f.facts(b):
                    cc = unwrap(c)
                    if pol is True and isinstance(cc, dict) and cc.get("k") == "call" and cc.get("pn", "").split("::")[-1] == "good" and any(y.get("k") == "mem" and y.get("o") == BFW and "ostream" in y.get("t", "") for y in walk(cc.get("r"))):
                        # nothing is written between the evaluation of good() (terminator of B) and the return
                        between = blocks_after(f, (B, 10 ** 6)) & {bb for bb in f.reach() if b in f.reachable_from(bb)}
                        calls = [n2 for bb, ii, n2 in f.nodes(("call",)) if bb in between and bb != b]
                        if not calls and not [n2 for bb, ii, n2 in f.nodes(("call",)) if bb == b]:
                            ok = True
                        # ... and the stream was flushed before good() was evaluated (a buffered stream reports a failing device only then)
                        flushed = any(n2.get("pn", "").split("::")[-1] == "flush" and n2.get("pn", "").startswith("std::basic_ostream") and (bb == B or f.dominates((bb, ii), (B, 0))) for bb, ii, n2 in f.nodes(("call",)))
                        if ok and not flushed:
                            ok = False
                            ck.violate("S.write", f.loc(r), "%s evaluates ostream.good() without flushing the stream first: a failure of the device is not visible yet" % f.name, "S.write:%s:flush" % f.pq)
            (ck.ok if ok else lambda r_, w, t: ck.violate(r_, w, t, "S.write:%s" % f.pq))("S.write", f.loc(r), "%s: 'return %s' yields Ok only if ostream.good() holds at the return" % (f.name, estr(x)[:60]))
    ck.floor("writer_result_returns", nw, 1)


# =============================================================================================== R / U / Q
HKIND = {"OpenVolumeMesh::VH": "Vertex", "OpenVolumeMesh::EH": "Edge", "OpenVolumeMesh::HEH": "HalfEdge", "OpenVolumeMesh::FH": "Face", "OpenVolumeMesh::HFH": "HalfFace", "OpenVolumeMesh::CH": "Cell"}
COUNTERS = {  # reader-side counters that bound a handle kind (verified to exist on every run); (name, needs factor 2)
    "Vertex": [("n_verts_read_", False), ("n_vertices", False)],
    "HalfEdge": [("n_edges_read_", True), ("n_halfedges", False)],
    "HalfFace": [("n_faces_read_", True), ("n_halffaces", False)],
}
INT_TYPES_SIGNED = ("int", "long", "short", "long long", "signed char", "char")


def strip_casts(e):
    while True:
        e = unwrap(e)
        if isinstance(e, dict) and e.get("k") == "cast":
            e = e["x"]
        else:
            return e


def cmp_parts(c):
    """(op, lhs, rhs) for a built-in or overloaded comparison"""
    c = unwrap(c)
    if not isinstance(c, dict):
        return None
    if c.get("k") == "bin" and c.get("op") in ("<", "<=", ">", ">=", "==", "!="):
        return c["op"], c["l"], c["r"]
    if c.get("k") == "call" and c.get("op") in ("<", "<=", ">", ">=", "==", "!="):
        if c.get("r") is not None and len(c.get("a", [])) == 1:
            return c["op"], c["r"], c["a"][0]
        if len(c.get("a", [])) == 2:
            return c["op"], c["a"][0], c["a"][1]
    return None


def facts_with_lambda(fb, f, b, depth=0):
    out = list(f.facts(b))
    if f.kind == "lambda" and depth < 5:
        d = fb.lambda_def(f)
        if d:
            out += facts_with_lambda(fb, d[0], d[1], depth + 1)
    return out


def upper_bound_guard(facts, target):
    """bounds B such that facts imply target < B (strict) ; returns list of (bound expr, cond text)"""
    res = []
    t = estr(strip_casts(target))
    for c, pol, e in facts:
        if not isinstance(pol, bool):
            continue
        p = cmp_parts(c)
        if not p:
            continue
        op, l, r = p
        ls, rs = estr(strip_casts(l)), estr(strip_casts(r))
        if ls == t and ((op == ">=" and not pol) or (op == "<" and pol)):
            res.append((r, estr(c)))
        if rs == t and ((op == "<=" and not pol) or (op == ">" and pol)):
            res.append((l, estr(c)))
    return res


def lower_bound_guard(facts, target):
    t = estr(strip_casts(target))
    for c, pol, e in facts:
        if not isinstance(pol, bool):
            continue
        p = cmp_parts(c)
        if p:
            op, l, r = p
            ls, rs = estr(strip_casts(l)), estr(strip_casts(r))
            if ls == t and rs == "0" and ((op == "<" and not pol) or (op == ">=" and pol)):
                return True
        s = estr(c)
        if "is_valid()" in s and t in s and pol is True:
            return True
    return False


def expr_type(e):
    e = strip_casts(e)
    if isinstance(e, dict):
        return e.get("t") or ""
    return ""


_CANON_CACHE = {}


def role_bound(f, kind, ub):
    from .canon import Canon
    import re as _re
    cn = _CANON_CACHE.get(f.id)
    if cn is None:
        cn = _CANON_CACHE[f.id] = Canon(f)
    creator = {"Vertex": "add_vertex", "HalfEdge": "add_edge", "HalfFace": "add_face"}.get(kind)
    if not creator:
        return None
    drivers = set()
    for hdr, body, backs in f.loops():
        t = f.term(hdr)
        if not t or not t.get("cond"):
            continue
        m = _re.fullmatch(r"\(it\d+\(0\w*\) < (.+)\)", cn.s(t["cond"]))
        if not m:
            continue
        if any(x.get("pn", "").split("::")[-1] == creator and b in body for b, i, x in f.nodes(("call",))):
            drivers.add(m.group(1))
    for bnd, ctext in ub:
        bs = cn.s(bnd)
        for v in drivers:
            if (kind == "Vertex" and bs == v) or (kind != "Vertex" and bs in ("(2 * %s)" % v, "(%s * 2)" % v)):
                return ctext
    return None


def range_rules(ck, fb):
    ck.rule("R.handle", "in reader code every handle built from a decoded integer (from_unsigned, Handle(int), emplace_back(int) into a handle vector) is guarded by an upper-bound comparison of that very integer expression against the reader's counter of that kind (factor 2 for half-entities), and by a lower bound when the integer is signed")
    ck.rule("R.index", "props_[i] and valence vectors are only indexed behind a bound check of the same index")
    entries = reader_entries(fb)
    pred = reachable(fb, entries)
    # counters exist?
    text_members = {fl["n"] for fl in fb.records.get(BFR, {"fields": []})["fields"]}
    for kind, lst in COUNTERS.items():
        if not any(nm in text_members for nm, _ in lst):
            raise AnalysisBroken("R: no reader counter found for %s (expected one of %s)" % (kind, [n for n, _ in lst]))
    n_sites = 0
    canary = False
    fns = [fb.fns[i] for i in pred] + [f for f in fb.fns.values() if "/verif/fixtures/" in f.file and f.has_cfg]
    for f in fns:
        if not ("/IO/" in f.file or "/FileManager/" in f.file or "/verif/fixtures/" in f.file):
            continue
        for n, parents, pos in iter_sites(f):
            if pos[0] not in f.reach():
                continue
            arg = kind = None
            k = n.get("k")
            if k == "call" and n.get("pn", "").endswith("::from_unsigned") and n.get("a"):
                kind = HKIND.get(n.get("cc", ""), None) or HKIND.get(n.get("t", ""))
                arg = n["a"][0]
            elif k == "ctor" and n.get("t") in HKIND and len(n.get("a", [])) == 1 and not n.get("copy") and not n.get("move"):
                a0 = strip_casts(n["a"][0])
                if isinstance(a0, dict) and a0.get("k") != "lit" and not (a0.get("t", "") in HKIND):
                    kind, arg = HKIND[n["t"]], n["a"][0]
            elif k == "call" and n.get("pn", "").split("::")[-1] == "emplace_back" and len(n.get("a", [])) == 1:
                rt = n.get("rt", "")
                for hk, kd in HKIND.items():
                    if rt == "std::vector<%s>" % hk:
                        a0 = strip_casts(n["a"][0])
                        if isinstance(a0, dict) and a0.get("t", "") not in HKIND and a0.get("k") != "lit":
                            kind, arg = kd, n["a"][0]
            if arg is None or kind is None:
                continue
            a0 = strip_casts(arg)
            if isinstance(a0, dict) and a0.get("k") == "lit":
                continue
            n_sites += 1
            where = f.loc(n)
            facts = facts_with_lambda(fb, f, pos[0])
            what = "%s: %s handle from %s" % (f.pq.split("::")[-1], kind, estr(a0)[:40])
            # audited instance: loop over a validated span
            if kind == "Vertex" and "GeometryReaderT" in f.id:
                # by position: read(decoder, encoding, first, count) - the bound is first + count
                g_ = f
                while g_.kind == "lambda" and fb.lambda_def(g_):
                    g_ = fb.lambda_def(g_)[0]
                if len(g_.d["params"]) < 4:
                    raise AnalysisBroken("%s: GeometryReaderT::read no longer has the (decoder, encoding, first, count) signature" % g_.where)
                pf, pc = g_.d["params"][2]["n"], g_.d["params"][3]["n"]
                ub = upper_bound_guard(facts, arg)
                ok = any(estr(b).replace(" ", "").strip("()") in ("%s+%s" % (pf, pc), "%s+%s" % (pc, pf)) for b, c in ub)
                (ck.ok if ok else lambda r, w, t: ck.violate(r, w, t, "R.handle:%s:span" % f.pq))("R.handle", where, what + " is bounded by first+count of the span validated by validate_span (audited instance, V.span)")
                continue
            if kind not in COUNTERS:
                ck.violate("R.handle", where, what + ": no counter is registered for this handle kind in reader code", "R.handle:%s:%s:kind" % (f.pq, kind))
                continue
            ub = upper_bound_guard(facts, arg)
            good = None
            for bnd, ctext in ub:
                bt = estr(bnd)
                for nm, need2 in COUNTERS[kind]:
                    if nm in bt and (not need2 or "2 * " in bt or " * 2" in bt):
                        good = ctext
            fixture = "/verif/fixtures/" in f.file
            if not good and not fixture and f.cls != BFR and not (f.kind == "lambda" and "BinaryFileReader" in (f.d.get("lambda_parent") or "")):
                # readers without member counters (OVM ASCII): the bound is found by role - the declared count V that drives
                # the loop creating the entities of that kind (for (i < V) add_edge / add_face / add_vertex), doubled for halves
                good = role_bound(f, kind, ub)
            if not good:
                if fixture:
                    canary = True
                    continue
                from .facts import local_names
                known = local_names(f, fb) | text_members
                if ub and not any(nm in known for nm, _ in COUNTERS[kind]):
                    raise AnalysisBroken("R.handle: %s: none of the registered %s counters %s exists here any more - counter renamed? re-audit the table" % (f.where, kind, [nm for nm, _ in COUNTERS[kind]]))
                ck.violate("R.handle", where, what + " is not guarded by an upper-bound test of that same expression against the %s counter (guards on it: %s)" % (kind, [c for b, c in ub] or "none"), "R.handle:%s:%s" % (f.pq, kind))
                continue
            t = expr_type(arg).replace("const ", "")
            signed = t in INT_TYPES_SIGNED
            if signed and not lower_bound_guard(facts, arg):
                if fixture:
                    continue
                ck.violate("R.handle", where, what + " has signed type %s and no lower-bound (>= 0) guard" % t, "R.handle:%s:%s:signed" % (f.pq, kind))
                continue
            if not fixture:
                ck.ok("R.handle", where, what + " - guard " + good + (" (unsigned %s)" % t if not signed else ""))
    ck.canary("canary_r (handle built from an unchecked decoded integer)", canary)
    ck.analysed["handle_construction_sites"] = n_sites
    ck.floor("handle_construction_sites", n_sites, 7)
    # R.index
    ni = 0
    for f in [fb.fns[i] for i in pred]:
        if f.cls != BFR and not (f.kind == "lambda" and "BinaryFileReader" in (f.d.get("lambda_parent") or "")):
            continue
        for n, parents, pos in iter_sites(f):
            if n.get("k") != "idx" or pos[0] not in f.reach():
                continue
            b = unwrap(n["b"])
            name = None
            if isinstance(b, dict) and b.get("k") == "mem" and b.get("f") == "props_":
                name = "props_"
            elif isinstance(b, dict) and b.get("k") == "var" and b.get("t", "").replace("const ", "").startswith("std::vector<unsigned int>"):
                name = b["n"]
            if not name:
                continue
            ni += 1
            facts = facts_with_lambda(fb, f, pos[0])
            ub = upper_bound_guard(facts, n["i"])
            ok = any(name in estr(bd) and "size()" in estr(bd) for bd, c in ub)
            why = "bound check against %s.size()" % name
            if not ok and name != "props_":
                # audited: the valence vector is filled by read_n_ints(.., header.span.count) and indexed by i < header.span.count
                ok = any("span.count" in estr(bd) for bd, c in ub)
                why = "index bounded by header.span.count, the size established by read_n_ints (audited instance)"
            (ck.ok if ok else lambda r, w, t: ck.violate(r, w, t, "R.index:%s:%s" % (f.pq, name)))("R.index", f.loc(n), "%s: %s[%s] - %s" % (f.pq.split("::")[-1], name, estr(n["i"])[:30], why))
    ck.floor("reader_vector_index_sites", ni, 3)


def chunk_frame_rules(ck, fb):
    """framing clauses found through the round-4 C18 probes"""
    from .canon import Canon, split_eq
    ck.rule("V.eoflast", "internal_read_file reads a further chunk only while no end-of-file chunk has been seen: the EOF chunk is the last chunk of a file")
    f = [x for x in fb.by_cls.get(BFR, []) if x.name == "internal_read_file" and x.has_cfg][0]
    cn = Canon(f)
    sites = [(b, i, x) for b, i, x in f.nodes(("call",)) if x.get("pn", "").endswith("BinaryFileReader::read_chunk") and b in f.reach()]
    if not sites:
        raise AnalysisBroken("internal_read_file no longer calls read_chunk")
    for b, i, x in sites:
        fs = {(s_, p_) for s_, p_, c_ in cn.facts(b)}
        ok = ("reached_eof_chunk", False) in fs or any(s_.endswith("reached_eof_chunk") and p_ is False for s_, p_ in fs)
        (ck.ok if ok else lambda r, w, t: ck.violate(r, w, t, "V.eoflast"))("V.eoflast", f.loc(x), "read_chunk() is called only under !reached_eof_chunk")
    ck.rule("V.compression", "read_chunk interprets the payload of a chunk (dispatch on its type) only when the chunk header's compression byte is 0; a mandatory chunk with another value fails the read")
    rk = [x for x in fb.by_cls.get(BFR, []) if x.name == "read_chunk" and x.has_cfg][0]
    kcn = Canon(rk)
    n = 0
    for b, i, x in rk.nodes(("call",)):
        nm = x.get("pn", "").split("::")[-1]
        if nm not in ("read_topo_chunk", "read_prop_chunk", "read_propdir_chunk", "read_vertices_chunk") or b not in rk.reach():
            continue
        n += 1
        ok = False
        for s_, p_, c_ in kcn.facts(b):
            r_ = split_eq(s_)
            if r_ and "compression" in s_ and "0" in r_[1:]:
                if (r_[0] == "!=" and p_ is False) or (r_[0] == "==" and p_ is True):
                    ok = True
        (ck.ok if ok else lambda r, w, t: ck.violate(r, w, t, "V.compression:%s" % nm))("V.compression", rk.loc(x), "%s is reached only for compression == 0" % nm)
    ck.floor("chunk_dispatch_sites", n, 4)


def encoding_rule(ck, fb):
    """shared by C07 and C18"""
    from .canon import Canon
    rt = [x for x in fb.by_cls.get(BFR, []) if x.name == "read_topo_chunk" and x.has_cfg][0]
    rcn = Canon(rt)
    ck.rule("V.enc", "read_topo_chunk dispatches to read_edges/read_faces/read_cells only when the handle encoding is known not to be IntEncoding::None (which has no element size and for which call_with_decoder does nothing: the counters would advance without any entity being added); the valence list is only read with an encoding other than None")
    from .canon import split_eq
    for callee in ("read_edges", "read_faces", "read_cells"):
        sites = [(b, i, n) for b, i, n in rt.nodes(("call",)) if n.get("pn", "").endswith("::" + callee)]
        okn = bool(sites)
        for b, i, n in sites:
            hit = False
            for s_, pol, c in rcn.facts(b):
                r_ = split_eq(s_)
                if r_ and "handle_encoding" in s_ and any(x_.endswith("IntEncoding::None") or x_ == "None" for x_ in r_[1:]):
                    if (r_[0] == "==" and pol is False) or (r_[0] == "!=" and pol is True):
                        hit = True
            okn = okn and hit
        (ck.ok if okn else lambda r, w, t: ck.violate(r, w, t, "V.enc:%s" % callee))("V.enc", rt.where, "read_topo_chunk calls %s only with a handle encoding other than None" % callee)


def order_rule(ck, fb):
    """C18: chunks may only refer to entities that earlier chunks delivered"""
    ck.rule("V.order", "in BinaryFileReader every handle built from a decoded integer is bounded by the reader's own *_read_ counter of that kind (entities delivered by earlier chunks), not by a mesh count: vertices are allocated from the header before any chunk is read, so the mesh count would admit references to vertices whose data has not been (and may never be) read")
    entries = reader_entries(fb)
    pred = reachable(fb, entries)
    n = 0
    for f in [fb.fns[i] for i in pred]:
        if f.cls != BFR and not (f.kind == "lambda" and "BinaryFileReader" in (f.d.get("lambda_parent") or "")):
            continue
        for nd, parents, pos in iter_sites(f):
            if pos[0] not in f.reach():
                continue
            arg = kind = None
            if nd.get("k") == "call" and nd.get("pn", "").endswith("::from_unsigned") and nd.get("a"):
                kind = HKIND.get(nd.get("cc", ""), None) or HKIND.get(nd.get("t", ""))
                arg = nd["a"][0]
            elif nd.get("k") == "call" and nd.get("pn", "").split("::")[-1] == "emplace_back" and len(nd.get("a", [])) == 1:
                rt = nd.get("rt", "")
                for hk, kd in HKIND.items():
                    if rt == "std::vector<%s>" % hk:
                        a0 = strip_casts(nd["a"][0])
                        if isinstance(a0, dict) and a0.get("t", "") not in HKIND and a0.get("k") != "lit":
                            kind, arg = kd, nd["a"][0]
            if arg is None or kind not in COUNTERS:
                continue
            n += 1
            facts = facts_with_lambda(fb, f, pos[0])
            ub = upper_bound_guard(facts, arg)
            ctr = [nm for nm, need2 in COUNTERS[kind] if nm.endswith("_read_")]
            ok = any(any(c_ in estr(bnd) for c_ in ctr) for bnd, ctext in ub)
            (ck.ok if ok else lambda r, w, t: ck.violate(r, w, t, "V.order:%s:%s" % (f.pq, kind)))("V.order", f.loc(nd), "%s: %s handle from %s is bounded by %s (bounds found: %s)" % (f.pq.split("::")[-1], kind, estr(strip_casts(arg))[:40], ctr, [estr(b_)[:30] for b_, c_ in ub]))
    ck.floor("binary_reader_handle_sites", n, 4)


def edge_dup_rule(ck, fb):
    """the readers address edges by their position in the file"""
    ck.rule("U.count", "every reader creates exactly one entity per stored item: add_edge is called with _allowDuplicates = true (a merged duplicate would shift every later edge handle: range checks against declared/read counts become unsound and a round trip changes the mesh)")
    entries = reader_entries(fb)
    pred = reachable(fb, entries)
    n = 0
    seen = set()
    for f in [fb.fns[i] for i in pred]:
        if not ("/IO/" in f.file or "/FileManager/" in f.file):
            continue
        for b, i, x in f.nodes(("call",)):
            if not x.get("pn", "").endswith("TopologyKernel::add_edge") or b not in f.reach():
                continue
            key = (f.file, x.get("ln"))
            if key in seen:
                continue
            seen.add(key)
            n += 1
            a = f.resolve(x.get("a", []))
            third = unwrap(a[2]) if len(a) >= 3 else None
            while isinstance(third, dict) and third.get("k") in ("defarg", "definit"):
                third = unwrap(third.get("x"))
            ok = isinstance(third, dict) and third.get("k") == "lit" and third.get("v") is True and not (len(x.get("a", [])) >= 3 and unwrap(x["a"][2]).get("k") == "defarg")
            (ck.ok if ok else lambda r, w, t: ck.violate(r, w, t, "U.count:%s" % f.pq))("U.count", f.loc(x), "%s: add_edge(%s) keeps duplicates (third argument true)" % (f.pq.split("::")[-1], estr(a)[:50]))
    ck.floor("reader_add_edge_sites", n, 2)


def result_rules(ck, fb):
    ck.rule("U.result", "in reader code the handle returned by add_face/add_cell is tested for validity and a failed test fails the read (error state / return false / throw): later range checks compare against declared counts, so a silently rejected entity would leave in-range handles dangling")
    entries = reader_entries(fb)
    pred = reachable(fb, entries)
    n = 0
    for f in [fb.fns[i] for i in pred]:
        if not ("/IO/" in f.file or "/FileManager/" in f.file):
            continue
        for b, i, c in f.nodes(("call",)):
            nm = c.get("pn", "").split("::")[-1]
            if nm not in ("add_face", "add_cell") or b not in f.reach():
                continue
            cc = c.get("cc", "")
            if not (cc == TK or fb.derived_from(cc, TK)):
                continue
            n += 1
            # is the call element referenced by an is_valid() test that guards a failure exit?
            used = None
            for bb, ii, t in f.nodes(("call",)):
                if t.get("pn", "").split("::")[-1] == "is_valid" and t.get("r") is not None:
                    r = t["r"]
                    tree = f.resolve(r)
                    if any(x.get("_at") == (b, i) for x in walk(tree) if isinstance(x, dict)):
                        used = (bb, ii)
                    rv = unwrap(tree)
                    if isinstance(rv, dict) and rv.get("k") == "var":
                        # variable initialised from this call
                        for _, _, d in f.nodes(("decl",)):
                            for v in d["vars"]:
                                if v["id"] == rv["id"] and v.get("init") is not None and any(x.get("_at") == (b, i) for x in walk(f.resolve(v["init"])) if isinstance(x, dict)):
                                    used = (bb, ii)
            where = f.loc(c)
            what = "%s: result of %s" % (f.pq.split("::")[-1][:40], nm)
            if not used:
                ck.violate("U.result", where, what + " is discarded", "U.result:%s:%s" % (f.pq, nm))
                continue
            # failing branch fails the read: a block guarded by is_valid() == false that sets an error state / returns false / throws
            fails = False
            for bb in f.reach():
                for cnd, pol, e in f.facts(bb):
                    if pol is False and any(x.get("_at") == used for x in walk(cnd) if isinstance(x, dict)) or (pol is False and "is_valid()" in estr(cnd) and e[0] == used[0]):
                        for _, _, x in [(b2, i2, x2) for b2, i2, x2 in f.tops() if b2 == bb]:
                            s = estr(x)
                            if x.get("k") == "throw" or (x.get("k") == "ret" and (s.endswith("false") or "Invalid" in s or "Error" in s)) or ("state_ =" in s and "Error" in s):
                                fails = True
            (ck.ok if fails else lambda r, w, t: ck.violate(r, w, t, "U.result:%s:%s:fail" % (f.pq, nm)))("U.result", where, what + " is tested with is_valid() and an invalid handle fails the read")
    ck.floor("reader_add_face_cell_sites", n, 4)


def size_fact(f, b, name):
    """a fact about name.size()/empty() holds at block b (loop-exit conditions do not count)"""
    for c, pol, (B, k) in f.facts(b):
        t = f.term(B)
        if t and t["c"] in ("ForStmt", "WhileStmt", "DoStmt", "CXXForRangeStmt") and pol is False:
            continue
        s = estr(c)
        if name + ".size()" in s or name + ".empty()" in s:
            return True
    return False


def empty_sequence_rules(ck, fb):
    ck.rule("Q.nonempty", "kernel functions reachable from the readers access front()/back()/[literal] of a sequence parameter only behind a test of its size (a file may declare a face or cell of valence 0)")
    entries = reader_entries(fb)
    pred = reachable(fb, entries)
    n = 0
    for f in [fb.fns[i] for i in pred]:
        if not (f.cls and fb.derived_from(f.cls, TK)) or "/Core/Iterators" in f.file:
            continue
        params = {p["id"]: p for p in f.d["params"] if "std::vector<" in p["t"]}
        if not params:
            continue
        for nd, parents, pos in iter_sites(f):
            if pos[0] not in f.reach():
                continue
            tgt = None
            if nd.get("k") == "call" and nd.get("pn", "").split("::")[-1] in ("front", "back") and nd.get("r") is not None:
                r = unwrap(nd["r"])
                if isinstance(r, dict) and r.get("k") == "var" and r.get("id") in params:
                    tgt = (r, nd.get("pn").split("::")[-1] + "()")
            elif nd.get("k") == "idx":
                r = unwrap(nd["b"])
                ix = strip_casts(nd["i"])
                if isinstance(r, dict) and r.get("k") == "var" and r.get("id") in params and isinstance(ix, dict) and ix.get("k") == "lit":
                    tgt = (r, "[%s]" % ix["v"])
            if not tgt:
                continue
            n += 1
            r, what = tgt
            ok = size_fact(f, pos[0], r["n"])
            why = "behind a test of %s's size" % r["n"]
            if not ok and f.d.get("access") in ("private", "protected"):
                # internal helper: every call site must pass a sequence whose size was tested
                callers = [(g, b, i, c) for g, b, i, c in fb.callers(f.id) if g.has_cfg and b in g.reach()]
                pi = [p["id"] for p in f.d["params"]].index(r["id"])
                if callers:
                    ok = True
                    for g, b, i, c in callers:
                        a = unwrap(g.resolve(c["a"][pi])) if pi < len(c.get("a", [])) else None
                        if not (isinstance(a, dict) and a.get("k") == "var" and size_fact(g, b, a["n"])):
                            ok = False
                    why = "a private helper whose %d call site(s) pass a sequence of tested size" % len(callers)
            (ck.ok if ok else lambda r_, w, t: ck.violate(r_, w, t, "Q.nonempty:%s:%s%s" % (f.pq, r["n"], what)))("Q.nonempty", f.loc(nd), "%s: %s%s is %s" % (f.diag.split("OpenVolumeMesh::")[-1][:60], r["n"], what, why))
    ck.analysed["sequence_param_access_sites"] = n
    ck.floor("sequence_param_access_sites", n, 4)


# =============================================================================================== T / X
STREAM_TESTS = ("good", "fail", "bad", "operator bool", "operator!")


ROBUST_EXITS = {"range", "counter", "remaining_bytes", "stream-state", "iterator"}


def loop_rules(ck, fb):
    ck.rule("T.exit", "every loop in reader code has at least one robust exit: a counter compared with a loop-invariant bound, an iterator/range walk, a remaining_bytes() test (with input consumed in the body), or a stream test that includes the fail state; a loop whose only input-dependent exit is eof() spins forever once the stream has failed")
    entries = reader_entries(fb)
    pred = reachable(fb, entries)
    n = 0
    for f in [fb.fns[i] for i in pred]:
        if not ("/IO/" in f.file or "/FileManager/" in f.file):
            continue
        for hdr, body, backs in f.loops():
            n += 1
            kinds = set()
            descr = []
            robust_blocks = set()
            t = f.term(hdr)
            if t and t["c"] == "CXXForRangeStmt":
                kinds.add("range")
                robust_blocks.add(hdr)
            modified = set()
            for b, i, x in f.nodes(("un", "asg", "call")):
                if b not in body:
                    continue
                if x.get("k") == "un" and x["op"] in ("pre++", "post++", "pre--", "post--"):
                    v = unwrap(f.resolve(x["x"]))
                    if isinstance(v, dict) and v.get("k") == "var":
                        modified.add(v["id"])
                elif x.get("k") == "asg" and x["op"] in ("+=", "-="):
                    v = unwrap(f.resolve(x["l"]))
                    if isinstance(v, dict) and v.get("k") == "var":
                        modified.add(v["id"])
                elif x.get("k") == "call" and x.get("op") in ("++", "--") and x.get("r") is not None:
                    v = unwrap(f.resolve(x["r"]))
                    if isinstance(v, dict) and v.get("k") == "var":
                        modified.add(v["id"])
            for b in body:
                ss = f.succ(b)
                if len(ss) < 2:
                    # return / break out of the body without condition is governed by an enclosing branch
                    continue
                tt = f.term(b)
                if not tt or not tt.get("cond"):
                    continue
                if all((s in body) for s in ss if s is not None):
                    continue
                cond = f.resolve(tt["cond"])
                s = estr(cond)
                descr.append(s[:50])
                vs = [x for x in walk(cond) if isinstance(x, dict) and x.get("k") == "var"]
                calls = [x for x in walk(cond) if isinstance(x, dict) and x.get("k") == "call"]
                names = {c.get("pn", "").split("::")[-1] for c in calls}
                p = cmp_parts(cond)
                kind = None
                if p and any(v["id"] in modified for v in vs):
                    kind = "counter"
                elif "remaining_bytes" in names:
                    kind = "remaining_bytes"
                elif names & set(STREAM_TESTS) and any("basic_ios" in c.get("pn", "") or "basic_istream" in c.get("pn", "") for c in calls):
                    kind = "stream-state"
                elif "eof" in names:
                    kind = "eof-only"
                elif "finished" in names or "valid" in names:
                    kind = "iterator"
                else:
                    kind = "data"
                kinds.add(kind)
                if kind in ROBUST_EXITS:
                    robust_blocks.add(b)
            robust = kinds & ROBUST_EXITS
            # a count that was itself extracted from the stream is untrusted: a loop bounded only by it, whose body keeps
            # extracting from that stream, has to leave when the stream has failed (2^64 iterations are not an exit)
            tainted = None
            if "counter" in kinds and t and t.get("cond") and "/FileManager/" in f.file:
                from .canon import Canon
                cn_ = _CANON_CACHE.get(f.id) or _CANON_CACHE.setdefault(f.id, Canon(f))
                streams = [p_["id"] for p_ in f.d["params"] if "istream" in p_["t"]]
                for y in walk(f.resolve(t["cond"])):
                    if isinstance(y, dict) and y.get("k") == "var" and y.get("id") in cn_.mods:
                        for kind_, mb, mi, m_ in cn_.mods[y["id"]]:
                            if m_.get("k") == "call" and m_.get("op") == ">>" and mb not in body and any(isinstance(z, dict) and z.get("k") == "var" and z.get("id") in streams for z in walk(f.resolve(m_))):
                                tainted = y.get("n")
                if tainted and not any(isinstance(z, dict) and z.get("k") == "var" and z.get("id") in streams for b2, i2, x2 in f.nodes(("call",)) if b2 in body for z in walk(f.resolve(x2))):
                    tainted = None  # the body does not read from the stream
            if tainted:
                sblocks = set()
                for b in body:
                    tt = f.term(b)
                    if not tt or not tt.get("cond") or all((s2 in body) for s2 in f.succ(b) if s2 is not None):
                        continue
                    calls2 = [x for x in walk(f.resolve(tt["cond"])) if isinstance(x, dict) and x.get("k") == "call"]
                    if {c2.get("pn", "").split("::")[-1] for c2 in calls2} & set(STREAM_TESTS) and any("basic_ios" in c2.get("pn", "") or "basic_istream" in c2.get("pn", "") for c2 in calls2):
                        sblocks.add(b)
                if not sblocks:
                    ck.violate("T.exit", f.loc(t), "%s: the loop is bounded only by the count %s that was read from the stream and keeps extracting from it: it needs an exit on the stream state (a declared count of 2^64 would spin on a failed stream)" % (f.pq.split("::")[-1][:40], tainted), "T.exit:%s:tainted" % f.pq)
                    continue
                robust_blocks = sblocks
            where = f.loc(t) if t else f.where
            what = "%s: loop with exits [%s]" % (f.pq.split("::")[-1][:40], "; ".join(descr)[:120])
            # every cycle through the loop header has to pass a robust exit test (a `continue` that jumps over the only
            # stream test re-creates the endless loop)
            bypass = None
            if robust and hdr not in robust_blocks:
                seen, work = set(), [hdr]
                while work and bypass is None:
                    b = work.pop()
                    for s2 in f.succ(b):
                        if s2 is None or s2 not in body or s2 in robust_blocks:
                            continue
                        if s2 == hdr:
                            bypass = b
                            break
                        if s2 not in seen:
                            seen.add(s2)
                            work.append(s2)
            if robust and bypass is None:
                ck.ok("T.exit", where, what + " has a robust exit (%s) on every cycle" % ",".join(sorted(robust)))
            elif robust:
                ck.violate("T.exit", where, what + ": a cycle of the loop (back edge from block %s) passes none of its robust exit tests (%s)" % (bypass, ",".join(sorted(robust))), "T.exit:%s:bypass" % f.pq)
            else:
                ck.violate("T.exit", where, what + " has no robust exit (kinds: %s)" % ",".join(sorted(kinds)) , "T.exit:%s:%s" % (f.pq, ",".join(sorted(kinds))))
    ck.analysed["reader_loops"] = n
    ck.floor("reader_loops", n, 25)


STD_EXC = {"std::exception", "std::runtime_error", "std::logic_error", "std::out_of_range", "std::invalid_argument", "std::length_error", "std::bad_cast", "std::bad_alloc", "std::range_error", "std::overflow_error"}


def catches(fb, handler, thrown):
    h = handler.replace("const ", "").replace("&", "").strip()
    if h == "...":
        return True
    if h == thrown:
        return True
    bases = set(fb.bases(thrown)) | ({thrown} & STD_EXC)
    if h in bases:
        return True
    if h == "std::exception" and (bases & STD_EXC or thrown in STD_EXC):
        return True
    return False


def protected_call(fb, f, n, thrown):
    """the call node lies lexically inside a try block of f with a handler for `thrown`"""
    ln = n.get("ln") if isinstance(n, dict) else None
    if not ln:
        return False
    for t in f.d.get("trys", []):
        if t["from"] <= ln <= t["to"] and any(catches(fb, c, thrown) for c in t["catches"]):
            return True
    return False


def reachable_unprotected(fb, entries, thrown):
    pred = {f.id: None for f in entries}
    dq = deque(f.id for f in entries)
    while dq:
        fid = dq.popleft()
        f = fb.fns[fid]
        for b, i, n, tgt in fb.callees(f):
            if tgt is None or not tgt.has_cfg or not repo_fn(tgt) or b not in f.reach():
                continue
            if protected_call(fb, f, n, thrown):
                continue
            if tgt.id not in pred:
                pred[tgt.id] = (fid, f.loc(n))
                dq.append(tgt.id)
        for b, i, n in f.nodes(("lambda",)):
            if protected_call(fb, f, n, thrown):
                continue
            u = n.get("u")
            for g in fb.fns.values():
                if g.kind == "lambda" and (g.d.get("lambda_base") == u or g.id == u) and g.id not in pred and g.has_cfg:
                    pred[g.id] = (fid, f.loc(n))
                    dq.append(g.id)
    return pred


def thrown_type(f, t):
    x = unwrap(f.resolve(t.get("x")))
    while isinstance(x, dict) and x.get("k") in ("cast",):
        x = unwrap(x["x"])
    if isinstance(x, dict) and x.get("k") == "ctor":
        return x.get("t")
    if isinstance(x, dict):
        return x.get("t") or "?"
    return "rethrow"


def exception_rules(ck, fb):
    ck.rule("X.escape", "no explicit throw of a non-allocation exception in repository code is reachable from FileManager::readStream/readFile or from the public BinaryFileReader members without passing through a try block that catches std::exception (lexical try regions from the AST, call paths from the resolved call graph)")
    entries = [f for f in fb.fns.values() if f.has_cfg and repo_fn(f) and ((f.cls == FM and f.name in ("readStream", "readFile")) or (f.cls == BFR and f.d.get("access") == "public" and f.kind == "method"))]
    if len(entries) < 6:
        raise AnalysisBroken("X: reader entry points not found (%d)" % len(entries))
    full = reachable(fb, entries)
    throws = []
    for fid in full:
        f = fb.fns[fid]
        for b, i, t in f.nodes(("throw",)):
            if b in f.reach():
                throws.append((f, t, thrown_type(f, t)))
    n_thr_total = len(throws)
    seen = set()
    preds = {}
    for f, t, ty in throws:
        if ty == "rethrow":
            continue
        if ty not in preds:
            preds[ty] = reachable_unprotected(fb, entries, ty)
        pred = preds[ty]
        if f.id not in pred:
            continue
        # thrown inside a local try that handles it
        if protected_call(fb, f, t, ty):
            continue
        key = "X.escape:%s:%s" % (f.pq, ty.split("::")[-1])
        if key in seen:
            continue
        seen.add(key)
        ck.violate("X.escape", f.loc(t), "%s throws %s, reachable from a reader entry point without an enclosing handler for it" % (f.pq.split("OpenVolumeMesh::")[-1][:60], ty), key, detail={"chain": chain(fb, pred, f.id)})
    pred = preds[next(iter(preds))] if preds else {}
    ck.analysed["functions_reachable_from_readers"] = len(full)
    ck.analysed["functions_reachable_outside_handlers"] = len(pred)
    ck.analysed["throw_sites_in_reader_code"] = n_thr_total
    ck.floor("functions_reachable_from_readers", len(full), 150)
    ck.floor("throw_sites_in_reader_code", n_thr_total, 5)
    if not seen:
        ck.ok("X.escape", "reader call graphs", "%d throw sites in %d reader-reachable functions; none reachable outside a catch(std::exception&) region (%d functions reachable outside handlers)" % (n_thr_total, len(full), len(pred)))


# =============================================================================================== enum strings (C18-4)
def enum_string_rules(ck, fb):
    ck.rule("E.strings", "the to_string tables of IO/enums.cc hold exactly one string per enumerator, in enumerator order and spelled like the enumerator, and answer nullptr beyond the table")
    n = 0
    for f in fb.fns.values():
        if not (f.has_cfg and f.pq == "OpenVolumeMesh::IO::to_string" and "/IO/enums.cc" in f.file and len(f.d["params"]) == 1):
            continue
        et = f.d["params"][0]["t"]
        en = fb.enums.get(et)
        if not en:
            continue
        n += 1
        table = None
        for key, v in fb.vars.items():
            if key.startswith(f.id + "::") and v.get("kind") == "static-local" and v.get("init") is not None:
                table = [y.get("v") for y in walk(v["init"]) if isinstance(y, dict) and y.get("k") == "lit" and y.get("t") == "str"]
        if table is None:
            for b, i, d in f.nodes(("decl",)):
                for v in d["vars"]:
                    if v.get("static") and v.get("init") is not None:
                        table = [y.get("v") for y in walk(f.resolve(v["init"])) if isinstance(y, dict) and y.get("k") == "lit" and y.get("t") == "str"]
        if table is None:
            raise AnalysisBroken("E.strings: string table of to_string(%s) not found" % et)
        want = [e["n"] for e in sorted(en["enumerators"], key=lambda e: e["v"])]
        dense = [e["v"] for e in sorted(en["enumerators"], key=lambda e: e["v"])] == list(range(len(want)))
        ok = dense and table == want
        (ck.ok if ok else lambda r, w, t: ck.violate(r, w, t, "E.strings:%s" % et.split("::")[-1]))("E.strings", f.where, "to_string(%s): table %s == enumerators %s" % (et.split("::")[-1], table if table != want else "(%d strings)" % len(table), want if table != want else "in order"))
        guarded = any(unwrap(x.get("x")).get("t") == "nullptr" and any("size()" in estr(c) and ">=" in estr(c) and pol is True for c, pol, e in f.facts(b)) for b, i, x in f.tops() if x.get("k") == "ret" and isinstance(unwrap(x.get("x")), dict))
        (ck.ok if guarded else lambda r, w, t: ck.violate(r, w, t, "E.strings:%s:bound" % et.split("::")[-1]))("E.strings", f.where, "to_string(%s) returns nullptr for values beyond the table" % et.split("::")[-1])
    ck.floor("enum_string_tables", n, 4)


def optional_chunk_rule(ck, fb, rk=None):
    if rk is None:
        ck.rule("V.chunk", "read_chunk skips the payload of optional (non-mandatory) chunks of unknown type or version, as the format description permits")
        rk = [x for x in fb.by_cls.get(BFR, []) if x.name == "read_chunk" and x.has_cfg][0]
    # optional chunks the reader does not understand are skipped (the format permits them): under !isMandatory() the
    # payload decoder is moved to its end, otherwise the finished() test would reject the file
    skips = [(b, i, n) for b, i, n in rk.nodes(("call",)) if n.get("pn", "") == DEC + "::skip" and b in rk.reach()]
    nonmand = set()
    for b in rk.reach():
        at = [(estr(c), pol if isinstance(pol, bool) else estr(pol[1]) if isinstance(pol, tuple) else str(pol)) for c, pol, e in rk.facts(b)]
        if any("isMandatory()" in c and pol is False for c, pol in at):
            nonmand.add(frozenset(at))
    ok = len(nonmand) >= 2 and all(any(frozenset((estr(c), pol if isinstance(pol, bool) else estr(pol[1]) if isinstance(pol, tuple) else str(pol)) for c, pol, e in rk.facts(b)) == g for b, i, n in skips) for g in nonmand)
    (ck.ok if ok else lambda r, w, t: ck.violate(r, w, t, "V.chunk:skip"))("V.chunk", rk.where, "read_chunk skips the payload of optional chunks of unknown type or version (%d optional paths, %d skip calls)" % (len(nonmand), len(skips)))


# =============================================================================================== S.extract
import re
SCALAR_T = re.compile(r"^(const )?((un)?signed )?(bool|char|short|int|long|long long|float|double|long double|size_t|std::size_t|u?int(8|16|32|64)_t|unsigned|(un)?signed char|unsigned (short|int|long|long long))$")


def extract_init_rule(ck, fb):
    """a formatted extraction that fails in its sentry (end of file while skipping white space, stream already failed)
    does not touch its target: a scalar target declared without an initialiser is then read indeterminate"""
    from .canon import Canon
    ck.rule("S.extract", "in the ASCII reader and the text deserialisers, a scalar local that receives a formatted extraction (`stream >> v`, `deserialize(stream, v)`) is either declared with an initialiser or read only where a test of that stream's state holds: a failed sentry leaves the target untouched, and reading an indeterminate scalar (a loop bound, a resize argument, a bool stored into vector<bool>) is undefined behaviour")
    n = 0
    seen = set()
    canary = False
    for f in fb.repo_fns() + [g for g in fb.fns.values() if "/verif/fixtures/canary_x" in g.file and g.has_cfg]:
        if not f.has_cfg or f.where in seen:
            continue
        if not ("/FileManager/" in f.file or "/IO/" in f.file or f.name == "deserialize" or "/verif/fixtures/canary_x" in f.file):
            continue
        cn = Canon(f)
        cands = []
        for vid, (v, b, i) in cn.decl.items():
            if not SCALAR_T.match(v.get("t", "")):
                continue
            ext = []
            for kind, mb, mi, m in cn.mods.get(vid, []):
                if kind != "call":
                    continue
                pn = m.get("pn", m.get("n", ""))
                stream = None
                if m.get("op") == ">>" and ("basic_istream" in pn or pn.startswith("std::operator>>")):
                    stream = m["r"] if m.get("r") is not None else m["a"][0]
                elif pn.split("::")[-1] == "deserialize" and m.get("a") and "istream" in str(unwrap(f.resolve(m["a"][0])).get("t", "")):
                    stream = m["a"][0]
                if stream is not None:
                    ext.append((mb, mi, m, cn.s(stream)))
            if ext:
                cands.append((vid, v, ext))
        if not cands:
            continue
        seen.add(f.where)
        for vid, v, ext in cands:
            n += 1
            if v.get("init") is not None:
                if "/verif/fixtures/" not in f.file:
                    ck.ok("S.extract", "%s:%s" % (f.file, v.get("ln", f.line)), "%s: extraction target `%s %s` is declared with an initialiser" % (f.pq.split("OpenVolumeMesh::")[-1][:60], v["t"], v["n"]))
                continue
            streams = {e[3] for e in ext}
            targets = set()
            for mb, mi, m, s_ in ext:
                for a_ in list(m.get("a", [])) + ([m["r"]] if m.get("r") is not None else []):
                    t_ = unwrap(f.resolve(a_))
                    if isinstance(t_, dict) and t_.get("k") == "var" and t_.get("id") == vid and t_.get("_at"):
                        targets.add(tuple(t_["_at"]))
            bad = []
            for b, i, x in f.nodes(("var",)):
                if x.get("id") != vid or b not in f.reach() or (x.get("_at") and tuple(x["_at"]) in targets):
                    continue
                # is the statement the extraction itself?
                if any(mb == b and mi == i for mb, mi, m, s_ in ext):
                    continue
                okfact = False
                for c_, p_, e_ in f.facts(b):
                    if not isinstance(p_, bool):
                        continue
                    # the test has to be evaluated after the extraction (a loop guard tested before the body's extraction says
                    # nothing about that extraction)
                    if not all(f.dominates((mb, mi), (e_[0], 10 ** 6)) for mb, mi, m, st_ in ext):
                        continue
                    s_ = cn.s(c_)
                    for st in streams:
                        if (s_ in (st, st + ".operator bool()") and p_ is True) or (s_ == st + ".operator!()" and p_ is False) or (s_ == "!" + st and p_ is False) or (s_ in ("%s.good()" % st,) and p_ is True) or (s_ in ("%s.fail()" % st, "%s.bad()" % st) and p_ is False and s_.endswith("fail()")):
                            okfact = True
                if not okfact:
                    bad.append(f.loc(x) if x.get("ln") else "%s:%s" % (f.file, v.get("ln", f.line)))
            if "/verif/fixtures/" in f.file:
                canary = canary or bool(bad)
                continue
            where = "%s:%s" % (f.file, v.get("ln", f.line))
            (ck.ok if not bad else lambda r_, w_, t_: ck.violate(r_, w_, t_, "S.extract:%s(%s):%s" % (f.pq, ",".join(re.sub(r"<.*", "", p_["t"]) for p_ in f.d.get("params", [])), v["n"])))("S.extract", where, "%s: extraction target `%s %s` is initialised or only read under a stream test%s" % (f.pq.split("OpenVolumeMesh::")[-1][:60], v["t"], v["n"], "" if not bad else " - declared without initialiser and read at %s with no test of %s in force" % (sorted(set(bad))[:3], sorted(streams))))
    ck.analysed["scalar_extraction_targets"] = n
    ck.floor("scalar_extraction_targets", n, 12)
    return n, canary


def memcpy_null_rule(ck, fb):
    """memcpy with a run-time length is only reached with a non-zero length: its pointer arguments may be the data() of an
    empty container, i.e. null - undefined behaviour even for zero bytes"""
    from .canon import Canon, split_eq
    ck.rule("M.null", "in the file I/O layer every memcpy/memmove whose length is not a compile-time constant is reached only under a fact that the length is non-zero (`if (n == 0) return;`): callers pass container.data() after resize(n), which is a null pointer for n == 0, and passing null to memcpy is undefined behaviour whatever the length")
    n = 0
    seen = set()
    for f in fb.repo_fns():
        if not f.has_cfg or f.where in seen or not ("/IO/" in f.file or "/FileManager/" in f.file):
            continue
        calls = [(b, i, x) for b, i, x in f.nodes(("call",)) if x.get("pn", x.get("n", "")).split("::")[-1] in ("memcpy", "memmove") and b in f.reach() and len(x.get("a", [])) == 3]
        if not calls:
            continue
        seen.add(f.where)
        cn = Canon(f)
        for b, i, x in calls:
            ln = unwrap(f.resolve(x["a"][2]))
            if isinstance(ln, dict) and (ln.get("k") in ("lit", "sizeof") or "sizeof" in estr(ln)):
                ck.count("memcpy_constant_length")
                continue
            n += 1
            L = cn.s(x["a"][2])
            ok = False
            for s_, p_, c_ in cn.facts(b):
                q = split_eq(s_)
                if q and {q[1], q[2]} == {L, "0"} and ((q[0] == "==") != bool(p_)):
                    ok = True
                if s_ in (L, "(%s > 0)" % L, "(0 < %s)" % L) and p_ is True:
                    ok = True
                if s_ == "!" + L and p_ is False:
                    ok = True
            (ck.ok if ok else lambda r_, w_, t_: ck.violate(r_, w_, t_, "M.null:%s(%s)" % (f.pq, ",".join(p_["t"] for p_ in f.d.get("params", [])))))("M.null", f.loc(x), "%s: memcpy with run-time length %s is reached only when that length is non-zero" % (f.pq.split("OpenVolumeMesh::")[-1][:60], L))
    ck.floor("memcpy_runtime_length_sites", n, 2)


# =============================================================================================== late OVMB framing rules (F60-F65)
def ovmb_framing_rules(ck, fb):
    """clauses found by the structural mutation probe of the OVMB format (findings/probe_C18)"""
    from .canon import Canon, split_eq
    rd = lambda name: [f for f in fb.by_cls.get(BFR, []) if f.name == name and f.has_cfg]
    # ---- V.offset
    ck.rule("V.offset", "read_topo_chunk hands a chunk to read_edges/read_faces/read_cells only under the fact that header.handle_offset does not exceed a bound: `stored handle + offset` is computed in 64 bits and compared with an entity count, so an unbounded offset designates an entity by wrapping around (F60)")
    fs = rd("read_topo_chunk")
    if len(fs) != 1:
        raise AnalysisBroken("anchor vanished: BinaryFileReader::read_topo_chunk")
    f = fs[0]
    cn = Canon(f)
    sites = [(b, x) for b, i, x in f.nodes(("call",)) if x.get("pn", "").split("::")[-1] in ("read_edges", "read_faces", "read_cells") and b in f.reach()]
    ck.floor("topo_dispatch_sites", len(sites), 3)
    for b, x in sites:
        ok = any(re.fullmatch(r"\(v\d+\.handle_offset (>|>=) .*\)", s_) and p_ is False or re.fullmatch(r"\(v\d+\.handle_offset (<|<=) .*\)", s_) and p_ is True for s_, p_, c_ in cn.facts(b))
        (ck.ok if ok else lambda r_, w_, t_: ck.violate(r_, w_, t_, "V.offset:%s" % x["pn"].split("::")[-1]))("V.offset", f.loc(x), "%s is reached only with a bounded handle_offset" % x["pn"].split("::")[-1])
    # ---- V.dirp
    ck.rule("V.dirp", "read_propdir_chunk records in a flag of its own that a directory was read - set on every path that goes on to read entries, tested before anything else - so that an empty directory counts too; the number of decoded entries is no such record (F61)")
    fs = rd("read_propdir_chunk")
    if len(fs) != 1:
        raise AnalysisBroken("anchor vanished: BinaryFileReader::read_propdir_chunk")
    f = fs[0]
    cn = Canon(f)
    flags = {}
    for b, i, x in f.tops():
        a = as_assign(x)
        if a and b in f.reach() and cn.s(a[1]) in ("true", "1"):
            l = unwrap(f.resolve(a[0]))
            if isinstance(l, dict) and l.get("k") == "mem" and l.get("t", "") == "bool":
                flags[cn.s(a[0])] = (b, i)
    good = None
    for nm, pos in flags.items():
        tested = any(s_ == nm and p_ is False for s_, p_, c_ in cn.facts(pos[0]))
        loops = f.loops()
        before_loop = all(f.dominates(pos, (h, 0)) for h, body, backs in loops)
        uncond = not [1 for s_, p_, c_ in cn.facts(pos[0]) if s_ != nm and "props_.size()" not in s_]
        if tested and before_loop and uncond:
            good = nm
    (ck.ok if good else lambda r_, w_, t_: ck.violate(r_, w_, t_, "V.dirp"))("V.dirp", f.where, "read_propdir_chunk refuses a second directory by a flag that is set whenever a directory is read (%s)" % (good or "no such flag: %s" % sorted(flags)))
    # ---- V.default
    ck.rule("V.default", "PropertyDecoderT::request_property creates the property only under the fact that decoding the default value used its whole buffer (Decoder::finished() / remaining_bytes() == 0): the stored length of a default has to agree with its type (F62)")
    rq = [g for g in fb.fns.values() if g.has_cfg and g.name == "request_property" and g.cls and g.cls.startswith("OpenVolumeMesh::IO::PropertyDecoderT<") and g.d.get("inst")]
    ck.floor("property_decoder_instantiations", len(rq), 10)
    bad = []
    for g in rq:
        cg = Canon(g)
        disp = [(b, x) for b, i, x in g.nodes(("call",)) if x.get("pn", "").split("::")[-1] == "entitytag_dispatch" and b in g.reach()]
        if not disp:
            bad.append(g)
            continue
        for b, x in disp:
            fs_ = {(s_, p_) for s_, p_, c_ in cg.facts(b)}
            ok = any((re.fullmatch(r"!v\d+\.finished\(\)", s_) and p_ is False) or (re.fullmatch(r"v\d+\.finished\(\)", s_) and p_ is True) or (split_eq(s_) and "remaining_bytes()" in s_ and "0" in (split_eq(s_)[1], split_eq(s_)[2]) and ((split_eq(s_)[0] == "==") == bool(p_))) for s_, p_ in fs_)
            if not ok:
                bad.append(g)
    (ck.ok if not bad else lambda r_, w_, t_: ck.violate(r_, w_, t_, "V.default"))("V.default", (bad[0].where if bad else rq[0].where), "request_property (%d instantiations) creates the property only after the default was decoded completely (%d without the test)" % (len(rq), len(bad)))
    # ---- V.propspan
    ck.rule("V.propspan", "read_prop_chunk compares the span with the entity count before it returns for an empty span (an empty span far outside the range is inconsistent too) (F63)")
    fs = rd("read_prop_chunk")
    if len(fs) != 1:
        raise AnalysisBroken("anchor vanished: BinaryFileReader::read_prop_chunk")
    f = fs[0]
    cn = Canon(f)
    empties = [b for b in f.reach() for s_, p_, c_ in cn.facts(b) if re.fullmatch(r"v\d+\.span\.empty\(\)", s_) and p_ is True]
    rets = [(b, x) for b, i, x in f.tops() if x.get("k") == "ret" and b in empties]
    if not rets:
        ck.cannot_judge("V.propspan %s: no early return for an empty span - written in another form" % f.where)
    for b, x in rets:
        ok = any(p_ is False and ".span.first" in s_ and ("<" in s_ or ">" in s_) for s_, p_, c_ in cn.facts(b))
        (ck.ok if ok else lambda r_, w_, t_: ck.violate(r_, w_, t_, "V.propspan"))("V.propspan", f.loc(x), "the return for an empty span lies behind the range test of the span")


def handle_property_rule(ck, fb):
    """handle-valued property data are handles of the file too"""
    ck.rule("V.handleprop", "the codec of handle-typed properties (Codecs::OVMHandle<H>::decode) or its caller compares the decoded index with the entity count of H's kind (or at least with -1 from below): today the index is stored unchecked, so a vertex-handle property can hold 1000000 in a file of three vertices (known finding F66)")
    ds = [f for f in fb.fns.values() if f.has_cfg and f.name == "decode" and f.cls and "Codecs::OVMHandle<" in f.cls and f.d.get("inst")]
    ck.floor("handle_codec_instantiations", len(ds), 4)
    unchecked = [f for f in ds if not any(t and t.get("cond") for t in (f.term(b) for b in f.reach()))]
    # a range check could also sit in the generic decode_n / deserialize wrappers: look for any comparison mentioning idx() there
    wrappers = [g for g in fb.fns.values() if g.has_cfg and g.name in ("decode_n", "deserialize") and g.cls and "OVMHandle" in g.cls]
    wrapped = any(any(t and t.get("cond") and "idx()" in estr(g.resolve(t["cond"])) for t in (g.term(b) for b in g.reach())) for g in wrappers)
    ok = not unchecked or wrapped
    (ck.ok if ok else lambda r_, w_, t_: ck.violate(r_, w_, t_, "V.handleprop"))("V.handleprop", (unchecked[0].where if unchecked else ds[0].where), "handle-typed property values are range-checked when they are decoded (%d of %d codec instantiations store the decoded index without any test)" % (len(unchecked), len(ds)))


def ovmb_encoding_rules(ck, fb):
    """C06 side: encodings the description permits are read; the writer emits only what its own reader's preconditions allow"""
    from .canon import Canon
    ck.rule("C06.valences", "read_faces/read_cells decide 'wrong valence for a tetrahedral/hexahedral file' on the valence of every entity - the fixed valence of the header or every entry of the valence list - not on header.valence alone: the format permits either form (F64)")
    n = 0
    for name in ("read_faces", "read_cells"):
        fs = [f for f in fb.by_cls.get(BFR, []) if f.name == name and f.has_cfg]
        if len(fs) != 1:
            raise AnalysisBroken("anchor vanished: BinaryFileReader::" + name)
        f = fs[0]
        cn = Canon(f)
        for b, i, x in f.tops():
            a = as_assign(x)
            if not a or b not in f.reach() or not cn.s(a[1]).endswith("ErrorInvalidTopoType"):
                continue
            n += 1
            fs_ = [(s_, p_) for s_, p_, c_ in cn.facts(b)]
            only_header = any(re.fullmatch(r"\(\d+\w* != P1\.valence\)|\(P1\.valence != \d+\w*\)", s_) and p_ is True for s_, p_ in fs_)
            (ck.ok if not only_header else lambda r_, w_, t_: ck.violate(r_, w_, t_, "C06.valences:%s" % name))("C06.valences", f.loc(x), "%s: the topology-type rejection looks at the valence of every entity (facts %s)" % (name, [s_[:60] for s_, p_ in fs_ if "alence" in s_][:2]))
    ck.floor("topo_type_rejections", n, 4)
    ck.rule("C06.emptyprop", "write_all_props calls the encoder's serialize (precondition idx_begin < size()) and writes a PROP chunk only for a property that has elements (F65)")
    fs = [f for f in fb.by_cls.get(BFW, []) if f.name == "write_all_props" and f.has_cfg]
    if len(fs) != 1:
        raise AnalysisBroken("anchor vanished: BinaryFileWriter::write_all_props")
    f = fs[0]
    cn = Canon(f)
    ser = [(b, x) for b, i, x in f.nodes(("call",)) if x.get("pn", "").split("::")[-1] == "serialize" and b in f.reach()]
    for b, x in ser:
        ok = any(("size()" in s_ or "span.count" in s_) and "0" in s_ and (("==" in s_ and p_ is False) or ("!=" in s_ and p_ is True) or (">" in s_ and p_ is True)) for s_, p_, c_ in cn.facts(b))
        (ck.ok if ok else lambda r_, w_, t_: ck.violate(r_, w_, t_, "C06.emptyprop"))("C06.emptyprop", f.loc(x), "write_all_props serialises a property only under the fact that it has elements")
    ck.floor("prop_serialize_sites", len(ser), 1)
    # the PROP chunk names its property by position in the directory that write_propdir wrote from the same props_ list:
    # the running index has to advance for every entry of props_, also for one that gets no chunk (round 5, C06i)
    ck.rule("C06.propidx", "write_all_props numbers the PROP chunks by the position of the property in props_ (the order of the directory): a running counter is incremented on every turn of the loop over props_, before any `continue`")
    idxs = [(b, i, x, cn.s(x)) for b, i, x in f.tops() if b in f.reach() and re.search(r"\.idx = ", cn.s(x))]
    ck.floor("prop_chunk_idx_sites", len(idxs), 1)
    for b, i, x, sx in idxs:
        rhs = sx.split(".idx = ", 1)[1].rstrip(")").strip()
        m = re.fullmatch(r"\(?(it\d+\(0\))\+\+\)?|\(?\+\+(it\d+\(0\))\)?", rhs)
        lp = [(hdr, body, backs) for hdr, body, backs in f.loops() if b in body and f.term(hdr) and "props_" in cn.s(f.term(hdr).get("cond") or {})]
        if not lp:
            ck.violate("C06.propidx", f.loc(x), "write_all_props: the chunk index is not assigned inside the loop over props_", "C06.propidx:loop")
            continue
        hdr, body, backs = min(lp, key=lambda z: len(z[1]))
        if m:
            ctr = m.group(1) or m.group(2)
            incs = [(b2, i2) for b2, i2, y in f.tops() if b2 in f.reach() and (ctr + "++" in cn.s(y) or "++" + ctr in cn.s(y) or ("(" + ctr + " += 1)") in cn.s(y))]
            # a pure local holding the incremented value (`const auto my = idx++; ... .idx = my`) is inlined by Canon at its use:
            # the use site then repeats the text of the increment without being one
            a_ = as_assign(x)
            if len(incs) > 1 and a_ and unwrap(a_[1]).get("k") == "var":
                incs = [p_ for p_ in incs if p_ != (b, i)]
            latches = [bb for bb in body if hdr in f.succ(bb)]
            ok = len(incs) == 1 and incs[0][0] in body and all(f.dominates(incs[0], (l_, 0)) or incs[0][0] == l_ for l_ in latches)
            (ck.ok if ok else lambda r_, w_, t_: ck.violate(r_, w_, t_, "C06.propidx"))("C06.propidx", f.loc(x), "write_all_props: the counter behind the chunk index is incremented exactly once on every turn of the loop over props_ (%d increment site(s), %d back edge(s))" % (len(incs), len(latches)))
        elif re.fullmatch(r"\(?it\d+\(0\)\)?", rhs) and rhs.strip("()") in cn.s(f.term(hdr).get("cond") or {}):
            ck.ok("C06.propidx", f.loc(x), "write_all_props: the chunk index is the index variable of the loop over props_")
        else:
            ck.cannot_judge("C06.propidx %s: unknown formulation of the chunk index (%s)" % (f.loc(x), rhs[:80]))


WIDTH = {"bool": 1, "char": 8, "signed char": 8, "unsigned char": 8, "short": 16, "unsigned short": 16, "int": 32, "unsigned int": 32, "unsigned": 32,
         "long": 64, "unsigned long": 64, "long long": 64, "unsigned long long": 64, "size_t": 64, "std::size_t": 64, "uint64_t": 64, "int64_t": 64, "uint32_t": 32, "int32_t": 32}


def counter_width_rule(ck, fb):
    """a loop that runs up to a bound read from the file counts with a type that can reach the bound"""
    ck.rule("T.width", "in the text reader every counting loop `i < bound` uses a counter at least as wide as the bound: a 32 bit counter under a 64 bit bound read from the file wraps before it gets there, and the loop - which appends a handle per turn - never ends (a face line with valence 2^32, F72)")
    n = 0
    seen = set()
    for f in fb.repo_fns():
        if not f.has_cfg or "/FileManager/" not in f.file or f.where in seen:
            continue
        seen.add(f.where)
        for hdr, body, backs in f.loops():
            t = f.term(hdr)
            c = unwrap(f.resolve(t.get("cond"))) if t and t.get("cond") else None
            if not (isinstance(c, dict) and c.get("k") == "bin" and c.get("op") in ("<", "<=", "!=")):
                continue
            l, r = unwrap(strip_casts(c["l"])), unwrap(strip_casts(c["r"]))
            if not (isinstance(l, dict) and l.get("k") == "var" and l.get("s") == "local"):
                continue
            lt = (l.get("t") or "").replace("const ", "")
            rt = ((unwrap(c["r"]) or {}).get("t") or (r.get("t") if isinstance(r, dict) else "") or "").replace("const ", "")
            # the declared type of the bound (before the usual arithmetic conversions)
            if isinstance(r, dict) and r.get("k") == "var":
                rt = (r.get("t") or rt).replace("const ", "")
            if lt not in WIDTH or rt not in WIDTH:
                continue
            n += 1
            ok = WIDTH[lt] >= WIDTH[rt]
            (ck.ok if ok else lambda r_, w_, t_: ck.violate(r_, w_, t_, "T.width:%s:%s" % (f.pq, l.get("n"))))("T.width", f.loc(t), "%s: counter `%s %s` is at least as wide as its bound (%s)" % (f.pq.split("OpenVolumeMesh::")[-1][:50], lt, l.get("n"), rt))
    ck.floor("counting_loops_in_text_reader", n, 6)


def string_assign_rule(ck, fb):
    """the text deserialiser of std::string assigns its target on every successful path (F73)"""
    from .canon import Canon
    ck.rule("S.assign", "deserialize(istream&, std::string&) writes its target on every path on which the stream is still good - for the length 0 as well: '0:' is the empty string, and skipping the assignment keeps whatever the property held before (readStream reads into a mesh whose persistent properties survive clear(false))")
    fs = [f for f in fb.fns.values() if f.has_cfg and f.name == "deserialize" and "/FileManager/" in f.file and len(f.d["params"]) == 2 and "basic_string" in f.d["params"][1]["t"] and "vector" not in f.d["params"][1]["t"] and "map" not in f.d["params"][1]["t"]]
    if len(fs) != 1:
        raise AnalysisBroken("anchor vanished: deserialize(std::istream&, std::string&) (%d)" % len(fs))
    f = fs[0]
    cn = Canon(f)
    writes = {b for b, i, x in f.nodes(("call",)) if b in f.reach() and x.get("r") is not None and cn.s(x["r"]) == "P1" and x.get("pn", "").split("::")[-1] in ("assign", "clear", "operator=", "resize", "erase")}
    # two kinds of write sites are needed: one for a positive length and one that is reached with length 0 while the stream is good
    def has(b, zero):
        fs_ = [(st, p_) for st, p_, c_ in cn.facts(b)]
        z = any(re.fullmatch(r"v\d+", st) and p_ is False or re.fullmatch(r"\(0\w* == v\d+\)|\(v\d+ == 0\w*\)", st) and p_ is True or re.fullmatch(r"!v\d+", st) and p_ is True for st, p_ in fs_)
        pos = any(re.fullmatch(r"v\d+", st) and p_ is True or re.fullmatch(r"\(0\w* != v\d+\)|\(v\d+ != 0\w*\)|\(v\d+ > 0\w*\)", st) and p_ is True for st, p_ in fs_)
        return z if zero else pos
    uncond = any(not [1 for st, p_, c_ in cn.facts(b) if re.search(r"v\d+", st) and "operator bool" not in st] for b in writes)
    free = not (uncond or (any(has(b, True) for b in writes) and any(has(b, False) for b in writes)))
    (ck.ok if (writes and not free) else lambda r_, w_, t_: ck.violate(r_, w_, t_, "S.assign"))("S.assign", f.where, "deserialize(string) assigns or clears its target on every path with a good stream (%d write site(s)%s)" % (len(writes), "" if not free else "; a path with a good stream leaves the target untouched"))
