"""C18 - OVMB detects truncation, framing corruption and stream failures (structural clauses)"""
from . import readers


def run(ck, fb, fbd):
    readers.error_state_rules(ck, fb)
    readers.validation_rules(ck, fb)
    readers.order_rule(ck, fb)
    readers.stream_rules(ck, fb)
    readers.enum_string_rules(ck, fb)
    readers.ovmb_framing_rules(ck, fb)
    readers.handle_property_rule(ck, fb)
