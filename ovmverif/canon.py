"""Name-independent rendering of the expressions of one function.

Parameters print as P0, P1, ...; a local that is defined once and never modified prints as its
initialiser (inlined, transitively); the variable of a range-for prints as each(<range>); a local
that is only ever stepped (++/--) prints as it<k>(<initialiser>); every other local prints as v<k>
(k = order of declaration among the locals of its kind).  Rules written against these strings do
not depend on how the function names its locals and parameters."""
import re

from .facts import as_assign, estr, unwrap, walk

STEP_UN = ("pre++", "post++", "pre--", "post--")
# non-const overloads of std members that do not change the container
NON_MUTATING = {"begin", "end", "rbegin", "rend", "cbegin", "cend", "front", "back", "at", "data", "find", "count", "lower_bound", "upper_bound", "equal_range", "size", "empty", "valid", "is_valid"}


def ceq(a, b, op="=="):
    """canonical rendering of the symmetric comparison a op b"""
    a, b = sorted((a, b))
    return "(%s %s %s)" % (a, op, b)


def split_eq(s):
    """(op, a, b) when the canonical string s is a top-level comparison '(a == b)' / '(a != b)', else None"""
    if not (s.startswith("(") and s.endswith(")")):
        return None
    depth = 0
    for i, ch in enumerate(s):
        if ch in "([":
            depth += 1
        elif ch in ")]":
            depth -= 1
            if depth == 0 and i != len(s) - 1:
                return None
        elif depth == 1 and ch == " ":
            for op in ("==", "!="):
                if s.startswith(" %s " % op, i):
                    return op, s[1:i], s[i + len(op) + 2:-1]
    return None


def eq_match(s, op, pat_a, pat_b, pol=None, want=None):
    """match objects (ma, mb) when s is '(x op y)' with one operand fully matching regex pat_a and the other pat_b (either order);
    with pol/want given, `op` is taken under that polarity: ('==', True) also accepts ('!=', False)"""
    import re as _re
    r = split_eq(s)
    if not r:
        return None
    sop, a, b = r
    if want is not None and pol is not None:
        # equality holds iff (op '==' and pol) or (op '!=' and not pol)
        holds_eq = (sop == "==") == bool(pol)
        if holds_eq != (want == "=="):
            return None
    elif sop != op:
        return None
    for x, y in ((a, b), (b, a)):
        ma, mb = _re.fullmatch(pat_a, x), _re.fullmatch(pat_b, y)
        if ma and mb:
            return ma, mb
    return None


class Canon:
    def __init__(self, f):
        self.f = f
        self.params = {p["id"]: i for i, p in enumerate(f.d["params"])}
        self.decl = {}  # id -> (vardict, b, i)
        self.mods = {}  # id -> [(kind, b, i, node)]
        self._name = {}
        self._busy = set()
        for b, i, n in f.nodes(("decl",)):
            for v in n["vars"]:
                if "id" in v:
                    self.decl[v["id"]] = (v, b, i)
        for b, i, n in f.nodes(("un", "asg", "call")):
            k = n.get("k")
            tgt, kind = None, None
            if k == "un" and n["op"] in STEP_UN:
                tgt, kind = n["x"], "step"
            elif k == "asg":
                tgt, kind = n["l"], "assign"
            elif k == "call" and n.get("r") is not None:
                if n.get("op") in ("++", "--"):
                    tgt, kind = n["r"], "step"
                elif n.get("op") in ("=", "+=", "-=", "*=", "/=", "|=", "&="):
                    tgt, kind = n["r"], "assign"
                elif not n.get("op") and n.get("cc") and not n.get("cst") and not n.get("st") and n.get("pn", "").split("::")[-1] not in NON_MUTATING:
                    tgt, kind = n["r"], "call"
            tgts = [(tgt, kind)] if tgt is not None else []
            # out-parameters: stream extraction, std::getline, and repository callees taking a non-const reference
            if k == "call":
                args = n.get("a", [])
                if n.get("op") == ">>" and args:
                    tgts.append((args[-1], "call"))
                nm = n.get("pn", n.get("n", "")).split("::")[-1]
                if nm == "getline" and len(args) >= 2:
                    tgts.append((args[1], "call"))
                # a standard algorithm working on v.begin()/v.end() (rotate, sort, reverse, replace, copy into ...) changes v
                if n.get("pn", "").startswith("std::") and n.get("r") is None and nm not in ("begin", "end", "move", "forward", "min", "max", "distance", "find", "find_if", "count", "accumulate", "inner_product", "adjacent_find", "equal", "get"):
                    for a_ in args:
                        ar = unwrap(f.resolve(a_))
                        while isinstance(ar, dict) and ar.get("k") == "ctor" and len(ar.get("a", [])) == 1:
                            ar = unwrap(ar["a"][0])
                        if isinstance(ar, dict) and ar.get("k") == "call" and ar.get("pn", ar.get("n", "")).split("::")[-1] in ("begin", "end", "rbegin", "rend") and ar.get("r") is not None:
                            tgts.append((ar["r"], "call"))
                callee = f.fb.fns.get(n.get("u")) if getattr(f, "fb", None) is not None else None
                if callee is not None:
                    for a_, p_ in zip(args, callee.d.get("params", [])):
                        pt = p_.get("t", "")
                        if pt.endswith("&") and not pt.endswith("&&") and not pt.startswith("const "):
                            tgts.append((a_, "call"))
            for tgt, kind in tgts:
                t = unwrap(f.resolve(tgt))
                if isinstance(t, dict) and t.get("k") == "var" and t.get("id") in self.decl:
                    self.mods.setdefault(t["id"], []).append((kind, b, i, n))
        order = sorted(self.decl, key=lambda x: (self.decl[x][0].get("ln", 0), self._pos(x)))
        ki = kv = 0
        self.kind = {}
        for vid in order:
            ms = self.mods.get(vid, [])
            v = self.decl[vid][0]
            if v.get("init") is not None and (not ms or (v.get("isref") and not v["n"].startswith("__"))):
                # a reference local is an alias of its initialiser: writes through it change the referent, not the binding
                self.kind[vid] = "pure"
            elif ms and all(m[0] == "step" for m in ms) and v.get("init") is not None:
                self.kind[vid] = "iter"
                self._name[vid] = "it%d" % ki
                ki += 1
            else:
                self.kind[vid] = "mut"
                self._name[vid] = "v%d" % kv
                kv += 1

    def _pos(self, vid):
        m = re.search(r"@(\d+):(\d+)", vid)
        return (int(m.group(1)), int(m.group(2))) if m else (0, 0)

    # ------------------------------------------------------------------ rendering
    def range_of(self, vid):
        """for the __beginN variable of a range-for: the resolved range initialiser, else None"""
        v = self.decl.get(vid, (None,))[0]
        if not v or not v["n"].startswith("__begin"):
            return None
        init = unwrap(self.f.resolve(v.get("init")))
        if isinstance(init, dict) and init.get("k") == "call" and (init.get("r") is not None or len(init.get("a", [])) == 1):
            r = unwrap(init["r"] if init.get("r") is not None else init["a"][0])
            if isinstance(r, dict) and r.get("k") == "var" and r.get("n", "").startswith("__range") and r.get("id") in self.decl:
                return unwrap(self.f.resolve(self.decl[r["id"]][0].get("init")))
        return None

    def var(self, n):
        vid = n.get("id")
        if vid in self.params:
            return "P%d" % self.params[vid]
        if vid not in self.decl:
            return n["n"]  # globals, members of other objects, lambda captures
        kind = self.kind[vid]
        if vid in self._busy:
            return self._name.get(vid, "rec")
        if kind == "pure":
            self._busy.add(vid)
            try:
                return self.s(self.f.resolve(self.decl[vid][0]["init"]))
            finally:
                self._busy.discard(vid)
        if kind == "iter":
            self._busy.add(vid)
            try:
                return "%s(%s)" % (self._name[vid], self.s(self.f.resolve(self.decl[vid][0]["init"])))
            finally:
                self._busy.discard(vid)
        return self._name[vid]

    def sub(self, n):
        if isinstance(n, list):
            return [self.sub(x) for x in n]
        if not isinstance(n, dict):
            return n
        n = unwrap(n)
        k = n.get("k")
        # *__beginN  ->  each(range)
        tgt = None
        if k == "call" and n.get("op") == "*" and not n.get("a") and n.get("r") is not None:
            tgt = unwrap(n["r"])
        elif k == "un" and n.get("op") == "*":
            tgt = unwrap(n["x"])
        if isinstance(tgt, dict) and tgt.get("k") == "var":
            rg = self.range_of(tgt.get("id"))
            if rg is not None:
                return {"k": "lit", "v": "each(%s)" % self.s(rg)}
        if k == "var":
            return {"k": "lit", "v": self.var(n)}
        # == and != are symmetric: print the operands in a fixed (lexicographic) order, so that `a == b` and `b == a` agree
        pair = None
        if k == "bin" and n.get("op") in ("==", "!="):
            pair = (n["l"], n["r"])
        elif k == "call" and n.get("op") in ("==", "!="):
            if n.get("r") is not None and len(n.get("a", [])) == 1:
                pair = (n["r"], n["a"][0])
            elif n.get("r") is None and len(n.get("a", [])) == 2:
                pair = (n["a"][0], n["a"][1])
        if pair is not None:
            l_, r_ = estr(self.sub(pair[0])), estr(self.sub(pair[1]))
            return {"k": "lit", "v": ceq(l_, r_, n["op"])}
        return {kk: (self.sub(v) if isinstance(v, (dict, list)) else v) for kk, v in n.items() if kk != "_at"}

    def s(self, n):
        if n is None:
            return ""
        return estr(self.sub(self.f.resolve(n)))

    def facts(self, b):
        """[(canonical condition, polarity, node)] for the guard facts of block b"""
        out = []
        for c, pol, e in self.f.facts(b):
            if isinstance(pol, bool):
                out.append((self.s(c), pol, c))
        return out

    # ------------------------------------------------------------------ dependence on parameters
    def deps(self, node, _seen=None):
        """indices of the parameters the value of `node` can depend on: through the expression itself, the
        initialisers of the locals in it, and - for modified locals - the operands of every modification and the
        guard facts under which it happens"""
        seen = _seen if _seen is not None else set()
        out = set()
        for x in walk(self.f.resolve(node)):
            if not isinstance(x, dict) or x.get("k") != "var":
                continue
            vid = x.get("id")
            if vid in self.params:
                out.add(self.params[vid])
            elif vid in self.decl and vid not in seen:
                seen.add(vid)
                v = self.decl[vid][0]
                if v.get("init") is not None:
                    out |= self.deps(v["init"], seen)
                rg = self.range_of(vid)
                if rg is not None:
                    out |= self.deps(rg, seen)
                for kind, b, i, m in self.mods.get(vid, []):
                    out |= self.deps(m, seen)
                    for c, pol, e in self.f.facts(b):
                        out |= self.deps(c, seen)
        return out


def eq_sides(cond, pol):
    """(lhs, rhs) when (cond, pol) states an equality (== true or != false), else None"""
    c = unwrap(cond)
    if not isinstance(c, dict):
        return None
    op = c.get("op")
    if c.get("k") == "bin":
        l, r = c["l"], c["r"]
    elif c.get("k") == "call" and op in ("==", "!="):
        if c.get("r") is not None and len(c.get("a", [])) == 1:
            l, r = c["r"], c["a"][0]
        elif len(c.get("a", [])) == 2:
            l, r = c["a"]
        else:
            return None
    else:
        return None
    if (op == "==" and pol is True) or (op == "!=" and pol is False):
        return l, r
    return None


# ---------------------------------------------------------------------------------------------------------------
# where does a handle expression come from?  (range / circulator it is an element of)
RANGES = {
    # accessor (last name component) -> (relation, how the owner is found)
    "halffaces": ("halffaces_of_cell", "recv:cell"),
    "cell_halffaces": ("halffaces_of_cell", "arg0"),
    "chf_iter": ("halffaces_of_cell", "arg0"),
    "halfedges": ("halfedges_of_halfface", "recv:halfface|face"),
    "halfface_halfedges": ("halfedges_of_halfface", "arg0"),
    "hfhe_iter": ("halfedges_of_halfface", "arg0"),
    "face_halfedges": ("halfedges_of_face", "arg0"),
    "fhe_iter": ("halfedges_of_face", "arg0"),
    "outgoing_halfedges": ("outgoing_halfedges_of_vertex", "arg0"),
    "voh_iter": ("outgoing_halfedges_of_vertex", "arg0"),
    "halfedge_halffaces": ("halffaces_of_halfedge", "arg0"),
    "hehf_iter": ("halffaces_of_halfedge", "arg0"),
    "halfface_vertices": ("vertices_of_halfface", "arg0"),
    "hfv_iter": ("vertices_of_halfface", "arg0"),
}


def _range_call(cn, rg):
    """(relation, owner node, extra args) for a range / circulator constructor call"""
    rg = unwrap(rg)
    if not isinstance(rg, dict) or rg.get("k") != "call":
        return None
    name = rg.get("pn", rg.get("n", "")).split("::")[-1]
    ent = RANGES.get(name)
    if not ent:
        return None
    rel, how = ent
    if how == "arg0":
        a = rg.get("a", [])
        return (rel, a[0], a[1:]) if a else None
    recv = unwrap(rg.get("r"))
    while isinstance(recv, dict) and recv.get("k") == "var" and cn.kind.get(recv.get("id")) == "pure":
        recv = unwrap(cn.f.resolve(cn.decl[recv["id"]][0]["init"]))
    if not isinstance(recv, dict) or recv.get("k") != "call":
        return None
    rname = recv.get("pn", recv.get("n", "")).split("::")[-1]
    if rname not in how[5:].split("|") or not recv.get("a"):
        return None
    if rel == "halfedges_of_halfface" and rname == "face":
        rel = "halfedges_of_face"
    return (rel, recv["a"][0], [])


def origin(cn, node):
    """(relation, owner node, extra args) when `node` denotes the current element of a range-for / circulator walk
    over one of the kernel's incidence ranges; None otherwise"""
    n = unwrap(cn.f.resolve(node))
    hops = 0
    while isinstance(n, dict) and n.get("k") == "var" and cn.kind.get(n.get("id")) == "pure" and hops < 8:
        n = unwrap(cn.f.resolve(cn.decl[n["id"]][0]["init"]))
        hops += 1
    if not isinstance(n, dict):
        return None
    tgt = None
    if n.get("k") == "call" and n.get("op") == "*" and not n.get("a") and n.get("r") is not None:
        tgt = unwrap(n["r"])
    elif n.get("k") == "un" and n.get("op") == "*":
        tgt = unwrap(n["x"])
    if not isinstance(tgt, dict) or tgt.get("k") != "var":
        return None
    vid = tgt.get("id")
    rg = cn.range_of(vid)
    if rg is not None:
        # ranges returned by accessors: begin(range) / range.begin() were already peeled by range_of
        return _range_call(cn, rg)
    if cn.kind.get(vid) == "iter":
        return _range_call(cn, cn.f.resolve(cn.decl[vid][0]["init"]))
    return None
