"""C12 - bottom-up incidences are optional: rule family G in full."""
from collections import defaultdict, deque

from .extract import AnalysisBroken
from .rule_l import atoms_at
from .facts import estr, unwrap, walk
from .rule_g import TK, Availability, CacheModel, classify_cache_use, index_root, iter_sites

RM = "OpenVolumeMesh::ResourceManager"

# single-symbol suppressions with reason (DESIGN 6)
CONTRACT_HELPERS = {
    # public non-const helper that needs edge+face kinds; its requirement is pushed to its call sites
    "OpenVolumeMesh::TopologyKernel::reorder_incident_halffaces": "contract-bearing helper: callers must hold both kinds (C09 triggers)",
}
ALLOW = {
    "OpenVolumeMesh::TetrahedralMeshTopologyKernel::collapse_edge": "documented to require full bottom-up incidences (lookups excluded by the quantifier)",
    "OpenVolumeMesh::TetrahedralMeshTopologyKernel::split_edge": "same",
    "OpenVolumeMesh::TetrahedralMeshTopologyKernel::split_face": "same",
}


def in_M(fb, f):
    """operations the property quantifies over: mutators, iterator constructors, GC, file I/O"""
    cls = f.cls or ""
    if "/verif/fixtures/" in f.file:
        return True
    if f.kind == "lambda":
        return False
    if cls and (fb.derived_from(cls, TK) or cls == RM):
        if f.kind in ("method", "ctor") and not f.d.get("const") and not f.d.get("static"):
            return True
        return False
    if cls == "OpenVolumeMesh::StatusAttrib" and not f.d.get("const"):
        return True
    if cls and f.kind == "ctor" and any(b.startswith("OpenVolumeMesh::BaseIterator<") for b in fb.bases(cls)):
        return True
    if cls.startswith("OpenVolumeMesh::IO::") and ("FileManager" in cls or "BinaryFileReader" in cls or "BinaryFileWriter" in cls):
        return True
    if f.pq in ("OpenVolumeMesh::IO::ovmb_read", "OpenVolumeMesh::IO::ovmb_write"):
        return True
    return False


def is_circ_step(fb, f):
    cls = f.cls or ""
    return f.d.get("op") in ("++", "--") and any(b.startswith("OpenVolumeMesh::BaseIterator<") for b in fb.bases(cls))


def fallback_rule(ck, fb, cm):
    """siblings agree: the branch taken without a cache scans the stored definitions, which hold each incident entity in
    ONE orientation only; looking for a fixed orientation of a full entity (halfedge_handle(e, 0) == stored halfedge)
    finds fewer entities than the cache-guided branch, which walks both orientations"""
    import re
    from .canon import Canon, eq_sides
    ck.rule("G.fallback", "in code that runs when a bottom-up kind is NOT available (facts: has_k() false) no stored half-entity is compared for equality with a half-handle of fixed sub-index built from a full entity (halfedge_handle(e, 0), halfface_handle(f, 1), e.halfedge_handle(0), ...) unless the other sub-index is compared too: stored lists hold one orientation per incident entity")
    has_names = set()
    for c, k in cm.kinds.items():
        for hid in k["has"]:
            if hid in fb.fns:
                has_names.add(fb.fns[hid].name + "()")
        has_names.add(k["flag"])
    if len(has_names) < 6:
        raise AnalysisBroken("G.fallback: has_* predicates of the three caches not found (%s)" % sorted(has_names))
    FIXED = re.compile(r"(half(edge|face)_handle\((.*), ([01])\)|\.half(edge|face)_handle\(([01])\))$")
    n_cmp = 0
    fired_canary = False
    seen_fn = set()
    for f in fb.fns.values():
        if not f.has_cfg or f.where in seen_fn:
            continue
        if "/src/OpenVolumeMesh/" not in f.file and "/verif/fixtures/" not in f.file:
            continue
        seen_fn.add(f.where)  # one instantiation per template is enough
        cn = None
        for b in f.reach():
            t = f.term(b)
            if not t or not t.get("cond"):
                continue
            at = atoms_at(f, b)
            if not any(a in has_names and pol is False for a, pol in at):
                continue
            cond = f.resolve(t["cond"])
            found = []
            for y in walk(cond):
                if isinstance(y, dict) and y.get("op") in ("==", "!=") and y.get("k") in ("bin", "call"):
                    e = eq_sides(y, y.get("op") == "==")
                    if not e:
                        continue
                    cn = cn or Canon(f)
                    for side in e:
                        m = FIXED.search(cn.s(side))
                        if m:
                            found.append(m.group(4) or m.group(6))
            if not found:
                continue
            n_cmp += 1
            ok = {"0", "1"} <= set(found)
            if "/verif/fixtures/" in f.file:
                fired_canary = fired_canary or not ok
                continue
            (ck.ok if ok else lambda r, w, t_: ck.violate(r, w, t_, "G.fallback:%s" % f.pq))("G.fallback", f.loc(t), "%s: the cache-less branch compares stored half-entities with both orientations (sub-indices %s)" % (f.pq.split("OpenVolumeMesh::")[-1], sorted(set(found))))
    ck.analysed["fallback_fixed_orientation_comparisons"] = n_cmp
    ck.canary("canary_f (cache-less branch looking for one fixed orientation)", fired_canary)


def run(ck, fb, fbd):
    ck.rule("G.site", "every element access of an optional bottom-up cache is dominated by its has_*/flag guard, an establishing call (compute_*/enable_*(true)/resize), or a bounds check of the same index against the cache size; otherwise the enclosing function requires the kind")
    ck.rule("G.call", "every call of a function that requires a kind happens where the kind is available, or the caller requires it too; a requirement must never reach a mutator, iterator constructor, garbage collection or file reader/writer")
    ck.rule("G.enable", "enable_k(true) passes through compute_k when the kind was off and sets the flag on every path; enable_k(false) clears the cache")
    cm = CacheModel(fb)
    av = Availability(fb, cm)
    ck.analysed["caches"] = {c: {"flag": k["flag"], "entity": k["entity"], "enable": k["enable_name"]} for c, k in cm.kinds.items()}

    # ---------------- element access sites
    req = defaultdict(dict)  # fn id -> kind -> witness (list of chain strings)
    n_sites = n_guarded = 0
    unknown = []
    fns = [f for f in fb.fns.values() if f.has_cfg and "/verif/tu/" not in f.file]
    per_cache = defaultdict(int)
    for f in fns:
        hits = False
        for n, parents, pos in iter_sites(f):
            if n.get("k") != "mem" or n.get("o") != TK or n.get("f") not in cm.kinds:
                continue
            cache = n["f"]
            cls_, ctx = classify_cache_use(n, parents)
            if cls_ == "whole":
                ck.count("whole_container_ops")
                continue
            if cls_ == "unknown":
                unknown.append("%s: cache %s used in unrecognised context %s" % (f.loc(ctx or f.line), cache, estr(ctx)[:120] if ctx else "?"))
                continue
            n_sites += 1
            per_cache[cache] += 1
            idx = index_root(ctx["i"]) if ctx.get("k") == "idx" else None
            if pos[0] not in f.reach():
                continue
            have, why = av.available(f, pos, idx, cache)
            where = f.loc(ctx)
            what = "access %s in %s needs %s" % (estr(ctx)[:90], f.pq.split("::")[-1], cm.kinds[cache]["flag"])
            if cache in have:
                n_guarded += 1
                ck.ok("G.site", where, what + " - " + "; ".join(why[:2]))
            elif f.id == cm.kinds[cache]["compute"]:
                n_guarded += 1
                ck.ok("G.site", where, what + " - inside its compute function")
            else:
                req[f.id].setdefault(cache, ["%s: unguarded %s" % (where, estr(ctx)[:90])])
    if unknown:
        raise AnalysisBroken("C12: unrecognised cache idiom(s):\n  " + "\n  ".join(unknown[:10]))

    # ---------------- propagation along the call graph
    work = deque(req.keys())
    reported = {}
    contracts = defaultdict(set)
    n_call_checks = 0
    while work:
        fid = work.popleft()
        f = fb.fns[fid]
        canary = "/verif/fixtures/" in f.file
        sink = in_M(fb, f) and f.pq not in CONTRACT_HELPERS
        if is_circ_step(fb, f):
            ck.count("typestate_exempt_steps")
            continue  # legal only on a valid circulator; validity is established by the constructor (in M)
        if sink:
            for kind, chain in req[fid].items():
                reported.setdefault((fid, kind), chain)
            continue
        # push to callers
        targets = []
        if f.kind == "lambda":
            d = fb.lambda_def(f)
            if d is not None:
                targets.append((d[0], d[1], d[2], None))
        else:
            targets = fb.callers(fid)
        for (g, b, i, n) in targets:
            if not g.has_cfg or "/verif/tu/" in g.file or b not in g.reach():
                continue
            have, why = av.available(g, (b, i))
            n_call_checks += 1
            for kind, chain in list(req[fid].items()):
                where = g.loc(n if n else g.line)
                what = "call of %s in %s needs %s" % (f.pq.split("::")[-1], g.pq.split("::")[-1], cm.kinds[kind]["flag"])
                if kind in have:
                    ck.ok("G.call", where, what + " - " + "; ".join(why[:2]))
                elif g.id in cm.kind_of_compute.values() and False:
                    pass
                else:
                    if kind not in req[g.id]:
                        req[g.id][kind] = ["%s: %s calls %s" % (where, g.pq.split("::")[-1], f.pq.split("::")[-1])] + chain
                        work.append(g.id)
        for kind in req[fid]:
            contracts[fid].add(kind)

    canary_fired = False
    for (fid, kind), chain in sorted(reported.items()):
        f = fb.fns[fid]
        if "/verif/fixtures/" in f.file:
            canary_fired = True
            continue
        key = "G:%s:%s" % (f.pq, cm.kinds[kind]["flag"])
        if f.pq in ALLOW:
            ck.count("allow_listed")
            ck.note("allow-listed %s (%s): %s" % (f.pq, cm.kinds[kind]["flag"], ALLOW[f.pq]))
            continue
        ck.violate("G.call" if len(chain) > 1 else "G.site", f.where, "%s reaches an access of %s without %s being known to be enabled" % (f.diag or f.pq, kind, cm.kinds[kind]["flag"]), key, detail={"chain": chain})
    ck.canary("canary_g (unguarded cache access in a TopologyKernel subclass)", canary_fired)

    # ---------------- enable/disable protocol
    for cache, k in cm.kinds.items():
        f = fb.fns[k["enable"]]
        # flag written on every path: the assignment post-dominates entry
        asg_pos = None
        for b, i, n in f.tops():
            if n.get("k") == "asg":
                l = unwrap(n["l"])
                if l.get("k") == "mem" and l.get("f") == k["flag"]:
                    asg_pos = (b, i)
        pd = f.postdominators()
        if asg_pos and asg_pos[0] in pd.get(f.entry, ()):
            ck.ok("G.enable", f.where, "%s writes %s on every path" % (f.name, k["flag"]))
        else:
            ck.violate("G.enable", f.where, "%s does not write %s on every path" % (f.name, k["flag"]), "G.enable:%s:flag" % f.pq)
        # compute called under (_enable && !flag), and before the flag write
        ok_compute = False
        for b, i, n in f.nodes(("call",)):
            if n.get("u") == k["compute"]:
                gs = f.facts(b)
                par = any(pol is True and unwrap(c).get("k") == "var" and unwrap(c).get("s") == "param" for c, pol, e in gs)
                off = any(pol is False and cm.kinds_true(f, c) == frozenset([cache]) for c, pol, e in gs)
                # every path on which (_enable && !flag) holds passes the call: the call's block is
                # guarded by exactly these two conditions
                if par and off and len(gs) == 2 and asg_pos and not f.dominates(asg_pos, (b, i)):
                    ok_compute = True
        if ok_compute:
            ck.ok("G.enable", f.where, "%s(true) passes through %s exactly when the kind was off" % (f.name, fb.fns[k["compute"]].name))
        else:
            ck.violate("G.enable", f.where, "%s(true) does not pass through compute under exactly (_enable && !%s)" % (f.name, k["flag"]), "G.enable:%s:compute" % f.pq)
        ok_clear = False
        for b, i, n in f.nodes(("call",)):
            if n.get("pn", "").endswith("::clear"):
                r = unwrap(f.resolve(n.get("r")))
                if isinstance(r, dict) and r.get("f") == cache:
                    gs = f.facts(b)
                    if len(gs) == 1 and gs[0][1] is False and unwrap(gs[0][0]).get("s") == "param":
                        ok_clear = True
        if ok_clear:
            ck.ok("G.enable", f.where, "%s(false) clears %s" % (f.name, cache))
        else:
            ck.violate("G.enable", f.where, "%s(false) does not clear %s under exactly !_enable" % (f.name, cache), "G.enable:%s:clear" % f.pq)

    # ---------------- the global switch forwards to all three kinds, whatever the current state is
    ck.rule("G.enable.all", "enable_bottom_up_incidences(b) calls the enable function of every kind with b on every path (no shortcut on the current state: has_full_bottom_up_incidences() is false in every partial configuration, so `b == has_full()` is no test for 'nothing to do')")
    from .canon import Canon
    ga = [g for g in fb.by_cls.get(TK, []) if g.name == "enable_bottom_up_incidences" and g.has_cfg]
    if len(ga) != 1:
        raise AnalysisBroken("anchor vanished: TopologyKernel::enable_bottom_up_incidences (%d)" % len(ga))
    ga = ga[0]
    cga = Canon(ga)
    pdg = ga.postdominators()
    for cache, k in cm.kinds.items():
        sites = [(b, i, x) for b, i, x in ga.nodes(("call",)) if x.get("u") == k["enable"] and b in ga.reach()]
        ok = any(b in pdg.get(ga.entry, ()) and len(x.get("a", [])) == 1 and cga.s(x["a"][0]) == "P0" for b, i, x in sites)
        why = "called with the parameter on every path" if ok else ("no call" if not sites else "only under %s" % sorted({(s_, p_) for b, i, x in sites for s_, p_, c_ in cga.facts(b)})[:2] if not any(b in pdg.get(ga.entry, ()) for b, i, x in sites) else "argument is %s" % [cga.s(x["a"][0]) for b, i, x in sites][:1])
        (ck.ok if ok else lambda r_, w_, t_: ck.violate(r_, w_, t_, "G.enable.all:%s" % k["enable_name"]))("G.enable.all", ga.where, "enable_bottom_up_incidences forwards to %s (%s)" % (k["enable_name"], why))

    # ---------------- stale-flag window: between compute_k() and the flag write nothing may consult flag k
    ck.rule("G.stale", "inside enable_k, no function called between compute_k() and the write of the flag may (transitively) read that flag: it would still see the kind as disabled")
    memo = {}

    def reads_flags(fid, stack=()):
        if fid in memo:
            return memo[fid]
        f = fb.fns.get(fid)
        if f is None or not f.has_cfg or fid in stack:
            return {}
        res = {}
        for b, i, n in f.nodes(("mem",)):
            if n.get("o") == TK and n.get("f") in cm.kind_of_flag and b in f.reach():
                res.setdefault(n["f"], ["%s reads %s" % (f.loc(n if n.get("ln") else f.line), n["f"])])
        for b, i, n, tgt in fb.callees(f):
            if tgt is None or b not in f.reach():
                continue
            sub = reads_flags(tgt.id, stack + (fid,))
            for fl, ch in sub.items():
                res.setdefault(fl, ["%s: %s calls %s" % (f.loc(n), f.pq.split("::")[-1], tgt.pq.split("::")[-1])] + ch)
        if not stack:
            memo[fid] = res
        return res

    for cache, k in cm.kinds.items():
        f = fb.fns[k["enable"]]
        comp_pos = [(b, i) for b, i, n in f.nodes(("call",)) if n.get("u") == k["compute"]]
        asg = [(b, i) for b, i, n in f.tops() if n.get("k") == "asg" and unwrap(n["l"]).get("f") == k["flag"]]
        n_window = 0
        for b, i, n, tgt in fb.callees(f):
            if tgt is None or n.get("u") == k["compute"] or b not in f.reach():
                continue
            if not any(f.dominates(cp, (b, i)) for cp in comp_pos):
                continue
            if any(f.dominates(ap, (b, i)) for ap in asg):
                continue
            n_window += 1
            rf = reads_flags(tgt.id)
            if k["flag"] in rf:
                ck.violate("G.stale", f.loc(n), "%s calls %s after %s() but before %s is set; the callee consults %s" % (f.name, tgt.pq.split("::")[-1], fb.fns[k["compute"]].name, k["flag"], k["flag"]),
                           "G.stale:%s:%s" % (f.pq, tgt.pq), detail={"chain": rf[k["flag"]]})
            else:
                ck.ok("G.stale", f.loc(n), "%s: call of %s inside the stale window of %s does not read that flag" % (f.name, tgt.pq.split("::")[-1], k["flag"]))
        ck.count("stale_window_calls", n_window)

    fallback_rule(ck, fb, cm)
    # add_edge without duplicates has a cache-guided and a linear-scan sibling: both must find the edge in either orientation
    from .c11 import dedup_rule
    dedup_rule(ck, fb)

    # ---------------- renumbering of caches/definitions must not depend on an unrelated kind (shared with C02)
    from . import lockstep
    lc = lockstep.Ctx(ck, fb)
    cores = {}
    for kind in lockstep.KINDS:
        cand = [f for f in lc.fns if any(e["cls"] == "erase" and e["kind"] == kind and e["role"] == "def" for e in lc.eff.get(f.id, []))]
        if len(cand) != 1:
            raise AnalysisBroken("C12: delete core for %s not unique" % kind)
        cores[kind] = cand[0]
    lockstep.corrections(lc, cores)
    # toggling a kind off and on must give the cache that incremental maintenance would have kept: the rebuild has to
    # skip pending (deferred) deletions exactly as the unlink sites of delete_*_core do (shared with C01/C04)
    lockstep.compute_rule(lc)
    lockstep.value_rules_rebuild(lc)
    # index swaps with a kind disabled take the linear-scan sibling of every cache-guided relabel (shared with C17)
    lockstep.relabel_rules(lc)

    ck.analysed.update({"functions_scanned": len(fns), "element_access_sites": n_sites, "sites_discharged_locally": n_guarded, "call_sites_checked": n_call_checks,
                        "functions_with_contract": len(contracts), "per_cache_sites": dict(per_cache)})
    ck.floor("caches", len(cm.kinds), 3)
    ck.floor("element_access_sites", n_sites, 90)
    ck.floor("sites_discharged_locally", n_guarded, 55)
    ck.samples.append({"contracts (function requires kind; ends at a const query / helper)": sorted("%s requires %s" % (fb.fns[f].pq.split("::", 1)[-1], ",".join(sorted(cm.kinds[k]["flag"] for k in ks))) for f, ks in contracts.items())[:40]})
